#!/venv/bin/python
"""C09 — quantised multipliers reproduce the real scale to reference precision.

Proofs: lean/VelaVerif/Props/C09.lean over Model/Scaling.lean + Spec/Scaling.lean.
Tie to /repo: the real `ethosu.vela.scaling.*` functions are called in-process with Python float,
np.float64 and np.float32 scalars; every answer is compared with the Lean model and — independently —
judged by the Lean Spec (exact integer arithmetic) applied to the implementation's own output:
  * quantise_scale / reduced_quantise_scale: relative error, field ranges, TFLite reference equality
    (commands qbatch / rqbatch / qspec / rqspec),
  * quantise_pooling_scale: (a*S + 2^(sh-1)) >> sh == reference average for every reachable
    accumulator of small windows and near-half / extreme accumulators of every window 1..65536
    (poolscan / poolpts), also on the OFM_SCALE register emitted by generate_ofm_scaling_for_pooling,
  * elementwise mul / add / sub helpers: pair vs exact real quotient, vs the double (reference)
    derivation (mulspec / addspec / advspec), also on the OPA/OPB/OFM_SCALE registers emitted by
    generate_scaling_for_elementwise.
Doubles travel as exact integer triples (sign, m, e); floats are never printed.
"""
import math
import os
import subprocess
import sys
import time
import warnings

import common
from common import Check, main_wrapper, InfraError

KEY_POOL16 = "pool16-odd-window-ge-32993-extreme-accumulator"
KEY_ADV_MIXCMP = "advanced-addsub-mixed-pyfloat-float32-compared-in-float32"
# Repaired in /repo and therefore no longer keyed (a `fixed:` entry suppresses nothing): the negative reduced
# shift (de981c1), float32 arithmetic of the add/sub helpers (8198013), float32-rounded average-pool OFM_SCALE (5f5d642).

TWO52 = 1 << 52
TWO53 = 1 << 53


# ----------------------------------------------------------------------------------------------
# exact float <-> integer triple
# ----------------------------------------------------------------------------------------------
def enc(x):
    """float-like -> 'c s m e' (exact; finite values in frexp form 2^52 <= m < 2^53)."""
    xf = float(x)
    if xf != xf:
        return "n 0 0 0"
    s = 1 if math.copysign(1.0, xf) < 0 else 0
    if math.isinf(xf):
        return f"i {s} 0 0"
    if xf == 0.0:
        return f"z {s} 0 0"
    fr, ex = math.frexp(abs(xf))
    m = int(math.ldexp(fr, 53))
    return f"f {s} {m} {ex - 53}"


def dec_value(m, e):
    """exact double m * 2^e (caller guarantees representability)"""
    return math.ldexp(m, e)


KINDS = ("p", "s", "d")


def typed(np, kind, xf):
    if kind == "p":
        return float(xf)
    if kind == "s":
        return np.float32(xf)
    return np.float64(xf)


def is_f32(np, xf):
    with warnings.catch_warnings():
        warnings.simplefilter("ignore")
        return float(np.float32(xf)) == xf


# ----------------------------------------------------------------------------------------------
# worker side: call the real function on a chunk, pipe to its own Lean driver, return counters
# ----------------------------------------------------------------------------------------------
def _drv(lines):
    data = "\n".join(lines) + "\n"
    r = subprocess.run([common.DRV], input=data, capture_output=True, text=True, timeout=3600)
    if r.returncode != 0:
        raise InfraError(f"Lean driver failed rc={r.returncode}: {r.stderr[-300:]}")
    out = r.stdout.split("\n")
    if out and out[-1] == "":
        out.pop()
    if len(out) != len(lines):
        raise InfraError(f"Lean driver answered {len(out)} lines for {len(lines)} requests")
    return out


def _mantissas(task):
    kind = task["gen"]
    if kind == "list":
        return task["ms"]
    if kind == "range":
        return range(task["start"], task["start"] + task["count"])
    raise ValueError(kind)


def scale_worker(task):
    """task: {fn: 'q'|'rq', e: exponent, gen/…: mantissas (raw, value = m * 2^e), types: 'p','d','s'}
    Every (m, type) pair is one real call; lines are `qbatch e m q s …` (<= 1500 triples per line)."""
    import numpy as np
    from ethosu.vela import scaling

    fn = scaling.quantise_scale if task["fn"] == "q" else scaling.reduced_quantise_scale
    cmd = "qbatch" if task["fn"] == "q" else "rqbatch"
    e = task["e"]
    types = task["types"]
    ldexp = math.ldexp
    f32 = np.float32
    f64 = np.float64
    lines, index = [], []       # index[line] = list of (m, type)
    cur, cur_idx = [], []
    n = 0
    errors = []
    for m in _mantissas(task):
        x = ldexp(m, e)
        for t in types:
            arg = x if t == "p" else (f64(x) if t == "d" else f32(x))
            try:
                q, s = fn(arg)
            except Exception as ex:  # a positive finite scale must not raise
                errors.append((m, t, type(ex).__name__))
                continue
            cur.append(f"{m} {q} {s}")
            cur_idx.append((m, t))
            n += 1
            if len(cur) >= 1500:
                lines.append(f"{cmd} {e} " + " ".join(cur))
                index.append(cur_idx)
                cur, cur_idx = [], []
    if cur:
        lines.append(f"{cmd} {e} " + " ".join(cur))
        index.append(cur_idx)
    res = {"n": n, "mm": 0, "neg": 0, "sf": 0, "bad": [], "neg_sample": None, "errors": errors[:5], "nerr": len(errors)}
    if not lines:
        return res
    outs = _drv(lines)
    for li, o in enumerate(outs):
        try:
            kv = dict(p.split("=") for p in o.split())
            mm, neg, sf, first = int(kv["mm"]), int(kv["neg"]), int(kv["sf"]), int(kv["first"])
            assert int(kv["n"]) == len(index[li])
        except Exception:
            raise InfraError(f"unexpected batch answer {o[:200]!r}")
        res["mm"] += mm
        res["neg"] += neg
        res["sf"] += sf
        if first >= 0 and len(res["bad"]) < 3:
            m, t = index[li][first]
            res["bad"].append((task["fn"], e, m, t))
        if neg and res["neg_sample"] is None:
            res["neg_sample"] = (task["fn"], e, index[li][0][0], index[li][0][1])
    return res


def pool_worker(task):
    """task: {ns: [...], bits8_full_upto, bits16_full_upto, seed}.  For each n: real pair, then Spec scans."""
    import random
    from ethosu.vela import scaling

    rng = random.Random(task["seed"])
    lines, meta = [], []
    if "pairs" in task:
        entries = task["pairs"]                 # (n, S, sh, (bits, ...)) taken from emitted registers
    else:
        entries = []
        for n in task["ns"]:
            S, sh = scaling.quantise_pooling_scale(n)
            entries.append((n, S, sh, (8, 16)))
    for n, S, sh, bitset in entries:
        for bits in bitset:
            vb = 8 if bits == 8 else 15     # int8/uint8 values lie in [-128, 255], int16 values in [-2^15, 2^15)
            lim = n << vb                   # |acc| <= n * 2^vb
            full = task["full8"] if bits == 8 else task["full16"]
            if n <= full:
                lines.append(f"poolscan {n} {S} {sh} {-lim} {lim}")
                meta.append((n, bits, "scan", 2 * lim + 1))
                continue
            qmax = 1 << vb
            qs = {0, 1, 2, 3, qmax // 2, qmax - 2, qmax - 1, qmax}
            for _ in range(task["extra_q"]):
                qs.add(rng.randrange(qmax + 1))
            pts = set()
            for q in qs:
                base = q * n + n // 2
                for d in (-1, 0, 1, 2):
                    a = base + d
                    if a > lim:
                        a = lim - rng.randrange(3)
                    pts.add(a)
                    pts.add(-a)
            for _ in range(task["extra_a"]):
                pts.add(rng.randrange(-lim, lim + 1))
            pts.update((lim, -lim, 0, 1, -1))
            pts = sorted(pts)
            lines.append(f"poolpts {n} {S} {sh} " + " ".join(map(str, pts)))
            meta.append((n, bits, "pts", len(pts)))
    outs = _drv(lines) if lines else []
    res = {"evals": 0, "known": [], "bad": [], "known_n": 0}
    for (n, bits, how, cnt), o, ln in zip(meta, outs, lines):
        res["evals"] += cnt
        if o.startswith("ok "):
            continue
        parts = o.split()
        if parts[0] == "bad" and len(parts) == 5 and parts[4] == "k" and bits == 16:
            res["known_n"] += 1
            if len(res["known"]) < 2:
                res["known"].append((n, bits, o, ln.split()[2], ln.split()[3]))
        else:
            if len(res["bad"]) < task.get("keep_bad", 3):
                res["bad"].append((n, bits, o, ln.split()[2], ln.split()[3]))
            res.setdefault("nbad", 0)
            res["nbad"] = res.get("nbad", 0) + 1
    return res


# ----------------------------------------------------------------------------------------------
def replay(ck, path):
    """Re-run one recorded input through the real function and the Lean Spec; exit 1 if it still fails."""
    import json
    import numpy as np
    from ethosu.vela import scaling

    np.seterr(all="ignore")
    rec = json.load(open(path if os.path.isabs(path) else os.path.join(common.VERIF, path)))
    rp = rec.get("replay", {})
    verdicts = []
    if "arg_hex" in rp and "function" in rp:
        x = float.fromhex(rp["arg_hex"])
        arg = {"float": float, "np.float64": np.float64, "np.float32": np.float32}[rp["arg_type"]](x)
        red = rp["function"].endswith("reduced_quantise_scale")
        got = (scaling.reduced_quantise_scale if red else scaling.quantise_scale)(arg)
        v = ck.model([("rqspec " if red else "qspec ") + enc(x) + f" {got[0]} {got[1]}"], parallel=False)[0]
        print(f"{rp['function']}({rp['arg_type']}(float.fromhex('{rp['arg_hex']}'))) = {got}; Lean Spec verdict {v}")
        verdicts.append(v)
    elif "sceq_call" in rp:
        import c09_sceq
        verdicts.append(c09_sceq.replay(ck, np, rp))
    elif "call" in rp and "request" in rp:
        got = eval(rp["call"], {"scaling": scaling, "np": np, "float": float})
        tok = rp["request"].split()
        ints = " ".join(str(int(g)) for g in got if not isinstance(g, (float, np.floating)))
        if tok[0] == "mulscale":
            req = "mulspec " + " ".join(tok[1:]) + " " + ints
        elif tok[0] == "addscale":
            req = "addspec " + " ".join(tok[1:]) + " " + ints
        else:
            req = "advspec " + " ".join(tok[1:]) + " " + ints
        v = ck.model([req], parallel=False)[0]
        print(f"{rp['call']} = {got}; Lean Spec verdict {v} (recorded {rp.get('spec_verdict')})")
        verdicts.append(v)
    elif "n" in rp and ("scale" in rp or "register_scale" in rp):
        n = int(rp["n"])
        S, sh = scaling.quantise_pooling_scale(n)
        acc = rp.get("spec_answer", "bad 0").split()[1]
        o = ck.model([f"poolpts {n} {S} {sh} {acc}"], parallel=False)[0]
        print(f"scaling.quantise_pooling_scale({n}) = ({S}, {sh}); accumulator {acc}: {o}; recorded pair "
              f"({rp.get('scale', rp.get('register_scale'))}, {rp.get('shift', rp.get('register_shift'))}): {rp.get('spec_answer')}")
        if "register_scale" in rp:
            o = ck.model([f"poolpts {n} {rp['register_scale']} {rp['register_shift']} {acc}"], parallel=False)[0]
            print("recorded register pair re-judged:", o, "|", rp.get("replay"))
        verdicts.append("1" if o.startswith("ok") else "0")
    else:
        print(json.dumps(rec, indent=1)[:3000])
    bad = [v for v in verdicts if v != "1"]
    print("replay:", "still fails" if bad else "no failure reproduced")
    sys.exit(1 if bad else 0)


def main():
    ck = Check("C09", "proof")
    ck.lean_stage(["VelaVerif.Props.C09", "VelaVerif.Props.C09Src"])
    common.setup_repo_path()
    if ck.replay_arg:
        replay(ck, ck.replay_arg)
    import numpy as np
    from ethosu.vela import scaling

    np.seterr(all="ignore")
    warnings.simplefilter("ignore")
    rng = ck.rng
    thorough = ck.thorough
    import multiprocessing as mp

    jobs = min(16, os.cpu_count() or 4)
    pool = mp.get_context("fork").Pool(jobs)
    evaluations = 0
    distinct = 0

    # ------------------------------------------------------------------------------------------
    # A. quantise_scale / reduced_quantise_scale on positive finite scales
    # ------------------------------------------------------------------------------------------
    tasks = []

    def edge_mantissas(k_random):
        ms = {TWO52, TWO52 + 1, TWO53 - 1, TWO53 - 2, TWO53 - (1 << 21) - 1, TWO53 - (1 << 21), TWO53 - (1 << 21) + 1,
              TWO53 - (1 << 22), TWO52 + (1 << 21), TWO52 + (1 << 21) - 1, TWO52 + (1 << 22), 0x1999999999999A}
        for _ in range(k_random):
            ms.add(rng.randrange(TWO52, TWO53))
        for _ in range(k_random // 4 + 1):      # exactly at / next to the rounding point of the Q31 significand
            hi = rng.randrange(1 << 30, 1 << 31)
            for lo in ((1 << 21) - 1, 1 << 21, (1 << 21) + 1, 0, (1 << 22) - 1):
                ms.add((hi << 22) + lo)
        return ms

    # A1: all double exponents (frexp exponent of the normalised significand: -1126 .. 971)
    k_rand = 96 if thorough else 40
    for e in range(-1126, 972):
        ms = edge_mantissas(k_rand)
        if e < -1074:   # subnormal: low bits must be zero
            z = -1074 - e
            ms = {(m >> z) << z for m in ms}
            ms = {m for m in ms if m >= TWO52} | {TWO52}
        in_q = -85 <= e <= -22
        tasks.append({"fn": "q", "e": e, "fe": e, "gen": "list", "ms": sorted(ms), "types": ("p", "d")})
        if in_q or rng.random() < 0.25:
            tasks.append({"fn": "rq", "e": e, "fe": e, "gen": "list", "ms": sorted(ms)[: (len(ms) if in_q else 12)], "types": ("p", "d")})
    # A2: all float32 exponents (value = m24 * 2^e, e = -149 .. 104), as np.float32 scalars and as their float() value
    k32 = 400 if thorough else 120
    for e in range(-149, 105):
        if e == -149:
            ms = {1, 2, 3, (1 << 23) - 1, 1 << 22} | {rng.randrange(1, 1 << 23) for _ in range(k32)}   # subnormals
        else:
            ms = {1 << 23, (1 << 23) + 1, (1 << 24) - 1, (1 << 24) - 2, 0xCCCCCD, 0x99999A} | {rng.randrange(1 << 23, 1 << 24) for _ in range(k32)}
        tasks.append({"fn": "q", "e": e, "fe": e - 29, "gen": "list", "ms": sorted(ms), "types": ("s", "p", "d")})
        if -56 - 2 <= e <= 7 + 2:
            tasks.append({"fn": "rq", "e": e, "fe": e - 29, "gen": "list", "ms": sorted(ms), "types": ("s", "p")})
    # A3: dense float32 mantissa sweeps (all 2^23 mantissas of an exponent, in chunks)
    if thorough:
        dense_exps = [-31, -56 + rng.randrange(0, 3), 7, rng.randrange(-50, 0)]     # ~2^-8 typical, bottom, top, random
        chunks = [(1 << 23) + i * (1 << 18) for i in range(32)]
        for e in dense_exps:
            for st in chunks:
                tasks.append({"fn": "q", "e": e, "fe": e - 29, "gen": "range", "start": st, "count": 1 << 18, "types": ("s",)})
        for st in chunks[:8] + chunks[-8:]:
            tasks.append({"fn": "rq", "e": -31, "fe": -60, "gen": "range", "start": st, "count": 1 << 18, "types": ("s",)})
    else:
        for e in (-31, rng.randrange(-56, 8)):
            for st in ((1 << 23), (1 << 24) - (1 << 17), (1 << 23) + rng.randrange(0, (1 << 23) - (1 << 18))):
                tasks.append({"fn": "q", "e": e, "fe": e - 29, "gen": "range", "start": st, "count": 1 << 17, "types": ("s",)})
        tasks.append({"fn": "rq", "e": -31, "fe": -60, "gen": "range", "start": (1 << 24) - (1 << 16), "count": 1 << 16, "types": ("s",)})
    # A4: dense double sweeps around the Q31 rounding point and at the top of the significand range
    win = 1 << (16 if thorough else 13)
    for _ in range(12 if thorough else 4):
        e = rng.randrange(-85, -21)
        hi = rng.randrange(1 << 30, 1 << 31)
        tasks.append({"fn": "q", "e": e, "fe": e, "gen": "range", "start": (hi << 22) + (1 << 21) - win // 2, "count": win, "types": ("p",)})
        tasks.append({"fn": "q", "e": e, "fe": e, "gen": "range", "start": TWO53 - (1 << 21) - win // 2, "count": win, "types": ("d",)})
        tasks.append({"fn": "q", "e": e, "fe": e, "gen": "range", "start": TWO53 - win, "count": win, "types": ("p",)})
        e2 = rng.randrange(-85, -37)
        tasks.append({"fn": "rq", "e": e2, "fe": e2, "gen": "range", "start": TWO53 - (1 << 21) - win // 2, "count": win, "types": ("p",)})
        # reduced: around multiplier 32767<<16 (saturation point of the 16-bit multiplier)
        e2 = rng.randrange(-85, -37)
        tasks.append({"fn": "rq", "e": e2, "fe": e2, "gen": "range", "start": ((32767 << 16) << 22) - win // 2, "count": win, "types": ("d",)})

    t0 = time.time()
    results = pool.map(scale_worker, tasks, chunksize=8)
    ck.count("A_wall_s", round(time.time() - t0, 1))
    tot = {"n": 0, "mm": 0, "neg": 0, "sf": 0, "nerr": 0}
    bad, neg_sample, errs = [], None, []
    for t, r in zip(tasks, results):
        for k in tot:
            tot[k] += r[k]
        ck.count("A_" + ("quantise_scale" if t["fn"] == "q" else "reduced_quantise_scale"), r["n"])
        bad += r["bad"]
        errs += r["errors"]
        if r["neg_sample"] and neg_sample is None:
            neg_sample = r["neg_sample"]
    evaluations += tot["n"]
    ck.count("A_exponents_covered", 972 + 1126)
    ck.count("A_model_mismatch", tot["mm"])
    ck.count("A_spec_reject_other", tot["sf"])
    ck.count("A_spec_reject_negative_reduced_shift", tot["neg"])
    distinct_A = sum(len(t["ms"]) if t["gen"] == "list" else t["count"] for t in tasks if t["fn"] == "q" and -85 <= t["fe"] <= -22)
    distinct += distinct_A

    def replay_scale(fn, e, m, t):
        x = dec_value(m, e)
        arg = typed(np, t, x)
        f = scaling.quantise_scale if fn == "q" else scaling.reduced_quantise_scale
        try:
            got = f(arg)
            got_s = f"ok {got[0]} {got[1]}"
        except Exception as ex:
            got, got_s = None, "exc:" + type(ex).__name__
        model = ck.model([("qscale " if fn == "q" else "rqscale ") + enc(x)], parallel=False)[0]
        spec = "n/a"
        if got is not None:
            spec = ck.model([("qspec " if fn == "q" else "rqspec ") + enc(x) + f" {got[0]} {got[1]}"], parallel=False)[0]
        return {"function": "scaling." + ("quantise_scale" if fn == "q" else "reduced_quantise_scale"),
                "arg_type": {"p": "float", "d": "np.float64", "s": "np.float32"}[t], "arg_hex": float(x).hex(),
                "arg_triple": enc(x), "implementation": got_s, "model": model, "spec_verdict": spec}

    for (fn, e, m, t) in bad[:4]:
        rp = replay_scale(fn, e, m, t)
        if rp["spec_verdict"] not in ("1", "n/a"):
            ck.violation(f"{rp['function']}({rp['arg_type']}(float.fromhex('{rp['arg_hex']}'))) = {rp['implementation']}: Lean Spec verdict {rp['spec_verdict']} "
                         f"(model says {rp['model']})", rp, found_input=True)
        else:
            ck.violation(f"correspondence Model/Scaling.lean vs {rp['function']} broken: implementation {rp['implementation']}, model {rp['model']} "
                         f"on {rp['arg_hex']}", dict(rp, correspondence="qbatch/rqbatch"), found_input=False)
    if tot["nerr"]:
        ck.violation(f"scaling function raised on a positive finite scale: {errs[:3]}", {"errors": errs[:5]}, found_input=True)
    if tot["neg"]:
        rp = replay_scale(*neg_sample)
        ck.violation(f"reduced_quantise_scale returns a non-zero multiplier with a negative shift for 2^15 <= scale < 2^31 "
                     f"(regression of /repo de981c1: the guard must test reduced_shift), e.g. {rp['arg_hex']} -> {rp['implementation']}; {tot['neg']} inputs",
                     rp, found_input=True)
    ck.sample({"stage": "A", "calls": tot["n"], "model_mismatch": tot["mm"], "spec_rejections": tot["sf"], "known_negative_shift": tot["neg"]})

    # A5: the malformed / special stream: zero, negative, inf, nan, huge ints — model correspondence one by one
    specials = [0.0, -0.0, float("inf"), float("-inf"), float("nan"), -0.3, -1e-320, 5e-324, 2.0 ** -33, 2.0 ** -34, 2.0 ** 31,
                math.nextafter(2.0 ** 31, 0), math.nextafter(2.0 ** -33, 0), 1.0, 0.5, 1 - 2.0 ** -53, 65536.0, 32768.0,
                math.nextafter(32768.0, 0), 1e308, -1e308, 1.7976931348623157e308]
    for _ in range(300 if not thorough else 3000):
        x = math.ldexp(rng.uniform(0.5, 1), rng.randrange(-1080, 1024))
        specials.append(-x if rng.random() < 0.5 else x)
    reqs, reals = [], []
    for x in specials:
        for t in KINDS:
            if t == "s" and not (x != x or math.isinf(x) or x == 0 or is_f32(np, x)):
                continue
            for fname, f in (("qscale", scaling.quantise_scale), ("rqscale", scaling.reduced_quantise_scale)):
                try:
                    q, s = f(typed(np, t, x))
                    reals.append(f"ok {q} {s}")
                except OverflowError:
                    reals.append("err:overflow")
                except ValueError:
                    reals.append("err:value")
                except ZeroDivisionError:
                    reals.append("err:zerodiv")
                except AssertionError:
                    reals.append("err:assert")
                reqs.append(f"{fname} {enc(x)}")
    outs = ck.model(reqs)
    a5_bad = [i for i, (m_, r_) in enumerate(zip(outs, reals)) if m_ != r_]
    evaluations += len(reqs)
    for o in reals:
        ck.count("A5_outcome_" + o.split()[0])
    for i in a5_bad[:3]:
        # special values are outside the property's domain (positive real scales): correspondence only,
        # unless the value is positive finite, where the Spec decides
        tok = reqs[i].split()
        verdict = "n/a"
        if tok[1] == "f" and tok[2] == "0" and reals[i].startswith("ok"):
            verdict = ck.model([("qspec " if tok[0] == "qscale" else "rqspec ") + " ".join(tok[1:]) + " " + reals[i][3:]], parallel=False)[0]
        found = verdict not in ("1", "n/a")
        ck.violation(f"{tok[0]} on special value {reqs[i]}: implementation {reals[i]}, model {outs[i]}, spec {verdict}",
                     {"request": reqs[i], "implementation": reals[i], "model": outs[i], "spec_verdict": verdict,
                      "correspondence": "qscale/rqscale special stream"}, found_input=found)
    ck.count("A5_special_requests", len(reqs))

    # ------------------------------------------------------------------------------------------
    # B. quantise_pooling_scale
    # ------------------------------------------------------------------------------------------
    t0 = time.time()
    reqs, reals = [], []
    rb_choices = [0, 0, 1, 2, 5, 9, 14, -1, -3, -8, -16]
    for n in range(1, 65537):
        for rb in (0, rng.choice(rb_choices[2:])):
            reqs.append(f"pscale {n} {rb}")
            try:
                S, sh = scaling.quantise_pooling_scale(n, rb)
                reals.append(f"ok {S} {sh}")
            except AssertionError:
                reals.append("err:assert")
            except ValueError:
                reals.append("err:value")
            except ZeroDivisionError:
                reals.append("err:zerodiv")
    for n, rb in [(0, 0), (0, 40), (-1, 0), (-3, 0), (-65536, 0), (5, 40), (5, 31), (5, 32), (5, 33), (5, 34), (1, 31), (1, 32),
                  (2, -16), (3, -30), (3, -31), (65536, -16), (65536, -17), (65537, -16), (1 << 20, 0), ((1 << 31) + 1, 0),
                  ((1 << 32) + 1, 0), (1 << 33, 0)] + [(rng.randrange(-70000, 1 << 34), rng.randrange(-40, 45)) for _ in range(400)]:
        reqs.append(f"pscale {n} {rb}")
        try:
            S, sh = scaling.quantise_pooling_scale(n, rb)
            reals.append(f"ok {S} {sh}")
        except AssertionError:
            reals.append("err:assert")
        except ValueError:
            reals.append("err:value")
        except ZeroDivisionError:
            reals.append("err:zerodiv")
    outs = ck.model(reqs)
    evaluations += len(reqs)
    pm = [i for i, (m_, r_) in enumerate(zip(outs, reals)) if m_ != r_]
    for o in reals:
        ck.count("B_outcome_" + o.split()[0])
    ck.count("B_model_mismatch", len(pm))
    # Spec on the implementation's pairs
    full8 = 96 if thorough else 48
    full16 = 12 if thorough else 5
    base = {"full8": full8, "full16": full16, "extra_q": 6 if thorough else 2, "extra_a": 24 if thorough else 6}
    nfull = max(full8, full16)
    step = 1024
    # the expensive exhaustive scans go into one task per window size
    ptasks = [{**base, "ns": [n], "seed": rng.getrandbits(32)} for n in range(1, nfull + 1)] + \
             [{**base, "ns": list(range(i, min(i + step, 65537))), "seed": rng.getrandbits(32)} for i in range(nfull + 1, 65537, step)]
    presults = pool.map(pool_worker, ptasks, chunksize=1)
    pe = sum(r["evals"] for r in presults)
    evaluations += pe
    distinct += 65536
    ck.count("B_pool_accumulator_evaluations", pe)
    ck.count("B_exhaustive_8bit_windows_upto", full8)
    ck.count("B_exhaustive_16bit_windows_upto", full16)
    known_n = sum(r["known_n"] for r in presults)
    ck.count("B_windows_with_known_16bit_corner", known_n)
    pbad = [b for r in presults for b in r["bad"]]
    pknown = [b for r in presults for b in r["known"]]
    for (n, bits, o, S, sh) in pbad[:3]:
        ck.violation(f"quantise_pooling_scale({n}) = ({S}, {sh}): Lean Spec rejects the pair for a {bits}-bit window: {o} "
                     f"(bad <acc> <(acc*S + 2^(sh-1))>>sh> <reference average> <class>)",
                     {"n": n, "scale": S, "shift": sh, "window_bits": bits, "spec_answer": o,
                      "replay": f"scaling.quantise_pooling_scale({n})"}, found_input=True)
    if pknown:
        n, bits, o, S, sh = pknown[0]
        ck.violation(f"pooling pair rounds differently from the reference for odd windows >= 32993 at extreme 16-bit accumulators "
                     f"(|acc| >= 2^30), e.g. n={n}: {o}; {known_n} windows", {"n": n, "scale": S, "shift": sh, "spec_answer": o,
                     "note": "rounding (acc*S + 2^(sh-1)) >> sh is performed by the NPU; model-level observation"},
                     found_input=True, key=KEY_POOL16)
    if pm and not pbad:
        i = pm[0]
        ck.violation(f"correspondence Model/Scaling.lean vs scaling.quantise_pooling_scale broken on {len(pm)} inputs: {reqs[i]} -> "
                     f"implementation {reals[i]}, model {outs[i]}", {"correspondence": "pscale", "request": reqs[i],
                     "implementation": reals[i], "model": outs[i]}, found_input=False)
    ck.count("B_wall_s", round(time.time() - t0, 1))
    ck.sample({"stage": "B", "request": reqs[8], "implementation": reals[8], "model": outs[8]})

    # ------------------------------------------------------------------------------------------
    # C. elementwise mul / add / sub helpers
    # ------------------------------------------------------------------------------------------
    t0 = time.time()

    def rand_scale32():
        """a float32-representable scale, as it is read from a .tflite file"""
        r = rng.random()
        if r < 0.1:
            return float(np.float32(2.0 ** rng.randrange(-14, 4)))
        if r < 0.2:
            return float(np.float32(rng.choice([0.1, 0.2, 0.3, 1 / 255, 1 / 128, 1 / 256, 0.0078125, 0.003921569, 1 / 32768, 3.0518e-05])))
        return float(np.float32(math.ldexp(rng.uniform(0.5, 1), rng.randrange(-14, 4))))

    def rand_scale64():
        return math.ldexp(rng.uniform(0.5, 1), rng.randrange(-14, 4))

    def rand_wild():
        r = rng.random()
        if r < 0.08:
            return rng.choice([0.0, -0.0, float("inf"), float("nan"), -1.0, 5e-324, 1e-40, 1e38, 3e38, 1e308, 1e-300])
        x = math.ldexp(rng.uniform(0.5, 1), rng.randrange(-160, 140))
        return -x if rng.random() < 0.05 else x

    def kinds3():
        r = rng.random()
        if r < 0.3:
            return ("s", "s", "s")
        if r < 0.5:
            return ("p", "p", "p")
        if r < 0.7:
            return ("d", "d", "d")
        return tuple(rng.choice(KINDS) for _ in range(3))

    n_el = 43000 if thorough else 13000      # bases; 40 % bring a one-argument sibling
    el_cases = []       # (fn, kinds, values, extra, realistic)
    for i in range(n_el):
        fn = ("mul", "add", "adv")[i % 3]
        ks = kinds3()
        wild = rng.random() < 0.15
        if wild:
            vals = [rand_wild() for _ in range(3)]
            vals = [float(np.float32(v)) if k == "s" else v for v, k in zip(vals, ks)]
        else:
            vals = [rand_scale32() if (k == "s" or rng.random() < 0.7) else rand_scale64() for k in ks]
            if rng.random() < 0.25:
                vals[1] = vals[0]                      # equal input scales (the common case for add)
            if rng.random() < 0.05:
                vals[1] = math.nextafter(vals[0], 1.0) if ks[1] != "s" else float(np.nextafter(np.float32(vals[0]), np.float32(1.0)))
            vals = [float(np.float32(v)) if k == "s" else v for v, k in zip(vals, ks)]   # the value passed is the value encoded
        extra = {"mul": None, "add": rng.choice([16, 16, 20, 15, 0, 31]), "adv": rng.choice([8, 16, 8, 16, 32])}[fn]
        el_cases.append((fn, ks, vals, extra, not wild))
        if rng.random() < 0.4:
            # history: the same call with ONE argument changed (its value, its Python/NumPy type, or the bit-width argument),
            # evaluated right after its base in this process (the scale streams A/B walk consecutive mantissas and all three
            # argument types per mantissa, so they contain such neighbours by construction; this stream did not)
            ks2, vals2, extra2 = list(ks), list(vals), extra
            f = rng.choice(["value", "type", "extra"] if extra is not None else ["value", "type"])
            j = rng.randrange(3)
            if f == "value":
                v = vals[j]
                v2 = (float(np.nextafter(np.float32(v), np.float32(4.0))) if ks[j] == "s" else math.nextafter(v, 4.0)) if rng.random() < 0.5 \
                    else (rand_scale32() if not wild else rand_wild())
                vals2[j] = float(np.float32(v2)) if ks[j] == "s" else v2
            elif f == "type":
                ks2[j] = rng.choice([k for k in KINDS if k != ks[j]])
                vals2[j] = float(np.float32(vals[j])) if ks2[j] == "s" else vals[j]
            else:
                extra2 = rng.choice([x for x in ((16, 20, 15, 0, 31) if fn == "add" else (8, 16, 32)) if x != extra])
            if (tuple(ks2), vals2, extra2) != (tuple(ks), list(vals), extra):
                el_cases.append((fn, tuple(ks2), vals2, extra2, not wild))
                ck.count("C_sibling_" + f)

    def call_el(fn, ks, vals, extra):
        args = [typed(np, k, v) for k, v in zip(ks, vals)]
        try:
            if fn == "mul":
                q, s = scaling.elementwise_mul_scale(*args)
                return f"ok {q} {s}", (q, s)
            if fn == "add":
                i1, i2, q, s = scaling.simplified_elementwise_add_sub_scale(*args, extra)
                k1 = "s" if isinstance(i1, np.float32) else ("d" if isinstance(i1, np.float64) else "p")
                k2 = "s" if isinstance(i2, np.float32) else ("d" if isinstance(i2, np.float64) else "p")
                return f"ok {k1} {enc(i1)} {k2} {enc(i2)} {q} {s}", (q, s)
            iq, ish, q, s, op = scaling.advanced_elementwise_add_sub_scale(*args, extra)
            return f"ok {iq} {ish} {q} {s} {int(op)}", (iq, ish, q, s, int(op))
        except OverflowError:
            return "err:overflow", None
        except ValueError:
            return "err:value", None
        except ZeroDivisionError:
            return "err:zerodiv", None

    reqs, reals, spec_reqs, spec_idx = [], [], [], []
    for ci, (fn, ks, vals, extra, realistic) in enumerate(el_cases):
        argstr = " ".join(f"{k} {enc(v)}" for k, v in zip(ks, vals))
        cmd = {"mul": "mulscale", "add": "addscale", "adv": "advscale"}[fn]
        reqs.append(f"{cmd} {argstr}" + ("" if extra is None else f" {extra}"))
        out, res = call_el(fn, ks, vals, extra)
        reals.append(out)
        ck.count(f"C_{fn}_" + out.split()[0])
        if realistic and res is not None:
            if fn == "mul":
                spec_reqs.append(f"mulspec {argstr} {res[0]} {res[1]}")
            elif fn == "add":
                spec_reqs.append(f"addspec {argstr} {extra} {res[0]} {res[1]}")
            else:
                spec_reqs.append(f"advspec {argstr} {extra} " + " ".join(map(str, res)))
            spec_idx.append(ci)
    outs = ck.model(reqs)
    sp = ck.model(spec_reqs)
    evaluations += len(reqs) + len(spec_reqs)
    distinct += len({(c[0], c[1], tuple(c[2]), c[3]) for c in el_cases if c[4]})
    el_mm = [i for i, (m_, r_) in enumerate(zip(outs, reals)) if m_ != r_]
    ck.count("C_model_mismatch", len(el_mm))
    el_bad, mix_known = [], []
    for ci, v in zip(spec_idx, sp):
        ck.count("C_spec_" + v.replace(":", "_"))
        if v == "1":
            continue
        fn, ks, vals, extra, _ = el_cases[ci]
        if fn == "adv" and v.endswith(":mixcmp") and ci not in el_mm:
            mix_known.append((ci, v))
        else:
            el_bad.append((ci, v))

    def el_replay(ci, v):
        fn, ks, vals, extra, _ = el_cases[ci]
        name = {"mul": "elementwise_mul_scale", "add": "simplified_elementwise_add_sub_scale", "adv": "advanced_elementwise_add_sub_scale"}[fn]
        tn = {"p": "float", "d": "np.float64", "s": "np.float32"}
        call = f"scaling.{name}(" + ", ".join(f"{tn[k]}(float.fromhex('{float(x).hex()}'))" for k, x in zip(ks, vals)) + \
               ("" if extra is None else f", {extra}") + ")"
        return {"call": call, "implementation": reals[ci], "model": outs[ci], "spec_verdict": v, "request": reqs[ci]}

    for ci, v in el_bad[:3]:
        rp = el_replay(ci, v)
        ck.violation(f"{rp['call']} = {rp['implementation']}: Lean Spec verdict {v}", rp, found_input=True)
    if mix_known:
        ci, v = mix_known[0]
        rp = el_replay(ci, v)
        ck.violation(f"advanced_elementwise_add_sub_scale takes max/min/< of the raw scalars: a Python float and an np.float32 that differ but "
                     f"agree after rounding to float32 are treated as equal, the operand factor becomes exactly 2^(shift-1) although "
                     f"min/max != 1 (error up to 2^-24 > 2^-31), e.g. {rp['call']} = {rp['implementation']} (verdict {v}); "
                     f"{len(mix_known)} of {len(spec_idx)} realistic triples", rp, found_input=True, key=KEY_ADV_MIXCMP)
    ck.count("C_known_mixed_compare", len(mix_known))
    if el_mm and not el_bad:
        i = min(el_mm, key=lambda j: len(reqs[j]))
        ck.violation(f"correspondence Model/Scaling.lean vs scaling elementwise helpers broken on {len(el_mm)} inputs: {reqs[i]} -> "
                     f"implementation {reals[i]}, model {outs[i]}", {"correspondence": "mulscale/addscale/advscale", "request": reqs[i],
                     "implementation": reals[i], "model": outs[i]}, found_input=False)
    ck.count("C_wall_s", round(time.time() - t0, 1))
    ck.sample({"stage": "C", "request": reqs[1], "implementation": reals[1], "model": outs[1]})
    ck.sample({"stage": "C", "request": reqs[2], "implementation": reals[2], "model": outs[2]})

    # ------------------------------------------------------------------------------------------
    # D. what reaches the registers: generate_ofm_scaling_for_pooling / generate_scaling_for_elementwise
    # ------------------------------------------------------------------------------------------
    t0 = time.time()
    from ethosu.vela import register_command_stream_generator as rg
    from ethosu.vela import api

    def fmap(dt, sc):
        f = api.NpuFeatureMap()
        f.data_type = dt
        f.quantization = api.NpuQuantization(scale_f32=sc, zero_point=0)
        return f

    def regs_of(emit):
        out = {}
        for command, offset in emit.cmd_stream:
            out[command & 0x3FF] = (offset, command >> 16)
        return out

    OFM_SCALE, OPA_SCALE, OPB_SCALE = (rg.cmd1.NPU_SET_OFM_SCALE.value, rg.cmd1.NPU_SET_OPA_SCALE.value, rg.cmd1.NPU_SET_OPB_SCALE.value)
    dts = {"int8": api.NpuDataType.INT8, "uint8": api.NpuDataType.UINT8, "int16": api.NpuDataType.INT16}
    # D1: average pool, every window h x w (h <= w <= 256), equal IFM/OFM scales
    d1_cases = []
    hw = [(h, w) for h in range(1, 257) for w in range(h, 257)]
    if not thorough:
        hw = [c for c in hw if c[0] * c[1] <= 64 or rng.random() < 0.25]
    for (h, w) in hw:
        if rng.random() < 0.5:
            h, w = w, h
        kind = "s" if rng.random() < 0.6 else rng.choice(("p", "d"))
        d1_cases.append((h, w, rng.choice(("int8", "uint8", "int16")), kind, rand_scale32()))
    reqs, reals, pairs = [], [], []
    for (h, w, dt, kind, sc) in d1_cases:
        op = api.NpuPoolingOperation(api.NpuPoolingOp.AVERAGE)
        op.ifm = fmap(dts[dt], typed(np, kind, sc))
        op.ofm = fmap(dts[dt], typed(np, kind, sc))
        op.kernel = api.NpuKernel(w, h)
        emit = rg.CommandStreamEmitter()
        rg.generate_ofm_scaling_for_pooling(emit, op)
        S, sh = regs_of(emit)[OFM_SCALE]
        reqs.append(f"poolreg {kind} {h * w}")
        reals.append(f"ok {S} {sh}")
        pairs.append((h * w, S, sh, (16,) if dt == "int16" else (8,)))
    outs = ck.model(reqs)
    evaluations += len(reqs)
    d1_mm = [i for i, (m_, r_) in enumerate(zip(outs, reals)) if m_ != r_]
    ck.count("D1_pool_register_cases", len(reqs))
    ck.count("D1_model_mismatch", len(d1_mm))
    base = {"full8": 16, "full16": 3, "extra_q": 2, "extra_a": 4, "keep_bad": 1 << 30}
    step = 512
    dtasks = [{**base, "pairs": pairs[i:i + step], "seed": rng.getrandbits(32)} for i in range(0, len(pairs), step)]
    dres = pool.map(pool_worker, dtasks, chunksize=1)
    evaluations += sum(r["evals"] for r in dres)
    ck.count("D1_pool_register_accumulator_evaluations", sum(r["evals"] for r in dres))
    case_of = {}
    for c, pr in zip(d1_cases, pairs):
        case_of.setdefault((pr[0], str(pr[1]), str(pr[2])), c)
    d1_bad = [b for r in dres for b in r["bad"]]
    d1_known16 = [b for r in dres for b in r["known"]]
    d1_unknown = []
    for (n, bits, o, S, sh) in d1_bad:
        c = case_of.get((n, S, sh))
        Sx, shx = scaling.quantise_pooling_scale(n)
        d1_unknown.append((n, bits, o, S, sh, c, Sx, shx))

    def pool_replay(meta_):
        n, bits, o, S, sh, c, Sx, shx = meta_
        rp = {"n": n, "register_scale": S, "register_shift": sh, "window_bits": bits, "spec_answer": o}
        if c is not None:
            h, w, dt, kind, sc = c
            tn = {"p": "float", "d": "np.float64", "s": "np.float32"}[kind]
            rp.update({"kernel_h": h, "kernel_w": w, "data_type": dt, "scale_type": tn, "scale_hex": float(sc).hex(),
                       "exact_pair": [Sx, shx],
                       "replay": f"NpuPoolingOperation(AVERAGE), kernel {h}x{w}, ifm=ofm {dt} scale {tn}.fromhex({float(sc).hex()}); "
                                 "register_command_stream_generator.generate_ofm_scaling_for_pooling"})
        return rp

    for meta_ in d1_unknown[:3]:
        rp = pool_replay(meta_)
        ck.violation(f"OFM_SCALE register ({meta_[3]}, {meta_[4]}) of an average pool with window size {meta_[0]}: Lean Spec rejects it: {meta_[2]}",
                     rp, found_input=True)
    if d1_known16:
        n, bits, o, S, sh = d1_known16[0]
        ck.violation(f"pooling register pair, odd window >= 32993, extreme 16-bit accumulator: {o}", {"n": n, "scale": S, "shift": sh},
                     found_input=True, key=KEY_POOL16)
    if d1_mm and not d1_unknown:
        i = d1_mm[0]
        ck.violation(f"correspondence Model/Scaling.lean (poolRegistersEqualScales) vs generate_ofm_scaling_for_pooling broken on {len(d1_mm)} cases: "
                     f"{reqs[i]} -> implementation {reals[i]}, model {outs[i]}", {"correspondence": "poolreg", "request": reqs[i],
                     "implementation": reals[i], "model": outs[i], "case": d1_cases[i]}, found_input=False)
    ck.sample({"stage": "D1", "request": reqs[0], "implementation": reals[0], "model": outs[0], "case": d1_cases[0][:4]})

    # D2: elementwise ADD / SUB / MUL
    n_d2 = 30000 if thorough else 9000
    ew_ops = {"add": api.NpuElementWiseOp.ADD, "sub": api.NpuElementWiseOp.SUB, "mul": api.NpuElementWiseOp.MUL}
    acts = {"none": None, "tanh": api.NpuActivationOp.TANH, "sigmoid": api.NpuActivationOp.SIGMOID, "relu": api.NpuActivationOp.NONE_OR_RELU}
    one_over_0x3000 = 1 / 0x3000
    d2_cases, reqs, reals, spec_reqs, spec_idx = [], [], [], [], []
    for i in range(n_d2):
        sub = ("add", "sub", "mul")[i % 3]
        dt = rng.choice(("int8", "uint8", "int16"))
        kind = "s" if rng.random() < 0.65 else rng.choice(("p", "d"))
        v = [rand_scale32() for _ in range(3)]
        r = rng.random()
        if r < 0.4:
            v[1] = v[0]
        elif r < 0.45:
            v[1] = float(np.nextafter(np.float32(v[0]), np.float32(4.0)))
        act = rng.choice(("none", "none", "relu", "tanh", "sigmoid"))
        rev = 1 if rng.random() < 0.3 else 0
        op = api.NpuElementWiseOperation(ew_ops[sub])
        op.ifm, op.ifm2, op.ofm = (fmap(dts[dt], typed(np, kind, x)) for x in v)
        op.reversed_operands = bool(rev)
        if acts[act] is not None:
            op.activation = api.NpuActivation(acts[act])
        emit = rg.CommandStreamEmitter()
        try:
            ret = int(rg.generate_scaling_for_elementwise(emit, op))
            rr = regs_of(emit)
            opa = rr.get(OPA_SCALE)
            opb = rr.get(OPB_SCALE)
            ofm = rr[OFM_SCALE]
            real = "ok " + (f"{opa[0]} {opa[1]}" if opa else "- -") + " " + (str(opb[0]) if opb else "-") + f" {ofm[0]} {ofm[1]} {ret}"
        except OverflowError:
            real, opa, opb, ofm, ret = "err:overflow", None, None, None, None
        except ValueError:
            real, opa, opb, ofm, ret = "err:value", None, None, None, None
        except ZeroDivisionError:
            real, opa, opb, ofm, ret = "err:zerodiv", None, None, None, None
        # the effective output scale: a fused tanh / sigmoid fixes it to 1/0x3000 (Python float)
        so_k, so_v = (("p", one_over_0x3000) if act in ("tanh", "sigmoid") else (kind, v[2]))
        argstr = f"{kind} {enc(v[0])} {kind} {enc(v[1])} {so_k} {enc(so_v)}"
        bd = 16 if dt == "int16" else 8
        d2_cases.append((sub, dt, kind, v, act, rev))
        if sub == "mul":
            reqs.append(f"ewreg mul {argstr}")
        else:
            reqs.append(f"ewreg add {bd} {rev} {argstr}")
        reals.append(real)
        ck.count(f"D2_{sub}_{dt}_" + real.split()[0])
        if ofm is not None:
            if sub == "mul":
                spec_reqs.append(f"ewregspec mul {argstr} {ofm[0]} {ofm[1]}")
            else:
                spec_reqs.append(f"ewregspec add {bd} {rev} {argstr} {opa[0]} {opa[1]} {opb[0]} {ofm[0]} {ofm[1]} {ret}")
                ck.count("D2_branch_" + ("advanced" if opb[0] == 0 else ("simplified_int16" if bd == 16 else "simplified_8bit")))
            spec_idx.append(i)
    outs = ck.model(reqs)
    sp = ck.model(spec_reqs)
    evaluations += len(reqs) + len(spec_reqs)
    distinct += len({(c[0], c[1], c[2], tuple(c[3]), c[4], c[5]) for c in d2_cases})
    d2_mm = [i for i, (m_, r_) in enumerate(zip(outs, reals)) if m_ != r_]
    ck.count("D2_model_mismatch", len(d2_mm))
    d2_bad = []
    for ci, vd in zip(spec_idx, sp):
        ck.count("D2_spec_" + vd.replace(":", "_"))
        if vd == "1":
            continue
        d2_bad.append((ci, vd))

    def d2_replay(ci, vd):
        sub, dt, kind, v, act, rev = d2_cases[ci]
        tn = {"p": "float", "d": "np.float64", "s": "np.float32"}[kind]
        return {"op": sub.upper(), "data_type": dt, "scale_type": tn, "scales_hex": [float(x).hex() for x in v], "activation": act,
                "reversed_operands": bool(rev), "registers (opa opa_shift opb ofm ofm_shift ret)": reals[ci], "model": outs[ci],
                "spec_verdict": vd, "replay": "NpuElementWiseOperation; register_command_stream_generator.generate_scaling_for_elementwise"}

    for ci, vd in d2_bad[:3]:
        ck.violation(f"registers of elementwise {d2_cases[ci][0].upper()} ({d2_cases[ci][1]}, scales {[float(x).hex() for x in d2_cases[ci][3]]} as "
                     f"{d2_cases[ci][2]}): {reals[ci]}: Lean Spec verdict {vd}", d2_replay(ci, vd), found_input=True)
    if d2_mm and not d2_bad:
        i = d2_mm[0]
        ck.violation(f"correspondence Model/Scaling.lean (ewRegisters*) vs generate_scaling_for_elementwise broken on {len(d2_mm)} cases: {reqs[i]} -> "
                     f"implementation {reals[i]}, model {outs[i]}", {"correspondence": "ewreg", "request": reqs[i], "implementation": reals[i],
                     "model": outs[i], "case": d2_replay(i, "n/a")}, found_input=False)
    ck.count("D_wall_s", round(time.time() - t0, 1))
    ck.sample({"stage": "D2", "request": reqs[0], "implementation": reals[0], "model": outs[0]})

    # ------------------------------------------------------------------------------------------
    # E. the "same quantisation" predicate that decides whether a requantising pair is derived at all
    #    (tensor.py: is_scaling_equal / check_quantized_tens_scaling_equal; harness/c09_sceq.py)
    # ------------------------------------------------------------------------------------------
    t0 = time.time()
    import c09_sceq
    e_evals, e_distinct = c09_sceq.run(ck, np, rng, thorough)
    evaluations += e_evals
    distinct += e_distinct
    ck.count("E_wall_s", round(time.time() - t0, 1))

    pool.close()
    pool.join()
    unreached = []
    for k in ("A5_outcome_err:overflow", "A5_outcome_err:value", "B_outcome_err:assert", "B_outcome_err:value", "B_outcome_err:zerodiv"):
        if not ck.counters.get(k):
            unreached.append(k)
    ck.finish({
        "evaluations": evaluations,
        "distinct_nontrivial": distinct,
        "rule": "one evaluation = one call of a real scaling.* function (or one accumulator pushed through the implementation's "
                "pooling pair) judged by Lean; distinct_nontrivial counts distinct scale values inside the hardware range "
                "(non-degenerate result), distinct window sizes, distinct realistic (kind, value) triples of the elementwise helpers, "
                "and distinct pairs of quantisations handed to is_scaling_equal",
        "exhaustive": {"double_exponents": "all -1126..971 (frexp form), incl. subnormals", "float32_exponents": "all -149..104",
                       "float32_mantissas": "all 2^23 for 4 exponents" if thorough else "3 windows of 2^17 for 2 exponents",
                       "pool_windows": "all 1..65536", "pool_accumulators": f"all 8-bit reachable for n<={full8}, all 16-bit reachable for n<={full16}"},
        "unreached_branches": unreached,
        "trusted_base_extra": [
            "NPU output scaling rounds as (acc*scale + 2^(shift-1)) >> shift (arithmetic) — hardware behaviour, assumed",
            "TFLite reference QuantizeMultiplier / AveragePool / Add::Prepare transcribed from memory of the upstream sources (not in the sandbox)",
            "IEEE-754 double/float32 arithmetic of Lean's Float/Float32 (handler only; outside the theorems) equals CPython's / NumPy's",
        ],
    }, assumptions=[
        "math.frexp / math.ldexp / float() conversions are exact (IEEE double)",
        "TFLite Mul::Prepare multiplies the float32 scales in float32, Add::Prepare divides in double (reference derivations)",
        "hardware range of a scale: 2^-33 <= x < 2^31 (32-bit normalised multiplier, 6-bit shift); reduced form 2^-33 <= x < 2^15",
    ])


main_wrapper(main)
