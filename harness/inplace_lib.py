"""In-place (IFM/OFM live-range fusing) decision chain: correspondence and Spec stage of ./check C12 (design.d/InPlace.md).

install()            wrap extract_npu_subgraphs.extract_npu_subgraphs and live_range._get_ifm_to_fuse in the harness process
                     (before the pipeline workers fork; no /repo hooks): every compilation records the graph before it is
                     cut (abstract description), the graph after (clones, ifm_write_protected, consumer lists, subgraph
                     output lists, call operator operands) and every decision _get_ifm_to_fuse takes for a real target
extra(res)           worker side, after one compilation: the `inplace` request (model) with what the real code did, and the
                     `inplacespec` request (Lean Spec on the real decisions)
stub_records(rng, n) function level: generated graphs of real Tensor / Operation / Pass / Subgraph objects through the REAL
                     extract_subgraph, update_consumers and _get_ifm_to_fuse (every boundary shape, see _stub_graph)
stage(ck, outs)      check side: model = real, Spec on the real decisions, report
"""
import traceback

_installed = False
_cur = [None]          # context of the compilation in progress
_errors = []

KEY_MEMCPY = "write-protected-tensor-shares-memory-with-reshape-copy"
KEY_VARIABLE = "variable-tensor-overwritten-in-place-by-elementwise-operator"


class Unsupported(Exception):
    pass


class _O:
    """attribute bag (hashable by identity)"""

    def __init__(self, **kw):
        self.__dict__.update(kw)


def _slash(l):
    return "/".join(str(x) for x in l)


def _opt(x):
    return "-" if x is None else str(x)


def _internal(ps):
    """ids of the tensors that live inside the pass: ps.intermediates, and whatever else the operators of the pass produce
    for each other without it being a pass input or output (the tensor between the 1x1 average pool that
    pack_into_passes puts in front of a lone activation and that activation)"""
    out = {id(t) for t in ps.intermediates}
    edge = {id(t) for t in list(ps.inputs) + list(ps.outputs) if t is not None}
    for op in ps.ops:
        for t in op.inputs:
            if t is not None and id(t) not in edge and t.ops and all(o.scheduled_pass is ps for o in t.ops):
                out.add(id(t))
    return out


class Context:
    """One graph: description before the cut, real state after, decisions."""

    def __init__(self, sg):
        from ethosu.vela.nn_graph import PassPlacement
        from ethosu.vela.operation import Op

        self.sg = sg
        self.passes = list(sg.passes)
        self.pidx = {id(ps): i for i, ps in enumerate(self.passes)}
        self.tab = {}
        self.tensors = []          # keeps the objects alive (identity = id())
        self.eq = {}
        self.dtypes = {}
        self.fuse = []             # decisions: dict
        self.real_err = None
        self.post = None
        self.internal_objs = []
        plines = []
        place = {PassPlacement.Cpu: "C", PassPlacement.Npu: "N", PassPlacement.StartupInit: "S"}
        for ps in self.passes:
            interm = _internal(ps)
            self.internal_objs.extend(t for op in ps.ops for t in list(op.inputs) + list(op.outputs)
                                      if t is not None and id(t) in interm)
            reads = [self.ref(t) for op in ps.ops for t in op.inputs if t is not None and id(t) not in interm]
            ins = [self.ref(t) for t in ps.inputs if t is not None]
            outs = [self.ref(t) for t in ps.outputs if t is not None]
            if ps.placement == PassPlacement.MemoryOnly:
                pl = "M1" if (ps.ops and ps.ops[0].run_on_npu) else "M0"
            elif ps.placement in place:
                pl = place[ps.placement]
            else:
                raise Unsupported(f"placement {ps.placement}")
            ifm = ifm2 = ofm = None
            if ps.placement == PassPlacement.Npu and ps.primary_op is not None:
                op = ps.primary_op
                ifm, ifm2, ofm = op.ifm, op.ifm2, op.ofm
            plines.append("|".join([pl, _slash(reads), _slash(ins), _slash(outs)] +
                                   [_opt(None if t is None else self.ref(t)) for t in (ifm, ifm2, ofm)]))
        outs = [self.ref(t) for t in sg.output_tensors]
        # producers (may add tensors: none expected, every producer's outputs are pass outputs)
        tl = []
        i = 0
        while i < len(self.tensors):
            t = self.tensors[i]
            ops = []
            for op in t.ops:
                q = self.pidx.get(id(op.scheduled_pass))
                if q is None:
                    raise Unsupported("producer outside the passes of the subgraph")
                ops.append(q)
            is_const = bool(t.ops and t.ops[0].type == Op.Const)
            tl.append(f"{self.eqid(t)}:{int(is_const)}:{_slash(ops)}")
            i += 1
        self.n0 = len(self.tensors)
        self.pre_text = f"T={','.join(tl)} P={';'.join(plines)} outs={_slash(outs)}"
        self.nodes = [(p.split("|")[1], p.split("|")[3]) for p in plines]
        self.outs = outs
        self.pers = [i for i, t in enumerate(self.tensors) if t.is_variable]
        self.names = [t.name for t in self.tensors]
        # pass-internal tensors (only ever the OFM of the operator asked about): their consumer sits inside the pass
        self.internal = sorted({self.tab[id(t)] for t in self.internal_objs if id(t) in self.tab})

    def eqid(self, t):
        return self.eq.setdefault(t.equivalence_id, len(self.eq))

    def ref(self, t):
        k = id(t)
        if k not in self.tab:
            self.tab[k] = len(self.tensors)
            self.tensors.append(t)
        return self.tab[k]

    # ---- after the cut -------------------------------------------------------------------------------------------
    def read_post(self, nng):
        from ethosu.vela.nn_graph import PassPlacement
        from ethosu.vela.operation import Op

        islands = [s for s in nng.subgraphs if s.placement == PassPlacement.Npu]
        isl_no = {id(s): i + 1 for i, s in enumerate(islands)}
        startup_no = {id(s.passes[0]): isl_no[id(s)] for s in islands if s.passes}
        keys = {}
        objs = {}

        def keyof(t):
            k = id(t)
            if k in self.tab and self.tab[k] < self.n0:
                return str(self.tab[k])
            if k in keys:
                return keys[k]
            if t.src_tensor is None:
                raise Unsupported(f"new tensor {t.name} without source")
            base = keyof(t.src_tensor)
            kind = "?"
            if t.ops:
                op0 = t.ops[0]
                if op0.type == Op.CustomNpuOp:
                    kind = "c"
                elif op0.type in (Op.SubgraphInput, Op.Const) and id(op0.scheduled_pass) in startup_no:
                    kind = "n%d" % startup_no[id(op0.scheduled_pass)]
            keys[k] = base + ">" + kind
            objs[keys[k]] = t
            return keys[k]

        def cons(t):
            out = []
            for c in t.consumer_list:
                if c is None:
                    out.append((2, 0))
                elif c.type == Op.CustomNpuOp:
                    out.append((1, isl_no[id(c.attrs["subgraph"])]))
                else:
                    q = self.pidx.get(id(c.scheduled_pass))
                    if q is None:
                        raise Unsupported("consumer outside the passes of the subgraph")
                    out.append((0, q))
            return "/".join("N" if a == 2 else ("c%d" % b if a == 1 else "p%d" % b) for a, b in sorted(out))

        sg_of = {}
        seen = []
        holders = {}
        for si, s in enumerate(nng.subgraphs):
            for ps in s.passes:
                if id(ps) in self.pidx:
                    sg_of[self.pidx[id(ps)]] = isl_no.get(id(s), 0)
                for t in list(ps.inputs) + list(ps.outputs) + [x for op in ps.ops for x in list(op.inputs) + list(op.outputs)]:
                    if t is not None:
                        seen.append(t)
                        holders.setdefault(id(t), set()).add(si)
            seen.extend(s.output_tensors)
            for t in s.output_tensors:
                holders.setdefault(id(t), set()).add(si)
        # a tensor object held by two subgraphs: update_consumers of the subgraph refreshed last resets what the other
        # one recorded (for everything its traversal reaches); finalCons does not model that
        shared = any(len(v) > 1 for v in holders.values())
        x = {}
        for t in seen:
            x[keyof(t)] = (int(bool(t.ifm_write_protected)), cons(t))
        for i, t in enumerate(self.tensors[:self.n0]):
            x.setdefault(str(i), (int(bool(t.ifm_write_protected)), cons(t)))
        isl = {}
        for s in islands:
            call = None
            for ps in self.sg.passes:
                if ps.ops and ps.ops[0].type == Op.CustomNpuOp and ps.ops[0].attrs.get("subgraph") is s:
                    call = ps
            if call is None:
                raise Unsupported("NPU subgraph without call pass")
            isl[isl_no[id(s)]] = ([keyof(t) for t in s.output_tensors], [keyof(t) for t in call.primary_op.inputs],
                                  [keyof(t) for t in call.primary_op.outputs], [keyof(t) for t in s.passes[0].outputs])
        q = {}
        for i, ps in enumerate(self.passes):
            if sg_of.get(i, 0) != 0 and ps.primary_op is not None:
                op = ps.primary_op
                interm = _internal(ps)
                q[i] = ([_opt(None if t is None else keyof(t)) for t in (op.ifm, op.ifm2, op.ofm)] if ps.placement == PassPlacement.Npu
                        else ["-", "-", "-"],
                        [keyof(t) for o in ps.ops for t in o.inputs if t is not None and id(t) not in interm])
        self.keyof = keyof
        self.post = {"sg": [sg_of.get(i, 0) for i in range(len(self.passes))], "x": x, "isl": isl, "q": q, "shared": shared,
                     "internal": [str(i) for i in self.internal],
                     "out": [keyof(t) for t in self.sg.output_tensors]}

    # ---- decisions -----------------------------------------------------------------------------------------------
    def attr(self, t, area, types):
        from ethosu.vela.tensor import TensorPurpose

        if t is None:
            return "O.0.0.0.0.0.0"
        pu = {TensorPurpose.Weights: "W", TensorPurpose.FSBias: "F", TensorPurpose.Virtual: "V"}.get(t.purpose, "O")
        dt = self.dtypes.setdefault((t.dtype.type, t.dtype.bits), len(self.dtypes))
        size = t.storage_size()
        return ".".join(map(str, [pu, int(t.mem_area == area and t.mem_type in types), int(size), int(t.shape == []),
                                  int(t.format.value), dt, int(bool(t.is_variable))]))

    def record_fuse(self, sched_op, area, types, result):
        from ethosu.vela.operation import Op

        if self.post is None:
            return
        q = self.pidx.get(id(sched_op.parent_ps))
        if q is None:
            self.fuse.append({"skip": "pass not in the graph description"})
            return
        op = sched_op.parent_op
        ew = bool(sched_op.op_type.is_elementwise_op())

        def sh(s):
            return ".".join(str(int(v)) for v in s.as_list())

        ofs = ifs = if2s = ""
        if ew:
            ofs = sh(op.ofm_shapes[0])
            if op.ifm is not None:
                ifs = sh(op.ifm_shapes[0])
            if op.ifm2 is not None:
                if2s = sh(op.ifm_shapes[1])
        line = "|".join([str(q), str(int(ew)), str(int(op.memory_function is Op.VariableTensorWrite)),
                         str(int(sched_op.op_type == Op.Memcpy)), ofs, ifs, if2s,
                         self.attr(op.ofm, area, types), self.attr(op.ifm, area, types), self.attr(op.ifm2, area, types)])
        state = []
        for t in (op.ifm, op.ifm2):
            if t is not None:
                state.append((self.keyof(t), int(bool(t.ifm_write_protected)), len(t.consumer_list)))
        rec = {"line": line, "q": q, "result": _opt(None if result is None else self.keyof(result)),
               "operands": [_opt(None if t is None else self.keyof(t)) for t in (op.ifm, op.ifm2, op.ofm)],
               "state": state, "memcpy": int(sched_op.op_type == Op.Memcpy),
               "wp": int(bool(result.ifm_write_protected)) if result is not None else 0,
               "ofm": _opt(None if op.ofm is None else self.keyof(op.ofm))}
        if rec not in self.fuse:
            self.fuse.append(rec)

    # ---- requests ------------------------------------------------------------------------------------------------
    def requests(self, rules):
        recs = [f for f in self.fuse if "skip" not in f]
        line = f"inplace ru={rules} {self.pre_text} F={';'.join(f['line'] for f in recs)}"
        shares = []
        for f in recs:
            if f["result"] != "-" and f["ofm"] != "-":
                s = (f["q"], int(f["result"].split(">")[0]), int(f["ofm"].split(">")[0]), f["memcpy"])
                if s not in shares:
                    shares.append(s)
        nodes = ";".join(f"{r}|{w}" for r, w in self.nodes)
        spec = (f"inplacespec N={nodes} outs={_slash(self.outs)} pers={_slash(self.pers)} "
                f"S={','.join(':'.join(map(str, s)) for s in shares)}")
        return {"line": line, "spec": spec, "post": self.post, "fuse": recs, "real_err": self.real_err,
                "skipped": sum(1 for f in self.fuse if "skip" in f), "n0": self.n0,
                "protected_copy_sources": sorted({int(f["result"].split(">")[0]) for f in recs
                                                  if f["result"] != "-" and f["memcpy"] and f["wp"]}),
                "copy_shares": sorted({(int(f["result"].split(">")[0]), int(f["ofm"].split(">")[0])) for f in recs
                                       if f["result"] != "-" and f["ofm"] != "-" and f["memcpy"]}),
                "variables": list(self.pers), "names": list(self.names)}


def probe_rules():
    """the rule switches of the tree under test, as `ru=` digits (same probe as harness/tables/inplace.py)"""
    from tables import inplace as tbl

    p = tbl.probe_or_default()
    return f"{int(p['memcpy_wp'])}{int(p['elementwise_var'])}{int(p['memcpy_var'])}"


def install():
    global _installed
    if _installed:
        return
    _installed = True
    from ethosu.vela import extract_npu_subgraphs as E
    from ethosu.vela import live_range
    from ethosu.vela.nn_graph import PassPlacement

    orig_e = E.extract_npu_subgraphs
    orig_f = live_range._get_ifm_to_fuse

    def wrap_e(nng, arch):
        ctx = None
        try:
            if len(nng.subgraphs) == 1 and nng.subgraphs[0].placement == PassPlacement.Cpu:
                nng.refresh_after_modification()      # what the function does first
                ctx = Context(nng.subgraphs[0])
        except Unsupported:
            ctx = None
        except Exception:
            _errors.append(traceback.format_exc()[-1200:])
            ctx = None
        _cur[0] = None
        try:
            r = orig_e(nng, arch)
        except (AssertionError, IndexError, AttributeError) as e:
            if ctx is not None:
                ctx.real_err = {AssertionError: "err:assert", IndexError: "err:index", AttributeError: "err:attribute"}[type(e)]
                _cur[0] = ctx
            raise
        if ctx is not None:
            try:
                ctx.read_post(nng)
                _cur[0] = ctx
            except Unsupported:
                pass
            except Exception:
                _errors.append(traceback.format_exc()[-1200:])
        return r

    def wrap_f(sched_op, target_mem_area=None, target_mem_type_set=None):
        r = orig_f(sched_op, target_mem_area, target_mem_type_set)
        ctx = _cur[0]
        if ctx is not None and target_mem_area is not None and target_mem_type_set is not None:
            try:
                ctx.record_fuse(sched_op, target_mem_area, target_mem_type_set, r)
            except Unsupported:
                ctx.fuse.append({"skip": "unsupported"})
            except Exception:
                _errors.append(traceback.format_exc()[-1200:])
        return r

    E.extract_npu_subgraphs = wrap_e
    live_range._get_ifm_to_fuse = wrap_f

    from ethosu.vela import compiler_driver

    orig_driver = compiler_driver.compiler_driver

    def wrap_driver(*a, **kw):
        _cur[0] = None
        del _errors[:]
        return orig_driver(*a, **kw)

    compiler_driver.compiler_driver = wrap_driver


def install_profile():
    """profile `inplace` (harness/inplace_nets.py) for pipe_common's workers, without touching the shared generators"""
    import pipe_common

    if getattr(pipe_common.make_net, "_inplace", False):
        return
    orig = pipe_common.make_net

    def make_net(rng, idx, profile):
        if profile == "inplace":
            import inplace_nets

            return inplace_nets.build(rng, idx)
        return orig(rng, idx, profile)

    make_net._inplace = True
    pipe_common.make_net = make_net


_rules = [None]


def extra(res):
    """Called in the worker after each compilation."""
    out = {"record": None, "errors": []}
    try:
        if _rules[0] is None:
            _rules[0] = probe_rules()
        ctx = _cur[0]
        if ctx is not None and (ctx.post is not None or ctx.real_err is not None):
            out["record"] = ctx.requests(_rules[0])
    except Exception:
        _errors.append(traceback.format_exc()[-1200:])
    out["errors"] = list(_errors)
    del _errors[:]
    _cur[0] = None
    return out


def extra_with_liverange(res):
    """want['extra'] of check_C12: the live-range stage's record with this stage's record added"""
    import liverange_lib

    d = liverange_lib.extra(res)
    d["inplace"] = extra(res)
    return d


# ------------------------------------------------------------------------------------------------------------------
# Function level: generated graphs of real objects through the real extract_subgraph / update_consumers / _get_ifm_to_fuse


def _stub_graph(rng, k):
    """A pass list in execution order over real Tensor / Operation / Pass objects.

    Boundary shapes drawn: source = graph input / constant / variable / CPU-produced / NPU-produced tensor; 1-3 consumers;
    consumer kinds = in-place-capable elementwise (unary, binary incl. both operands the same tensor), non-elementwise NPU
    operation (pool, pool + fused RELU with a pass-internal tensor), Memcpy (a RESHAPE that could not be bypassed), CPU
    operator, memory-only pass that may run on the NPU / must stay on the CPU, an operator of a later NPU subgraph, the
    subgraph output list; equal / different shape and data type; a second writer into an existing tensor (concatenation
    style); ill-formed pass input lists (an operator input missing from ps.inputs)."""
    from ethosu.vela.data_type import DataType
    from ethosu.vela.nn_graph import Graph, Pass, PassPlacement, Subgraph
    from ethosu.vela.operation import NpuBlockType, Op, Operation
    from ethosu.vela.tensor import MemArea, MemType, Tensor, TensorFormat, TensorPurpose
    from ethosu.vela.test import testutil

    shapes = [[1, 4, 4, 8], [1, 4, 4, 8], [1, 4, 4, 8], [1, 8, 2, 8], [1, 1, 1, 8]]

    def fm(name, shape=None, dtype=None):
        t = Tensor(list(shape or rng.choice(shapes[:3])), dtype or rng.choice([DataType.int8] * 5 + [DataType.int16]), name)
        t.purpose, t.format = TensorPurpose.FeatureMap, TensorFormat.NHWC
        t.mem_area, t.mem_type = MemArea.Sram, MemType.Scratch
        t.quantization = testutil.default_quant_params()
        return t

    ps0 = Pass("startup", PassPlacement.StartupInit, False, NpuBlockType.Default)
    pool = []

    def source(kind, i):
        t = fm(f"g{k}_{kind}{i}")
        op = Operation(Op.Const if kind == "c" else Op.Placeholder, t.name + "_op")
        op.set_output_tensor(t)
        op.scheduled_pass = ps0
        if kind == "v":
            t.is_variable = True
        if kind == "c":
            t.mem_type = MemType.Permanent_NPU
        ps0.ops.append(op)
        ps0.outputs.append(t)
        pool.append(t)
        return t

    for i in range(rng.randint(1, 2)):
        source("in", i)
    if rng.random() < 0.3:
        source("c", 0)
    if rng.random() < 0.2:
        source("v", 0)
    passes = []
    malformed = False
    n = rng.randint(2, 8)
    last = pool[0]
    for i in range(n):
        kind = rng.choice(["ew1", "ew1", "ew2", "ew2", "pool", "pool_relu", "ew_relu", "memcpy", "cpu", "cpu", "mo_npu", "mo_cpu"] * 3 +
                          ["write_into"])
        a = last if rng.random() < 0.55 else rng.choice(pool)
        same_shape = rng.random() < 0.8
        shape = list(a.shape) if same_shape else rng.choice([[1, 8, 2, 8], [1, 2, 8, 8]])
        if kind in ("memcpy", "mo_npu", "mo_cpu") and rng.random() < 0.6:
            shape = [1, 8, 2, 8] if list(a.shape) != [1, 8, 2, 8] else [1, 4, 4, 8]
        out = fm(f"g{k}_t{i}", shape, a.dtype if rng.random() < 0.9 else None)
        ins = [a]
        ops = []
        interm = []
        placement, npu = PassPlacement.Npu, True
        ew = False
        if kind == "ew1":
            ops = [testutil.create_op(rng.choice([Op.Abs, Op.LeakyRelu, Op.Abs]), ins, out)]
            ew = True
        elif kind == "ew2":
            r = rng.random()
            b = a if r < 0.12 else (rng.choice(pool) if r < 0.8 else fm(f"g{k}_x{i}", a.shape, a.dtype))
            if b not in pool:
                # a second graph input born here
                op = Operation(Op.Placeholder, b.name + "_op")
                op.set_output_tensor(b)
                op.scheduled_pass = ps0
                ps0.ops.append(op)
                ps0.outputs.append(b)
                pool.append(b)
            if list(b.shape) != list(a.shape) and rng.random() < 0.7:
                b = a
            ins = [a, b] if rng.random() < 0.7 else [b, a]
            ops = [testutil.create_op(rng.choice([Op.Add, Op.Mul, Op.Minimum, Op.Sub]), ins, out, set_ifm_ofm_shapes=False)]
            ew = True
        elif kind in ("pool", "write_into"):
            if kind == "write_into" and len(passes) > 0 and rng.random() < 0.8:
                out = rng.choice([p.outputs[0] for p in passes if p.placement == PassPlacement.Npu] or [out])
            ops = [testutil.create_op(Op.AvgPool, ins, out, set_ifm_ofm_shapes=False)]
            if kind == "write_into" and ops[0] not in out.ops:
                pass
        elif kind in ("pool_relu", "ew_relu"):
            mid = fm(f"g{k}_m{i}", shape, out.dtype)
            ops = [testutil.create_op(Op.AvgPool if kind == "pool_relu" else Op.Abs, ins, mid, set_ifm_ofm_shapes=False),
                   testutil.create_op(Op.Relu, [mid], out, set_ifm_ofm_shapes=False)]
            interm = [mid]
            ew = kind == "ew_relu"
        elif kind == "memcpy":
            ops = [testutil.create_op(Op.Memcpy, ins, out, set_ifm_ofm_shapes=False)]
        elif kind == "cpu":
            placement, npu = PassPlacement.Cpu, False
            if rng.random() < 0.3 and len(pool) > 1:
                ins = [a, rng.choice(pool)]
            ops = [testutil.create_op(Op.Custom, ins, out, set_ifm_ofm_shapes=False)]
        else:
            placement, npu = PassPlacement.MemoryOnly, kind == "mo_npu"
            ops = [testutil.create_op(Op.Reshape, ins, out, set_ifm_ofm_shapes=False)]
        if kind == "write_into" and len(out.ops) == 1 and out.ops[0] is ops[0] and out in pool:
            pass
        for op in ops:
            op.run_on_npu = npu
            try:
                op.set_ifm_ofm_shapes()
            except Exception:
                from ethosu.vela.shape4d import Shape4D
                op.ifm_shapes = [Shape4D([1, 1, 1, 1]) for _ in op.inputs]
                op.ofm_shapes = [Shape4D([1, 1, 1, 1])]
        ps = Pass(out.name, placement, ew, NpuBlockType.ElementWise if ew else NpuBlockType.Default)
        ps.ops = ops
        ps.primary_op = ops[0]
        uniq = []
        for t in ins:
            if t not in uniq:
                uniq.append(t)
        if len(uniq) > 1 and rng.random() < 0.04:
            uniq = uniq[:-1]                     # ill-formed: an operator input that is not a pass input
            malformed = True
        ps.inputs = uniq
        ps.outputs = [out]
        ps.intermediates = interm
        ps.ifm_tensor, ps.ifm2_tensor, ps.ofm_tensor = ops[0].ifm, ops[0].ifm2, out
        for op in ops:
            op.scheduled_pass = ps
        passes.append(ps)
        if out not in pool:
            pool.append(out)
        last = out
    # a tensor written by several passes keeps all its producers (set_output_tensor replaced the list)
    prod = {}
    for ps in passes:
        prod.setdefault(id(ps.outputs[0]), []).append(ps.ops[-1])
    for ps in passes:
        t = ps.outputs[0]
        t.ops = list(prod[id(t)])
    outs = [last]
    for t in pool:
        if t is not last and rng.random() < 0.17:
            outs.append(t)
    if rng.random() < 0.04:
        outs.append(last)
    sg = Subgraph(f"stub{k}", PassPlacement.Cpu)
    sg.passes = [ps0] + passes
    sg.output_tensors = outs
    nng = Graph(f"stub{k}")
    nng.subgraphs = [sg]
    return nng, sg, malformed


def stub_records(rng, n, rules, dump=None):
    from ethosu.vela import extract_npu_subgraphs as E
    from ethosu.vela import live_range
    from ethosu.vela.nn_graph import PassPlacement
    from ethosu.vela.tensor import MemArea, MemType, TensorFormat

    import contextlib
    import io

    install()
    recs = []
    skipped = 0
    sink = io.StringIO()
    for k in range(n):
        nng, sg, malformed = _stub_graph(rng, k)
        try:
            with contextlib.redirect_stdout(sink):      # update_consumers prints its second traversal
                nng.refresh_after_modification()
            ctx = Context(sg)
        except Unsupported:
            skipped += 1
            continue
        _cur[0] = None
        try:
            with contextlib.redirect_stdout(sink):
                new = E.extract_subgraph(nng, sg, None)
                nng.subgraphs += new
                nng.refresh_after_modification()
            sink.seek(0)
            sink.truncate()
            ctx.read_post(nng)
        except AssertionError:
            ctx.real_err = "err:assert"
        except IndexError:
            ctx.real_err = "err:index"
        except AttributeError:
            ctx.real_err = "err:attribute"
        except (Unsupported, KeyError):
            skipped += 1
            continue
        if ctx.real_err is None:
            # attributes that only exist after scheduling: formats, memory of individual objects, scalars
            objs = {}
            for s in nng.subgraphs:
                for ps in s.passes:
                    for t in list(ps.inputs) + list(ps.outputs):
                        objs[id(t)] = t
            for t in objs.values():
                r = rng.random()
                if r < 0.06:
                    t.format = TensorFormat.NHCWB16
                elif r < 0.10:
                    t.mem_type = MemType.Permanent_NPU
                elif r < 0.12:
                    t.mem_area = MemArea.Dram
            _cur[0] = ctx
            target = (MemArea.Sram, {MemType.Scratch, MemType.Scratch_fast})
            for s in nng.subgraphs:
                if s.placement != PassPlacement.Npu:
                    continue
                for ps in s.passes[1:]:
                    if ps.primary_op is None:
                        continue
                    so = _O(parent_ps=ps, parent_op=ps.primary_op, op_type=ps.primary_op.type)
                    try:
                        live_range._get_ifm_to_fuse(so, *target)
                    except AttributeError:
                        ctx.fuse.append({"skip": "AttributeError in _get_ifm_to_fuse"})
            _cur[0] = None
        r = ctx.requests(rules)
        r["stub"] = k
        r["malformed"] = malformed
        if dump is not None:
            dump(k, nng, ctx, r)
        recs.append(r)
    del _errors[:]
    return recs, skipped


# ------------------------------------------------------------------------------------------------------------------


def _parse_answer(ans):
    kv = dict(tok.split("=", 1) for tok in ans.split(" ")[1:] if "=" in tok)
    n = int(kv["n"])
    ent = {}
    for e in [e for e in kv.get("X", "").split(",") if e]:
        i, src, kind, wp, cons = e.split(":")
        ent[int(i)] = (src, kind, int(wp), cons)
    keys = {}

    def key(i):
        if i not in keys:
            src, kind, _wp, _c = ent[i]
            keys[i] = str(i) if kind == "o" else key(int(src)) + ">" + kind
        return keys[i]

    def k(s):
        return "-" if s == "-" else key(int(s))

    x = {key(i): (ent[i][2], ent[i][3]) for i in range(n)}
    isl = {}
    for e in [e for e in kv.get("I", "").split(";") if e]:
        kk, o, ci, co, so = e.split(":")
        isl[int(kk)] = tuple([key(int(v)) for v in part.split("/") if v] for part in (o, ci, co, so))
    q = {}
    for e in [e for e in kv.get("Q", "").split(";") if e]:
        p, a, b, c, rd = e.split(":")
        q[int(p)] = ([k(a), k(b), k(c)], [key(int(v)) for v in rd.split("/") if v])
    d = []
    for e in [e for e in kv.get("D", "").split(",") if e]:
        p, xx = e.split(":")
        d.append((int(p), k(xx)))
    return {"wf": kv["wf"], "multiple": kv["multiple"], "sg": [int(v) for v in kv.get("sg", "").split("/") if v], "x": x,
            "isl": isl, "q": q, "out": [key(int(v)) for v in kv.get("out", "").split("/") if v], "d": d}


def _compare(rec, m):
    """first difference between the model's answer and what the real code did, or None"""
    post = rec["post"]
    if m["sg"] != post["sg"]:
        return f"subgraph of each pass: model {m['sg']} real {post['sg']}"
    for key in sorted(set(m["x"]) | set(post["x"])):
        a, b = m["x"].get(key), post["x"].get(key)
        if a is None or b is None:
            return f"tensor object {key}: model {a} real {b}"
        if a[0] != b[0]:
            return f"ifm_write_protected of {key}: model {a[0]} real {b[0]}"
        if a[1] != b[1] and not post["shared"] and key not in post["internal"]:
            return f"consumer_list of {key}: model [{a[1]}] real [{b[1]}]"
    for kk in sorted(set(m["isl"]) | set(post["isl"])):
        a, b = m["isl"].get(kk), post["isl"].get(kk)
        if a is None or b is None or [list(v) for v in a] != [list(v) for v in b]:
            return f"NPU subgraph {kk} (outputs, call inputs, call outputs, startup outputs): model {a} real {b}"
    if m["out"] != post["out"]:
        return f"CPU subgraph outputs: model {m['out']} real {post['out']}"
    for p in sorted(post["q"]):
        a, b = m["q"].get(p), post["q"][p]
        if a is None or a[0] != b[0] or sorted(a[1]) != sorted(b[1]):
            return f"operands / reads of pass {p}: model {a} real {b}"
    if post["shared"]:
        return None
    for f, (p, xx) in zip(rec["fuse"], m["d"]):
        for key, wp, ncons in f["state"]:
            mm = m["x"].get(key)
            if mm is None:
                return f"decision at pass {p}: operand {key} unknown to the model"
            mc = len([c for c in mm[1].split("/") if c])
            if mm[0] != wp or mc != ncons:
                return (f"state of {key} when _get_ifm_to_fuse ran at pass {p}: model wp={mm[0]} consumers={mc} "
                        f"real wp={wp} consumers={ncons}")
        if xx != f["result"]:
            return f"_get_ifm_to_fuse at pass {p}: model {xx} real {f['result']}"
    return None


def memonly_records(rng, n):
    """bypass_memory_only_ops on real Reshape / Squeeze / ExpandDims operations: (request, real fate)"""
    from ethosu.vela import graph_optimiser_util as G
    from ethosu.vela.data_type import DataType
    from ethosu.vela.operation import Op, Operation
    from ethosu.vela.tensor import Tensor
    from ethosu.vela.test import testutil

    out = []
    for i in range(n):
        ncons = rng.choice([1, 1, 2, 3])
        producer = rng.choice(["npu", "cpu", "input", "const"])
        ifm = Tensor([1, 4, 4, 8], DataType.int8, f"m{i}_ifm")
        ofm = Tensor([1, 8, 2, 8], DataType.int8, f"m{i}_ofm")
        pop = Operation({"npu": Op.Abs, "cpu": Op.Custom, "input": Op.Placeholder, "const": Op.Const}[producer], f"m{i}_p")
        pop.run_on_npu = producer == "npu"
        pop.set_output_tensor(ifm)
        op = testutil.create_op(rng.choice([Op.Reshape, Op.Squeeze, Op.ExpandDims]), [ifm], ofm, set_ifm_ofm_shapes=False)
        op.run_on_npu = True
        ifm.consumer_list = [op] + [Operation(Op.Relu, f"m{i}_c{j}") for j in range(ncons - 1)]
        cons = Operation(Op.Abs, f"m{i}_next")
        cons.add_input_tensor(ofm)
        G.bypass_memory_only_ops(op, None, None)
        if op.type == Op.Memcpy:
            real = "memcpy"
        elif ofm.ops == [pop] and pop.outputs == [ofm]:
            real = "bypass"
        else:
            real = "?"
        out.append((f"memonly {ncons} {int(not pop.run_on_npu)}", real, producer))
    return out


def _victims(sm):
    v = set()
    for tok in sm.group(2).split():
        v.add(int(tok.split(":")[1]))
    for tok in sm.group(4).split():
        v.add(int(tok.split(":")[2]))
    return v


def _key_for(rules, r, victims):
    """the known finding a Spec rejection belongs to: only by what was destroyed and how it was shared"""
    # values that sit in one buffer with a write protected Memcpy source through copies only (the source, its copy, a
    # copy of the copy): whichever of them an in-place operator destroys, it is the Memcpy branch ignoring the protection
    tainted = set(r["protected_copy_sources"])
    grew = True
    while grew:
        grew = False
        for a, b in r.get("copy_shares", []):
            if (a in tainted) != (b in tainted):
                tainted |= {a, b}
                grew = True
    if rules[0] == "0" and victims and victims <= tainted:
        return KEY_MEMCPY
    if victims and victims <= set(r["variables"]) and (rules[1] == "0" or rules[2] == "0"):
        return KEY_VARIABLE
    return None


def classify(ck, outs):
    """(profile, index) -> (known-finding key, names of the destroyed tensors) for the compiled networks whose real
    decisions the Lean Spec rejects for a recorded reason only; check_C12 passes the key for an arena conflict of the same
    network whose pairs all contain one of these tensors"""
    import re

    rules = probe_rules()
    recs = []
    for o in outs:
        ex = (o.get("extra") or {}).get("inplace")
        if ex and ex["record"]:
            recs.append((o, ex["record"]))
    answers = ck.model([r["spec"] for _o, r in recs]) if recs else []
    out = {}
    for (o, r), sa in zip(recs, answers):
        r["spec_answer"] = sa
        sm = re.match(r"unsafe=(\d+) (.*?) \| clobbers=(\d+) (.*)", sa)
        if sm and (int(sm.group(1)) or int(sm.group(3))):
            v = _victims(sm)
            key = _key_for(rules, r, v)
            if key:
                out[(o["profile"], o["idx"])] = (key, {r["names"][i] for i in v if i < len(r["names"])})
    return out


def stage(ck, outs, prefix="inplace_", stub=True, compiled=True):
    """`stub`: the generated graphs (function level); `compiled`: the records of the compiled networks in `outs`.
    check_C12 runs the two separately so that the function-level reports come first."""
    import common
    import re
    import time

    t0 = time.time()
    rules = probe_rules()
    nstub = 8000 if ck.thorough else 2500
    stub_owner = {"idx": -1, "profile": "stub", "seed": ck.seed, "opts": [], "desc": "generated stub graph (no network)"}
    inst, owners = [], []
    if stub:
        mrecs = memonly_records(ck.rng, 400)
        for (line, real, producer), ans in zip(mrecs, ck.model([m[0] for m in mrecs], parallel=False)):
            ck.count(prefix + "memonly_" + real + "_" + producer)
            if ans != real:
                ck.count(prefix + "memonly_disagreements")
            if ans != real and ck.counters[prefix + "memonly_disagreements"] <= 3:
                ck.violation(f"bypass_memory_only_ops and Model/InPlace.memOnlyFate disagree: `{line}` ({producer}) model {ans} "
                             f"real {real}", {"request": line, "producer": producer, "real": real, "model": ans,
                                              "correspondence": "memOnlyFate = graph_optimiser_util.bypass_memory_only_ops"},
                             found_input=False)
        srecs, skipped = stub_records(ck.rng, nstub, rules)
        ck.count(prefix + "stub_skipped", skipped)
        for r in srecs:
            inst.append(r)
            owners.append(dict(stub_owner, idx=r["stub"]))
    for o in (outs if compiled else []):
        ex = (o.get("extra") or {}).get("inplace")
        if not ex:
            continue
        for e in ex["errors"]:
            raise common.InfraError("in-place harness failed inside a worker:\n" + e)
        if ex["record"]:
            inst.append(ex["record"])
            owners.append(o)
    answers = ck.model([r["line"] for r in inst]) if inst else []
    todo = [r for r in inst if "spec_answer" not in r]
    for r, a in zip(todo, ck.model([r["spec"] for r in todo]) if todo else []):
        r["spec_answer"] = a
    spec_answers = [r["spec_answer"] for r in inst]
    nontrivial = set()
    disagreements, rejected = [], {}
    stats = {"fused": 0, "decisions": 0, "boundary_clones": 0, "protected_clones": 0, "wf": 0, "multiple": 0, "errors": 0}
    for n_i, (r, o, ans, sa) in enumerate(zip(inst, owners, answers, spec_answers)):
        stub = "stub" in r
        ck.count(prefix + ("instances_stub" if stub else "instances_compiled"))
        bad = None
        m = None
        if r["real_err"] is not None or not ans.startswith("ok "):
            stats["errors"] += 1
            ck.count(prefix + "outcome_" + (r["real_err"] or "ok") .replace(":", "_"))
            if (r["real_err"] or "ok") != (ans if not ans.startswith("ok ") else "ok"):
                bad = f"outcome: model {ans[:40]} real {r['real_err'] or 'ok'}"
        else:
            m = _parse_answer(ans)
            bad = _compare(r, m)
            stats["wf"] += m["wf"] == "1"
            stats["multiple"] += m["multiple"] == "1"
            if not stub and r["post"]["shared"]:
                ck.count(prefix + "compiled_with_object_in_two_subgraphs")
            if not stub and (m["wf"] != "1" or m["multiple"] == "1"):
                # the theorems of Props/C12InPlace do not speak about this compiled graph (the Spec still judges it)
                ck.count(prefix + "compiled_outside_theorem_hypotheses")
                ck.notes.append(f"in-place: graph of network {o['idx']} {o['profile']} has wf={m['wf']} multiple={m['multiple']}: "
                                "outside the hypotheses of fuse_safe (judged by the Spec only)")
            nclones = sum(1 for k in r["post"]["x"] if ">" in k)
            stats["boundary_clones"] += nclones
            stats["protected_clones"] += sum(1 for k, v in r["post"]["x"].items() if ">" in k and v[0])
            stats["decisions"] += len(r["fuse"])
            stats["fused"] += sum(1 for f in r["fuse"] if f["result"] != "-")
            if nclones >= 2 and r["fuse"]:
                nontrivial.add(r["line"])
            for f in r["fuse"]:
                ck.count(prefix + ("decision_fused" if f["result"] != "-" else "decision_refused"))
                if f["memcpy"]:
                    ck.count(prefix + "decision_memcpy")
        sm = re.match(r"unsafe=(\d+) (.*?) \| clobbers=(\d+) (.*)", sa)
        if not sm:
            raise common.InfraError("unexpected inplacespec answer: " + sa[:200])
        nu, nc = int(sm.group(1)), int(sm.group(3))
        out_of_scope = stub and (m is None or m["wf"] != "1" or m["multiple"] == "1" or r["post"]["shared"])
        if (nu or nc) and out_of_scope:
            ck.count(prefix + "stub_rejections_outside_scope")
        if (nu or nc) and not out_of_scope:
            # a generated graph that is no execution order (a reader in front of a producer), breaks an invariant of
            # pack_into_passes (Lean: Graph.wf), or has a tensor written by passes of two NPU subgraphs (one object held by two
            # subgraphs: the later update_consumers resets lists of the earlier subgraph; the graph optimiser puts an ADD
            # behind every concatenation, so no such tensor is a subgraph output of a compiled graph) is only compared,
            # not judged; compiled networks are always judged
            rejected[n_i] = (r, o, sa, sm)
        if bad:
            disagreements.append((n_i, r, o, bad, ans))
    # Spec verdicts on the real decisions: the failing inputs
    reported = 0
    for n_i, (r, o, sa, sm) in rejected.items():
        key = _key_for(rules, r, _victims(sm))
        ck.count(prefix + "spec_rejections" + ("_known" if key else ""))
        if reported < 5 or key is not None:
            reported += 1
            ck.violation("an operator writes its result over a value that is still needed (in-place decision of "
                         f"_get_ifm_to_fuse): {sa} (instance {o['idx']} {o['profile']} {o.get('opts')})",
                         {"profile": o["profile"], "seed": o["seed"], "index": o["idx"], "opts": o.get("opts"),
                          "network": o.get("desc"), "inplacespec_request": r["spec"][:4000], "verdict": sa,
                          "inplace_request": r["line"][:4000]}, found_input=True, key=key)
    for n_i, r, o, bad, ans in disagreements[:5]:
        ck.violation(f"in-place model and the real code disagree: {bad} (instance {o['idx']} {o['profile']} {o.get('opts')})",
                     {"profile": o["profile"], "seed": o["seed"], "index": o["idx"], "opts": o.get("opts"),
                      "network": o.get("desc"),
                      "correspondence": "Model/InPlace.lean extract/finalCons/fused = extract_npu_subgraphs.extract_subgraph + "
                                        "Subgraph.update_consumers + live_range._get_ifm_to_fuse",
                      "request": r["line"][:6000], "real": {k: r["post"][k] for k in ("sg", "x")} if r["post"] else r["real_err"],
                      "model": ans[:3000], "spec_rejects_same_instance": n_i in rejected},
                     found_input=n_i in rejected)
    return {prefix + "stage_s": round(time.time() - t0, 2), prefix + "instances": len(inst),
            prefix + "distinct_nontrivial": len(nontrivial), prefix + "disagreements": len(disagreements),
            prefix + "spec_rejections": len(rejected), prefix + "rules": rules,
            **{prefix + k: v for k, v in stats.items()}}
