#!/venv/bin/python
"""C04 — conflicting NPU/DMA accesses are always separated by a wait or block dependency.

Proofs: Props/C04.lean (sweep of RangeSet.intersects, wait_safety over the asynchronous two-queue machine,
closed-form checker exact, blockdep_safe).  Correspondence / validation on every run:
  A  range_set.py            real RangeSet / MemoryAccessSet  vs Model/RangeSet.lean
  B  get_wait_dependency     real function over abstract conflict matrices and arbitrary queue limits
                             vs Model/Waits.lean; the Spec machine is run on the *real* waits
  C  public generator        random DMA/kernel lists through npu_generate_register_command_stream:
                             decoded KERNEL_WAIT/DMA_WAIT/BLOCKDEP (Lean decoder) vs model values; Spec on the
                             decoded stream (byte-exact conflicts, all completion schedules, block jobs)
  D  compiled networks       the same Spec check on every stream captured from the pipeline harness
"""
import itertools
import types

import c04_gen
import common
import siblings
from common import Check, main_wrapper



def kv(ans):
    d = {}
    for part in ans.split(" | "):
        for tok in part.split():
            if "=" in tok:
                k, _, v = tok.partition("=")
                d.setdefault(k, v)
    return d


def main():
    ck = Check("C04", "proof")
    ck.lean_stage(["VelaVerif.Props.C04", "VelaVerif.Props.C04Src"])
    common.setup_repo_path()
    from ethosu.vela import api, range_set
    from ethosu.vela import register_command_stream_util as rcsu
    from ethosu.vela.architecture_features import Accelerator, create_default_arch
    from ethosu.vela.errors import VelaError

    rng = ck.rng
    replay = None
    if ck.replay_arg:
        import json

        replay = json.load(open(ck.replay_arg))
        replay = replay.get("replay", replay)
    # --replay re-runs only the section the recorded input belongs to
    only = None
    if replay is not None:
        only = "C" if "ops" in replay else "D" if "profile" in replay else "B" if "kinds" in replay else "A"
    accs = list(Accelerator)
    npu_accs = {a: [n for n in api.NpuAccelerator if Accelerator.from_npu_accelerator(n) == a][0] for a in accs}
    archs = {a: create_default_arch(a) for a in accs}
    evaluations = 0
    nontrivial = set()

    # ------------------------------------------------------------------------------------------
    # A. range_set.py
    def rand_rangeset(maxn, span):
        rs = range_set.RangeSet()
        for _ in range(rng.randrange(0, maxn + 1)):
            s = rng.randrange(0, span)
            e = s + rng.choice([0, 1, 1, 2, 5, 16, rng.randrange(1, span)])
            r = rng.random()
            if r < 0.4:
                rs = rs | range_set.RangeSet(s, e)
            elif r < 0.8:
                rs = range_set.RangeSet(s, e) | rs
            else:
                rs |= range_set.RangeSet(s, e)
        return rs

    def flat(rs):
        return " ".join(f"{int(s)} {int(e)}" for s, e in rs)

    reqs, reals, metas = [], [], []
    nA = 6000 if not ck.thorough else 80000
    if only is not None:
        nA = 0
    for i in range(nA):
        span = rng.choice([8, 20, 64, 1000])
        a, b = rand_rangeset(rng.choice([0, 1, 2, 3, 6, 12]), span), rand_rangeset(rng.choice([0, 1, 2, 3, 6, 12]), span)
        reqs.append(f"rsintersects {flat(a.ranges)} | {flat(b.ranges)}")
        reals.append("1" if a.intersects(b) else "0")
        metas.append(("rs", len(a.ranges), len(b.ranges)))
        u = a | b
        reqs.append(f"rsunion {flat(a.ranges)} | {flat(b.ranges)}")
        reals.append(flat(u.ranges))
        metas.append(("union", len(a.ranges), len(b.ranges)))
    # exhaustive small scope: every pair of sorted range sets over 5 points with at most 2 ranges each
    pts = range(5)
    small = [(s, e) for s in pts for e in pts if s < e]
    sets = [()] + [(r,) for r in small] + [tuple(sorted(p)) for p in itertools.combinations_with_replacement(small, 2)]
    if only is not None:
        sets = []
    for sa in sets:
        for sb in sets:
            a, b = range_set.RangeSet(ranges=list(sa)), range_set.RangeSet(ranges=list(sb))
            reqs.append(f"rsintersects {flat(a.ranges)} | {flat(b.ranges)}")
            reals.append("1" if a.intersects(b) else "0")
            metas.append(("rs-small", len(sa), len(sb)))
    # malformed stream: unsorted lists / empty ranges handed to the sweep directly (never built by the class)
    for i in range(600 if only is None else 0):
        la = [(s, s + rng.choice([0, 1, 3, 9])) for s in (rng.randrange(0, 30) for _ in range(rng.randrange(0, 5)))]
        lb = [(s, s + rng.choice([0, 1, 3, 9])) for s in (rng.randrange(0, 30) for _ in range(rng.randrange(0, 5)))]
        a, b = range_set.RangeSet(ranges=list(la)), range_set.RangeSet(ranges=list(lb))
        try:
            out = "1" if a.intersects(b) else "0"
        except AssertionError:
            out = "err:assert"
        reqs.append(f"rsintersects {flat(la)} | {flat(lb)}")
        reals.append(out)
        metas.append(("rs-malformed", len(la), len(lb)))
    # MemoryAccessSet.add + conflicts
    for i in range(nA // 2):
        def rand_acc():
            m = range_set.MemoryAccessSet()
            toks = []
            for _ in range(rng.randrange(0, 7)):
                region = rng.choice([0, 1, 1, 2, 259])
                s = rng.randrange(0, 64)
                e = s + rng.choice([0, 1, 4, 16, 40])
                w = rng.random() < 0.4
                m.add(range_set.MemoryRangeSet(region, s, e), range_set.AccessDirection.Write if w else range_set.AccessDirection.Read)
                toks.append(f"{'w' if w else 'r'}:{region}:{s}:{e}")
            return m, toks
        a, ta = rand_acc()
        b, tb = rand_acc()
        reqs.append("accconf " + " ".join(ta) + " | " + " ".join(tb))
        reals.append("1" if a.conflicts(b) else "0")
        metas.append(("accconf", len(ta), len(tb)))
    if only == "A" and "request" in replay:
        rq = replay["request"]
        toks = rq.split()
        if toks[0] == "rsintersects":
            nums = [x for x in toks[1:]]
            la = [int(x) for x in nums[:nums.index("|")]]
            lb = [int(x) for x in nums[nums.index("|") + 1:]]
            a = range_set.RangeSet(ranges=list(zip(la[::2], la[1::2])))
            b = range_set.RangeSet(ranges=list(zip(lb[::2], lb[1::2])))
            try:
                out = "1" if a.intersects(b) else "0"
            except AssertionError:
                out = "err:assert"
            reqs.append(rq)
            reals.append(out)
            metas.append(("rs", len(la) // 2, len(lb) // 2))
    outs = ck.model(reqs)
    evaluations += len(reqs)
    disagreeA = [i for i, (m, r) in enumerate(zip(outs, reals)) if m != r]
    # Spec (quadratic definition, Spec/RangeOverlap.lean) on the real answers for everything the class can build
    specI = [i for i, mt in enumerate(metas) if mt[0] in ("rs", "rs-small")]
    specA = ck.model(["rsoverlap" + reqs[i][len("rsintersects"):] for i in specI])
    evaluations += len(specI)
    wrongA = [i for i, sp in zip(specI, specA) if sp != reals[i]]
    for (kind, x, y), r in zip(metas, reals):
        ck.count("A_" + kind)
        if kind != "union":
            ck.count(f"A_result_{r}")
        if x and y:
            nontrivial.add(("A", kind, x, y, r))
    for i in wrongA[:3]:
        ck.violation(f"RangeSet.intersects answers {reals[i]} but the range sets {'do' if reals[i] == '0' else 'do not'} overlap: `{reqs[i][:200]}`",
                     {"request": reqs[i][:1000], "implementation": reals[i], "how": "RangeSet(ranges=a).intersects(RangeSet(ranges=b)) on lists built with | and RangeSet(s, e)"})
    if disagreeA and not wrongA:
        i = min(disagreeA, key=lambda j: len(reqs[j]))
        ck.violation(f"range_set.py and Model/RangeSet.lean disagree on {len(disagreeA)} inputs, e.g. `{reqs[i][:200]}`: "
                     f"code {reals[i][:80]}, model {outs[i][:80]}",
                     {"correspondence": "A range_set", "request": reqs[i][:1000], "model": outs[i], "implementation": reals[i]},
                     found_input=False)

    # ------------------------------------------------------------------------------------------
    # B. get_wait_dependency over abstract conflict relations
    class AbsAcc:
        def __init__(self, idx, mat):
            self.idx, self.mat = idx, mat

        def conflicts(self, other):          # other_accesses.conflicts(op_accesses)
            return self.mat[self.idx][other.idx]

    def real_waits(kinds, mat, md, mk):
        arch = types.SimpleNamespace(max_outstanding_dma=md, max_outstanding_kernels=mk)
        ops = []
        for k in kinds:
            if k == "D":
                ops.append(api.NpuDmaOperation(api.NpuAddressRange(0, 0, 16), api.NpuAddressRange(1, 0, 16)))
            else:
                ops.append(api.NpuElementWiseOperation(api.NpuElementWiseOp.ABS))
        accesses = {op: AbsAcc(i, mat) for i, op in enumerate(ops)}
        od, on = [], []
        out = []
        for op in ops:
            w = rcsu.get_wait_dependency(arch, op, accesses, od, on)
            out.append(f"{w.npu},{w.dma}")
        return ";".join(out)

    casesB = []
    # exhaustive: every kind string up to length 4 with every cross-queue conflict matrix, all limits 1..2 x 1..3
    for n in range(1, 5):
        for kinds in itertools.product("DK", repeat=n):
            pairs = [(i, j) for i in range(n) for j in range(i + 1, n) if kinds[i] != kinds[j]]
            for bits in range(1 << len(pairs)):
                mat = [[False] * n for _ in range(n)]
                for b, (i, j) in enumerate(pairs):
                    if bits >> b & 1:
                        mat[i][j] = True
                for md, mk in ((1, 2), (2, 2), (1, 1), (2, 3)):
                    casesB.append(("".join(kinds), mat, md, mk))
    if only is not None:
        casesB = []
    if only == "B":
        casesB = [(replay["kinds"], [[bool(x) for x in r] for r in replay["conflicts"]], replay["max_outstanding_dma"],
                   replay["max_outstanding_kernels"])]
    nB = 20000 if not ck.thorough else 300000
    if only is not None:
        nB = 0
    for _ in range(nB):
        n = rng.choice([5, 6, 7, 8, 8, 10, 12, 16, 24])
        kinds = "".join(rng.choice("DK") for _ in range(n))
        p = rng.choice([0.1, 0.3, 0.6, 1.0])
        # same-queue entries are set at random too: the real function never looks at them
        mat = [[(i < j and rng.random() < p) for j in range(n)] for i in range(n)]
        md, mk = rng.choice([(1, 2), (2, 2), (1, 2), (2, 2), (1, 1), (3, 2), (2, 4)])
        casesB.append((kinds, mat, md, mk))
    reqsB, realsB = [], []
    for kinds, mat, md, mk in casesB:
        rows = " ".join("".join("1" if x else "0" for x in r) for r in mat)
        realsB.append(real_waits(kinds, mat, md, mk))
        reqsB.append(f"waitsabs {md} {mk} {kinds} {rows}")
    outsB = ck.model(reqsB)
    # Spec machine on the implementation's own waits (hardware queues as deep as the limits given to the code)
    specB = ck.model([f"asyncabs {md} {mk} {kinds} {w} " + " ".join("".join("1" if x else "0" for x in r) for r in mat)
                      for (kinds, mat, md, mk), w in zip(casesB, realsB)])
    evaluations += 2 * len(reqsB)
    disagreeB = [i for i, (m, r) in enumerate(zip(outsB, realsB)) if m != r]
    hazB = [i for i, s in enumerate(specB) if not s.startswith("lazy=1") or "explore=1" not in s]
    for (kinds, mat, md, mk), w in zip(casesB, realsB):
        ck.count(f"B_len_{min(len(kinds), 9)}{'+' if len(kinds) > 9 else ''}")
        nw = sum(1 for t in w.split(";") if t != "-1,-1")
        ck.count("B_with_wait" if nw else "B_no_wait")
        if any(x != "-1" and x != "0" for t in w.split(";") for x in t.split(",")):
            ck.count("B_wait_value_ge_1")
        if nw:
            nontrivial.add(("B", kinds, md, mk, w))
    for i in hazB[:3]:
        kinds, mat, md, mk = casesB[i]
        inconsistent = ("lazy=1" in specB[i]) != ("explore=1" in specB[i])
        if inconsistent:
            raise common.InfraError(f"closed-form checker and explorer disagree: {reqsB[i]} -> {specB[i]}")
        ck.violation(f"get_wait_dependency lets a hazard through: kinds {kinds}, limits dma={md} kernels={mk}, waits {realsB[i]} ({specB[i]})",
                     {"kinds": kinds, "conflicts": [[int(x) for x in r] for r in mat], "max_outstanding_dma": md,
                      "max_outstanding_kernels": mk, "real_waits": realsB[i], "spec": specB[i]})
    if disagreeB and not hazB:
        i = min(disagreeB, key=lambda j: len(reqsB[j]))
        ck.violation(f"get_wait_dependency and Model/Waits.lean disagree on {len(disagreeB)} inputs, e.g. {reqsB[i][:160]}: code {realsB[i]}, model {outsB[i]}",
                     {"correspondence": "B get_wait_dependency", "request": reqsB[i][:1500], "model": outsB[i], "implementation": realsB[i]},
                     found_input=False)
    if reqsB:
        ck.sample({"B_request": reqsB[-1][:200], "model": outsB[-1], "implementation": realsB[-1], "spec": specB[-1]})

    # ------------------------------------------------------------------------------------------
    # C. the public command-stream generator
    def fixed_lists():
        """deterministic operation lists kept because they exposed something (each was a defect of calc_blockdep that has
        been repaired in /repo; a regression shows up as a block-job VIOLATION on the list)"""
        out = []
        # producer with 1-row blocks, consumer 3x1 SAME convolution with 2-row blocks (see design.d/C04.md)
        for acc in (Accelerator.Ethos_U55_128, Accelerator.Ethos_U55_64):
            q = api.NpuQuantization(scale_f32=0.0625, zero_point=0)
            a_ = c04_gen.Buf(1, 0, 4, 8, 16, api.NpuDataType.INT8, api.NpuLayout.NHWC)
            b_ = c04_gen.Buf(1, 0x1000, 4, 8, 16, api.NpuDataType.INT8, api.NpuLayout.NHWC)
            c_ = c04_gen.Buf(1, 0x2000, 4, 8, 16, api.NpuDataType.INT8, api.NpuLayout.NHWC)
            p = api.NpuElementWiseOperation(api.NpuElementWiseOp.ABS)
            p.ifm, p.ofm = c04_gen.fm_from_buf(api, a_, q), c04_gen.fm_from_buf(api, b_, q)
            p.block_config = api.NpuShape3D(height=1, width=8, depth=16)
            c = api.NpuConv2DOperation()
            c.ifm, c.ofm = c04_gen.fm_from_buf(api, b_, q), c04_gen.fm_from_buf(api, c_, q)
            c.kernel = api.NpuKernel(3, 1)
            c.padding = api.NpuPadding(top=0, left=1, bottom=0, right=1)
            c.weights = [api.NpuAddressRange(0, 0, 1024)]
            c.biases = [api.NpuAddressRange(0, 4096, 160)]
            c.block_traversal = api.NpuBlockTraversal.DEPTH_FIRST
            c.block_config = api.NpuShape3D(height=2, width=8, depth=16)
            out.append((acc, [p, c], "fixed:1-row-producer/3x1-SAME-consumer"))
        # producer with two depth blocks, consumer REDUCE_SUM (reads every channel, OFM depth 1)
        q = api.NpuQuantization(scale_f32=0.0625, zero_point=0)
        a_ = c04_gen.Buf(1, 0, 20, 7, 24, api.NpuDataType.INT8, api.NpuLayout.NHWC)
        b_ = c04_gen.Buf(1, 0x2000, 20, 7, 24, api.NpuDataType.INT8, api.NpuLayout.NHWC)
        c_ = c04_gen.Buf(1, 0x4000, 20, 7, 1, api.NpuDataType.INT32, api.NpuLayout.NHWC)
        p = api.NpuElementWiseOperation(api.NpuElementWiseOp.ABS)
        p.ifm, p.ofm = c04_gen.fm_from_buf(api, a_, q), c04_gen.fm_from_buf(api, b_, q)
        p.block_config = api.NpuShape3D(height=16, width=8, depth=16)
        c = api.NpuPoolingOperation(api.NpuPoolingOp.REDUCE_SUM)
        c.ifm, c.ofm = c04_gen.fm_from_buf(api, b_, q), c04_gen.fm_from_buf(api, c_, q)
        c.kernel = api.NpuKernel(1, 1)
        c.padding = api.NpuPadding(top=0, left=0, bottom=0, right=0)
        c.block_config = api.NpuShape3D(height=8, width=2, depth=8)
        out.append((Accelerator.Ethos_U65_256, [p, c], "fixed:two-depth-block-producer/REDUCE_SUM-consumer"))
        # consumer reads, as NHWC, memory the producer writes as NHCWB16 (same shape, same tiles)
        q = api.NpuQuantization(scale_f32=0.0625, zero_point=0)
        a_ = c04_gen.Buf(2, 0x4000, 12, 9, 32, api.NpuDataType.INT16, api.NpuLayout.NHWC)
        w_ = c04_gen.Buf(2, 16, 12, 9, 32, api.NpuDataType.INT16, api.NpuLayout.NHCWB16)
        r_ = c04_gen.Buf(2, 16, 12, 9, 32, api.NpuDataType.INT16, api.NpuLayout.NHWC)
        o_ = c04_gen.Buf(2, 0x8000, 12, 9, 32, api.NpuDataType.INT16, api.NpuLayout.NHWC)
        p = api.NpuElementWiseOperation(api.NpuElementWiseOp.ABS)
        p.ifm, p.ofm = c04_gen.fm_from_buf(api, a_, q), c04_gen.fm_from_buf(api, w_, q)
        p.block_config = api.NpuShape3D(height=6, width=8, depth=32)
        c = api.NpuElementWiseOperation(api.NpuElementWiseOp.ABS)
        c.ifm, c.ofm = c04_gen.fm_from_buf(api, r_, q), c04_gen.fm_from_buf(api, o_, q)
        c.block_config = api.NpuShape3D(height=4, width=6, depth=16)
        out.append((Accelerator.Ethos_U55_256, [p, c], "fixed:NHCWB16-producer/NHWC-consumer-same-tiles"))
        return out

    lists = fixed_lists()
    nC = 1400 if not ck.thorough else 14000      # base lists; 75 % bring one sibling list (history)
    if only is not None:
        lists, nC = [], 0
    if only == "C":
        acc = [a for a in accs if a.value == replay["accelerator"]][0]
        lists = [(acc, [c04_gen.rebuild_op(api, d) for d in replay["ops"]], "replay:" + str(replay.get("origin")))]
        if replay.get("history_base_ops"):
            # a sibling list is replayed with its history: the base list goes through the generator first
            lists.insert(0, (acc, [c04_gen.rebuild_op(api, d) for d in replay["history_base_ops"]], "replay-history-base"))
    # ---- history: after a base list, a list that differs from it in ONE field of ONE operation is generated in the same process
    # (the sibling right after its base inside one list, or the list with the operation replaced = a later API call), followed by a
    # probe DMA that writes the last bytes of the varied operation's feature map, so that a stale address range / SHRAM footprint /
    # block dependency taken from the base shows as a missing wait (the Lean model and Spec are history-free)
    SIB_FIELDS = ["strides", "layout", "region", "tiles", "address", "activation", "lut_index", "padding", "kernel_size", "kernel_stride",
                  "kernel_dilation", "block_traversal", "block_config", "weights", "biases", "ofm_depth", "ifm_depth",
                  "dma_src", "dma_dest", "dma_length"]
    from ethosu.vela import register_command_stream_generator as rcsg

    def sib_accept(arch):
        def f(op):
            if isinstance(op, api.NpuDmaOperation):
                return True
            try:
                rcsg.get_arch_block_config(op, getattr(op, "block_traversal", api.NpuBlockTraversal.DEPTH_FIRST), arch)
                return True
            except AssertionError:
                return False
        return f

    def probe_for(op):
        """DMA that overwrites the last 16-byte granule of one feature map of `op` (harness arithmetic for the end of tile 0)"""
        if isinstance(op, api.NpuDmaOperation) or rng.random() < 0.2:
            return []
        fms = [getattr(op, nm) for nm in ("ofm", "ifm", "ifm2") if getattr(op, nm) is not None
               and not (nm == "ifm2" and op.ifm2_scalar is not None)]
        strided = [f for f in fms if f.strides is not None]
        fm = rng.choice(strided or fms)
        end = siblings.fm_hull_end(api, fm)
        at = (end - 1) // 16 * 16
        if at < fm.tiles.addresses[0]:
            return []
        src = api.NpuAddressRange(0, c04_gen.align(rng.randrange(0, 1 << 16), 16), 16)
        return [api.NpuDmaOperation(src, api.NpuAddressRange(fm.region, at, 16))]

    sib_base = {}
    for i in range(nC):
        acc = accs[i % len(accs)]
        g = c04_gen.OpGen(rng, api, npu_accs[acc], archs[acc], arena=rng.choice([1 << 12, 1 << 14, 1 << 16]))
        ops = g.gen_list(rng.choice([2, 3, 4, 6, 8, 8, 12, 20]), p_dma=rng.choice([0.2, 0.4, 0.6]))
        for k, v in g.stats.items():
            ck.count("C_gen_" + k, v)
        if ops:
            lists.append((acc, ops, f"random:{i}"))
            if rng.random() < 0.75:
                opts = {"lut_only": True, "lut_slots": g.lut_slots or list(range(8)), "regions": g.regions, "address_single_tile": True,
                        "dtype_sign": False}
                for label, place, ops2 in siblings.sibling_lists(rng, api, ops, archs[acc], 1, fields=SIB_FIELDS, opts=opts,
                                                                 accept=sib_accept(archs[acc]), probe=probe_for):
                    tag = f"sibling-of-random:{i}:{label}:{place}"
                    lists.append((acc, ops2, tag))
                    sib_base[tag] = ops
                    ck.count("C_sibling_lists")
                    ck.count("C_sibling_field_" + label.split("@")[0].split("+")[0])
    reqsC, ownersC = [], []
    for acc, ops, tag in lists:
        try:
            words = api.npu_generate_register_command_stream(ops, npu_accs[acc])
        except (VelaError, AssertionError) as e:
            ck.count("C_rejected_" + type(e).__name__)
            continue
        ck.count("C_accepted")
        reqsC.append(f"c04ops acc={accs.index(acc)} explore=12 ops={';'.join(c04_gen.ser_op(api, o) for o in ops)} "
                     f"words={','.join(str(int(w)) for w in words)}")
        ownersC.append((acc, ops, tag))
    outsC = ck.model(reqsC)
    evaluations += len(reqsC)
    disagreeC, specfailC = [], []
    for i, (ans, (acc, ops, tag)) in enumerate(zip(outsC, ownersC)):
        d = kv(ans)
        if "decode" in d and "stream" not in d:
            raise common.InfraError(f"Lean decoder rejects an emitted stream: {ans[:300]}")
        if d.get("model", "").startswith("err"):
            ck.count("C_model_error")
        if d.get("agree") != "1":
            disagreeC.append(i)
        if d.get("explore") not in ("skip", d.get("lazy")):
            raise common.InfraError(f"closed-form checker and explorer disagree on a decoded stream: {ans[:300]}")
        triples = d.get("stream", "").split(";")
        nd = sum(1 for o in ops if isinstance(o, api.NpuDmaOperation))
        ck.count(f"C_ops_{min(len(ops), 9)}{'+' if len(ops) > 9 else ''}")
        has_wait = any(t.split(",")[0] != "-1" or t.split(",")[1] != "-1" for t in triples if t)
        bds = sorted({t.split(",")[2] for t in triples if t and t.split(",")[2] != "-1"})
        for b in bds:
            ck.count("C_blockdep_" + b)
        if has_wait:
            ck.count("C_stream_with_wait")
        if any(t and (t.split(",")[0] not in ("-1", "0") or t.split(",")[1] not in ("-1", "0")) for t in triples):
            ck.count("C_wait_value_ge_1")
        if has_wait or (nd and len(ops) > nd) or len(bds) > 1:
            nontrivial.add(("C", d.get("stream")))
        for pth in d.get("paths", "").split(","):
            if pth:
                ck.count("C_blockdep_path_" + pth)
        if d.get("skip", "0") != "0":
            ck.count("C_observation_overlap_with_kernel_two_back", int(d["skip"]))
        if d.get("lazy") != "1":
            specfailC.append((i, "hazard", d.get("first", "")))
        if d.get("blockjobs", "0") != "0":
            specfailC.append((i, "blockjobs", ans.split("blockjobs=", 1)[1][:3000]))

    def replayC(i, extra=None):
        acc, ops, tag = ownersC[i]
        r = {"accelerator": acc.value, "ops": [c04_gen.describe_op(api, o) for o in ops], "origin": tag,
             "lean_answer": outsC[i][:1500], "how": "api.npu_generate_register_command_stream(ops, accelerator); request = c04ops line",
             "request_head": reqsC[i][:400]}
        if tag in sib_base:
            r["history_base_ops"] = [c04_gen.describe_op(api, o) for o in sib_base[tag]]
            r["history"] = "this list was generated in the same process right after `history_base_ops`, from which it differs in the " \
                           "field named in `origin` (+ a probe DMA); a fresh process may not reproduce the verdict without the base"
        r.update(extra or {})
        return r

    seen_kinds = set()
    reportedC = 0
    for i, kind, msg in specfailC:
        if reportedC >= 6 or ((kind, msg[:30]) in seen_kinds):
            ck.count("C_spec_rejections_not_listed")
            continue
        seen_kinds.add((kind, msg[:30]))
        reportedC += 1
        acc, ops, tag = ownersC[i]
        if kind == "hazard":
            ck.violation(f"emitted stream allows a cross-queue hazard ({acc.value}, {len(ops)} ops, {tag}): first={msg}", replayC(i))
        else:
            ck.violation(f"emitted BLOCKDEP allows a read-after-write overlap between consecutive kernels ({acc.value}, {tag}): {msg[:200]}",
                         replayC(i))
    if disagreeC and not specfailC:
        i = min(disagreeC, key=lambda j: len(reqsC[j]))
        ck.violation(f"decoded KERNEL_WAIT/DMA_WAIT/BLOCKDEP differ from the model on {len(disagreeC)} of {len(reqsC)} generated streams "
                     f"(e.g. {ownersC[i][2]}, {ownersC[i][0].value}): {outsC[i][:300]}",
                     replayC(i, {"correspondence": "C generate_command_stream vs Model/Waits+Blockdep"}), found_input=False)
    if outsC:
        ck.sample({"C_ops": [c04_gen.describe_op(api, o) for o in ownersC[-1][1]][:3], "answer": outsC[-1][:300]})

    # ------------------------------------------------------------------------------------------
    # D. streams of compiled networks
    import pipe_common

    nD = 48 if not ck.thorough else 700
    wantD = {"words": True}
    outsD = pipe_common.run_corpus(ck, nD, want=wantD) if only in (None, "D") else []
    if only is None:
        # generated networks kept because they exposed something: (profile, seed, index)
        #   mixed/0/308  int16 MINIMUM -> RESIZE_BILINEAR: tile-aliased explicit padding (IFM shape must cover the padded window)
        for prof, sd, ix in [("mixed", 0, 308)]:
            outsD.append(pipe_common._worker((sd, ix, prof, wantD)))
    reqsD, ownersD = [], []
    for o in outsD:
        ck.count("D_status_" + str(o.get("status", "harness-exception")))
        if "harness_exception" in o:
            raise common.InfraError("pipeline worker failed:\n" + o["harness_exception"])
        if o.get("harness_errors"):
            raise common.InfraError("stream_line failed:\n" + o["harness_errors"][0])
        if not o.get("cmd_words"):
            continue
        ai = [a.value for a in accs].index(o["acc"])
        for si, ws in enumerate(o["cmd_words"]):
            reqsD.append(f"c04stream acc={ai} explore=10 words={','.join(str(int(w)) for w in ws)}")
            ownersD.append((o, si))
    ansD = ck.model(reqsD) if reqsD else []
    evaluations += len(reqsD)
    programs = 0
    reportedD = 0
    for (o, si), ans, rq in zip(ownersD, ansD, reqsD):
        d = kv(ans)
        programs += 1
        rep = {"profile": o["profile"], "seed": o["seed"], "index": o["idx"], "opts": o.get("opts"), "network": o.get("desc"),
               "stream": si, "lean_answer": ans[:1500],
               "how_to_replay": "harness/pipe_common._worker((seed, index, profile, {'stream': True})); request = c04stream line",
               "request_head": rq[:300]}
        if d.get("decode") != "ok":
            ck.violation(f"stream of network {o['idx']} ({o['profile']}) does not decode: {ans[:200]}", rep)
            continue
        nops, ndma, nw = int(d.get("ops", 0)), int(d.get("dma", 0)), int(d.get("waits", 0))
        ck.count("D_ops", nops)
        ck.count("D_dma_ops", ndma)
        ck.count("D_ops_with_wait", nw)
        for f in o.get("features", []):
            ck.count("D_feature_" + f)
        if d.get("skip", "0") != "0":
            ck.count("D_observation_overlap_with_kernel_two_back", int(d["skip"]))
        if ndma and nops > ndma:
            nontrivial.add(("D", o["profile"], o["idx"], si, tuple(o.get("opts", []))))
        if d.get("explore") not in ("skip", d.get("lazy")):
            raise common.InfraError(f"closed-form checker and explorer disagree on a pipeline stream: {ans[:300]}")
        if d.get("lazy") != "1":
            reportedD += 1
            if reportedD <= 6:
                ck.violation(f"compiled network {o['idx']} ({o['profile']} {o.get('opts')}): cross-queue hazard, first={d.get('first')}", rep)
            else:
                ck.count("D_spec_rejections_not_listed")
        if d.get("blockjobs", "0") != "0":
            msg = ans.split("blockjobs=", 1)[1][:3000]
            reportedD += 1
            if reportedD <= 6:
                ck.violation(f"compiled network {o['idx']} ({o['profile']} {o.get('opts')}): BLOCKDEP allows a read-after-write overlap: "
                             + msg[:300], rep)
            else:
                ck.count("D_spec_rejections_not_listed")
    if ansD:
        ck.sample({"D_network": ownersD[0][0].get("desc"), "opts": ownersD[0][0].get("opts"), "answer": ansD[0][:200]})

    unreached = [p for p in ("noPrev", "lutShram", "both", "noOverlap", "broadcastIfm2", "loop")
                 if not ck.counters.get("C_blockdep_path_" + p)] if only is None else []
    if only is None:
        for name, key in (("waits: wait value >= 1", "C_wait_value_ge_1"), ("range_set: assertion in the sweep", "A_result_err:assert")):
            if not ck.counters.get(key):
                unreached.append(name)
    ck.finish({
        "unreached_branches": unreached,
        "evaluations": evaluations,
        "distinct_nontrivial": len(nontrivial),
        "rule": "A: distinct (kind, sizes, result) with both range sets non-empty; B: distinct (kinds, limits, waits) with at least one wait; "
                "C: distinct decoded (kernel_wait, dma_wait, blockdep) sequences of accepted operation lists that mix DMA and kernel "
                "operations or contain a wait or two different BLOCKDEP values; D: compiled streams that contain DMA and kernel operations",
        "programs": programs,
        "rangeset_cases": len(reqs), "rangeset_disagreements": len(disagreeA),
        "abstract_wait_cases": len(reqsB), "abstract_wait_disagreements": len(disagreeB), "abstract_hazards": len(hazB),
        "generator_streams": len(reqsC), "generator_disagreements": len(disagreeC), "generator_spec_rejections": len(specfailC),
        "pipeline_streams": len(reqsD),
        "exhaustive": "B: all operation lists of length <= 4 with every cross-queue conflict matrix, 4 limit pairs; "
                      "A: all pairs of sorted range sets with <= 2 ranges over 5 points",
        "trusted_base_extra": [
            "execution model of Spec/AsyncHw.lean and Spec/BlockJobs.lean (in-order queues with bounded outstanding counts; block-job order; "
            "`f + k < BLOCKDEP` reading of the block dependency; only read-after-write between consecutive kernels)",
            "hardware outstanding limits written in Spec/Conflicts.hwCaps (U55: 1 DMA / 2 kernels, U65: 2 / 2)",
        ],
    }, assumptions=["conflicts between operations of the same queue are ordered by the queue (DMA in order; kernels by BLOCKDEP against the "
                    "immediately preceding kernel only)",
                    "a kernel operation's SHRAM footprint is [0, IB_END) + [AB_START, top of usable SHRAM or LUT window)",
                    "API callers pass IFM shapes consistent with OFM, kernel, stride and padding"])


main_wrapper(main)
