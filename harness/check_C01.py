#!/venv/bin/python
"""C01 — the compiled model computes the same function as the source model.

Translation validation by execution, judged in Lean: every generated network is compiled with the real
compiler under a sampled configuration; the source model (plain flatbuffer walk) is executed by the Lean
integer reference kernels (Spec/TfliteRef.lean); the output model is executed by the same kernels for its
CPU operators and by the Lean command-stream executor (Spec/NpuSem.lean) for every Ethos-U operator, over
the constants region bytes, command words and arena offsets stored in the output file. Lean compares the
output tensors for K input tensors per network (bit-exact, or within one step for the documented
approximations) and returns the verdict."""
import json
import multiprocessing
import os
import random
import re
import sys
import traceback
import zlib
from concurrent.futures import ProcessPoolExecutor, ThreadPoolExecutor

import numpy as np

import common
from common import Check, main_wrapper

PROFILES = ["conv", "elementwise", "memory", "cascade", "mixed", "cpu", "approx", "cascade", "weights", "mixed", "softmax", "inplace",
            "shared"]


# ------------------------------------------------------------------------------------------------
# network generator (small tensors so that Lean executes both sides quickly)


def _same_quant(b, dst, src):
    b.t(dst).scales, b.t(dst).zps = list(b.t(src).scales), list(b.t(src).zps)


def make_builder(rng, name, dtype):
    """netgen.B with zero points that are mostly inside the range: a zero point at the end of the range combined
    with a RELU makes a tensor constant, and a constant tensor hides most differences."""
    import netgen

    class B2(netgen.B):
        def fm(self, shape, dtype=None, scale=None, zp=None, name=None):
            dt = dtype or self.dtype
            if zp is None and dt in ("int8", "uint8"):
                lo, hi = netgen._qrange(dt)
                r = self.rng.random()
                zp = (lo + hi + 1) // 2 if r < 0.25 else (self.rng.choice([lo, hi]) if r < 0.33 else self.rng.randint(lo + 20, hi - 20))
            return super().fm(shape, dtype, scale, zp, name)

    return B2(rng, name, dtype)


def pick_padding(rng, k, s):
    return rng.choice(["SAME", "VALID"])


def add_softmax(b, rng, x, beta=None):
    """SOFTMAX over the innermost dimension with the output quantisation the reference kernels demand"""
    import netgen

    xt = b.t(x)
    if beta is None:
        beta = rng.choice([0.1, 0.7, 1.0, 1.0, 1.3, 3.0, round(rng.uniform(0.05, 4.0), 3)])
    o = b.fm(list(xt.shape), xt.dtype, scale=1.0 / 256 if xt.dtype != "int16" else 1.0 / 32768,
             zp={"int8": -128, "uint8": 0, "int16": 0}[xt.dtype])
    b.net.ops.append(netgen.Op("SOFTMAX", [x], [o], ("SoftmaxOptions", dict(Beta=float(beta)))))
    b.net.desc.append(f"softmax(beta={beta})")
    return o


def reshape_like(b, rng, t):
    """a RESHAPE-like operator behind `t` (rank 4): Vela bypasses memory-only operators, so the producer's lowering then sees the
    reshaped tensor; returns the new tensor (rank 4 or 2)"""
    import netgen

    tt = b.t(t)
    n, hh, ww, cc = tt.shape
    style = rng.choice(["flat", "hw1c", "1hwc", "whc", "squeeze"])
    b.net.desc.append("then_reshape:" + style)
    if style == "flat":
        return b.reshape(t, [1, hh * ww * cc])
    if style == "hw1c":
        return b.reshape(t, [1, hh * ww, 1, cc])
    if style == "1hwc":
        return b.reshape(t, [1, 1, hh * ww, cc])
    if style == "whc" or not (hh == 1 or ww == 1):
        return b.reshape(t, [1, ww, hh, cc])
    ax = 1 if hh == 1 else 2
    sq = b.fm([d for i, d in enumerate(tt.shape) if i != ax], tt.dtype, scale=tt.scales[0], zp=tt.zps[0])
    b.net.ops.append(netgen.Op("SQUEEZE", [t], [sq], ("SqueezeOptions", dict(SqueezeDims=[ax]))))
    return b.reshape(sq, [1, hh * ww * cc])


def gen_softmax(rng, idx):
    """SOFTMAX behind 0-2 ordinary operators; rank 2-4; beta not only 1.0 (the table of exponentials depends on it)"""
    dtype = rng.choice(["int8"] * 5 + ["uint8"] * 3 + ["int16"] * 1)
    b = make_builder(rng, f"c01_softmax_{idx}", dtype)
    h, w, c = rng.choice([1, 1, 2, 3, 5]), rng.choice([1, 1, 2, 4, 7]), rng.choice([1, 2, 3, 5, 10, 16, 17, 33, 40])
    n = rng.choice([1] * 8 + [2, 3])          # batch > 1 is accepted for SOFTMAX (folded into the height)
    x = b.input([n, h, w, c])
    b.net.desc.append(f"profile=softmax dtype={dtype} in={[n, h, w, c]}")
    cur = x
    pre = rng.choice(["none", "none", "conv1x1", "fc", "add_self", "reshape2", "reshape3"]) if n == 1 else "none"
    b.net.desc.append(pre)
    if pre == "conv1x1":
        cur = b.conv(cur, rng.choice([2, 5, 10, 16, 21]), (1, 1), (1, 1), (1, 1), "SAME", act=0)
    elif pre == "fc" and h * w * c <= 512:
        cur = b.fc(b.reshape(cur, [1, h * w * c]), rng.choice([2, 10, 16, 33]), act=0)
    elif pre == "add_self":
        cur = b.binary("ADD", cur, cur)
    elif pre == "reshape2":
        cur = b.reshape(cur, [h * w, c])
    elif pre == "reshape3":
        cur = b.reshape(cur, [h, w, c])
    y = add_softmax(b, rng, cur)
    if len(b.t(y).shape) == 4 and b.t(y).shape[0] == 1 and rng.random() < 0.2:
        y = reshape_like(b, rng, y)
    return b.finish([y])


def gen_inplace(rng, idx):
    """A tensor produced outside the Ethos-U operator (graph input or output of a CPU-resident operator) that is read by one
    elementwise operator whose result may be written over it AND by something that runs later: a CPU-resident operator that
    also needs the elementwise result (MINIMUM / MAXIMUM of differently quantised tensors is not supported by the NPU and the
    reference kernel takes the raw minimum / maximum), or a second Ethos-U operator behind that CPU operator. Overwriting the
    tensor is only allowed when nothing reads it afterwards (`ifm_write_protected`)."""
    import netgen

    dtype = rng.choice(["int8"] * 6 + ["uint8"] * 3 + ["int16"] * 1)
    b = make_builder(rng, f"c01_inplace_{idx}", dtype)
    variant = rng.choice(["cpu_reader", "cpu_reader", "cpu_produced", "second_island", "two_inputs"])
    h, w = rng.randint(1, 10), rng.randint(1, 10)
    c = rng.choice([1, 3, 4, 8, 16, 17])
    x = b.input([1, h, w, c])
    b.net.desc.append(f"profile=inplace variant={variant} dtype={dtype} in={[1, h, w, c]}")
    src = x
    if variant == "cpu_produced":
        src = b.conv(x, rng.choice([4, 8]), (1, 1), (4, 4), (1, 1), "SAME", act=0)     # mostly CPU-resident (stride 4)
    lo, hi = netgen._qrange(dtype)

    def elementwise(t):
        tt = b.t(t)
        kind = rng.choice(["ADD", "SUB", "MUL", "ADD", "MINIMUM", "MAXIMUM", "LEAKY_RELU"])
        b.net.desc.append("ew:" + kind)
        if kind == "LEAKY_RELU":
            return b.unary("LEAKY_RELU", t)
        same = kind in ("MINIMUM", "MAXIMUM")
        if variant == "two_inputs":
            other = b.input(list(tt.shape), scale=tt.scales[0], zp=tt.zps[0]) if same else b.input(list(tt.shape))
        else:
            shp = rng.choice([list(tt.shape), list(tt.shape), [1, 1, 1, tt.shape[3]], [1, 1, 1, 1]])
            r = np.random.RandomState(rng.getrandbits(32))
            other = b.const(shp, dtype, r.randint(lo, hi + 1, int(np.prod(shp))), [tt.scales[0] if same else netgen.rand_scale(rng)],
                            [tt.zps[0] if same else netgen.rand_zp(rng, dtype)])
        args = (t, other) if rng.random() < 0.7 else (other, t)
        return b.binary(kind, *args)

    def cpu_minmax(p, q):
        # output quantisation differs from both inputs: stays on the CPU
        o = b.fm(list(b.t(p).shape), dtype)
        kind = rng.choice(["MINIMUM", "MAXIMUM"])
        b.net.ops.append(netgen.Op(kind, [p, q], [o], ("MaximumMinimumOptions", {})))
        b.net.desc.append("cpu:" + kind)
        return o

    if rng.random() < 0.15 and variant in ("cpu_reader", "cpu_produced"):
        # the elementwise operator reads the tensor through a RESHAPE (kept as a copy because its input has other readers)
        st_ = b.t(src).shape
        e = elementwise(b.reshape(src, [1, st_[2], st_[1], st_[3]]))
        b.net.desc.append("through_reshape")
        return b.finish([src, e] if src != x else [e, cpu_minmax(src, b.reshape(e, list(st_)))])
    e = elementwise(src)
    z = cpu_minmax(*((src, e) if rng.random() < 0.5 else (e, src)))
    outs = [z] if rng.random() < 0.6 else [e, z]
    if variant == "second_island":
        u = b.binary(rng.choice(["ADD", "MUL", "SUB"]), src, z)
        outs = [u] if rng.random() < 0.5 else [z, u]
    return b.finish(outs)


def gen_shared(rng, idx):
    """Several operators that share ONE weight tensor and / or ONE bias tensor of the file but differ in what the compiler does
    with it: stride (a 2x2 stride-2 VALID convolution on an IFM of depth <= 4 that is the first operator is re-laid by
    fixup_strided_conv), dilation (> 2: fixup_dilation_gt2), IFM / OFM scales, bias, convolution vs transposed convolution,
    depthwise convolutions. The compressed-weight cache is keyed by the tensor's value id: a rewrite that changes the values
    without refreshing the id hands one operator the other's weights (round-4 seeded change C08-m1 = C07-m1)."""
    import netgen

    dtype = rng.choice(["int8"] * 6 + ["uint8"] * 3 + ["int16"] * 1)
    b = make_builder(rng, f"c01_shared_{idx}", dtype)
    c = rng.choice([1, 2, 3, 4, 4, 4, 8, 16])
    h, w = rng.choice([4, 6, 8, 9, 10]), rng.choice([4, 6, 8, 9, 10])
    x = b.input([1, h, w, c])
    b.net.desc.append(f"profile=shared dtype={dtype} in={[1, h, w, c]}")
    outs = []

    def conv_with(t, wt, bt, k, stride, dilation, padding, act=0):
        tt = b.t(t)
        oc = b.t(wt).shape[0]
        oh, ow = b._out_hw(tt.shape[1], tt.shape[2], k[0], k[1], stride[0], stride[1], dilation[0], dilation[1], padding)
        if oh < 1 or ow < 1:
            return None
        y = b.fm([1, oh, ow, oc], dtype)
        b.net.ops.append(netgen.Op("CONV_2D", [t, wt] + ([bt] if bt is not None else []), [y], ("Conv2DOptions", dict(
            Padding=0 if padding == "SAME" else 1, StrideW=stride[1], StrideH=stride[0],
            DilationWFactor=dilation[1], DilationHFactor=dilation[0], FusedActivationFunction=act))))
        return y

    if rng.random() < 0.2:
        # depthwise convolutions sharing weights and bias
        k = rng.choice([(3, 3), (2, 2), (1, 3)])
        y0 = b.dwconv(x, k, (1, 1), (1, 1), "SAME", act=0)
        first = b.net.ops[-1]
        wt, bt = first.inputs[1], first.inputs[2]
        outs.append(y0)
        for _ in range(rng.randint(1, 2)):
            src = rng.choice([x, b.unary("RELU", x), b.pool(x, "MAX_POOL_2D", (2, 2), (1, 1), "SAME")])
            st = rng.choice([(1, 1), (2, 2), (1, 1)])
            dl = rng.choice([(1, 1), (2, 2), (3, 3)]) if st == (1, 1) else (1, 1)
            tt = b.t(src)
            oh, ow = b._out_hw(tt.shape[1], tt.shape[2], k[0], k[1], st[0], st[1], dl[0], dl[1], "SAME")
            y = b.fm([1, oh, ow, c], dtype)
            b.net.ops.append(netgen.Op("DEPTHWISE_CONV_2D", [src, wt, bt], [y], ("DepthwiseConv2DOptions", dict(
                Padding=0, StrideW=st[1], StrideH=st[0], DepthMultiplier=1, DilationWFactor=dl[1], DilationHFactor=dl[0],
                FusedActivationFunction=0))))
            outs.append(y)
        b.net.desc.append("depthwise")
        return b.finish(outs)
    oc = rng.choice([2, 4, 8, 16])
    k = rng.choice([(2, 2), (2, 2), (3, 3), (1, 1), (2, 3)])
    first_kind = rng.choice(["strided_first", "strided_first", "plain"])
    if first_kind == "strided_first":
        y0 = b.conv(x, oc, k, (2, 2), (1, 1), "VALID", act=0)
    else:
        y0 = b.conv(x, oc, k, (1, 1), (1, 1), rng.choice(["SAME", "VALID"]), act=rng.choice([0, 1]))
    if y0 is None:
        y0 = b.conv(x, oc, (1, 1), (1, 1), (1, 1), "SAME", act=0)
        k = (1, 1)
    first = b.net.ops[-1]
    wt, bt = first.inputs[1], first.inputs[2]
    outs.append(y0)
    for _ in range(rng.randint(1, 3)):
        kind = rng.choice(["stride", "dilation", "other_input", "new_bias", "tconv", "shared_bias_only"])
        b.net.desc.append(kind)
        new = None
        if kind == "stride":
            new = conv_with(x, wt, bt, k, rng.choice([(1, 1), (2, 2), (3, 3), (1, 2)]), (1, 1), rng.choice(["SAME", "VALID"]))
        elif kind == "dilation":
            new = conv_with(x, wt, bt, k, (1, 1), rng.choice([(2, 2), (3, 3), (4, 4), (3, 1)]), "SAME", act=rng.choice([0, 1]))
        elif kind == "other_input":
            src = rng.choice([b.unary("RELU", x), b.pool(x, "MAX_POOL_2D", (2, 2), (1, 1), "SAME"), b.quantize(x)])
            new = conv_with(src, wt, bt, k, rng.choice([(1, 1), (2, 2)]), (1, 1), rng.choice(["SAME", "VALID"]))
        elif kind == "new_bias":
            br = np.random.RandomState(rng.getrandbits(32))
            bt2 = b.const([oc], b.t(bt).dtype, br.randint(-2000, 2000, oc), list(b.t(bt).scales), [0] * len(b.t(bt).scales), 0, b.fresh("b"))
            new = conv_with(x, wt, bt2, k, rng.choice([(1, 1), (2, 2)]), (1, 1), rng.choice(["SAME", "VALID"]))
        elif kind == "tconv" and dtype != "int16" and len(b.t(wt).scales) == 1 and h * w <= 64:
            st = (2, 2)
            oh, ow = h * 2, w * 2
            os_ = b.const([4], "int32", [1, oh, ow, oc], name=b.fresh("oshape"))
            new = b.fm([1, oh, ow, oc], dtype)
            b.net.ops.append(netgen.Op("TRANSPOSE_CONV", [os_, wt, x, bt], [new], ("TransposeConvOptions", dict(
                Padding=0, StrideW=st[1], StrideH=st[0]))))
        elif kind == "shared_bias_only":
            y2 = b.conv(x, oc, rng.choice([(1, 1), (3, 3)]), (1, 1), (1, 1), "SAME", act=0, per_channel=len(b.t(wt).scales) > 1)
            if y2 is not None:
                op2 = b.net.ops[-1]
                if len(b.t(op2.inputs[1]).scales) == len(b.t(wt).scales):
                    op2.inputs[2] = bt
                new = y2
        if new is not None:
            outs.append(new)
    return b.finish(outs)


def gen_net(rng, idx, profile):
    import netgen

    if profile == "ranks":
        # every accelerated operator kind on ranks 1-4 (5-6 rarely), positive and negative axis attributes (harness/gen_ranksweep.py)
        import gen_ranksweep

        return gen_ranksweep.c01_net(rng, idx, make_builder)
    if profile == "resizecasc":
        # round 6: 2x resize -> stride {3, 2, 1} consumer in one cascade (harness/gen_resizecasc.py)
        import gen_resizecasc

        return gen_resizecasc.c01_net(rng, idx, make_builder)
    if profile == "ssmask":
        # STRIDED_SLICE mask algebra on ranks 1-4 (harness/gen_ssmask.py)
        import gen_ssmask

        return gen_ssmask.c01_net(rng, idx, make_builder)
    if profile == "shared":
        if (idx // len(PROFILES)) % 2 == 1:
            # every other network of the profile: the shared-filter families of harness/netgen_shared.py (one per weight re-laying
            # rewrite, users differing in the parameter the rewrite reads), the axes in turn
            import netgen_shared

            ax = netgen_shared.AXES[(idx // (2 * len(PROFILES))) % len(netgen_shared.AXES)]
            return netgen_shared.build(rng, idx, ax, small=True, make_b=make_builder, name=f"c01_shared_{idx}")
        return gen_shared(rng, idx)
    if profile == "softmax":
        return gen_softmax(rng, idx)
    if profile == "inplace":
        return gen_inplace(rng, idx)
    dtype = rng.choice(["int8"] * 6 + ["uint8"] * 3 + ["int16"] * 1)
    b = make_builder(rng, f"c01_{profile}_{idx}", dtype)
    if profile == "cascade":
        h, w, c = rng.choice([10, 12, 16, 20, 24]), rng.choice([4, 6, 8]), rng.choice([4, 8, 16])
    elif profile == "weights":
        h, w, c = rng.randint(1, 4), rng.randint(1, 4), rng.choice([16, 32, 48])
    else:
        h, w, c = rng.randint(1, 12), rng.randint(1, 12), rng.choice([1, 2, 3, 4, 8, 16, 16, 17, 24])
    if profile in ("weights", "conv") and rng.random() < 0.15:
        h = w = 1            # convolutions on a 1x1 map (a 1x1 kernel is rewritten to a fully connected operator)
    x = b.input([1, h, w, c])
    b.net.desc.append(f"profile={profile} dtype={dtype} in={[1, h, w, c]}")
    menu = {
        "conv": ["conv", "conv", "conv1x1", "dwconv", "maxpool", "avgpool_valid", "relu", "fc_end", "tconv", "fc_batch", "avgpool_wide"],
        "elementwise": ["add_self", "add_skip", "mul_const", "sub_const", "add_const", "minmax", "relu", "lrelu", "quantize",
                        "conv1x1", "mul_skip", "hswish", "add_const", "sqdiff", "abs", "prelu"],
        "memory": ["concat", "split_concat", "slice", "pad_conv", "reshape_back", "conv1x1", "relu", "maxpool", "pad", "squeeze_expand",
                   "transpose", "slice_op", "split_v", "pack_end", "unpack_end", "abs"],
        "cascade": ["conv", "conv", "dwconv", "maxpool", "avgpool_valid", "conv1x1", "add_skip", "relu"],
        "weights": ["conv", "conv1x1", "conv1x1", "fc_end", "dwconv"],
        "cpu": ["conv_cpu", "conv", "add_self", "relu", "maxpool", "conv1x1", "conv_cpu", "concat"],
        "approx": ["conv", "conv1x1", "relu", "add_self", "maxpool"],
    }
    allk = sorted({k for v in menu.values() for k in v})
    live = [x]
    cur = x
    avoid = set()
    nops = rng.randint(1, 5 if profile != "cascade" else 4)
    stop, unpacked = False, None
    for step in range(nops):
        xt = b.t(cur)
        if len(xt.shape) != 4 or stop:
            break
        kind = rng.choice(menu.get(profile, allk))
        # The one composition that hits the open finding (known_findings.txt, reproduced deterministically by a corpus
        # network) is kept rare in the random part so that it does not mask anything else.
        if kind in avoid and rng.random() < 0.995:
            kind = rng.choice(["conv1x1", "add_self", "mul_const"])
        n, hh, ww, cc = xt.shape
        new = None
        b.net.desc.append(kind)
        if kind == "conv":
            k = rng.choice([(1, 1), (3, 3), (3, 3), (5, 5), (2, 2), (1, 3), (3, 1), (2, 3)])
            s = rng.choice([(1, 1), (1, 1), (2, 2), (3, 3), (1, 2), (2, 1)])
            d = rng.choice([(1, 1)] * 6 + [(2, 2)] * 2 + [(3, 3)]) if s == (1, 1) else (1, 1)      # > 2: fixup_dilation_gt2
            oc = rng.choice([1, 3, 4, 8, 16, 17]) if profile != "weights" else rng.choice([32, 48, 64])
            new = b.conv(cur, oc, k, s, d, pick_padding(rng, k, s), act=rng.choice([0, 0, 1, 3, 2]))
        elif kind == "conv_cpu":      # stride 4 is outside what the NPU supports: stays on the CPU
            new = b.conv(cur, rng.choice([4, 8]), (1, 1), (4, 4), (1, 1), "SAME", act=0)
        elif kind == "conv1x1":
            new = b.conv(cur, rng.choice([4, 8, 16, 24]), (1, 1), (1, 1), (1, 1), "SAME", act=rng.choice([0, 1]))
        elif kind == "dwconv":
            k = rng.choice([(3, 3), (3, 3), (5, 5), (2, 2), (1, 1), (1, 3)])
            s = rng.choice([(1, 1), (1, 1), (2, 2), (3, 3)])
            new = b.dwconv(cur, k, s, (1, 1), pick_padding(rng, k, s), act=rng.choice([0, 1, 3]))
        elif kind == "avgpool_wide" and ww >= 8 and xt.dtype != "int16":
            # stride width above 3: converted to a convolution whose width is folded into the channels
            k = rng.choice([(2, 2), (1, 2), (2, 4), (1, 4)])
            new = b.pool(cur, "AVERAGE_POOL_2D", k, (rng.choice([1, 2]), rng.choice([4, 4, 5, 6])), "VALID")
        elif kind in ("maxpool", "avgpool_valid", "avgpool_same"):
            k = rng.choice([(2, 2), (3, 3), (2, 2), (1, 1), (4, 4), (2, 3)])
            s = rng.choice([(1, 1), (2, 2), (2, 2), (3, 3)])
            pad = "SAME" if kind == "avgpool_same" else ("VALID" if kind == "avgpool_valid" else pick_padding(rng, k, s))
            new = b.pool(cur, "MAX_POOL_2D" if kind == "maxpool" else "AVERAGE_POOL_2D", k, s, pad, act=rng.choice([0, 0, 1]))
        elif kind == "add_self":
            new = b.binary(rng.choice(["ADD", "SUB", "MUL"]), cur, cur)
        elif kind in ("add_skip", "mul_skip"):
            cands = [t for t in live if b.t(t).shape == xt.shape and b.t(t).dtype == xt.dtype]
            new = b.binary(rng.choice(["ADD", "ADD", "SUB"]) if kind == "add_skip" else "MUL", cur, rng.choice(cands),
                           act=rng.choice([0, 0, 1, 3]))
        elif kind in ("mul_const", "sub_const", "add_const"):
            shp = rng.choice([[1, 1, 1, cc], [1, 1, 1, 1], list(xt.shape), [1, 1, ww, cc]])
            lo, hi = netgen._qrange(xt.dtype)
            r = np.random.RandomState(rng.getrandbits(32))
            first = rng.random() < 0.4
            # a constant / broadcast FIRST operand with the smaller scale: operands are swapped and the scaled one changes sides
            c_scale = float(np.float32(xt.scales[0] * rng.uniform(0.05, 0.9))) if first and rng.random() < 0.6 else netgen.rand_scale(rng)
            c2 = b.const(shp, xt.dtype, r.randint(lo, hi + 1, int(np.prod(shp))), [c_scale], [netgen.rand_zp(rng, xt.dtype)])
            args = (c2, cur) if first else (cur, c2)
            new = b.binary({"mul_const": "MUL", "sub_const": "SUB", "add_const": "ADD"}[kind], *args)
        elif kind == "minmax":
            other = b.pool(cur, "MAX_POOL_2D", (3, 3), (1, 1), "SAME") if rng.random() < 0.5 else cur
            new = b.binary(rng.choice(["MINIMUM", "MAXIMUM"]), cur, other)
        elif kind == "relu":
            new = b.unary(rng.choice(["RELU", "RELU6", "RELU_N1_TO_1"]), cur)
        elif kind == "lrelu":
            new = b.unary("LEAKY_RELU", cur)
            if rng.random() < 0.4:
                _same_quant(b, new, cur)
            # a NEGATIVE alpha on every third-or-so operator (own generator, a function of (index, step): the random stream of the
            # networks is what it was). int8 / uint8: table lookup, must stay bit-exact. int16: lowered to MIN, int32 MUL by the
            # negative quantised multiplier, RELU, ADD (C06 finding int16-lrelu-negative-alpha-negative-ofm-scale) - or, on a tree
            # with repair C16-20 (constraint_alpha_valid), left on the CPU.
            r2 = random.Random((idx * 7919 + step) * 31 + 5)
            if r2.random() < 0.35:
                b.net.ops[-1].opts = ("LeakyReluOptions", dict(Alpha=float(r2.choice([-0.5, -2.0, -0.125, -1.0, -0.999, -8.0]))))
                b.net.desc.append(f"alpha={b.net.ops[-1].opts[1]['Alpha']}")
        elif kind == "quantize":
            new = b.quantize(cur)
        elif kind == "sqdiff" and xt.dtype != "uint8":
            if rng.random() < 0.5:
                cands = [t for t in live if b.t(t).shape == xt.shape and b.t(t).dtype == xt.dtype]
                other = rng.choice(cands)
            else:
                r = np.random.RandomState(rng.getrandbits(32))
                lo, hi = netgen._qrange(xt.dtype)
                shp = rng.choice([[1, 1, 1, cc], list(xt.shape)])
                other = b.const(shp, xt.dtype, r.randint(lo, hi + 1, int(np.prod(shp))), [netgen.rand_scale(rng)], [netgen.rand_zp(rng, xt.dtype)])
            new = b.fm(list(xt.shape), xt.dtype, scale=float(np.float32(rng.choice([0.05, 0.5, 1.0, 4.0]) * rng.uniform(0.5, 1.0))))
            b.net.ops.append(netgen.Op("SQUARED_DIFFERENCE", [cur, other], [new], ("SquaredDifferenceOptions", {})))
        elif kind == "prelu" and xt.dtype != "int16":
            # constant alpha per channel: all equal (-> LEAKY_RELU / RELU), all below one (-> MUL, MUL, MAX), anything (-> MIN, MUL, RELU, ADD)
            style = rng.choice(["same", "small", "mixed"])
            r = np.random.RandomState(rng.getrandbits(32))
            lo, hi = netgen._qrange(xt.dtype)
            za = rng.choice([0, 0, 3, -5]) if xt.dtype == "int8" else rng.choice([0, 100, 128])
            if style == "same":
                vals = np.full(cc, rng.randint(max(lo, za - 100), min(hi, za + 100)))
            elif style == "small":
                vals = r.randint(max(lo, za - 30), min(hi, za + 30) + 1, cc)
            else:
                vals = r.randint(lo, hi + 1, cc)
            al = b.const([1, 1, cc], xt.dtype, vals, [rng.choice([0.004, 0.01, 0.02, 0.05])], [za])
            new = b.fm(list(xt.shape), xt.dtype) if rng.random() < 0.7 else b.fm(list(xt.shape), xt.dtype, scale=xt.scales[0], zp=xt.zps[0])
            b.net.ops.append(netgen.Op("PRELU", [cur, al], [new], None))
        elif kind == "abs" and xt.dtype != "uint8":
            new = b.fm(list(xt.shape), xt.dtype) if rng.random() < 0.7 else b.fm(list(xt.shape), xt.dtype, scale=xt.scales[0])
            b.net.ops.append(netgen.Op("ABS", [cur], [new], ("AbsOptions", {})))
        elif kind == "slice_op" and hh >= 2:
            b0, b1 = rng.randint(0, hh - 1), rng.randint(0, ww - 1)
            sz = [1, rng.randint(1, hh - b0), rng.randint(1, ww - b1), cc]
            bt = b.const([4], "int32", [0, b0, b1, 0], name=b.fresh("begin"))
            st_ = b.const([4], "int32", sz, name=b.fresh("size"))
            new = b.fm(sz, xt.dtype, scale=xt.scales[0], zp=xt.zps[0])
            b.net.ops.append(netgen.Op("SLICE", [cur, bt, st_], [new], ("SliceOptions", {})))
        elif kind == "split_v" and cc >= 2:
            a_ = rng.randint(1, cc - 1)
            szt = b.const([2], "int32", [a_, -1] if rng.random() < 0.5 else [a_, cc - a_], name=b.fresh("sizes"))
            axt = b.const([], "int32", [3], name=b.fresh("axis"))
            o1 = b.fm([1, hh, ww, a_], xt.dtype, scale=xt.scales[0], zp=xt.zps[0])
            o2 = b.fm([1, hh, ww, cc - a_], xt.dtype, scale=xt.scales[0], zp=xt.zps[0])
            b.net.ops.append(netgen.Op("SPLIT_V", [cur, szt, axt], [o1, o2], ("SplitVOptions", dict(NumSplits=2))))
            new = b.concat([b.unary("RELU", o2), o1], 3)
            _same_quant(b, new, cur)
        elif kind == "pack_end" and (hh == 1 or rng.random() < 0.2):
            # stack two HxWxC tensors; an axis that gives the 4-D result a leading dimension > 1 is the open finding
            other = b.unary("RELU", cur)
            s1, s2 = b.reshape(cur, [hh, ww, cc]), b.reshape(other, [hh, ww, cc])
            ax = rng.choice([0, 1, 2, 3, 3])
            os_ = [hh, ww, cc][:ax] + [2] + [hh, ww, cc][ax:]
            new = b.fm(os_, xt.dtype, scale=xt.scales[0], zp=xt.zps[0])
            b.net.ops.append(netgen.Op("PACK", [s1, s2], [new], ("PackOptions", dict(ValuesCount=2, Axis=ax))))
            stop = True
        elif kind == "unpack_end" and min(hh, ww) <= 4:
            ax = 1 if hh <= ww else 2
            n_ = xt.shape[ax]
            os_ = [d for i_, d in enumerate(xt.shape) if i_ != ax]
            outs_u = [b.fm(os_, xt.dtype, scale=xt.scales[0], zp=xt.zps[0]) for _ in range(n_)]
            b.net.ops.append(netgen.Op("UNPACK", [cur], outs_u, ("UnpackOptions", dict(Num=n_, Axis=ax))))
            unpacked = outs_u
            new = outs_u[0]
            stop = True
        elif kind == "hswish" and xt.dtype != "int16":
            new = b.unary("HARD_SWISH", cur)
        elif kind == "transpose" and xt.dtype != "int16":
            perm = [0, 2, 1, 3] if not (hh == 1 or ww == 1) else rng.choice([[0, 2, 1, 3], [0, 1, 3, 2] if hh == 1 else [0, 3, 2, 1]])
            pt = b.const([4], "int32", perm, name=b.fresh("perm"))
            new = b.fm([xt.shape[p_] for p_ in perm], xt.dtype, scale=xt.scales[0], zp=xt.zps[0])
            b.net.ops.append(netgen.Op("TRANSPOSE", [cur, pt], [new], ("TransposeOptions", {})))
        elif kind == "concat":
            other = rng.choice([b.unary("RELU", cur), b.pool(cur, "MAX_POOL_2D", (3, 3), (1, 1), "SAME"), cur])
            axis = rng.choice([3, 3, 1, 2] * 4 + [0])      # axis 0: OFM batch 2 (open finding / CPU fallback once repaired)
            new = b.concat([cur, other] if rng.random() < 0.5 else [other, cur, other], axis)
            if rng.random() < 0.75:
                _same_quant(b, new, cur)        # otherwise the inputs are requantised (approximated class)
            if axis == 0:
                stop = True                     # batch 2 from here on: nothing else accepts it
        elif kind == "split_concat" and cc % 2 == 0:
            o1, o2 = b.split(cur, 2, 3)
            o1 = b.unary("RELU", o1)
            new = b.concat([o2, o1], 3)
            _same_quant(b, new, cur)
        elif kind == "slice" and hh >= 2 and ww >= 2:
            b0, b1 = rng.randint(0, hh - 1), rng.randint(0, ww - 1)
            c0 = rng.choice([0, 0, cc // 2])
            e0, e1 = rng.randint(b0 + 1, hh), rng.randint(b1 + 1, ww)
            style = rng.choice(["plain"] * 5 + ["strided", "masks", "negative"])
            if style == "plain":
                new = b.strided_slice(cur, [0, b0, b1, c0], [1, e0, e1, cc])
            else:
                # variants the NPU does not take (strides) or that need the masks / negative indices resolved
                b.net.desc[-1] += ":" + style
                st = [1, 1, 1, 1]
                bm = em = 0
                bv, ev = [0, b0, b1, c0], [1, e0, e1, cc]
                if style == "strided":
                    st = [1, rng.choice([1, 2]), rng.choice([2, 3]), 1]
                elif style == "masks":
                    bm, em = rng.choice([2, 4, 6]), rng.choice([2, 4, 6, 8])
                    for i_ in range(4):
                        if (bm >> i_) & 1:
                            bv[i_] = rng.randint(0, 5)
                        if (em >> i_) & 1:
                            ev[i_] = rng.randint(0, 5)
                else:
                    bv, ev = [0, b0 - hh, b1, c0], [1, e0, e1 - ww if e1 < ww else e1, cc]
                rb = [0 if (bm >> i_) & 1 else bv[i_] % xt.shape[i_] if bv[i_] < 0 else bv[i_] for i_ in range(4)]
                re_ = [xt.shape[i_] if (em >> i_) & 1 else (ev[i_] + xt.shape[i_] if ev[i_] < 0 else ev[i_]) for i_ in range(4)]
                shape_o = [(y_ - x_ + s_ - 1) // s_ for x_, y_, s_ in zip(rb, re_, st)]
                if all(d_ > 0 for d_ in shape_o):
                    bt = b.const([4], "int32", bv, name=b.fresh("begin"))
                    et = b.const([4], "int32", ev, name=b.fresh("end"))
                    stt = b.const([4], "int32", st, name=b.fresh("strides"))
                    new = b.fm(shape_o, xt.dtype, scale=xt.scales[0], zp=xt.zps[0])
                    b.net.ops.append(netgen.Op("STRIDED_SLICE", [cur, bt, et, stt], [new], ("StridedSliceOptions", dict(
                        BeginMask=bm, EndMask=em, EllipsisMask=0, NewAxisMask=0, ShrinkAxisMask=0))))
        elif kind == "pad":
            new = b.pad(cur, [[0, 0], [rng.randint(0, 2), rng.randint(0, 2)], [rng.randint(0, 2), rng.randint(0, 2)], [0, 0]])
        elif kind == "pad_conv":
            p = b.pad(cur, [[0, 0], [rng.randint(0, 1), rng.randint(0, 2)], [rng.randint(0, 2), rng.randint(0, 1)], [0, 0]])
            new = b.conv(p, rng.choice([4, 8]), (3, 3), (1, 1), (1, 1), "VALID") or p
        elif kind == "reshape_back":
            r1 = b.reshape(cur, [1, hh * ww, 1, cc])
            new = b.reshape(r1, [1, hh, ww, cc])
        elif kind == "squeeze_expand" and (hh == 1 or ww == 1):
            ax = 1 if hh == 1 else 2
            sq_shape = [d for i, d in enumerate(xt.shape) if i != ax]
            sq = b.fm(sq_shape, xt.dtype, scale=xt.scales[0], zp=xt.zps[0])
            b.net.ops.append(netgen.Op("SQUEEZE", [cur], [sq], ("SqueezeOptions", dict(SqueezeDims=[ax]))))
            axt = b.const([], "int32", [ax], name=b.fresh("axis"))
            new = b.fm(list(xt.shape), xt.dtype, scale=xt.scales[0], zp=xt.zps[0])
            b.net.ops.append(netgen.Op("EXPAND_DIMS", [sq, axt], [new], ("ExpandDimsOptions", {})))
        elif kind == "tconv" and hh * ww <= 36 and xt.dtype != "int16":
            new = b.transpose_conv(cur, rng.choice([1, 4, 8]), rng.choice([(2, 2), (3, 3)]), (2, 2), rng.choice(["SAME", "VALID"]))
        elif kind == "fc_batch" and 1 < hh * ww <= 16:
            flat = b.reshape(cur, [hh * ww, cc])        # batch > 1 is accepted for FULLY_CONNECTED
            new = b.fc(flat, rng.choice([1, 10, 16]), act=rng.choice([0, 1]))
        elif kind == "fc_end" and hh * ww * cc <= 512:
            flat = b.reshape(cur, [1, hh * ww * cc])
            new = b.fc(flat, rng.choice([1, 10, 16]), act=rng.choice([0, 1]))
        if new is None:
            b.net.desc[-1] += ":skipped"
            continue
        cur = new
        live.append(cur)
        last = b.net.ops[-1]
        avoid = set()
        if last.kind == "LEAKY_RELU" and dtype == "int16":
            # int16 LEAKY_RELU with differing scales is lowered to MUL/MUL/MAX; a RESHAPE behind it goes wrong (open finding)
            avoid = {"fc_end", "reshape_back", "squeeze_expand"}
        elif not stop and len(b.t(cur).shape) == 4 and b.t(cur).shape[0] == 1 and rng.random() < 0.08:
            # operator -> RESHAPE-like: the memory-only operator is bypassed before the producer is lowered
            cur = reshape_like(b, rng, cur)
            live.append(cur)
    if profile == "approx" and len(b.t(cur).shape) == 4:
        # the approximated operator comes last so that its error is not amplified
        which = rng.choice(["avgpool_same", "avgpool_same", "logistic", "tanh", "resize", "resize", "mean", "mean", "exp", "softmax", "argmax"])
        hh, ww, cc = b.t(cur).shape[1:]
        if which in ("exp", "argmax") and b.t(cur).dtype == "int16":
            which = "mean"
        if which == "argmax" and cc > 127:
            which = "mean"
        if which == "resize" and (hh * ww > 36 or b.t(cur).dtype == "int16"):
            which = "avgpool_same"
        b.net.desc.append(which)
        if which == "avgpool_same":
            k = rng.choice([(2, 2), (3, 3), (3, 3), (5, 5)])
            new = b.pool(cur, "AVERAGE_POOL_2D", k, rng.choice([(1, 1), (2, 2)]), "SAME")
        elif which == "mean":
            ct = b.t(cur)
            axes, keep = rng.choice([([1, 2], True), ([1, 2], True), ([1, 2], False), ([1], True), ([2], True)] +
                                    ([([3], True), ([3], False)] if 1 in (hh, ww) else []))
            ax = b.const([len(axes)], "int32", axes, name=b.fresh("axes"))
            oshape = [d for i, d in enumerate([1, 1 if 1 in axes else hh, 1 if 2 in axes else ww, 1 if 3 in axes else cc]) if keep or i not in axes]
            same = rng.random() < 0.3
            new = b.fm(oshape, ct.dtype, scale=ct.scales[0] if same else None, zp=ct.zps[0] if same else None)
            b.net.ops.append(netgen.Op("MEAN", [cur, ax], [new], ("ReducerOptions", dict(KeepDims=keep))))
        elif which == "exp":
            new = b.fm(list(b.t(cur).shape), b.t(cur).dtype)
            b.net.ops.append(netgen.Op("EXP", [cur], [new], None))
        elif which == "softmax":
            new = add_softmax(b, rng, cur)
        elif which == "argmax":
            ax = b.const([], "int32", [3], name=b.fresh("axis"))
            ot = rng.choice(["int32", "int64"])
            new = b.net.add(netgen.T(b.fresh("t"), [1, hh, ww], ot))
            b.net.ops.append(netgen.Op("ARG_MAX", [cur, ax], [new], ("ArgMaxOptions", dict(OutputType={"int32": 2, "int64": 4}[ot]))))
        elif which == "resize":
            kind_r = rng.choice(["RESIZE_BILINEAR", "RESIZE_NEAREST_NEIGHBOR"])
            al, hp = rng.choice([(False, False), (True, False), (False, True)])
            if al and (hh == 1 or ww == 1 or (kind_r == "RESIZE_NEAREST_NEIGHBOR" and cc > 1)):
                al = False          # crashes recorded under C13
            new = b.resize(cur, 4 if hh * ww <= 9 and rng.random() < 0.3 else 2, kind_r, al, hp)
        else:
            new = b.unary("LOGISTIC" if which == "logistic" else "TANH", cur)
        if new is not None:
            cur = new
            if len(b.t(cur).shape) == 4 and b.t(cur).shape[0] == 1 and rng.random() < 0.3:
                cur = reshape_like(b, rng, cur)
    outs = [cur] if unpacked is None or cur != unpacked[0] else list(unpacked)
    if len(live) > 2 and rng.random() < 0.2:
        extra = rng.choice(live[1:-1])
        if extra not in outs:
            outs.append(extra)
    if cur == x:
        cur = b.unary("RELU", x)
        outs = [cur]
    return b.finish(outs)


def corpus_net(rng, name):
    """hand-built reproducers of the defects this check found (run first on every run): regression tests for the repaired
    ones, a deterministic witness for the open one (known_lrelu16_reshape)"""
    import netgen

    if name in ("known_resize_reshape", "known_mean_reshape", "known_widepool_reshape"):
        b = make_builder(rng, name, "int8")
        if name == "known_resize_reshape":
            x = b.input([1, 4, 4, 4], scale=0.05, zp=3)
            y = b.resize(x, 2, "RESIZE_BILINEAR", False, False)
            z = b.reshape(y, [1, 256])
        elif name == "known_mean_reshape":
            x = b.input([1, 8, 8, 4], scale=0.05, zp=3)
            ax = b.const([2], "int32", [1, 2], name=b.fresh("axes"))
            y = b.fm([1, 4], "int8", scale=0.04, zp=-2)
            b.net.ops.append(netgen.Op("MEAN", [x, ax], [y], ("ReducerOptions", dict(KeepDims=False))))
            z = b.reshape(y, [4, 1])
        else:
            x = b.input([1, 8, 12, 4], scale=0.05, zp=3)
            y = b.pool(x, "AVERAGE_POOL_2D", (2, 2), (1, 4), "VALID")
            z = b.reshape(y, [1, 84])
        return b.finish([z])
    if name == "known_sqdiff_broadcast_first":
        # round 5 (rank sweep): SQUARED_DIFFERENCE whose first operand is the broadcast one (patch C01-48)
        b = make_builder(rng, name, "int8")
        x = b.input([1, 6, 3, 5], scale=0.05, zp=3)
        y = b.input([5], scale=0.04, zp=-2)
        o = b.fm([1, 6, 3, 5], "int8", scale=0.2, zp=-100)
        b.net.ops.append(netgen.Op("SQUARED_DIFFERENCE", [y, x], [o], ("SquaredDifferenceOptions", {})))
        return b.finish([o])
    if name == "known_fc_keep_dims_batch":
        # round 5 (rank sweep): FULLY_CONNECTED with keep_num_dims and a rank 4 result whose first dimension is 2 (patch C01-47)
        b = make_builder(rng, name, "int8")
        x = b.input([2, 2, 2, 8], scale=0.05, zp=3)
        wt = b.const([8, 8], "int8", b.rand_weights([8, 8], "int8", "uniform"), [0.01], [0], 0, "w")
        bt = b.const([8], "int32", list(range(8)), [0.0005], [0], 0, "b")
        o = b.fm([2, 2, 2, 8], "int8", scale=0.1, zp=-3)
        b.net.ops.append(netgen.Op("FULLY_CONNECTED", [x, wt, bt], [o], ("FullyConnectedOptions", dict(FusedActivationFunction=0, KeepNumDims=True))))
        return b.finish([b.unary("RELU", o)])
    if name in ("known_unpack_negative_axis", "known_slice_size_minus1", "known_transpose_rank2_identity", "known_slice_end_clamped"):
        # round 5 (rank sweep / STRIDED_SLICE mask algebra): deterministic witnesses of C13-50, C13-51, C01-46, C01-45
        b = make_builder(rng, name, "int8")
        if name == "known_unpack_negative_axis":
            x = b.input([3, 2, 4], scale=0.05, zp=3)
            parts = [b.fm([3, 4], "int8", scale=0.05, zp=3) for _ in range(2)]
            b.net.ops.append(netgen.Op("UNPACK", [x], parts, ("UnpackOptions", dict(Num=2, Axis=-2))))
            return b.finish([b.unary("RELU", parts[0]), b.unary("RELU", parts[1])])
        if name == "known_slice_size_minus1":
            x = b.input([4, 8, 4], scale=0.05, zp=3)
            bt = b.const([3], "int32", [0, 7, 0], name=b.fresh("begin"))
            st = b.const([3], "int32", [-1, 1, 4], name=b.fresh("size"))
            y = b.fm([4, 1, 4], "int8", scale=0.05, zp=3)
            b.net.ops.append(netgen.Op("SLICE", [x, bt, st], [y], ("SliceOptions", {})))
            return b.finish([b.unary("RELU", y)])
        if name == "known_transpose_rank2_identity":
            x = b.input([6, 3], scale=0.05, zp=3)
            r = b.unary("RELU", x)
            pt = b.const([2], "int32", [0, 1], name=b.fresh("perm"))
            t_ = b.fm([6, 3], "int8", scale=0.05, zp=3)
            b.net.ops.append(netgen.Op("TRANSPOSE", [r, pt], [t_], ("TransposeOptions", {})))
            return b.finish([b.unary("RELU6", t_)])
        x = b.input([3, 4], scale=0.05, zp=3)
        bt = b.const([2], "int32", [1, -3], name=b.fresh("begin"))
        et = b.const([2], "int32", [3, 11], name=b.fresh("end"))
        st = b.const([2], "int32", [1, 1], name=b.fresh("strides"))
        y = b.fm([2, 3], "int8", scale=0.05, zp=3)
        b.net.ops.append(netgen.Op("STRIDED_SLICE", [b.unary("RELU", x), bt, et, st], [y], ("StridedSliceOptions", dict(
            BeginMask=0, EndMask=0, EllipsisMask=0, NewAxisMask=0, ShrinkAxisMask=0))))
        return b.finish([b.unary("RELU", y)])
    if name == "known_sigmoid_relu6":
        # int16 LOGISTIC -> RELU6: both are packed into one pass (one average pool), the command generator keeps the last activation
        b = make_builder(rng, name, "int16")
        x = b.input([1, 4, 4, 8], scale=0.001, zp=0)
        return b.finish([b.unary("RELU6", b.unary("LOGISTIC", x))])
    if name == "known_protected_reshape_inplace":
        b = make_builder(rng, name, "int8")
        x = b.input([1, 8, 12, 17], scale=0.05, zp=3)
        y = b.conv(x, 4, (1, 1), (4, 4), (1, 1), "SAME", act=0)       # stays on the CPU
        r = b.reshape(y, [1, 3, 2, 4])
        z = b.fm([1, 3, 2, 4], "int8", scale=0.04, zp=-10)
        b.net.ops.append(netgen.Op("ABS", [r], [z], ("AbsOptions", {})))
        return b.finish([y, z])
    if name == "known_transpose_lut_mul":
        b = make_builder(rng, name, "int8")
        x = b.input([1, 5, 5, 16], scale=0.089, zp=-101)
        pt = b.const([4], "int32", [0, 2, 1, 3], name=b.fresh("perm"))
        t_ = b.fm([1, 5, 5, 16], "int8", scale=0.089, zp=-101)
        b.net.ops.append(netgen.Op("TRANSPOSE", [x, pt], [t_], ("TransposeOptions", {})))
        al = b.const([1, 1, 16], "int8", np.full(16, 70), [0.01], [-5])
        y = b.fm([1, 5, 5, 16], "int8", scale=0.00296, zp=-35)
        b.net.ops.append(netgen.Op("PRELU", [t_, al], [y], None))
        c = b.const([1, 5, 5, 16], "int8", np.random.RandomState(3).randint(-128, 128, 400), [0.0038], [-84])
        o = b.fm([1, 5, 5, 16], "int8", scale=0.00139, zp=102)
        b.net.ops.append(netgen.Op("MUL", [y, c], [o], ("MulOptions", dict(FusedActivationFunction=0))))
        return b.finish([o])
    if name == "known_prelu_reshape":
        b = make_builder(rng, name, "int8")
        x = b.input([1, 3, 4, 6], scale=0.05, zp=3)
        al = b.const([1, 1, 6], "int8", [-20, -3, 5, 12, 30, 64], [0.02], [0])
        y = b.fm([1, 3, 4, 6], "int8", scale=0.06, zp=-5)
        b.net.ops.append(netgen.Op("PRELU", [x, al], [y], None))
        return b.finish([b.reshape(y, [1, 12, 1, 6])])
    if name in ("known_transpose_relu", "known_sqdiff_reshape", "known_dilation3_uint8", "known_shared_dilation3", "known_shared_tconv"):
        dt = "uint8" if name in ("known_dilation3_uint8", "known_shared_tconv") else "int8"
        b = make_builder(rng, name, dt)
        if name == "known_transpose_relu":
            x = b.input([1, 3, 3, 17], scale=0.05, zp=3)
            pt = b.const([4], "int32", [0, 2, 1, 3], name=b.fresh("perm"))
            t_ = b.fm([1, 3, 3, 17], "int8", scale=0.05, zp=3)
            b.net.ops.append(netgen.Op("TRANSPOSE", [x, pt], [t_], ("TransposeOptions", {})))
            return b.finish([b.unary("RELU6", t_)])
        if name == "known_sqdiff_reshape":
            x = b.input([1, 3, 3, 5], scale=0.05, zp=3)
            x2 = b.input([1, 3, 3, 5], scale=0.04, zp=-4)
            y = b.fm([1, 3, 3, 5], "int8", scale=0.5, zp=-20)
            b.net.ops.append(netgen.Op("SQUARED_DIFFERENCE", [x, x2], [y], ("SquaredDifferenceOptions", {})))
            return b.finish([b.reshape(y, [1, 45])])
        x = b.input([1, 8, 8, 3], scale=0.05, zp=120 if dt == "uint8" else 3)
        if name == "known_dilation3_uint8":
            return b.finish([b.conv(x, 4, (3, 3), (1, 1), (3, 3), "SAME", act=0, per_channel=False)])
        y0 = b.conv(x, 4, (3, 3), (1, 1), (1, 1), "SAME", act=0, per_channel=False)
        f = b.net.ops[-1]
        if name == "known_shared_dilation3":
            y1 = b.fm([1, 8, 8, 4], dt)
            b.net.ops.append(netgen.Op("CONV_2D", [x, f.inputs[1], f.inputs[2]], [y1], ("Conv2DOptions", dict(
                Padding=0, StrideW=1, StrideH=1, DilationWFactor=3, DilationHFactor=3, FusedActivationFunction=0))))
        else:
            os_ = b.const([4], "int32", [1, 16, 16, 4], name=b.fresh("oshape"))
            y1 = b.fm([1, 16, 16, 4], dt)
            b.net.ops.append(netgen.Op("TRANSPOSE_CONV", [os_, f.inputs[1], x, f.inputs[2]], [y1], ("TransposeConvOptions", dict(
                Padding=0, StrideW=2, StrideH=2))))
        return b.finish([y0, y1])
    if name == "known_shared_fold_same_valid":
        # regression network of the class of seeded change C08-r5m2 (nothing known about the unchanged compiler): two CONV_2D
        # with stride width 4 on ONE 1x9 filter and bias, SAME (pad_left 2) and VALID; both are folded by 4 to a 1x3 kernel over
        # 12 channels, the SAME one with two zero columns in front. Their clones must not share an encoded weight stream.
        import netgen_shared

        return netgen_shared.build(rng, 0, "stride_ge4_same_vs_valid", n_ops=2, dtype="int8", per_channel=False, small=True,
                                   make_b=make_builder, name=name, kernel=(1, 9), stride_w=4, ic=3, oc=4, hw=(3, 16))
    if name in ("known_tconv_stride1_same_even", "known_tconv_stride1_valid", "known_pad_folded_conv"):
        b = make_builder(rng, name, "int8")
        if name == "known_pad_folded_conv":
            # padded width 16, stride width 6: folded by 2 (final stride 3, kernel 2x8 -> 2x4); pads <= half of the folded kernel
            x = b.input([1, 4, 12, 1], scale=0.05, zp=3)
            return b.finish([b.conv(b.pad(x, [[0, 0], [1, 0], [2, 2], [0, 0]]), 4, (2, 8), (1, 6), (1, 1), "VALID", act=0, per_channel=False)])
        x = b.input([1, 4, 5, 1], scale=0.05, zp=3)
        if name == "known_tconv_stride1_same_even":
            return b.finish([b.transpose_conv(x, 4, (2, 2), (1, 1), "SAME")])
        return b.finish([b.transpose_conv(x, 4, (3, 3), (1, 1), "VALID")])
    if name == "known_concat_batch_axis":
        b = make_builder(rng, name, "int8")
        x = b.input([1, 3, 3, 5], scale=0.05, zp=3)
        r = b.unary("RELU", x)
        z = b.fm([2, 3, 3, 5], "int8", scale=0.05, zp=3)
        b.net.ops.append(netgen.Op("CONCATENATION", [x, r], [z], ("ConcatenationOptions", dict(Axis=0, FusedActivationFunction=0))))
        return b.finish([z])
    if name == "known_mean_unit_axes":
        b = make_builder(rng, name, "int8")
        x = b.input([1, 1, 1, 12], scale=0.0146, zp=-17)
        ax = b.const([2], "int32", [1, 2], name=b.fresh("axes"))
        z = b.fm([1, 1, 1, 12], "int8", scale=0.0199, zp=-20)
        b.net.ops.append(netgen.Op("MEAN", [x, ax], [z], ("ReducerOptions", dict(KeepDims=True))))
        return b.finish([z])
    b = make_builder(rng, name, "int16" if name in ("known_fc_int16", "known_lrelu16_relu6", "known_lrelu16_reshape", "known_lrelu16_rounding",
                                                   "known_lrelu16_negative_alpha")
                     else ("uint8" if name == "known_dilation3_asym" else "int8"))
    if name == "known_fc_int16":
        x = b.input([1, 2, 1, 16], scale=0.0011566292960196733, zp=0)
    elif name == "known_lrelu16_relu6":
        x = b.input([1, 4, 6, 4], scale=0.00029, zp=0)
    elif name == "known_lrelu16_reshape":
        x = b.input([1, 9, 4, 8], scale=0.025, zp=0)
    elif name == "known_lrelu16_rounding":
        x = b.input([1, 2, 4, 4], scale=0.01, zp=0)
    elif name == "known_lrelu16_negative_alpha":
        x = b.input([1, 8, 2, 8], scale=0.01, zp=0)
    else:
      x = b.input({"known_pad_conv_reshape": [1, 4, 9, 4], "known_lut_reshape": [1, 3, 9, 8],
                 "known_cascade_stale_row": [1, 10, 8, 8], "known_slice_strided_conv": [1, 6, 6, 4],
                 "known_pad_concat": [1, 1, 3, 16], "known_pad_strided_dw": [1, 10, 9, 4], "known_sconv_unit_output": [1, 2, 18, 4],
                 "known_sconv_filter_shift": [1, 4, 24, 3], "known_dilation3_asym": [1, 12, 12, 4]}.get(name, [1, 6, 6, 8]), scale=0.05,
                zp=120 if name == "known_dilation3_asym" else 3)
    if name == "known_slice_relu":
        y = b.pool(x, "MAX_POOL_2D", (3, 3), (1, 1), "SAME")
        s = b.strided_slice(y, [0, 1, 2, 0], [1, 5, 6, 8])
        z = b.unary("RELU6", s)
    elif name == "known_fused_act_relu":
        y = b.conv(x, 8, (3, 3), (1, 1), (1, 1), "SAME", act=1)
        z = b.unary("RELU_N1_TO_1", y)
    elif name == "known_pad_conv_reshape":
        p = b.pad(x, [[0, 0], [1, 0], [1, 0], [0, 0]])
        y = b.conv(p, 8, (3, 3), (1, 1), (1, 1), "VALID", act=0)
        z = b.fc(b.reshape(y, [1, int(np.prod(b.t(y).shape))]), 4)
    elif name == "known_slice_window":
        y = b.pool(x, "MAX_POOL_2D", (2, 2), (1, 1), "VALID")
        s = b.strided_slice(y, [0, 2, 1, 0], [1, 4, 4, 8])
        z = b.pool(s, "MAX_POOL_2D", (3, 3), (1, 1), "SAME")
    elif name == "known_lut_reshape":
        y = b.unary("LEAKY_RELU", b.conv(x, 8, (1, 1), (1, 1), (1, 1), "SAME", act=1))
        z = b.fc(b.reshape(y, [1, int(np.prod(b.t(y).shape))]), 4)
    elif name == "known_cascade_stale_row":
        y = b.conv(x, 8, (3, 3), (1, 1), (1, 1), "SAME", act=0, out_scale=0.08)
        b.t(y).zps = [-5]
        z = b.conv(y, 8, (3, 3), (3, 3), (1, 1), "SAME", act=0, out_scale=0.1)
        b.t(z).zps = [7]
    elif name == "known_pad_avgpool_act":
        p = b.pad(x, [[0, 0], [1, 0], [0, 1], [0, 0]])
        z = b.pool(p, "AVERAGE_POOL_2D", (2, 2), (1, 1), "VALID", act=1)
    elif name == "known_slice_of_slice":
        s1 = b.strided_slice(x, [0, 1, 2, 0], [1, 6, 6, 8])
        z = b.strided_slice(s1, [0, 2, 1, 4], [1, 4, 3, 8])
    elif name == "known_slice_strided_conv":
        s1 = b.strided_slice(x, [0, 1, 2, 0], [1, 3, 4, 4])
        z = b.conv(s1, 4, (1, 1), (4, 4), (1, 1), "SAME", act=0)
    elif name == "known_fc_int16":
        z = b.fc(b.reshape(x, [1, 32]), 10)
        b.t(z).scales = [0.41879141330718994]
        fc = b.net.ops[-1]
        b.t(fc.inputs[1]).scales = [0.0021146892104297876]       # real multiplier 5.8e-6: reduced shift 32 >= 31
        b.t(fc.inputs[2]).scales = [0.0011566292960196733 * 0.0021146892104297876]
    elif name == "known_slice_strided_pool":
        s1 = b.strided_slice(x, [0, 2, 2, 0], [1, 6, 6, 8])
        z = b.pool(s1, "MAX_POOL_2D", (1, 1), (2, 2), "VALID")
    elif name == "known_pad_concat":
        p = b.pad(x, [[0, 0], [0, 0], [0, 0], [0, 0]])
        m = b.pool(p, "MAX_POOL_2D", (3, 3), (1, 1), "SAME")
        z = b.concat([m, p, m], 3)
        _same_quant(b, z, x)
    elif name == "known_pad_strided_dw":
        p = b.pad(x, [[0, 0], [1, 0], [1, 1], [0, 0]])
        z = b.dwconv(p, (2, 2), (3, 3), (1, 1), "VALID", act=0)
    elif name == "known_lrelu16_relu6":
        y = b.unary("LEAKY_RELU", x)
        _same_quant(b, y, x)
        z = b.unary("RELU6", y)
    elif name == "known_lrelu16_reshape":
        q = b.quantize(x)
        b.t(q).scales = [0.0019]
        y = b.unary("LEAKY_RELU", q)
        b.t(y).scales = [0.24]
        z = b.fc(b.reshape(y, [1, 9 * 4 * 8]), 4)
    elif name == "known_reshape_relu":
        z = b.unary("RELU6", b.reshape(x, [1, 4, 9, 8]))
    elif name in ("known_mulmax_gt1", "known_mulmax_q0", "known_mulmax_qm1"):
        # Maximum(x, Mul(x, c)), c a constant scalar: real value 2 / -0.5 (quantised 0, zero point 10) / -0.502 (quantised -1)
        q, zpc, sc = {"known_mulmax_gt1": (127, -128, 2 / 255), "known_mulmax_q0": (0, 10, 0.05), "known_mulmax_qm1": (-1, 127, 1 / 255)}[name]
        c = b.const([], "int8", [q], [sc], [zpc])
        m = b.binary("MUL", x, c)
        b.t(m).shape = list(b.t(x).shape)
        _same_quant(b, m, x)
        z = b.binary("MAXIMUM", x, m)
    elif name == "known_avgpool_wide_stride":
        # width stride 8: lowered to a convolution (width folded by fixup_strided_conv); depth 2
        z = b.pool(x, "AVERAGE_POOL_2D", (2, 4), (2, 8), "VALID")
    elif name == "known_dilation3_asym":
        # dilation 3 is done in software (sparse kernel); uint8 weights have a non-zero zero point
        z = b.conv(x, 4, (3, 3), (1, 1), (3, 3), "SAME", act=0)
        b.t(b.net.ops[-1].inputs[1]).zps = [138]
    elif name == "known_sconv_unit_output":
        # first operator, stride (2, 4): the width is folded by 2, then the OFM height 1 makes the padding explicit
        z = b.conv(x, 2, (1, 6), (2, 4), (1, 1), "SAME", act=0)
    elif name == "known_sconv_filter_shift":
        # stride (1, 9) SAME: folded by 3, one zero column in front of the 3-wide filter although no padding is needed
        z = b.conv(x, 2, (1, 3), (1, 9), (1, 1), "SAME", act=0)
    elif name == "known_pad_hw_and_channel":
        # PAD that pads height/width and channels at once
        z = b.pool(b.pad(x, [[0, 0], [1, 1], [1, 1], [0, 2]]), "MAX_POOL_2D", (1, 1), (1, 1), "VALID")
    elif name == "known_lrelu16_rounding":
        # identity multiplier exactly 1/2, alpha 0.998: for small negative inputs the two roundings of the identity branch end one
        # above the alpha branch (Props/C01Rewrites.lrelu_mulmax_id_witness)
        z = b.fm([1, 2, 4, 4], "int16", scale=0.02, zp=0)
        b.net.ops.append(netgen.Op("LEAKY_RELU", [x], [z], ("LeakyReluOptions", dict(Alpha=0.998))))
    elif name == "known_lrelu16_negative_alpha":
        # int16 LEAKY_RELU with a negative alpha (C06 thorough, network lut 0/186): convert_lrelu_to_mul_max gave the alpha constant
        # the scale -2.0, the MUL got a negative OFM multiplier that the emitter masked into the unsigned OFM_SCALE register.
        # Repaired by constraint_alpha_valid (the operator stays on the CPU); on the repaired tree this is a regression test.
        z = b.fm([1, 8, 2, 8], "int16", scale=0.02, zp=0)
        b.net.ops.append(netgen.Op("LEAKY_RELU", [x], [z], ("LeakyReluOptions", dict(Alpha=-2.0))))
    else:  # known_quantize_relu
        y = b.quantize(x)
        b.t(y).scales, b.t(y).zps = [0.03], [20]
        z = b.unary("RELU", y)
    return b.finish([z])


def gen_opts(rng, profile):
    import pipe_common

    if profile == "resizecasc":
        import gen_resizecasc

        return gen_resizecasc.c01_opts(rng)
    opts = pipe_common.sample_config(rng, "cascade" if profile == "cascade" else "mixed")
    if profile == "cascade" and "--arena-cache-size" not in opts and rng.random() < 0.6:
        # a small cache makes the Performance scheduler stripe as well
        opts += ["--arena-cache-size", str(rng.choice([1024, 2048, 4096]))]
    return opts


# ------------------------------------------------------------------------------------------------


def _worker(job):
    seed, idx, profile, k_inputs = job
    import c01_lib
    import netgen
    import pipe_common
    import pipeline

    rng = random.Random((seed << 20) ^ (idx * 7919) ^ zlib.crc32(("c01" + profile).encode()))
    out = {"idx": idx, "profile": profile, "seed": seed}
    try:
        if profile.startswith("known_"):
            net = corpus_net(rng, profile)
            opts = ["--accelerator-config", "ethos-u55-128"]
            if profile == "known_cascade_stale_row":
                opts += ["--optimise", "Size"]
            if profile == "known_pad_conv_reshape":
                # with weights in SRAM no weight buffering is proposed and the compilation goes through
                opts += ["--config", os.path.join(common.REPO, "ethosu", "config_files", "Arm", "vela.ini"), "--system-config",
                         "Ethos_U55_High_End_Embedded", "--memory-mode", "Sram_Only"]
        else:
            net = gen_net(rng, idx, profile)
            opts = gen_opts(rng, profile)
        data = netgen.serialize(net)
        out.update(desc=net.describe(), opts=opts, src_ops=[o.kind for o in net.ops], dtype=net.tensors[net.inputs[0]].dtype,
                   src_inputs=list(net.inputs),
                   src_quant=[(list(t.scales or []), list(t.zps or [])) for t in net.tensors],
                   src_shapes=[list(t.shape) for t in net.tensors],
                   src_dilations=[max(int((o.opts[1] if o.opts else {}).get("DilationHFactor", 1)), int((o.opts[1] if o.opts else {}).get("DilationWFactor", 1)))
                                  for o in net.ops],
                   src_strides=[(int((o.opts[1] if o.opts else {}).get("StrideH", 1)), int((o.opts[1] if o.opts else {}).get("StrideW", 1))) for o in net.ops],
                   src_scalars={i: int(np.asarray(t.data).reshape(-1)[0]) for i, t in enumerate(net.tensors)
                                if t.data is not None and np.asarray(t.data).size == 1},
                   src_pads={i: np.asarray(t.data).reshape(-1, 2).tolist() for i, t in enumerate(net.tensors)
                             if t.data is not None and t.dtype == "int32" and np.asarray(t.data).size in (6, 8)},
                   src_outputs=list(net.outputs),
                   src_opts=[{k: (v if isinstance(v, (int, float, bool, str)) else list(v)) for k, v in (o.opts[1] if o.opts else {}).items()}
                             for o in net.ops],
                   src_dil=[max(int((o.opts[1] if o.opts else {}).get("DilationWFactor", 1)), int((o.opts[1] if o.opts else {}).get("DilationHFactor", 1)))
                            for o in net.ops],
                   src_tinfo=[(list(t.shape), t.dtype, [float(x) for x in (t.scales or [])], [int(z) for z in (t.zps or [])],
                               [int(v) for v in np.asarray(t.data).reshape(-1)] if t.data is not None and t.dtype == "int32" and np.asarray(t.data).size <= 8 else None)
                              for t in net.tensors],
                   src_graph=[(o.kind, list(o.inputs), list(o.outputs), int((o.opts[1] if o.opts else {}).get("FusedActivationFunction", 0)),
                               int((o.opts[1] if o.opts else {}).get("Padding", -1)),
                               max(int((o.opts[1] if o.opts else {}).get("StrideW", 1)), int((o.opts[1] if o.opts else {}).get("StrideH", 1))))
                              for o in net.ops])
        import c01_packing

        with c01_lib.WeightCapture() as capture, c01_packing.Capture() as pcap:
            res = pipeline.compile_net(data, opts, name=f"n{idx}")
        out["packing"] = pcap.cases
        out.update(status=res.status, exc=(type(res.exc).__name__ + ": " + str(res.exc))[:300] if res.exc is not None else "",
                   exc_site=pipe_common.exc_site(res.tb, res.exc))
        if res.status == "ok" and res.out_model is not None:
            feats = set()
            nops = 0
            for art in res.streams:
                feats |= pipeline.stream_features(art)
                nops += len(art.npu_ops)
            out["features"] = sorted(feats)
            out["npu_stream_ops"] = nops
            try:
                out["input_specs"] = c01_lib.input_specs(data)
                sets = c01_lib.inputs_from_specs(rng, out["input_specs"], k_inputs)
                if profile == "known_lrelu16_rounding":       # small negative inputs are where the two roundings differ
                    sets[0] = [np.resize(np.arange(-39, 0), 32).astype("<i2").tobytes().hex()]
                line, sg, og = c01_lib.build_request(data, res, sets, capture)
                out["line"] = line
                out["out_kinds"] = og.kinds
            except c01_lib.NotSimulated as e:
                out["not_simulated"] = str(e)
        pipeline.reset_process_state()
    except BaseException:  # noqa: B902
        out["harness_exception"] = traceback.format_exc()[-2000:]
    return out


def run_lean(lines, jobs=16):
    """shard the (heavy) requests over several driver processes, longest first"""
    if not lines:
        return []
    order = sorted(range(len(lines)), key=lambda i: -len(lines[i]))
    shards = [[] for _ in range(min(jobs, len(lines)))]
    for n, i in enumerate(order):
        shards[n % len(shards)].append(i)
    answers = [None] * len(lines)

    def one(shard):
        res = common.run_model([lines[i] for i in shard])
        for i, a in zip(shard, res):
            answers[i] = a

    with ThreadPoolExecutor(len(shards)) as ex:
        list(ex.map(one, shards))
    return answers


MEMORY_ONLY = ("RESHAPE", "SQUEEZE", "EXPAND_DIMS")


def mean_over_unit_axes(o):
    """the source network has a MEAN whose reduced axes all have extent 1 and whose input and output quantisation differ"""
    ti = o.get("src_tinfo") or []
    for kind, ins, outs, faf, pad, stride in o.get("src_graph") or []:
        if kind != "MEAN" or len(ins) < 2:
            continue
        shape, _dt, sc_i, zp_i, _ = ti[ins[0]]
        axes = ti[ins[1]][4]
        _s, _d, sc_o, zp_o, _ = ti[outs[0]]
        if axes is not None and all(shape[a] == 1 for a in axes) and (sc_i, zp_i) != (sc_o, zp_o):
            return True
    return False


def ofm_batch_above_one(o):
    """the source network has a CONCATENATION / PACK whose inputs have batch 1 (as 4-D tensors) but whose output has a leading
    dimension > 1"""
    ti = o.get("src_tinfo") or []
    for kind, ins, outs, faf, pad, stride in o.get("src_graph") or []:
        if kind in ("CONCATENATION", "PACK"):
            oshape = ti[outs[0]][0]
            if len(oshape) == 4 and oshape[0] > 1 and all(len(ti[i][0]) < 4 or ti[i][0][0] == 1 for i in ins):
                return True
    return False


def lowered_then_reshaped(o):
    """kind of a source operator with its own lowering (SQUARED_DIFFERENCE, PRELU) whose output is consumed by a memory-only
    operator, or None. (MEAN, RESIZE_*, wide-stride AVERAGE_POOL_2D were repaired: fc368d6, 2336257, 8bc6c2d; their corpus
    networks stay as regression tests.)"""
    g = o.get("src_graph") or []
    consumers = {}
    for kind, ins, outs, faf, pad, stride in g:
        for t in ins:
            consumers.setdefault(t, []).append(kind)
    for kind, ins, outs, faf, pad, stride in g:
        if any(c in MEMORY_ONLY for c in consumers.get(outs[0], [])):
            if kind == "SQUARED_DIFFERENCE":
                return "squared-difference"
            if kind == "PRELU":
                return "prelu"
    return None


def weights_findings(o):
    """open findings about weights, by the structure of the source network: operators sharing one weight tensor of the file
    (convolution + transposed convolution; one of them with a dilation above 2), a uint8 convolution with a dilation above 2"""
    g = o.get("src_graph") or []
    dil = o.get("src_dil") or [1] * len(g)
    users = {}
    for k, (kind, ins, outs, faf, pad, stride) in enumerate(g):
        if kind in ("CONV_2D", "DEPTHWISE_CONV_2D"):
            users.setdefault(ins[1], []).append((kind, dil[k]))
        elif kind == "TRANSPOSE_CONV":
            users.setdefault(ins[1], []).append((kind, 1))
    for us in users.values():
        kinds = {k_ for k_, _ in us}
        if "TRANSPOSE_CONV" in kinds and len(kinds) > 1:
            return "shared-weights-of-conv-and-transpose-conv-share-one-encoded-stream"
    for us in users.values():
        if len(us) > 1 and any(d > 2 for _, d in us) and len({d for _, d in us}) > 1:
            return "shared-weights-dilation-above-two-keeps-value-id"
    if o.get("dtype") == "uint8" and any(d > 2 for d in dil):
        return "dilation-above-two-kernel-filled-with-raw-zeros"
    return None


def transpose_then_activation(o):
    g = o.get("src_graph") or []
    consumers = {}
    for kind, ins, outs, faf, pad, stride in g:
        for t in ins:
            consumers.setdefault(t, []).append(kind)
    post = ("RELU", "RELU6", "RELU_N1_TO_1", "LEAKY_RELU", "PRELU", "TANH", "LOGISTIC", "HARD_SWISH", "EXP")
    return any(kind == "TRANSPOSE" and any(c in post for c in consumers.get(outs[0], []))
               for kind, ins, outs, faf, pad, stride in g)


def tanh_sigmoid_next_to_relu(o):
    """int16 TANH / LOGISTIC (not lowered to a table) whose input comes from, or whose output goes to, a RELU-type operator"""
    if o.get("dtype") != "int16":
        return False
    g = o.get("src_graph") or []
    relu = ("RELU", "RELU6", "RELU_N1_TO_1")
    prod = {outs[0]: kind for kind, ins, outs, faf, pad, stride in g if outs}
    for kind, ins, outs, faf, pad, stride in g:
        if kind in ("TANH", "LOGISTIC") and ins and prod.get(ins[0]) in relu:
            return True
        if kind in relu and ins and prod.get(ins[0]) in ("TANH", "LOGISTIC"):
            return True
    return False


ELEMENTWISE_KINDS = ("ADD", "SUB", "MUL", "MINIMUM", "MAXIMUM", "ABS", "LEAKY_RELU", "PRELU", "HARD_SWISH", "TANH", "LOGISTIC", "EXP",
                     "SQUARED_DIFFERENCE")


def protected_tensor_reshaped_into_elementwise(o):
    """a tensor that has to survive (network output, or read by more than one operator) is read through a RESHAPE-like operator
    by an elementwise operator"""
    g = o.get("src_graph") or []
    outs_net = set(o.get("src_outputs") or [])
    consumers = {}
    for kind, ins, outs, faf, pad, stride in g:
        for t in ins:
            consumers.setdefault(t, []).append(kind)
    for kind, ins, outs, faf, pad, stride in g:
        if kind in MEMORY_ONLY and (ins[0] in outs_net or len(consumers.get(ins[0], [])) > 1):
            if any(c in ELEMENTWISE_KINDS for c in consumers.get(outs[0], [])):
                return True
    return False


def wide_stride_avgpool(o):
    """AVERAGE_POOL_2D with a stride above 3 on more than one channel"""
    ti = o.get("src_tinfo") or []
    return any(kind == "AVERAGE_POOL_2D" and stride > 3 and ti[ins[0]][0][-1] > 1
               for kind, ins, outs, faf, pad, stride in o.get("src_graph") or [])


def tconv_stride1_outputs(o):
    """outputs of the TRANSPOSE_CONV operators with stride 1x1 whose padding is not that of a convolution with the same
    attributes: VALID with a kernel above 1x1, SAME with an even kernel height or width"""
    ti, strides, res = o.get("src_tinfo") or [], o.get("src_strides") or [], set()
    for n_op, (kind, ins, outs, faf, pad, stride) in enumerate(o.get("src_graph") or []):
        if kind == "TRANSPOSE_CONV" and n_op < len(strides) and tuple(strides[n_op]) == (1, 1) and len(ti[ins[1]][0]) == 4:
            kh, kw = ti[ins[1]][0][1:3]
            if (pad == 1 and (kh > 1 or kw > 1)) or (pad == 0 and (kh % 2 == 0 or kw % 2 == 0)):
                res.add(outs[0])
    return res


def _classify_candidate(o, ans, skip):
    """first key, not in `skip`, whose structural condition the source network meets (see classify_failure)"""
    g = o.get("src_graph") or []
    if ans.endswith("verdict=fail") or ans.startswith("err:out:"):
        # rank sweep (harness/gen_ranksweep.py): three lowerings that mishandle a legal attribute value (repairs pending)
        ti, sopts = o.get("src_tinfo") or [], o.get("src_opts") or []
        for n_op, (kind, ins, outs, faf, pad, stride) in enumerate(g):
            if kind == "UNPACK" and n_op < len(sopts) and int(sopts[n_op].get("Axis", 0)) < 0:
                if "unpack-negative-axis-converted-with-the-rule-of-pack" not in skip:
                    return "unpack-negative-axis-converted-with-the-rule-of-pack"
            if kind == "SLICE" and len(ins) > 2 and ins[2] < len(ti) and ti[ins[2]][4] is not None and -1 in ti[ins[2]][4]:
                if "slice-size-minus-one-not-resolved" not in skip:
                    return "slice-size-minus-one-not-resolved"
            if kind == "SQUARED_DIFFERENCE" and ins[0] < len(ti) and outs[0] < len(ti) and list(ti[ins[0]][0]) != list(ti[outs[0]][0]):
                if "squared-difference-first-operand-broadcast" not in skip:
                    return "squared-difference-first-operand-broadcast"
            if kind == "FULLY_CONNECTED" and n_op < len(sopts) and sopts[n_op].get("KeepNumDims") and outs[0] < len(ti) and \
                    len(ti[outs[0]][0]) == 4 and ti[outs[0]][0][0] > 1:
                if "fc-keep-num-dims-rank4-result-rows-not-written" not in skip:
                    return "fc-keep-num-dims-rank4-result-rows-not-written"
            if kind == "TRANSPOSE" and len(ins) > 1 and ins[0] < len(ti) and len(ti[ins[0]][0]) == 2 and ins[1] < len(ti) and ti[ins[1]][4] == [0, 1]:
                if "transpose-rank2-identity-executed-as-transposition" not in skip:
                    return "transpose-rank2-identity-executed-as-transposition"
    if ans.endswith("verdict=fail") or ans.startswith("err:out:"):
        # STRIDED_SLICE begin below -dim / end above dim: the reference clamps, constraint_slice_ranges does not (patch C01-45)
        import gen_ssmask

        if gen_ssmask.out_of_range((o.get("desc") or {}).get("desc")):
            if "strided-slice-out-of-range-begin-end-not-clamped" not in skip:
                return "strided-slice-out-of-range-begin-end-not-clamped"
    if ans.endswith("verdict=fail"):
        # TRANSPOSE_CONV with stride 1x1: every output that differs is the output of such an operator
        t1 = tconv_stride1_outputs(o)
        failing = {int(t) for t, nbad in re.findall(r"\| t(\d+) cls=\d maxdiff=\d+ bad=(\d+)", ans) if int(nbad) > 0}
        if t1 and failing and failing <= t1:
            if "transpose-conv-stride-1-padded-like-a-convolution" not in skip:
                return "transpose-conv-stride-1-padded-like-a-convolution"
    if "weights_do_not_fit_the_IFM_depth" in ans:
        # PAD -> VALID CONV_2D with a stride width above 3: the PAD is replaced by hardware padding after the width was folded
        strides = o.get("src_strides") or []
        prod = {outs[0]: kind for kind, ins, outs, faf, pad, stride in g}
        for n_op, (kind, ins, outs, faf, pad, stride) in enumerate(g):
            if kind == "CONV_2D" and pad == 1 and n_op < len(strides) and strides[n_op][1] >= 4 and prod.get(ins[0]) == "PAD":
                if "pad-before-folded-strided-conv-replaced-by-hardware-padding" not in skip:
                    return "pad-before-folded-strided-conv-replaced-by-hardware-padding"
    if "weights_do_not_fit_the_IFM_depth" in ans:
        # AVERAGE_POOL_2D with a width stride >= 4 lowered to a convolution with one input channel
        shapes, strides = o.get("src_shapes") or [], o.get("src_strides") or []
        for n_op, (kind, ins, outs, faf, pad, stride) in enumerate(g):
            if kind == "AVERAGE_POOL_2D" and n_op < len(strides) and strides[n_op][1] >= 4 and ins[0] < len(shapes) and shapes[ins[0]][-1] > 1:
                if "avgpool-wide-stride-as-conv:weights-have-one-input-channel" not in skip:
                    return "avgpool-wide-stride-as-conv:weights-have-one-input-channel"
    if ans.endswith("verdict=fail"):
        # Maximum(x, Mul(x, c)) with a constant scalar c taken for LeakyRelu / Relu / Abs on its quantised value
        quant, scalars = o.get("src_quant") or [], o.get("src_scalars") or {}
        prod = {outs[0]: (kind, ins) for kind, ins, outs, faf, pad, stride in g}
        for kind, ins, outs, faf, pad, stride in g:
            if kind != "MAXIMUM":
                continue
            for a, m in ((ins[0], ins[1]), (ins[1], ins[0])):
                pk, pins = prod.get(m, (None, None))
                if pk == "MUL" and a in pins:
                    c = [t for t in pins if t != a]
                    if len(c) == 1 and c[0] in scalars and quant[c[0]][0]:
                        q, zpc, sc = scalars[c[0]], quant[c[0]][1][0], float(np.float32(quant[c[0]][0][0]))
                        real = (q - zpc) * sc
                        if q == 0 and zpc != 0:
                            if "mul-max-to-relu:quantised-zero-with-nonzero-zero-point" not in skip:
                                return "mul-max-to-relu:quantised-zero-with-nonzero-zero-point"
                        if q == -1 and real != -1:
                            if "mul-max-to-abs:quantised-minus-one-not-real-minus-one" not in skip:
                                return "mul-max-to-abs:quantised-minus-one-not-real-minus-one"
                        if q >= 0 and real > 1:
                            if "mul-max-to-lrelu:real-constant-above-one" not in skip:
                                return "mul-max-to-lrelu:real-constant-above-one"
        # dilation above 2 (sparse kernel built in software) with asymmetric (uint8) weights
        dils = o.get("src_dilations") or []
        for n_op, (kind, ins, outs, faf, pad, stride) in enumerate(g):
            if kind in ("CONV_2D", "DEPTHWISE_CONV_2D") and n_op < len(dils) and dils[n_op] > 2 and len(ins) > 1 and ins[1] < len(quant) \
                    and any(z != 0 for z in quant[ins[1]][1]):
                if "software-dilation:inserted-taps-zero-instead-of-weight-zero-point" not in skip:
                    return "software-dilation:inserted-taps-zero-instead-of-weight-zero-point"
        # SAME-padded CONV_2D whose width gets folded into the channels (first operator with a width stride > 1, or any with a width
        # stride > 3): explicit padding from the unfolded width when the OFM height/width is 1, misaligned filter zero columns otherwise
        shapes, strides = o.get("src_shapes") or [], o.get("src_strides") or []
        for n_op, (kind, ins, outs, faf, pad, stride) in enumerate(g):
            if kind == "CONV_2D" and pad == 0 and n_op < len(strides) and strides[n_op][1] > 1 and (n_op == 0 or strides[n_op][1] > 3):
                osh = shapes[outs[0]] if outs[0] < len(shapes) else []
                if len(osh) == 4 and (osh[1] == 1 or osh[2] == 1):
                    if "strided-conv-fold:unit-output-padding-from-unfolded-width" not in skip:
                        return "strided-conv-fold:unit-output-padding-from-unfolded-width"
                if "strided-conv-fold:filter-zero-padding-misaligned" not in skip:
                    return "strided-conv-fold:filter-zero-padding-misaligned"
        # PAD with channel (or batch) padding and spatial padding at once: convert_pad_to_concat keeps only the channel part
        pads = o.get("src_pads") or {}
        for kind, ins, outs, faf, pad, stride in g:
            if kind == "PAD" and len(ins) > 1 and ins[1] in pads:
                pv = pads[ins[1]]
                if (sum(pv[-1]) != 0 or (len(pv) == 4 and sum(pv[0]) != 0)) and sum(pv[-3]) + sum(pv[-2]) != 0:
                    if "pad-spatial-and-channel-padding:spatial-part-dropped" not in skip:
                        return "pad-spatial-and-channel-padding:spatial-part-dropped"
        # int16 LEAKY_RELU with differing scales lowered to Maximum(Mul, Mul): each branch rounds twice
        if o.get("dtype") == "int16" and re.search(r"maxdiff=1 ", ans) and not re.search(r"maxdiff=([2-9]|1\d)", ans):
            for kind, ins, outs, faf, pad, stride in g:
                if kind == "LEAKY_RELU" and quant and quant[ins[0]][0] != quant[outs[0]][0]:
                    if "int16-lrelu-mul-max-rounds-each-branch" not in skip:
                        return "int16-lrelu-mul-max-rounds-each-branch"
    # (keys of the second C01 worker; the wide-stride average pool and the dilation-above-two zero fill are the same defects as
    # the two keys above, reached when the more specific conditions above do not hold)
    if (ans.endswith("verdict=fail") or ans.startswith("err:out:")) and wide_stride_avgpool(o):
        if "wide-stride-avgpool-converted-with-one-input-channel-kernel" not in skip:
            return "wide-stride-avgpool-converted-with-one-input-channel-kernel"
    if ans.endswith("verdict=fail") and mean_over_unit_axes(o):
        if "mean-over-unit-axes-drops-requantisation" not in skip:
            return "mean-over-unit-axes-drops-requantisation"
    if ans.endswith("verdict=fail") and protected_tensor_reshaped_into_elementwise(o):
        if "write-protected-tensor-shares-memory-with-reshape-copy" not in skip:
            return "write-protected-tensor-shares-memory-with-reshape-copy"
    if ans.endswith("verdict=fail") and tanh_sigmoid_next_to_relu(o):
        import c01_packing

        if c01_packing.KEY_TWO_ACTIVATIONS not in skip:
            return c01_packing.KEY_TWO_ACTIVATIONS
    if ans.endswith("verdict=fail") and transpose_then_activation(o):
        if "transpose-then-packed-activation-loses-transposition" not in skip:
            return "transpose-then-packed-activation-loses-transposition"
    if ans.endswith("verdict=fail") or ans.startswith("err:out:"):
        k = weights_findings(o)
        if k is not None and k not in skip:
            return k
    if ans.endswith("verdict=fail") or ans.startswith("err:out:"):
        k = lowered_then_reshaped(o)
        if k is not None and k + "-then-reshape-lowered-with-reshaped-ofm-shape" not in skip:
            return k + "-then-reshape-lowered-with-reshaped-ofm-shape"
    if ans.endswith("verdict=fail") and ofm_batch_above_one(o):
        if "ofm-batch-above-one-accepted-on-npu" not in skip:
            return "ofm-batch-above-one-accepted-on-npu"
    if not (ans.endswith("verdict=fail") or "read_outside_region" in ans) or o.get("dtype") != "int16":
        return
    consumers = {}
    for kind, ins, outs, faf, pad, stride in g:
        for t in ins:
            consumers.setdefault(t, []).append(kind)
    for kind, ins, outs, faf, pad, stride in g:
        if kind == "LEAKY_RELU" and any(c in MEMORY_ONLY for c in consumers.get(outs[0], [])):
            if "int16-lrelu-mul-max-then-reshape-recomputes-shapes" not in skip:
                return "int16-lrelu-mul-max-then-reshape-recomputes-shapes"
    return None



_OPEN_KEYS = None


def classify_failure(o, ans):
    """stable key of an open known finding (see known_findings.txt), or None. Only the structure of the source network
    is consulted; the verdict itself is Lean's. The structural conditions are tried in a fixed order; a key whose finding has
    been repaired meanwhile (no `finding:` line any more) must not shadow an open finding that the network also matches (a
    network with a repaired wide-stride AVERAGE_POOL_2D and an open PRELU -> RESHAPE): such keys are skipped. When no open
    key matches, the first matching key is returned (the violation is then reported under it)."""
    global _OPEN_KEYS
    if _OPEN_KEYS is None:
        _OPEN_KEYS = {k["key"] for k in common.load_known_findings() if k["property"] == "C01"}
        import pending

        _OPEN_KEYS |= set(pending.pending_keys("C01"))      # repairs written but not yet in the tree under test
    skip, first = set(), None
    for _ in range(64):         # every round adds a new key to `skip`; there are fewer than 64 keys
        k = _classify_candidate(o, ans, skip)
        if k is None or k in skip:
            return first
        if first is None:
            first = k
        if k in _OPEN_KEYS:
            return k
        skip.add(k)
    return first


def softmax_lowering(ck, owners, answers, lines):
    """Correspondence stream `softmax_lowering`: for every compiled network with an 8-bit SOFTMAX the command streams are decoded by
    Lean (handler `smlower`), the passes of each SOFTMAX segment are turned into integer rows and compared with the rows of
    `lower P (graph8 P)` (Model/SoftmaxGraph.lean) for the parameters P of that SOFTMAX (Props/C01SoftmaxLower: equal rows => the
    stream's program is `runGraph8 P`). A disagreement is a broken correspondence; the failing-input search is the value comparison of
    that network on a wider sample of inputs."""
    import time

    t0 = time.time()
    sel = [i for i, (o, a) in enumerate(zip(owners, answers))
           if "SOFTMAX" in o["src_ops"] and a.startswith("ok ") and o["dtype"] in ("int8", "uint8")]
    reqs = ["smlower" + lines[i][len("semcheck"):] for i in sel]
    res = run_lean(reqs)
    searched = 0
    for i, ans2 in zip(sel, res):
        o, line = owners[i], lines[i]
        where = f"(network {o['idx']} {o['profile']} {o['src_ops']} {o['opts']})"
        rp = {"profile": o["profile"], "seed": o["seed"], "index": o["idx"], "opts": o["opts"], "network": o["desc"],
              "verdict": answers[i][:2000], "request": line, "lowering": ans2[:2000], "correspondence": "softmax_lowering"}
        m = re.match(r"ok softmax=(\d+) segments=(\d+) passes=(\d+) stripes=(\d+) rows=(\d+) bad=(\d+) first=(\S+) verdict=(\w+)", ans2)
        if not m:
            raise common.InfraError(f"smlower: unexpected answer {ans2[:300]} {where}")
        nsm, nseg, npass, nstripes, nrows, bad = (int(m.group(k)) for k in range(1, 7))
        if nsm == 0:
            continue            # the SOFTMAX of the network is not an 8-bit one
        on_cpu = sum(1 for kd in (o.get("out_kinds") or []) if kd == "SOFTMAX")
        ck.count("softmax_lowering_networks")
        ck.count("softmax_lowering_segments", nseg)
        ck.count("softmax_lowering_passes", npass)
        ck.count("softmax_lowering_block_operations", nstripes)
        ck.count("softmax_lowering_rows_compared", nrows)
        ck.count("softmax_lowering_softmax_left_to_cpu", on_cpu)
        if nseg > 0:
            ck.count("softmax_lowering_acc_" + o["opts"][o["opts"].index("--accelerator-config") + 1])
            ck.count("softmax_lowering_dtype_" + o["dtype"])
            if nstripes > npass:
                ck.count("softmax_lowering_networks_with_striped_passes")
        if bad == 0 and nseg + on_cpu >= nsm:
            continue
        # broken correspondence; failing-input search: the value comparison of this network on more input sets
        import c01_lib

        r2 = random.Random(o["idx"] * 7919 + 31)
        more = c01_lib.inputs_from_specs(r2, [tuple(sp) for sp in o["input_specs"]], 48, first=6)
        searched += 1
        if searched <= 12:      # the wider sample is run for the first few disagreeing networks only (bounded time)
            ans3 = common.run_model([c01_lib.with_inputs(line, more)])[0]
            rp.update(request=c01_lib.with_inputs(line, more), verdict=ans3[:2000])
        else:
            ans3 = answers[i]
        what = (f"rows differ: first={m.group(7)} (segment/pass/column/model/stream; columns: kind, a tag, a, b tag, b, rounding, "
                f"OFM_SCALE multiplier, shift, OPA zero point, OPB zero point, 32-bit operand, 32-bit OFM, OFM zero point, LUT, index low, "
                f"index bits, ACTIVATION_MIN, ACTIVATION_MAX)" if bad else
                f"{nsm} 8-bit SOFTMAX in the source, {on_cpu} left to the CPU, but only {nseg} SOFTMAX segments recognised in the streams")
        ck.violation(f"SOFTMAX lowering: the decoded command stream is not the lowered program of Model/SoftmaxGraph.lean "
                     f"(lower P (graph8 P)): {what}; value comparison on a wider input sample: {ans3[:200]} {where}",
                     rp, found_input=ans3.endswith("verdict=fail"))
    ck.count("seconds_softmax_lowering", round(time.time() - t0))


def replay(ck, path):
    rp = json.load(open(path))["replay"]
    if "stream" in rp:
        # a rewrite-stream replay: the model's answer to the stored request and Lean's semantic verdict on the stored real output
        if rp.get("request"):
            print("model:", common.run_model([rp["request"]])[0][:500])
        sem = rp.get("semantic_request")
        if sem and not sem.endswith("…"):
            ans = common.run_model([sem])[0]
            print("semantic verdict on the recorded output of the real rewrite:", ans[:500])
            sys.exit(0 if ans == "ok" else 1)
        print("recorded verdict:", rp.get("lean_verdict"))
        sys.exit(1)
    ans = common.run_model([rp["request"]])[0]
    print("replayed verdict:", ans[:1000])
    low_ok = True
    if rp.get("correspondence") == "softmax_lowering":
        low = common.run_model(["smlower" + rp["request"][len("semcheck"):]])[0]
        print("replayed SOFTMAX lowering comparison:", low[:1000])
        low_ok = low.endswith("verdict=pass")
    sys.exit(0 if ans.endswith("verdict=pass") and low_ok else 1)


def main():
    ck = Check("C01", "translation_validation")
    ck.lean_stage(["VelaVerif.Props.C01", "VelaVerif.Props.C01Rewrites", "VelaVerif.Props.C01Rewrites2", "VelaVerif.Props.C01Rewrites3", "VelaVerif.Props.C01Wide",
                   "VelaVerif.Props.C01Packing", "VelaVerif.Props.C01Slice", "VelaVerif.Props.C01StridedSlice", "VelaVerif.Props.C01Softmax",
                   "VelaVerif.Props.C01SoftmaxLower"])
    if ck.replay_arg:
        replay(ck, ck.replay_arg)
    import pipeline

    pipeline.load_vela()
    # rewrite streams: the models of Model/Rewrites.lean against the real graph-optimiser functions (in-process)
    import c01_rewrites
    import time

    t0 = time.time()
    rw = c01_rewrites.run(ck, also=("c01_rewrites2", "c01_rewrites3"))
    ck.count("seconds_rewrite_streams", round(time.time() - t0))
    # STRIDED_SLICE specification streams (Spec/StridedSliceRef.lean vs NumPy; the real constraint_slice_ranges vs the Spec)
    import c01_ssmask
    import pending

    pending.register(ck)          # repairs written but not yet in the tree under test (harness/pending.py)
    ss_stats = c01_ssmask.run(ck, 12000 if ck.thorough else 2000, 12000 if ck.thorough else 2000)
    # pass packing: the model of pack_into_passes (Model/PassPacking.lean) against the real function on generated graphs; the
    # subgraphs of the networks compiled below are judged after the compile stage
    import c01_packing

    t0 = time.time()
    pk = c01_packing.run(ck)
    ck.count("seconds_packing_generated_stream", round(time.time() - t0))
    n = 40000 if ck.thorough else 6000
    k_inputs = 5 if ck.thorough else 4
    jobs = [(0, 0, "known_" + nm, k_inputs) for nm in ("slice_relu", "fused_act_relu", "pad_conv_reshape", "quantize_relu", "reshape_relu",
                                                              "slice_window", "lut_reshape", "cascade_stale_row", "pad_avgpool_act", "slice_of_slice", "slice_strided_conv", "fc_int16",
                                                              "slice_strided_pool", "pad_concat", "pad_strided_dw", "lrelu16_relu6", "lrelu16_reshape",
                                                              "mulmax_gt1", "mulmax_q0", "mulmax_qm1", "lrelu16_rounding", "pad_hw_and_channel",
                                                              "sconv_unit_output", "sconv_filter_shift", "dilation3_asym",
                                                              "avgpool_wide_stride",
                                                              "mean_unit_axes", "concat_batch_axis",
                                                              "resize_reshape", "mean_reshape", "widepool_reshape",
                                                              "transpose_relu", "sqdiff_reshape", "dilation3_uint8", "shared_dilation3", "shared_tconv",
                                                              "prelu_reshape", "transpose_lut_mul", "protected_reshape_inplace",
                                                              "sigmoid_relu6",
                                                              "tconv_stride1_same_even", "tconv_stride1_valid", "pad_folded_conv", "shared_fold_same_valid",
                                                              "unpack_negative_axis", "slice_size_minus1", "transpose_rank2_identity", "slice_end_clamped", "fc_keep_dims_batch", "sqdiff_broadcast_first")]
    # round-5 families first (so that the wall-clock budget of the quick tier never cuts them)
    jobs += [(ck.seed, i, "resizecasc", k_inputs) for i in range(384 if ck.thorough else 48)]      # round 6 (gen_resizecasc.py)
    jobs += [(ck.seed, i, "ssmask", k_inputs) for i in range(2400 if ck.thorough else 300)]
    jobs += [(ck.seed, i, "ranks", k_inputs) for i in range(3024 if ck.thorough else 378)]      # 21 kinds x 6 x 3 axis variants
    jobs += [(ck.seed, i, PROFILES[i % len(PROFILES)], k_inputs) for i in range(n)]
    ctx = multiprocessing.get_context("fork")
    t0 = time.time()
    # The quick tier has a wall-clock budget: on a heavily loaded machine the compile stage is cut short after `budget` seconds
    # (never below 1500 generated networks); every network is still a pure function of (seed, index), so a reported network
    # replays regardless of how many were run. The number actually run is in the evidence (`evaluations`).
    budget = None if ck.thorough else 100
    outs = []
    with ProcessPoolExecutor(min(16, os.cpu_count() or 4), mp_context=ctx) as ex:
        for k in range(0, len(jobs), 500):
            if budget is not None and k >= 1500 and time.time() - t0 > budget:
                ck.count("networks_not_run_for_lack_of_time", len(jobs) - k)
                break
            outs += list(ex.map(_worker, jobs[k:k + 500], chunksize=1))
    ck.count("seconds_compile_and_build_requests", round(time.time() - t0))
    lines, owners = [], []
    t0p = time.time()
    pcases = []
    for o in outs:
        for c in o.get("packing") or []:
            c["origin"] = f"network {o['idx']} {o['profile']} seed {o['seed']} {o.get('src_ops')} {o.get('opts')}"
            pcases.append(c)
    c01_packing.judge(ck, pcases, "compiled", pk)
    ck.count("seconds_packing_compiled_corpus", round(time.time() - t0p))
    for o in outs:
        if "harness_exception" in o:
            raise common.InfraError("pipeline worker failed:\n" + o["harness_exception"])
        ck.count("compile_" + o["status"])
        if o["status"] != "ok":
            ck.count("compile_died_or_rejected:" + (o.get("exc_site") or o["status"]))
            continue
        if "not_simulated" in o:
            ck.count("not_simulated")
            ck.count("not_simulated:" + o["not_simulated"])
            continue
        if "line" in o:
            lines.append(o["line"])
            owners.append(o)
    t0 = time.time()
    answers = run_lean(lines)
    ck.count("seconds_lean_execution", round(time.time() - t0))
    judged, nontrivial = 0, set()
    for o, ans, line in zip(owners, answers, lines):
        rp = {"profile": o["profile"], "seed": o["seed"], "index": o["idx"], "opts": o["opts"], "network": o["desc"],
              "verdict": ans[:2000], "request": line}
        if ans.startswith("skip:"):
            ck.count("not_simulated")
            ck.count("not_simulated:" + ans[5:])
            continue
        if not ans.startswith("ok "):
            key = classify_failure(o, ans)
            ck.violation(f"execution of the {'output' if ':out:' in ans else 'source'} model failed in Lean: {ans[:300]} "
                         f"(network {o['idx']} {o['profile']} {o['src_ops']} {o['opts']})", rp, found_input=key is not None, key=key)
            continue
        judged += 1
        m = re.search(r"ops=(\d+) sets=(\d+)", ans)
        nblocks = int(m.group(1))
        ck.count("npu_stream_ops_executed", nblocks)
        ck.count("dtype_" + o["dtype"])
        acc = o["opts"][o["opts"].index("--accelerator-config") + 1]
        ck.count("acc_" + acc)
        for f in o.get("features", []):
            ck.count("feature_" + f)
        for kd in set(o["src_ops"]):
            ck.count("src_op_" + kd)
        for kd in o.get("out_kinds", []):
            if kd != "NPU":
                ck.count("cpu_op_" + kd)
        if any(str(x).startswith("alpha=-") for x in (o["desc"].get("desc") or [])) or o["profile"] == "known_lrelu16_negative_alpha":
            # LEAKY_RELU with a negative alpha: table lookup (8 bit), MIN / int32 MUL / RELU / ADD or - with repair C16-20 - the CPU (16 bit)
            ck.count("lrelu_negative_alpha_%s_%s" % (o["dtype"], "cpu" if "LEAKY_RELU" in (o.get("out_kinds") or []) else "npu"))
        classes = re.findall(r"cls=(\d)", ans)
        for c in classes:
            ck.count("output_class_" + {"0": "exact", "1": "within_one", "2": "not_judged"}[c])
        if nblocks > 0 and any(c != "2" for c in classes):
            nontrivial.add((o["profile"], o["idx"], tuple(o["opts"])))
        if ans.endswith("verdict=fail"):
            ck.violation(f"compiled model differs from the source model: {ans[:400]} "
                         f"(network {o['idx']} {o['profile']} {o['src_ops']} {o['opts']})", rp, key=classify_failure(o, ans))
        m = re.search(r"exptab seen=(\d+) bad=(\d+) first=(\S+)", ans)
        if m:
            ck.count("softmax_exp_tables_compared", int(m.group(1)))
            if int(m.group(1)) > 0 and o["src_ops"][-1] == "SOFTMAX" and re.search(r"cls=1 maxdiff=0 ", ans):
                ck.count("softmax_networks_bit_exact")
            if int(m.group(2)) > 0 and not ans.endswith("verdict=fail"):
                # Correspondence stream: the table of exponentials the stream installs differs from exp_on_negative_values of
                # the reference parameters, but the outputs agreed on the K input sets. Failing-input search: more input sets.
                import c01_lib

                r2 = random.Random(o["idx"] * 7919 + 17)
                more = c01_lib.inputs_from_specs(r2, [tuple(sp) for sp in o["input_specs"]], 48, first=6)
                ans2 = common.run_model([c01_lib.with_inputs(line, more)])[0]
                rp2 = dict(rp, verdict=ans2[:2000], request=c01_lib.with_inputs(line, more), exptab=m.group(0))
                ck.violation(f"SOFTMAX table of exponentials differs from the reference (exp_on_negative_values of the rescaled input "
                             f"difference, PreprocessSoftmaxScaling in double): {m.group(0)} (table/entry/reference/stream); "
                             f"wider input sample: {ans2[:200]} (network {o['idx']} {o['profile']} {o['src_ops']} {o['opts']})",
                             rp2, found_input=ans2.endswith("verdict=fail"))
    softmax_lowering(ck, owners, answers, lines)
    for o, ans in list(zip(owners, answers))[:4]:
        ck.sample({"network": o["desc"], "opts": o["opts"], "features": o.get("features"), "verdict": ans[:300]})
    ck.finish({
        "programs": judged,
        "evaluations": len(outs) + rw.evaluations + pk.evaluations,
        "distinct_nontrivial": len(nontrivial) + len(rw.nontrivial) + len(pk.nontrivial),
        "packing_evaluations": pk.evaluations,
        "packing_distinct": len(pk.nontrivial),
        "rewrite_stream_evaluations": rw.evaluations,
        "rewrite_stream_distinct": len(rw.nontrivial),
        **ss_stats,
        "inputs_per_network": k_inputs,
        "rule": "evaluation = one (generated network, sampled configuration) compiled by the real compiler; judged = both "
                "models executed by Lean on every input set; non-trivial = at least one NPU operation was executed by the "
                "stream executor and at least one output has a judged tolerance class; distinct by (profile, index, options). Rewrite "
                "streams: evaluation = one operator (group) built from the repo's classes and rewritten by the real function, compared with "
                "the Lean model and judged by the Lean per-element semantics; distinct by the operator's parameters. Pass packing: evaluation = "
                "one subgraph (generated with the repo's classes, or of a compiled network) packed by the real pack_into_passes, compared "
                "with the Lean model and judged by the Lean Spec clauses (partition, order, pass shape) on the real pass list; distinct by "
                "the graph description",
        "exhaustive": False,
        "trusted_base_extra": [
            "Spec/NpuSem.lean: hardware arithmetic transcribed from Vela's own register usage and the public register "
            "documentation (rounding modes, operand scaling of ADD/SUB, scale record layout, LUT addressing)",
            "Spec/TfliteRef.lean + harness/c01_lib.py: TensorFlow Lite reference kernels and QuantizeMultiplier transcribed "
            "from memory (tensorflow is not installable in the sandbox)",
            "weights of each NPU operation are the volumes Vela hands to the MLW encoder (weight_compressor.encode_weights inputs, captured "
            "in-process per depth slice and core); the encoded stream itself is C07/C08's subject",
        ],
    }, assumptions=["sequential execution of the command stream in program order (C04)",
                    "weights per operation = the OHWI volumes Vela passed to the MLW encoder for that depth slice (captured, not recomputed)",
                    "interface tensors are matched by position (C11)"])


main_wrapper(main)
