#!/venv/bin/python
"""C01 — the compiled model computes the same function as the source model.

Translation validation by execution, judged in Lean: every generated network is compiled with the real
compiler under a sampled configuration; the source model (plain flatbuffer walk) is executed by the Lean
integer reference kernels (Spec/TfliteRef.lean); the output model is executed by the same kernels for its
CPU operators and by the Lean command-stream executor (Spec/NpuSem.lean) for every Ethos-U operator, over
the constants region bytes, command words and arena offsets stored in the output file. Lean compares the
output tensors for K input tensors per network (bit-exact, or within one step for the documented
approximations) and returns the verdict."""
import json
import multiprocessing
import os
import random
import re
import sys
import traceback
import zlib
from concurrent.futures import ProcessPoolExecutor, ThreadPoolExecutor

import numpy as np

import common
from common import Check, main_wrapper

PROFILES = ["conv", "elementwise", "memory", "cascade", "mixed", "cpu", "approx", "cascade", "weights", "mixed"]


# ------------------------------------------------------------------------------------------------
# network generator (small tensors so that Lean executes both sides quickly)


def _same_quant(b, dst, src):
    b.t(dst).scales, b.t(dst).zps = list(b.t(src).scales), list(b.t(src).zps)


def make_builder(rng, name, dtype):
    """netgen.B with zero points that are mostly inside the range: a zero point at the end of the range combined
    with a RELU makes a tensor constant, and a constant tensor hides most differences."""
    import netgen

    class B2(netgen.B):
        def fm(self, shape, dtype=None, scale=None, zp=None, name=None):
            dt = dtype or self.dtype
            if zp is None and dt in ("int8", "uint8"):
                lo, hi = netgen._qrange(dt)
                r = self.rng.random()
                zp = (lo + hi + 1) // 2 if r < 0.25 else (self.rng.choice([lo, hi]) if r < 0.33 else self.rng.randint(lo + 20, hi - 20))
            return super().fm(shape, dtype, scale, zp, name)

    return B2(rng, name, dtype)


def pick_padding(rng, k, s):
    return rng.choice(["SAME", "VALID"])


def gen_net(rng, idx, profile):
    import netgen

    dtype = rng.choice(["int8"] * 6 + ["uint8"] * 3 + ["int16"] * 1)
    b = make_builder(rng, f"c01_{profile}_{idx}", dtype)
    if profile == "cascade":
        h, w, c = rng.choice([10, 12, 16, 20, 24]), rng.choice([4, 6, 8]), rng.choice([4, 8, 16])
    elif profile == "weights":
        h, w, c = rng.randint(1, 4), rng.randint(1, 4), rng.choice([16, 32, 48])
    else:
        h, w, c = rng.randint(1, 12), rng.randint(1, 12), rng.choice([1, 2, 3, 4, 8, 16, 16, 17, 24])
    x = b.input([1, h, w, c])
    b.net.desc.append(f"profile={profile} dtype={dtype} in={[1, h, w, c]}")
    menu = {
        "conv": ["conv", "conv", "conv1x1", "dwconv", "maxpool", "avgpool_valid", "relu", "fc_end", "tconv"],
        "elementwise": ["add_self", "add_skip", "mul_const", "sub_const", "add_const", "minmax", "relu", "lrelu", "quantize",
                        "conv1x1", "mul_skip"],
        "memory": ["concat", "split_concat", "slice", "pad_conv", "reshape_back", "conv1x1", "relu", "maxpool", "pad", "squeeze_expand"],
        "cascade": ["conv", "conv", "dwconv", "maxpool", "avgpool_valid", "conv1x1", "add_skip", "relu"],
        "weights": ["conv", "conv1x1", "conv1x1", "fc_end", "dwconv"],
        "cpu": ["conv_cpu", "conv", "add_self", "relu", "maxpool", "conv1x1", "conv_cpu", "concat"],
        "approx": ["conv", "conv1x1", "relu", "add_self", "maxpool"],
    }
    allk = sorted({k for v in menu.values() for k in v})
    live = [x]
    cur = x
    avoid = set()
    nops = rng.randint(1, 5 if profile != "cascade" else 4)
    for step in range(nops):
        xt = b.t(cur)
        if len(xt.shape) != 4:
            break
        kind = rng.choice(menu.get(profile, allk))
        # The one composition that hits the open finding (known_findings.txt, reproduced deterministically by a corpus
        # network) is kept rare in the random part so that it does not mask anything else.
        if kind in avoid and rng.random() < 0.995:
            kind = rng.choice(["conv1x1", "add_self", "mul_const"])
        n, hh, ww, cc = xt.shape
        new = None
        b.net.desc.append(kind)
        if kind == "conv":
            k = rng.choice([(1, 1), (3, 3), (3, 3), (5, 5), (2, 2), (1, 3), (3, 1), (2, 3)])
            s = rng.choice([(1, 1), (1, 1), (2, 2), (3, 3), (1, 2), (2, 1)])
            d = rng.choice([(1, 1), (1, 1), (1, 1), (2, 2)]) if s == (1, 1) else (1, 1)
            oc = rng.choice([1, 3, 4, 8, 16, 17]) if profile != "weights" else rng.choice([32, 48, 64])
            new = b.conv(cur, oc, k, s, d, pick_padding(rng, k, s), act=rng.choice([0, 0, 1, 3, 2]))
        elif kind == "conv_cpu":      # stride 4 is outside what the NPU supports: stays on the CPU
            new = b.conv(cur, rng.choice([4, 8]), (1, 1), (4, 4), (1, 1), "SAME", act=0)
        elif kind == "conv1x1":
            new = b.conv(cur, rng.choice([4, 8, 16, 24]), (1, 1), (1, 1), (1, 1), "SAME", act=rng.choice([0, 1]))
        elif kind == "dwconv":
            k = rng.choice([(3, 3), (3, 3), (5, 5), (2, 2), (1, 1), (1, 3)])
            s = rng.choice([(1, 1), (1, 1), (2, 2), (3, 3)])
            new = b.dwconv(cur, k, s, (1, 1), pick_padding(rng, k, s), act=rng.choice([0, 1, 3]))
        elif kind in ("maxpool", "avgpool_valid", "avgpool_same"):
            k = rng.choice([(2, 2), (3, 3), (2, 2), (1, 1), (4, 4), (2, 3)])
            s = rng.choice([(1, 1), (2, 2), (2, 2), (3, 3)])
            pad = "SAME" if kind == "avgpool_same" else ("VALID" if kind == "avgpool_valid" else pick_padding(rng, k, s))
            new = b.pool(cur, "MAX_POOL_2D" if kind == "maxpool" else "AVERAGE_POOL_2D", k, s, pad, act=rng.choice([0, 0, 1]))
        elif kind == "add_self":
            new = b.binary(rng.choice(["ADD", "SUB", "MUL"]), cur, cur)
        elif kind in ("add_skip", "mul_skip"):
            cands = [t for t in live if b.t(t).shape == xt.shape and b.t(t).dtype == xt.dtype]
            new = b.binary(rng.choice(["ADD", "ADD", "SUB"]) if kind == "add_skip" else "MUL", cur, rng.choice(cands),
                           act=rng.choice([0, 0, 1, 3]))
        elif kind in ("mul_const", "sub_const", "add_const"):
            shp = rng.choice([[1, 1, 1, cc], [1, 1, 1, 1], list(xt.shape), [1, 1, ww, cc]])
            lo, hi = netgen._qrange(xt.dtype)
            r = np.random.RandomState(rng.getrandbits(32))
            c2 = b.const(shp, xt.dtype, r.randint(lo, hi + 1, int(np.prod(shp))), [netgen.rand_scale(rng)],
                         [netgen.rand_zp(rng, xt.dtype)])
            args = (cur, c2) if rng.random() < 0.6 else (c2, cur)
            new = b.binary({"mul_const": "MUL", "sub_const": "SUB", "add_const": "ADD"}[kind], *args)
        elif kind == "minmax":
            other = b.pool(cur, "MAX_POOL_2D", (3, 3), (1, 1), "SAME") if rng.random() < 0.5 else cur
            new = b.binary(rng.choice(["MINIMUM", "MAXIMUM"]), cur, other)
        elif kind == "relu":
            new = b.unary(rng.choice(["RELU", "RELU6", "RELU_N1_TO_1"]), cur)
        elif kind == "lrelu":
            new = b.unary("LEAKY_RELU", cur)
            if rng.random() < 0.4:
                _same_quant(b, new, cur)
        elif kind == "quantize":
            new = b.quantize(cur)
        elif kind == "concat":
            other = rng.choice([b.unary("RELU", cur), b.pool(cur, "MAX_POOL_2D", (3, 3), (1, 1), "SAME"), cur])
            axis = rng.choice([3, 3, 1, 2])
            new = b.concat([cur, other] if rng.random() < 0.5 else [other, cur, other], axis)
            _same_quant(b, new, cur)
        elif kind == "split_concat" and cc % 2 == 0:
            o1, o2 = b.split(cur, 2, 3)
            o1 = b.unary("RELU", o1)
            new = b.concat([o2, o1], 3)
            _same_quant(b, new, cur)
        elif kind == "slice" and hh >= 2 and ww >= 2:
            b0, b1 = rng.randint(0, hh - 1), rng.randint(0, ww - 1)
            c0 = rng.choice([0, 0, cc // 2])
            new = b.strided_slice(cur, [0, b0, b1, c0], [1, rng.randint(b0 + 1, hh), rng.randint(b1 + 1, ww), cc])
        elif kind == "pad":
            new = b.pad(cur, [[0, 0], [rng.randint(0, 2), rng.randint(0, 2)], [rng.randint(0, 2), rng.randint(0, 2)], [0, 0]])
        elif kind == "pad_conv":
            p = b.pad(cur, [[0, 0], [rng.randint(0, 1), rng.randint(0, 2)], [rng.randint(0, 2), rng.randint(0, 1)], [0, 0]])
            new = b.conv(p, rng.choice([4, 8]), (3, 3), (1, 1), (1, 1), "VALID") or p
        elif kind == "reshape_back":
            r1 = b.reshape(cur, [1, hh * ww, 1, cc])
            new = b.reshape(r1, [1, hh, ww, cc])
        elif kind == "squeeze_expand" and (hh == 1 or ww == 1):
            ax = 1 if hh == 1 else 2
            sq_shape = [d for i, d in enumerate(xt.shape) if i != ax]
            sq = b.fm(sq_shape, xt.dtype, scale=xt.scales[0], zp=xt.zps[0])
            b.net.ops.append(netgen.Op("SQUEEZE", [cur], [sq], ("SqueezeOptions", dict(SqueezeDims=[ax]))))
            axt = b.const([], "int32", [ax], name=b.fresh("axis"))
            new = b.fm(list(xt.shape), xt.dtype, scale=xt.scales[0], zp=xt.zps[0])
            b.net.ops.append(netgen.Op("EXPAND_DIMS", [sq, axt], [new], ("ExpandDimsOptions", {})))
        elif kind == "tconv" and hh * ww <= 36 and xt.dtype != "int16":
            new = b.transpose_conv(cur, rng.choice([1, 4, 8]), rng.choice([(2, 2), (3, 3)]), (2, 2), rng.choice(["SAME", "VALID"]))
        elif kind == "fc_end" and hh * ww * cc <= 512:
            flat = b.reshape(cur, [1, hh * ww * cc])
            new = b.fc(flat, rng.choice([1, 10, 16]), act=rng.choice([0, 1]))
        if new is None:
            b.net.desc[-1] += ":skipped"
            continue
        cur = new
        live.append(cur)
        last = b.net.ops[-1]
        avoid = set()
        if last.kind == "LEAKY_RELU" and dtype == "int16":
            # int16 LEAKY_RELU with differing scales is lowered to MUL/MUL/MAX; a RESHAPE behind it goes wrong (open finding)
            avoid = {"fc_end", "reshape_back", "squeeze_expand"}
    if profile == "approx" and len(b.t(cur).shape) == 4:
        # the approximated operator comes last so that its error is not amplified
        which = rng.choice(["avgpool_same", "avgpool_same", "logistic", "tanh", "resize", "resize"])
        hh, ww, cc = b.t(cur).shape[1:]
        if which == "resize" and (hh * ww > 36 or b.t(cur).dtype == "int16"):
            which = "avgpool_same"
        b.net.desc.append(which)
        if which == "avgpool_same":
            k = rng.choice([(2, 2), (3, 3), (3, 3), (5, 5)])
            new = b.pool(cur, "AVERAGE_POOL_2D", k, rng.choice([(1, 1), (2, 2)]), "SAME")
        elif which == "resize":
            kind_r = rng.choice(["RESIZE_BILINEAR", "RESIZE_NEAREST_NEIGHBOR"])
            al, hp = rng.choice([(False, False), (True, False), (False, True)])
            if al and (hh == 1 or ww == 1 or (kind_r == "RESIZE_NEAREST_NEIGHBOR" and cc > 1)):
                al = False          # crashes recorded under C13
            new = b.resize(cur, 2, kind_r, al, hp)
        else:
            new = b.unary("LOGISTIC" if which == "logistic" else "TANH", cur)
        if new is not None:
            cur = new
    outs = [cur]
    if len(live) > 2 and rng.random() < 0.2:
        extra = rng.choice(live[1:-1])
        if extra not in outs:
            outs.append(extra)
    if cur == x:
        cur = b.unary("RELU", x)
        outs = [cur]
    return b.finish(outs)


def corpus_net(rng, name):
    """hand-built reproducers of the defects this check found (run first on every run): regression tests for the repaired
    ones, a deterministic witness for the open one (known_lrelu16_reshape)"""
    import netgen

    b = make_builder(rng, name, "int16" if name in ("known_fc_int16", "known_lrelu16_relu6", "known_lrelu16_reshape", "known_lrelu16_rounding")
                     else ("uint8" if name == "known_dilation3_uint8" else "int8"))
    if name == "known_fc_int16":
        x = b.input([1, 2, 1, 16], scale=0.0011566292960196733, zp=0)
    elif name == "known_lrelu16_relu6":
        x = b.input([1, 4, 6, 4], scale=0.00029, zp=0)
    elif name == "known_lrelu16_reshape":
        x = b.input([1, 9, 4, 8], scale=0.025, zp=0)
    elif name == "known_lrelu16_rounding":
        x = b.input([1, 2, 4, 4], scale=0.01, zp=0)
    else:
      x = b.input({"known_pad_conv_reshape": [1, 4, 9, 4], "known_lut_reshape": [1, 3, 9, 8],
                 "known_cascade_stale_row": [1, 10, 8, 8], "known_slice_strided_conv": [1, 6, 6, 4],
                 "known_pad_concat": [1, 1, 3, 16], "known_pad_strided_dw": [1, 10, 9, 4], "known_sconv_unit_output": [1, 2, 18, 4],
                 "known_sconv_filter_shift": [1, 4, 24, 3], "known_dilation3_uint8": [1, 12, 12, 4]}.get(name, [1, 6, 6, 8]), scale=0.05,
                zp=120 if name == "known_dilation3_uint8" else 3)
    if name == "known_slice_relu":
        y = b.pool(x, "MAX_POOL_2D", (3, 3), (1, 1), "SAME")
        s = b.strided_slice(y, [0, 1, 2, 0], [1, 5, 6, 8])
        z = b.unary("RELU6", s)
    elif name == "known_fused_act_relu":
        y = b.conv(x, 8, (3, 3), (1, 1), (1, 1), "SAME", act=1)
        z = b.unary("RELU_N1_TO_1", y)
    elif name == "known_pad_conv_reshape":
        p = b.pad(x, [[0, 0], [1, 0], [1, 0], [0, 0]])
        y = b.conv(p, 8, (3, 3), (1, 1), (1, 1), "VALID", act=0)
        z = b.fc(b.reshape(y, [1, int(np.prod(b.t(y).shape))]), 4)
    elif name == "known_slice_window":
        y = b.pool(x, "MAX_POOL_2D", (2, 2), (1, 1), "VALID")
        s = b.strided_slice(y, [0, 2, 1, 0], [1, 4, 4, 8])
        z = b.pool(s, "MAX_POOL_2D", (3, 3), (1, 1), "SAME")
    elif name == "known_lut_reshape":
        y = b.unary("LEAKY_RELU", b.conv(x, 8, (1, 1), (1, 1), (1, 1), "SAME", act=1))
        z = b.fc(b.reshape(y, [1, int(np.prod(b.t(y).shape))]), 4)
    elif name == "known_cascade_stale_row":
        y = b.conv(x, 8, (3, 3), (1, 1), (1, 1), "SAME", act=0, out_scale=0.08)
        b.t(y).zps = [-5]
        z = b.conv(y, 8, (3, 3), (3, 3), (1, 1), "SAME", act=0, out_scale=0.1)
        b.t(z).zps = [7]
    elif name == "known_pad_avgpool_act":
        p = b.pad(x, [[0, 0], [1, 0], [0, 1], [0, 0]])
        z = b.pool(p, "AVERAGE_POOL_2D", (2, 2), (1, 1), "VALID", act=1)
    elif name == "known_slice_of_slice":
        s1 = b.strided_slice(x, [0, 1, 2, 0], [1, 6, 6, 8])
        z = b.strided_slice(s1, [0, 2, 1, 4], [1, 4, 3, 8])
    elif name == "known_slice_strided_conv":
        s1 = b.strided_slice(x, [0, 1, 2, 0], [1, 3, 4, 4])
        z = b.conv(s1, 4, (1, 1), (4, 4), (1, 1), "SAME", act=0)
    elif name == "known_fc_int16":
        z = b.fc(b.reshape(x, [1, 32]), 10)
        b.t(z).scales = [0.41879141330718994]
        fc = b.net.ops[-1]
        b.t(fc.inputs[1]).scales = [0.0021146892104297876]       # real multiplier 5.8e-6: reduced shift 32 >= 31
        b.t(fc.inputs[2]).scales = [0.0011566292960196733 * 0.0021146892104297876]
    elif name == "known_slice_strided_pool":
        s1 = b.strided_slice(x, [0, 2, 2, 0], [1, 6, 6, 8])
        z = b.pool(s1, "MAX_POOL_2D", (1, 1), (2, 2), "VALID")
    elif name == "known_pad_concat":
        p = b.pad(x, [[0, 0], [0, 0], [0, 0], [0, 0]])
        m = b.pool(p, "MAX_POOL_2D", (3, 3), (1, 1), "SAME")
        z = b.concat([m, p, m], 3)
        _same_quant(b, z, x)
    elif name == "known_pad_strided_dw":
        p = b.pad(x, [[0, 0], [1, 0], [1, 1], [0, 0]])
        z = b.dwconv(p, (2, 2), (3, 3), (1, 1), "VALID", act=0)
    elif name == "known_lrelu16_relu6":
        y = b.unary("LEAKY_RELU", x)
        _same_quant(b, y, x)
        z = b.unary("RELU6", y)
    elif name == "known_lrelu16_reshape":
        q = b.quantize(x)
        b.t(q).scales = [0.0019]
        y = b.unary("LEAKY_RELU", q)
        b.t(y).scales = [0.24]
        z = b.fc(b.reshape(y, [1, 9 * 4 * 8]), 4)
    elif name == "known_reshape_relu":
        z = b.unary("RELU6", b.reshape(x, [1, 4, 9, 8]))
    elif name in ("known_mulmax_gt1", "known_mulmax_q0", "known_mulmax_qm1"):
        # Maximum(x, Mul(x, c)), c a constant scalar: real value 2 / -0.5 (quantised 0, zero point 10) / -0.502 (quantised -1)
        q, zpc, sc = {"known_mulmax_gt1": (127, -128, 2 / 255), "known_mulmax_q0": (0, 10, 0.05), "known_mulmax_qm1": (-1, 127, 1 / 255)}[name]
        c = b.const([], "int8", [q], [sc], [zpc])
        m = b.binary("MUL", x, c)
        b.t(m).shape = list(b.t(x).shape)
        _same_quant(b, m, x)
        z = b.binary("MAXIMUM", x, m)
    elif name == "known_avgpool_wide_stride":
        # width stride 8: lowered to a convolution (width folded by fixup_strided_conv); depth 2
        z = b.pool(x, "AVERAGE_POOL_2D", (2, 4), (2, 8), "VALID")
    elif name == "known_dilation3_uint8":
        # dilation 3 is done in software (sparse kernel); uint8 weights have a non-zero zero point
        z = b.conv(x, 4, (3, 3), (1, 1), (3, 3), "SAME", act=0)
        b.t(b.net.ops[-1].inputs[1]).zps = [138]
    elif name == "known_sconv_unit_output":
        # first operator, stride (2, 4): the width is folded by 2, then the OFM height 1 makes the padding explicit
        z = b.conv(x, 2, (1, 6), (2, 4), (1, 1), "SAME", act=0)
    elif name == "known_sconv_filter_shift":
        # stride (1, 9) SAME: folded by 3, one zero column in front of the 3-wide filter although no padding is needed
        z = b.conv(x, 2, (1, 3), (1, 9), (1, 1), "SAME", act=0)
    elif name == "known_pad_hw_and_channel":
        # PAD that pads height/width and channels at once
        z = b.pool(b.pad(x, [[0, 0], [1, 1], [1, 1], [0, 2]]), "MAX_POOL_2D", (1, 1), (1, 1), "VALID")
    elif name == "known_lrelu16_rounding":
        # identity multiplier exactly 1/2, alpha 0.998: for small negative inputs the two roundings of the identity branch end one
        # above the alpha branch (Props/C01Rewrites.lrelu_mulmax_id_witness)
        z = b.fm([1, 2, 4, 4], "int16", scale=0.02, zp=0)
        b.net.ops.append(netgen.Op("LEAKY_RELU", [x], [z], ("LeakyReluOptions", dict(Alpha=0.998))))
    else:  # known_quantize_relu
        y = b.quantize(x)
        b.t(y).scales, b.t(y).zps = [0.03], [20]
        z = b.unary("RELU", y)
    return b.finish([z])


def gen_opts(rng, profile):
    import pipe_common

    opts = pipe_common.sample_config(rng, "cascade" if profile == "cascade" else "mixed")
    if profile == "cascade" and "--arena-cache-size" not in opts and rng.random() < 0.6:
        # a small cache makes the Performance scheduler stripe as well
        opts += ["--arena-cache-size", str(rng.choice([1024, 2048, 4096]))]
    return opts


# ------------------------------------------------------------------------------------------------


def _worker(job):
    seed, idx, profile, k_inputs = job
    import c01_lib
    import netgen
    import pipe_common
    import pipeline

    rng = random.Random((seed << 20) ^ (idx * 7919) ^ zlib.crc32(("c01" + profile).encode()))
    out = {"idx": idx, "profile": profile, "seed": seed}
    try:
        if profile.startswith("known_"):
            net = corpus_net(rng, profile)
            opts = ["--accelerator-config", "ethos-u55-128"]
            if profile == "known_cascade_stale_row":
                opts += ["--optimise", "Size"]
            if profile == "known_pad_conv_reshape":
                # with weights in SRAM no weight buffering is proposed and the compilation goes through
                opts += ["--config", os.path.join(common.REPO, "ethosu", "config_files", "Arm", "vela.ini"), "--system-config",
                         "Ethos_U55_High_End_Embedded", "--memory-mode", "Sram_Only"]
        else:
            net = gen_net(rng, idx, profile)
            opts = gen_opts(rng, profile)
        data = netgen.serialize(net)
        out.update(desc=net.describe(), opts=opts, src_ops=[o.kind for o in net.ops], dtype=net.tensors[net.inputs[0]].dtype,
                   src_inputs=list(net.inputs),
                   src_quant=[(list(t.scales or []), list(t.zps or [])) for t in net.tensors],
                   src_shapes=[list(t.shape) for t in net.tensors],
                   src_dilations=[max(int((o.opts[1] if o.opts else {}).get("DilationHFactor", 1)), int((o.opts[1] if o.opts else {}).get("DilationWFactor", 1)))
                                  for o in net.ops],
                   src_strides=[(int((o.opts[1] if o.opts else {}).get("StrideH", 1)), int((o.opts[1] if o.opts else {}).get("StrideW", 1))) for o in net.ops],
                   src_scalars={i: int(np.asarray(t.data).reshape(-1)[0]) for i, t in enumerate(net.tensors)
                                if t.data is not None and np.asarray(t.data).size == 1},
                   src_pads={i: np.asarray(t.data).reshape(-1, 2).tolist() for i, t in enumerate(net.tensors)
                             if t.data is not None and t.dtype == "int32" and np.asarray(t.data).size in (6, 8)},
                   src_graph=[(o.kind, list(o.inputs), list(o.outputs), int((o.opts[1] if o.opts else {}).get("FusedActivationFunction", 0)),
                               int((o.opts[1] if o.opts else {}).get("Padding", -1)),
                               max(int((o.opts[1] if o.opts else {}).get("StrideW", 1)), int((o.opts[1] if o.opts else {}).get("StrideH", 1))))
                              for o in net.ops])
        with c01_lib.WeightCapture() as capture:
            res = pipeline.compile_net(data, opts, name=f"n{idx}")
        out.update(status=res.status, exc=(type(res.exc).__name__ + ": " + str(res.exc))[:300] if res.exc is not None else "",
                   exc_site=pipe_common.exc_site(res.tb, res.exc))
        if res.status == "ok" and res.out_model is not None:
            feats = set()
            nops = 0
            for art in res.streams:
                feats |= pipeline.stream_features(art)
                nops += len(art.npu_ops)
            out["features"] = sorted(feats)
            out["npu_stream_ops"] = nops
            try:
                sets = c01_lib.make_inputs(rng, data, k_inputs)
                if profile == "known_lrelu16_rounding":       # small negative inputs are where the two roundings differ
                    sets[0] = [np.resize(np.arange(-39, 0), 32).astype("<i2").tobytes().hex()]
                line, sg, og = c01_lib.build_request(data, res, sets, capture)
                out["line"] = line
                out["out_kinds"] = og.kinds
            except c01_lib.NotSimulated as e:
                out["not_simulated"] = str(e)
        pipeline.reset_process_state()
    except BaseException:  # noqa: B902
        out["harness_exception"] = traceback.format_exc()[-2000:]
    return out


def run_lean(lines, jobs=16):
    """shard the (heavy) requests over several driver processes, longest first"""
    if not lines:
        return []
    order = sorted(range(len(lines)), key=lambda i: -len(lines[i]))
    shards = [[] for _ in range(min(jobs, len(lines)))]
    for n, i in enumerate(order):
        shards[n % len(shards)].append(i)
    answers = [None] * len(lines)

    def one(shard):
        res = common.run_model([lines[i] for i in shard])
        for i, a in zip(shard, res):
            answers[i] = a

    with ThreadPoolExecutor(len(shards)) as ex:
        list(ex.map(one, shards))
    return answers


MEMORY_ONLY = ("RESHAPE", "SQUEEZE", "EXPAND_DIMS")


def classify_failure(o, ans):
    """stable key of the open known finding (see known_findings.txt), or None. Only the structure of the source network
    is consulted; the verdict itself is Lean's."""
    g = o.get("src_graph") or []
    if "weights_do_not_fit_the_IFM_depth" in ans:
        # AVERAGE_POOL_2D with a width stride >= 4 lowered to a convolution with one input channel
        shapes, strides = o.get("src_shapes") or [], o.get("src_strides") or []
        for n_op, (kind, ins, outs, faf, pad, stride) in enumerate(g):
            if kind == "AVERAGE_POOL_2D" and n_op < len(strides) and strides[n_op][1] >= 4 and ins[0] < len(shapes) and shapes[ins[0]][-1] > 1:
                return "avgpool-wide-stride-as-conv:weights-have-one-input-channel"
    if ans.endswith("verdict=fail"):
        # Maximum(x, Mul(x, c)) with a constant scalar c taken for LeakyRelu / Relu / Abs on its quantised value
        quant, scalars = o.get("src_quant") or [], o.get("src_scalars") or {}
        prod = {outs[0]: (kind, ins) for kind, ins, outs, faf, pad, stride in g}
        for kind, ins, outs, faf, pad, stride in g:
            if kind != "MAXIMUM":
                continue
            for a, m in ((ins[0], ins[1]), (ins[1], ins[0])):
                pk, pins = prod.get(m, (None, None))
                if pk == "MUL" and a in pins:
                    c = [t for t in pins if t != a]
                    if len(c) == 1 and c[0] in scalars and quant[c[0]][0]:
                        q, zpc, sc = scalars[c[0]], quant[c[0]][1][0], float(np.float32(quant[c[0]][0][0]))
                        real = (q - zpc) * sc
                        if q == 0 and zpc != 0:
                            return "mul-max-to-relu:quantised-zero-with-nonzero-zero-point"
                        if q == -1 and real != -1:
                            return "mul-max-to-abs:quantised-minus-one-not-real-minus-one"
                        if q >= 0 and real > 1:
                            return "mul-max-to-lrelu:real-constant-above-one"
        # dilation above 2 (sparse kernel built in software) with asymmetric (uint8) weights
        dils = o.get("src_dilations") or []
        for n_op, (kind, ins, outs, faf, pad, stride) in enumerate(g):
            if kind in ("CONV_2D", "DEPTHWISE_CONV_2D") and n_op < len(dils) and dils[n_op] > 2 and len(ins) > 1 and ins[1] < len(quant) \
                    and any(z != 0 for z in quant[ins[1]][1]):
                return "software-dilation:inserted-taps-zero-instead-of-weight-zero-point"
        # SAME-padded CONV_2D whose width gets folded into the channels (first operator with a width stride > 1, or any with a width
        # stride > 3): explicit padding from the unfolded width when the OFM height/width is 1, misaligned filter zero columns otherwise
        shapes, strides = o.get("src_shapes") or [], o.get("src_strides") or []
        for n_op, (kind, ins, outs, faf, pad, stride) in enumerate(g):
            if kind == "CONV_2D" and pad == 0 and n_op < len(strides) and strides[n_op][1] > 1 and (n_op == 0 or strides[n_op][1] > 3):
                osh = shapes[outs[0]] if outs[0] < len(shapes) else []
                if len(osh) == 4 and (osh[1] == 1 or osh[2] == 1):
                    return "strided-conv-fold:unit-output-padding-from-unfolded-width"
                return "strided-conv-fold:filter-zero-padding-misaligned"
        # PAD with channel (or batch) padding and spatial padding at once: convert_pad_to_concat keeps only the channel part
        pads = o.get("src_pads") or {}
        for kind, ins, outs, faf, pad, stride in g:
            if kind == "PAD" and len(ins) > 1 and ins[1] in pads:
                pv = pads[ins[1]]
                if (sum(pv[-1]) != 0 or (len(pv) == 4 and sum(pv[0]) != 0)) and sum(pv[-3]) + sum(pv[-2]) != 0:
                    return "pad-spatial-and-channel-padding:spatial-part-dropped"
        # int16 LEAKY_RELU with differing scales lowered to Maximum(Mul, Mul): each branch rounds twice
        if o.get("dtype") == "int16" and re.search(r"maxdiff=1 ", ans) and not re.search(r"maxdiff=([2-9]|1\d)", ans):
            for kind, ins, outs, faf, pad, stride in g:
                if kind == "LEAKY_RELU" and quant and quant[ins[0]][0] != quant[outs[0]][0]:
                    return "int16-lrelu-mul-max-rounds-each-branch"
    if not (ans.endswith("verdict=fail") or "read_outside_region" in ans) or o.get("dtype") != "int16":
        return None
    consumers = {}
    for kind, ins, outs, faf, pad, stride in g:
        for t in ins:
            consumers.setdefault(t, []).append(kind)
    for kind, ins, outs, faf, pad, stride in g:
        if kind == "LEAKY_RELU" and any(c in MEMORY_ONLY for c in consumers.get(outs[0], [])):
            return "int16-lrelu-mul-max-then-reshape-recomputes-shapes"
    return None


def replay(ck, path):
    rp = json.load(open(path))["replay"]
    if "stream" in rp:
        # a rewrite-stream replay: the model's answer to the stored request and Lean's semantic verdict on the stored real output
        if rp.get("request"):
            print("model:", common.run_model([rp["request"]])[0][:500])
        sem = rp.get("semantic_request")
        if sem and not sem.endswith("…"):
            ans = common.run_model([sem])[0]
            print("semantic verdict on the recorded output of the real rewrite:", ans[:500])
            sys.exit(0 if ans == "ok" else 1)
        print("recorded verdict:", rp.get("lean_verdict"))
        sys.exit(1)
    ans = common.run_model([rp["request"]])[0]
    print("replayed verdict:", ans[:1000])
    sys.exit(0 if ans.endswith("verdict=pass") else 1)


def main():
    ck = Check("C01", "translation_validation")
    ck.lean_stage(["VelaVerif.Props.C01", "VelaVerif.Props.C01Rewrites"])
    if ck.replay_arg:
        replay(ck, ck.replay_arg)
    import pipeline

    pipeline.load_vela()
    # rewrite streams: the models of Model/Rewrites.lean against the real graph-optimiser functions (in-process)
    import c01_rewrites
    import time

    t0 = time.time()
    rw = c01_rewrites.run(ck)
    ck.count("seconds_rewrite_streams", round(time.time() - t0))
    n = 40000 if ck.thorough else 6000
    k_inputs = 5 if ck.thorough else 4
    jobs = [(0, 0, "known_" + nm, k_inputs) for nm in ("slice_relu", "fused_act_relu", "pad_conv_reshape", "quantize_relu", "reshape_relu",
                                                              "slice_window", "lut_reshape", "cascade_stale_row", "pad_avgpool_act", "slice_of_slice", "slice_strided_conv", "fc_int16",
                                                              "slice_strided_pool", "pad_concat", "pad_strided_dw", "lrelu16_relu6", "lrelu16_reshape",
                                                              "mulmax_gt1", "mulmax_q0", "mulmax_qm1", "lrelu16_rounding", "pad_hw_and_channel",
                                                              "sconv_unit_output", "sconv_filter_shift", "dilation3_uint8",
                                                              "avgpool_wide_stride")]
    jobs += [(ck.seed, i, PROFILES[i % len(PROFILES)], k_inputs) for i in range(n)]
    ctx = multiprocessing.get_context("fork")
    t0 = time.time()
    # The quick tier has a wall-clock budget: on a heavily loaded machine the compile stage is cut short after `budget` seconds
    # (never below 1500 generated networks); every network is still a pure function of (seed, index), so a reported network
    # replays regardless of how many were run. The number actually run is in the evidence (`evaluations`).
    budget = None if ck.thorough else 100
    outs = []
    with ProcessPoolExecutor(min(16, os.cpu_count() or 4), mp_context=ctx) as ex:
        for k in range(0, len(jobs), 500):
            if budget is not None and k >= 1500 and time.time() - t0 > budget:
                ck.count("networks_not_run_for_lack_of_time", len(jobs) - k)
                break
            outs += list(ex.map(_worker, jobs[k:k + 500], chunksize=1))
    ck.count("seconds_compile_and_build_requests", round(time.time() - t0))
    lines, owners = [], []
    for o in outs:
        if "harness_exception" in o:
            raise common.InfraError("pipeline worker failed:\n" + o["harness_exception"])
        ck.count("compile_" + o["status"])
        if o["status"] != "ok":
            ck.count("compile_died_or_rejected:" + (o.get("exc_site") or o["status"]))
            continue
        if "not_simulated" in o:
            ck.count("not_simulated")
            ck.count("not_simulated:" + o["not_simulated"])
            continue
        if "line" in o:
            lines.append(o["line"])
            owners.append(o)
    t0 = time.time()
    answers = run_lean(lines)
    ck.count("seconds_lean_execution", round(time.time() - t0))
    judged, nontrivial = 0, set()
    for o, ans, line in zip(owners, answers, lines):
        rp = {"profile": o["profile"], "seed": o["seed"], "index": o["idx"], "opts": o["opts"], "network": o["desc"],
              "verdict": ans[:2000], "request": line}
        if ans.startswith("skip:"):
            ck.count("not_simulated")
            ck.count("not_simulated:" + ans[5:])
            continue
        if not ans.startswith("ok "):
            key = classify_failure(o, ans)
            ck.violation(f"execution of the {'output' if ':out:' in ans else 'source'} model failed in Lean: {ans[:300]} "
                         f"(network {o['idx']} {o['profile']} {o['src_ops']} {o['opts']})", rp, found_input=key is not None, key=key)
            continue
        judged += 1
        m = re.search(r"ops=(\d+) sets=(\d+)", ans)
        nblocks = int(m.group(1))
        ck.count("npu_stream_ops_executed", nblocks)
        ck.count("dtype_" + o["dtype"])
        acc = o["opts"][o["opts"].index("--accelerator-config") + 1]
        ck.count("acc_" + acc)
        for f in o.get("features", []):
            ck.count("feature_" + f)
        for kd in set(o["src_ops"]):
            ck.count("src_op_" + kd)
        for kd in o.get("out_kinds", []):
            if kd != "NPU":
                ck.count("cpu_op_" + kd)
        classes = re.findall(r"cls=(\d)", ans)
        for c in classes:
            ck.count("output_class_" + {"0": "exact", "1": "within_one", "2": "not_judged"}[c])
        if nblocks > 0 and any(c != "2" for c in classes):
            nontrivial.add((o["profile"], o["idx"], tuple(o["opts"])))
        if ans.endswith("verdict=fail"):
            ck.violation(f"compiled model differs from the source model: {ans[:400]} "
                         f"(network {o['idx']} {o['profile']} {o['src_ops']} {o['opts']})", rp, key=classify_failure(o, ans))
    for o, ans in list(zip(owners, answers))[:4]:
        ck.sample({"network": o["desc"], "opts": o["opts"], "features": o.get("features"), "verdict": ans[:300]})
    ck.finish({
        "programs": judged,
        "evaluations": len(outs) + rw.evaluations,
        "distinct_nontrivial": len(nontrivial) + len(rw.nontrivial),
        "rewrite_stream_evaluations": rw.evaluations,
        "rewrite_stream_distinct": len(rw.nontrivial),
        "inputs_per_network": k_inputs,
        "rule": "evaluation = one (generated network, sampled configuration) compiled by the real compiler; judged = both "
                "models executed by Lean on every input set; non-trivial = at least one NPU operation was executed by the "
                "stream executor and at least one output has a judged tolerance class; distinct by (profile, index, options). Rewrite "
                "streams: evaluation = one operator (group) built from the repo's classes and rewritten by the real function, compared with "
                "the Lean model and judged by the Lean per-element semantics; distinct by the operator's parameters",
        "exhaustive": False,
        "trusted_base_extra": [
            "Spec/NpuSem.lean: hardware arithmetic transcribed from Vela's own register usage and the public register "
            "documentation (rounding modes, operand scaling of ADD/SUB, scale record layout, LUT addressing)",
            "Spec/TfliteRef.lean + harness/c01_lib.py: TensorFlow Lite reference kernels and QuantizeMultiplier transcribed "
            "from memory (tensorflow is not installable in the sandbox)",
            "weights of each NPU operation are the volumes Vela hands to the MLW encoder (weight_compressor.encode_weights inputs, captured "
            "in-process per depth slice and core); the encoded stream itself is C07/C08's subject",
        ],
    }, assumptions=["sequential execution of the command stream in program order (C04)",
                    "weights per operation = the OHWI volumes Vela passed to the MLW encoder for that depth slice (captured, not recomputed)",
                    "interface tensors are matched by position (C11)"])


main_wrapper(main)
