"""Subgraph interface tensors that no operator (or not only an operator) stands behind (round 6, seeded change C12-r6m2).

A TFLite subgraph may list ANY tensor as output: a subgraph input that is returned unchanged, a constant, an intermediate
tensor (and any of them more than once).  The runtime treats the input list as "written before the first operator" and the
output list as "read after the last operator" whatever the operators do in between; the caller of a network with a
pass-through tensor expects to find in the output exactly the bytes it put in the input.  For the arena plan that means: an
input is live from time 0, an output until the end, a pass-through tensor for the whole inference
(Spec/Arena.lean `born` / `dies`, theorems `Props.C12.passthrough_live_throughout`, `passthrough_shares_no_byte`).

    io_passthrough(rng, idx, v)   pattern family (netgen.PATTERNS): what is listed (KINDS) x what runs beside it (BESIDE)
                                  x where it stands in the input / output lists
"""
import numpy as np

import netgen
from netgen import B, Op, T

# what is listed as subgraph output besides the ordinary results
KINDS = [
    "input",            # an input read by no operator, listed once
    "input_dup",        # ... listed twice in the output list
    "input_read_npu",   # an input that is output AND read by one accelerated operator
    "input_read_cpu",   # ... by one CPU operator
    "two_inputs",       # two untouched inputs of different sizes (one may be float32 / int32 / unquantised)
    "const",            # a constant that no operator reads
    "const_read",       # a constant that an accelerated operator reads (elementwise operand) and that is output as well
    "mid_dup",          # an intermediate tensor listed twice (and read by the next operator)
    "mid_and_last",     # an intermediate tensor once, the final result twice
    "input_dup_in",     # the same untouched tensor twice in the INPUT list and once in the output list
    "input_only_pass",  # nothing else in the network: inputs = outputs, no operator at all next to it (see BESIDE)
    "input_read_inplace",  # an input that is output and read by one elementwise operator that could overwrite it
]
# what else the network does (the other arena tensors the pass-through tensor must not share bytes with)
BESIDE = ["npu", "cpu", "npu_cpu_npu", "cpu_npu", "npu_chain", "none"]
# the sweep walks KINDS with the variant and BESIDE with (variant div #KINDS + variant) so that every pair occurs within
# lcm(12, 6)-ish instances; "none" is replaced by "npu" for the kinds that need an operator


def _npu(b, x):
    rng = b.rng
    xt = b.t(x)
    if len(xt.shape) == 4 and xt.shape[0] == 1 and xt.dtype in ("int8", "uint8", "int16") and rng.random() < 0.7:
        y = b.conv(x, rng.choice([4, 8, 16]), rng.choice([(1, 1), (3, 3)]), (1, 1), (1, 1), "SAME")
        if y is not None:
            return y
    import netgen_ext

    return netgen_ext.ew_const(b, x)


def _cpu(b, x):
    import netgen_ext

    return netgen_ext.custom(b, [x]) if b.rng.random() < 0.6 else b.cpu_op(x, b.rng.choice(["custom", "sin_like", "float_detour"]))


def _beside(b, x, beside):
    """the ordinary part of the network on input x -> (results, intermediate tensors)"""
    mids = []
    cur = x
    steps = {"npu": "N", "cpu": "C", "npu_cpu_npu": "NCN", "cpu_npu": "CN", "npu_chain": "NNN", "none": ""}[beside]
    for s in steps:
        cur = _npu(b, cur) if s == "N" else _cpu(b, cur)
        mids.append(cur)
    return cur, mids[:-1]


def _odd_input(b, shape):
    """an input of a type Vela never hands to the NPU"""
    rng = b.rng
    dt = rng.choice(["float32", "int32", "int8_noq", "int16", "bool"])
    if dt == "int8_noq":
        i = b.net.add(T(b.fresh("input"), shape, "int8"))
    elif dt == "int16":
        i = b.fm(shape, "int16", name=b.fresh("input"))
    else:
        i = b.net.add(T(b.fresh("input"), shape, dt))
    b.net.inputs.append(i)
    return i


def io_passthrough(rng, idx, variant=None):
    import netgen_ext

    pick = netgen_ext._pick
    kind = pick(rng, variant, KINDS)
    beside = pick(rng, (variant + variant // len(KINDS)) if variant is not None else None, BESIDE)
    dtype = rng.choice(["int8", "int8", "uint8", "int16"])
    b = B(rng, f"pat{idx}_io_passthrough", dtype)
    shape = [1, rng.choice([2, 4, 6, 8, 12, 16]), rng.choice([2, 4, 8, 16]), rng.choice([4, 8, 16])]
    # size of the pass-through tensor relative to the others: equal (the allocator's favourite for sharing), smaller, larger
    rel = rng.choice(["same", "same", "small", "large", "rank2"])
    pshape = {"same": shape, "small": [1, 2, 2, shape[3]], "large": [1, shape[1] * 2, shape[2] * 2, shape[3]],
              "rank2": [shape[1] * shape[2], shape[3]]}[rel]
    first = rng.random() < 0.5            # pass-through tensor first / last in the input and output lists
    if kind == "input_only_pass":
        beside = "none"
    elif beside == "none" and kind not in ("input", "input_dup", "two_inputs", "input_dup_in"):
        beside = "npu"
    b.net.desc.append(f"pattern=io_passthrough kind={kind} beside={beside} dtype={dtype} shape={shape} pshape={pshape} first={first}")

    def place(main_ins, pass_ins):
        b.net.inputs[:] = (pass_ins + main_ins) if first else (main_ins + pass_ins)

    def outs(main, extra):
        return (extra + main) if first else (main + extra)

    if kind in ("input", "input_dup", "input_dup_in", "input_only_pass"):
        p = b.input(pshape) if rng.random() < 0.75 else _odd_input(b, pshape)
        if beside == "none":
            res, main_in = [], []
        else:
            x = b.input(shape)
            last, mids = _beside(b, x, beside)
            res, main_in = [last], [x]
        place(main_in, [p, p] if kind == "input_dup_in" else [p])
        return b.finish(outs(res, [p, p] if kind == "input_dup" else [p]))
    if kind == "two_inputs":
        p = b.input(pshape)
        q = _odd_input(b, rng.choice([pshape, [shape[3]], [3, 5]]))
        if beside == "none":
            res, main_in = [], []
        else:
            x = b.input(shape)
            last, mids = _beside(b, x, beside)
            res, main_in = [last], [x]
        place(main_in, [p, q])
        return b.finish(outs(res, [q, p] if rng.random() < 0.5 else [p, q]))
    if kind in ("input_read_npu", "input_read_cpu", "input_read_inplace"):
        # p is output and operand of ONE operator; the ordinary chain runs on x and (sometimes) joins the operator's result
        p = b.input(shape)
        x = b.input(shape)
        last, mids = _beside(b, x, beside)
        if kind == "input_read_npu":
            r = _npu(b, p)
        elif kind == "input_read_cpu":
            r = _cpu(b, p)
        else:
            r = netgen_ext.ew_const(b, p, same_quant=True) if rng.random() < 0.5 else b.unary(rng.choice(["RELU", "LEAKY_RELU", "TANH"]), p)
        place([x], [p])
        return b.finish(outs([last, r] if rng.random() < 0.5 else [r, last], [p]))
    if kind in ("const", "const_read"):
        x = b.input(shape)
        cdt = rng.choice([dtype, dtype, "int32", "float32"]) if kind == "const" else dtype
        cshape = pshape if kind == "const" else rng.choice([shape, [1, 1, 1, shape[3]]])
        data = np.random.RandomState(rng.getrandbits(32)).randint(-100 if cdt != "uint8" else 0, 100, int(np.prod(cshape)))
        if cdt in ("int8", "uint8", "int16"):
            c = b.const(cshape, cdt, data, [b.q_scale()], [b.q_zp(cdt)])
        else:
            c = b.const(cshape, cdt, data)
        if kind == "const_read":
            cur = b.binary(rng.choice(["ADD", "MUL", "SUB"]), x, c)
            last, mids = _beside(b, cur, "npu" if beside == "none" else beside)
        else:
            last, mids = _beside(b, x, beside)
        return b.finish(outs([last], [c]))
    # intermediate tensors in the output list
    x = b.input(shape)
    if beside in ("npu", "cpu", "none"):
        beside = rng.choice(["npu_cpu_npu", "cpu_npu", "npu_chain"])
        b.net.desc.append("beside->" + beside)
    last, mids = _beside(b, x, beside)
    m = rng.choice(mids)
    if kind == "mid_dup":
        return b.finish(outs([last], [m, m]))
    return b.finish([last, m, last] if first else [m, last, last])
