#!/venv/bin/python
"""Serialisation stage of C12 on its own (development aid; `./check C12` runs the same stage).
Evidence and replays are written under the id C12-serial so that evidence/C12.json is left alone."""
import common
import inplace_lib
import liverange_lib
import pipe_common
import pipeline
import sched_lib
import serial_lib
from common import Check, main_wrapper


def main():
    ck = Check("C12", "translation_validation")
    ck.pid = "C12-serial"
    ck.lean_stage(["VelaVerif.Props.C12Serial"])
    pipeline.load_vela()
    liverange_lib.install()
    inplace_lib.install()
    sched_lib.install()
    serial_lib.install()
    profiles = ["cpu", "mixed", "pattern", "cascade", "weights", "pattern", "lut", "elementwise"]
    outs = pipe_common.run_corpus(ck, 1600 if ck.thorough else 160, profiles=profiles,
                                  want={"out_model": True, "extra": serial_lib.extra_c12}, corpus_first=False)
    for o in outs:
        if "harness_exception" in o:
            raise common.InfraError("pipeline worker failed:\n" + o["harness_exception"])
    if ck.replay_arg is None:
        outs += sched_lib.corpus(ck, 400 if ck.thorough else 40)
        outs += serial_lib.stub(serial_lib.stub_rng(ck.seed), 20000 if ck.thorough else 2000)
    st = serial_lib.stage(ck, outs)
    ck.finish(dict(st, evaluations=st["serial_model_requests"] + st["serial_spec_requests"], distinct_nontrivial=st["serial_distinct_nontrivial"],
                   programs=len(outs),
                   rule="request = one compilation (model of the serialiser / of the reported figures = real) or one Lean Spec verdict on the "
                        "output file; non-trivial = a compilation that places at least two source constants"))


main_wrapper(main)
