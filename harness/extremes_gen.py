"""Quantisation / option extremes for the pipeline-level checks (C13 first, shared with C11 / C16).

`act_extremes_net(rng, idx)`: one or two operators whose lowering computes with the quantisation parameters themselves
(table-lookup activations, rescaling elementwise / pooling / convolution), with every scale drawn from a grid that
spans 1e-8 .. 1e3, zero points at both ends of the type range and activation parameters at their extremes.  The
operator kind is a function of `idx` (so every run of n >= len(KINDS) networks covers all of them), everything else
comes from `rng`.  All networks are structurally valid TFLite files: a converter would not write most of these
parameter values, the file format and the runtime accept them.
"""
import numpy as np

import netgen
from netgen import B, Op, T

SCALES = [1e-8, 1e-6, 2.0 ** -24, 1e-4, 1.0 / 256, 1.0 / 128, 0.05, 0.5, 1.0, 2.0, 3.0, 4.0, 5.6, 6.0, 16.0, 100.0, 1e3]
KINDS = ["LOGISTIC", "TANH", "SOFTMAX", "EXP", "LOG", "SQRT", "RSQRT", "HARD_SWISH", "LEAKY_RELU", "PRELU", "GELU",
         "QUANTIZE", "ADD", "SUB", "MUL", "AVERAGE_POOL_2D", "MAX_POOL_2D", "MEAN", "CONV_2D", "DEPTHWISE_CONV_2D",
         "FULLY_CONNECTED", "RELU", "RELU6", "RELU_N1_TO_1", "CONCATENATION", "RESIZE_BILINEAR", "MINIMUM", "ABS",
         "SQUARED_DIFFERENCE", "LOGISTIC", "TANH", "SOFTMAX", "LEAKY_RELU", "HARD_SWISH", "LOGISTIC", "TANH", "SOFTMAX", "LOGISTIC", "EXP"]
# table-lookup kinds evaluate a real function over the whole dequantised input range: half of their inputs get a scale
# large enough that the range leaves the function's safe domain (|x| > 710 overflows exp, x <= 0 leaves log / sqrt)
LUT_KINDS = ("LOGISTIC", "TANH", "SOFTMAX", "EXP", "LOG", "SQRT", "RSQRT", "HARD_SWISH", "GELU", "LEAKY_RELU", "PRELU")
WIDE_SCALES = [3.0, 4.0, 5.6, 6.0, 8.0, 16.0, 100.0, 1e3, 2.8, 2.0]


def _zp(rng, dtype):
    lo, hi = netgen._qrange(dtype)
    if dtype == "int16":
        return rng.choice([0, 0, 0, lo, hi])
    return rng.choice([lo, hi, lo, hi, (lo + hi + 1) // 2, rng.randint(lo, hi)])


def _scale(rng):
    return float(np.float32(rng.choice(SCALES))) if rng.random() < 0.8 else netgen.extreme_scale(rng)


def act_extremes_net(rng, idx=0, kind=None):
    kind = kind or KINDS[idx % len(KINDS)]
    dtype = rng.choice(["int8", "int8", "uint8", "int16"])
    b = B(rng, f"actx{idx}", dtype)
    b.extreme = 0.0
    rank4 = kind in ("AVERAGE_POOL_2D", "MAX_POOL_2D", "MEAN", "CONV_2D", "DEPTHWISE_CONV_2D", "RESIZE_BILINEAR", "PRELU") or rng.random() < 0.7
    shape = [1, rng.randint(1, 6), rng.randint(1, 6), rng.choice([1, 4, 8, 16])] if rank4 else rng.choice([[13], [2, 8], [1, 5, 7]])
    si, zi = _scale(rng), _zp(rng, dtype)
    if kind in LUT_KINDS and rng.random() < 0.5:
        si = float(rng.choice(WIDE_SCALES))
    x = b.input(shape, scale=si, zp=zi)
    b.net.desc.append(f"act_extremes kind={kind} dtype={dtype} in={shape} scale={si!r} zp={zi}")
    cur = x
    # sometimes an accelerated producer in front (the activation may then be fused / share a pass)
    if rank4 and rng.random() < 0.25 and shape[3] <= 16:
        cur = b.conv(x, shape[3], (1, 1), (1, 1), (1, 1), "SAME", per_channel=False, out_scale=_scale(rng)) or x

    def out(shp=None, same=False):
        xt = b.t(cur)
        if same:
            return b.fm(shp or xt.shape, dtype, scale=xt.scales[0], zp=xt.zps[0])
        return b.fm(shp or xt.shape, dtype, scale=_scale(rng), zp=_zp(rng, dtype))

    xt = b.t(cur)
    canonical = rng.random() < 0.4          # the output quantisation a converter writes for the fixed-range activations
    if kind in ("LOGISTIC", "SOFTMAX"):
        o = b.fm(xt.shape, dtype, scale=1.0 / 256 if dtype != "int16" else 1.0 / 32768, zp={"int8": -128, "uint8": 0, "int16": 0}[dtype]) if canonical else out()
        opts = ("SoftmaxOptions", dict(Beta=float(rng.choice(netgen.EXTREME_BETAS)))) if kind == "SOFTMAX" else None
        b.net.ops.append(Op(kind, [cur], [o], opts))
    elif kind == "TANH":
        o = b.fm(xt.shape, dtype, scale=1.0 / 128 if dtype != "int16" else 1.0 / 32768, zp={"int8": 0, "uint8": 128, "int16": 0}[dtype]) if canonical else out()
        b.net.ops.append(Op(kind, [cur], [o]))
    elif kind in ("EXP", "LOG", "SQRT", "RSQRT", "HARD_SWISH", "ABS", "RELU", "RELU6", "RELU_N1_TO_1"):
        o = out(same=kind.startswith("RELU") and rng.random() < 0.5)
        b.net.ops.append(Op(kind, [cur], [o]))
    elif kind == "GELU":
        o = out()
        b.net.ops.append(Op(kind, [cur], [o], ("GeluOptions", dict(Approximate=rng.random() < 0.5))))
    elif kind == "LEAKY_RELU":
        o = out(same=rng.random() < 0.3)
        b.net.ops.append(Op(kind, [cur], [o], ("LeakyReluOptions", dict(Alpha=float(rng.choice(netgen.EXTREME_ALPHAS + [0.1, 0.2]))))))
    elif kind == "PRELU":
        c = xt.shape[-1]
        lo, hi = netgen._qrange(dtype)
        style = rng.choice(["rand", "lo", "hi", "zero"])
        data = {"rand": [rng.randint(lo, hi) for _ in range(c)], "lo": [lo] * c, "hi": [hi] * c, "zero": [0] * c}[style]
        a = b.const([1, 1, c], dtype, data, [_scale(rng)], [_zp(rng, dtype)])
        o = out()
        b.net.ops.append(Op(kind, [cur, a], [o], None))
    elif kind == "QUANTIZE":
        o = b.fm(xt.shape, rng.choice(["int8", "uint8", "int16"]), scale=_scale(rng), zp=None)
        b.t(o).zps = [_zp(rng, b.t(o).dtype)]
        b.net.ops.append(Op(kind, [cur], [o], ("QuantizeOptions", {})))
    elif kind in ("ADD", "SUB", "MUL", "MINIMUM", "SQUARED_DIFFERENCE"):
        if rng.random() < 0.5:
            y = b.input(xt.shape, scale=_scale(rng), zp=_zp(rng, dtype))
        else:
            lo, hi = netgen._qrange(dtype)
            shp = rng.choice([[1] * len(xt.shape), xt.shape[-1:]])
            y = b.const(shp, dtype, [rng.choice([lo, hi, 0, 1]) for _ in range(int(np.prod(shp)))], [_scale(rng)], [_zp(rng, dtype)])
        o = out(same=kind == "MINIMUM" and rng.random() < 0.5)
        on = {"ADD": ("AddOptions", dict(FusedActivationFunction=rng.choice([0, 1, 3]))), "SUB": ("SubOptions", dict(FusedActivationFunction=0)),
              "MUL": ("MulOptions", dict(FusedActivationFunction=rng.choice([0, 1]))), "MINIMUM": ("MaximumMinimumOptions", {}),
              "SQUARED_DIFFERENCE": ("SquaredDifferenceOptions", {})}[kind]
        b.net.ops.append(Op(kind, [cur, y] if rng.random() < 0.7 else [y, cur], [o], on))
    elif kind in ("AVERAGE_POOL_2D", "MAX_POOL_2D"):
        n, h, w, c = xt.shape
        kh, kw = rng.randint(1, h), rng.randint(1, w)
        o = out([n, h - kh + 1, w - kw + 1, c], same=rng.random() < 0.3)
        b.net.ops.append(Op(kind, [cur], [o], ("Pool2DOptions", dict(Padding=1, StrideW=1, StrideH=1, FilterWidth=kw, FilterHeight=kh,
                                                                       FusedActivationFunction=rng.choice([0, 1, 3])))))
    elif kind == "MEAN":
        n, h, w, c = xt.shape
        ax = b.const([2], "int32", [1, 2])
        o = out([n, 1, 1, c], same=rng.random() < 0.3)
        b.net.ops.append(Op(kind, [cur, ax], [o], ("ReducerOptions", dict(KeepDims=True))))
    elif kind in ("CONV_2D", "DEPTHWISE_CONV_2D"):
        b.extreme = 1.0          # weight quantisation from the extremes stream (per-axis scales over six orders, zero points)
        if kind == "CONV_2D":
            o = b.conv(cur, rng.choice([1, 4, 8]), (1, 1), (1, 1), (1, 1), "SAME", act=rng.choice([0, 1, 3]), out_scale=_scale(rng))
        else:
            o = b.dwconv(cur, (1, 1), (1, 1), (1, 1), "SAME", act=rng.choice([0, 1]))
            b.t(o).scales = [_scale(rng)]
        b.extreme = 0.0
    elif kind == "FULLY_CONNECTED":
        flat = int(np.prod(xt.shape))
        if len(xt.shape) != 2:
            cur = b.reshape(cur, [1, flat])
        b.extreme = 1.0
        o = b.fc(cur, rng.choice([1, 4, 10]), act=rng.choice([0, 1]))
        b.extreme = 0.0
        b.t(o).scales = [_scale(rng)]
    elif kind == "CONCATENATION":
        y = b.input(xt.shape, scale=_scale(rng), zp=_zp(rng, dtype))
        shp = list(xt.shape)
        shp[-1] *= 2
        o = out(shp)
        b.net.ops.append(Op(kind, [cur, y], [o], ("ConcatenationOptions", dict(Axis=len(shp) - 1, FusedActivationFunction=0))))
    elif kind == "RESIZE_BILINEAR":
        n, h, w, c = xt.shape
        st = b.const([2], "int32", [h * 2, w * 2])
        o = out([n, h * 2, w * 2, c], same=rng.random() < 0.5)
        b.net.ops.append(Op(kind, [cur, st], [o], ("ResizeBilinearOptions", dict(AlignCorners=False, HalfPixelCenters=rng.random() < 0.5))))
    else:
        o = out()
        b.net.ops.append(Op("ABS", [cur], [o]))
    # sometimes an accelerated consumer behind it
    ot = b.t(o)
    if len(ot.shape) == 4 and ot.shape[3] <= 16 and rng.random() < 0.2 and ot.dtype == dtype:
        o = b.conv(o, ot.shape[3], (1, 1), (1, 1), (1, 1), "SAME", per_channel=False) or o
    return b.finish([o])


# ------------------------------------------------------------------------------------------------------------------------
# deterministic witnesses of the crash sites this stream found in the unchanged compiler (recorded as C13 findings; every
# accelerator, default options).  tools/c13_witness.py compiles them and prints the site.  A key `fixed:<commit>:<site>` was
# repaired in /repo by that commit: its witness must now end without an escaping exception.

def _single(kind, dtype, shape, si, zi, so, zo, opts=None, second=None):
    import random

    b = B(random.Random(0), "witness_" + kind.lower(), dtype)
    x = b.input(shape, scale=si, zp=zi)
    ins = [x]
    if second == "input":
        ins.append(b.input(shape, scale=si, zp=zi))
    elif second is not None:
        ins.append(b.const(second[0], dtype, second[1], [second[2]], [second[3]]))
    oshape = list(shape)
    if kind == "CONCATENATION":
        oshape[-1] *= 2
    o = b.fm(oshape, dtype, scale=so, zp=zo)
    b.net.ops.append(Op(kind, ins, [o], opts))
    return b.finish([o])


WITNESSES = {
    # LEAKY_RELU int8, alpha 1e3, in scale 1.0 -> out scale 1e-8: the alpha / identity multipliers exceed 32 bits
    "OverflowError@fp_math.saturating_rounding_mul32:convert_lrelu_to_lut":
        lambda: _single("LEAKY_RELU", "int8", [1, 2, 2, 4], 1.0, 0, 1e-8, 0, ("LeakyReluOptions", dict(Alpha=1000.0))),
    "OverflowError@fp_math.saturating_rounding_mul32:convert_lrelu_to_lut:PRELU":
        lambda: _single("PRELU", "int8", [1, 1, 2, 8], 4.0, 0, 1e-4, 0, None, ([1, 1, 8], [127] * 8, 4.0, -128)),
    # RSQRT int8 with a small input scale: the output multiplier's shift takes the value past 32 bits
    "OverflowError@fp_math.saturating_rounding_mul32:create_lut_rsqrt_int8_op":
        lambda: _single("RSQRT", "int8", [1, 5, 7], 1e-4, -128, 2.0 ** -24, 25),
    # EXP int8 with exp(scale * (127 - zp)) beyond the double range
    "fixed:c79bf8b:OverflowError@lut.create_lut_8bit_op":
        lambda: _single("EXP", "int8", [1, 4, 5, 8], 100.0, -128, 1.0, 0),
    # CONCATENATION (also RESIZE): IFM scale / OFM scale far from 1 in the rescaling average pool
    "ValueError@scaling.quantise_pooling_scale:generate_ofm_scaling_for_pooling":
        lambda: _single("CONCATENATION", "int8", [1, 2, 5, 4], 16.0, 73, 1e-8, 127, ("ConcatenationOptions", dict(Axis=3, FusedActivationFunction=0)), "input"),
    "AssertionError@scaling.quantise_pooling_scale:generate_ofm_scaling_for_pooling":
        lambda: _single("CONCATENATION", "uint8", [13], 1e-7, 128, 1000.0, 120, ("ConcatenationOptions", dict(Axis=0, FusedActivationFunction=0)), "input"),
    # HARD_SWISH int8 with a tiny input scale
    "fixed:755ba3e:OverflowError@fp_math.rounding_divide_by_pot:convert_hardswish_to_lut":
        lambda: _single("HARD_SWISH", "int8", [1, 4, 3, 16], 1e-8, 127, 0.5, 82),
    # SOFTMAX int8 with input scale * beta small enough that the exp table's shift becomes negative
    "ValueError@softmax.generate_exp_table":
        lambda: _single("SOFTMAX", "int8", [1, 6, 1, 1], 1e-4, -95, 16.0, -97, ("SoftmaxOptions", dict(Beta=1e-6))),
}
