"""C01, rewrite streams: correspondence of `lean/VelaVerif/Model/Rewrites.lean` with the REAL graph-optimiser
rewrites, called in-process on operators built from the repo's own classes.

For every generated operator: (1) the real rewrite is called, the parameters of what it leaves behind are
serialised; (2) the Lean model answers the same request; (3) whenever the two differ - and, where it is cheap,
always - the Lean reference semantics (`Spec/RewriteSem.lean`) is applied to the *real* output on every element of
the type range / every output position: original and rewritten operator compute different tensors -> VIOLATION with
that input; the same tensors -> the correspondence is reported as `no-failing-input-found`.
Every verdict is an answer line of the Lean driver."""
import struct

import numpy as np

import common


def f32bits(x):
    return struct.unpack("<I", struct.pack("<f", float(np.float32(x))))[0]


class Streams:
    def __init__(self, ck):
        self.ck = ck
        self.rng = ck.rng
        self.evaluations = 0
        self.nontrivial = set()
        self.disagreements = 0
        common.setup_repo_path()
        from ethosu.vela.test import testutil

        self.testutil = testutil
        self.arch = testutil.create_arch()

    # ---- helpers -------------------------------------------------------------------------------
    def tens(self, shape, dtype, scale, zp, name):
        from ethosu.vela.tensor import QuantizationParameters, Tensor

        t = Tensor(list(shape), dtype, name)
        qp = QuantizationParameters()
        qp.scale_f32 = np.float32(scale)
        qp.zero_point = np.int64(zp)      # what tflite_reader stores: numpy scalars
        qp.quant_min, qp.quant_max = self.qrange(dtype)
        t.quantization = qp
        return t

    def const(self, shape, dtype, values, scale, zp, name):
        from ethosu.vela.tensor import QuantizationParameters, create_const_tensor

        qp = QuantizationParameters()
        qp.scale_f32 = np.float32(scale)
        qp.zero_point = np.int64(zp)      # what tflite_reader stores: numpy scalars
        qp.quant_min, qp.quant_max = self.qrange(dtype)
        return create_const_tensor(name, list(shape), dtype, values, quantization=qp)

    @staticmethod
    def qrange(dtype):
        from ethosu.vela.data_type import DataType

        return {DataType.uint8: (0, 255), DataType.int8: (-128, 127), DataType.int16: (-32768, 32767),
                DataType.int32: (-(1 << 31), (1 << 31) - 1)}[dtype]

    @staticmethod
    def dtname(dtype):
        from ethosu.vela.data_type import DataType

        return {DataType.uint8: "u8", DataType.int8: "i8", DataType.int16: "i16", DataType.int32: "i32"}[dtype]

    def rand_scale(self):
        r = self.rng.random()
        if r < 0.2:
            return 2.0 ** -self.rng.randint(0, 9)
        return float(np.float32(self.rng.uniform(0.2, 2.0) * 2.0 ** -self.rng.randint(0, 9)))

    def model(self, lines):
        return self.ck.model(lines, parallel=False)

    def disagree(self, stream, what, replay, sem_answer, key=None):
        """model != real: the failing-input search has been run (sem_answer is Lean's verdict on the real output)"""
        self.disagreements += 1
        self.ck.count(f"rw_{stream}_disagreements")
        if sem_answer.startswith("fail"):
            self.ck.violation(f"rewrite {stream}: {what}; the rewritten operator computes another tensor than the original: {sem_answer}",
                              dict(replay, lean_verdict=sem_answer), found_input=True, key=key)
        else:
            self.ck.violation(f"rewrite {stream}: model and real rewrite disagree ({what}); Lean semantics of the real output: {sem_answer[:80]}",
                              dict(replay, lean_verdict=sem_answer), found_input=False, key=None)

    # ---- 6. activation ranges of a pass --------------------------------------------------------
    def stream_activation(self, n):
        """source: CONV_2D (fused activation) -> RELU-type -> RELU-type …, compiled by the real compiler; the clamp(s) of
        the emitted NPU operations against the sequential clamps of the source (bounds are the integers -1, 0, 1, 6)."""
        import netgen
        import pipeline

        ck = self.ck
        kinds = {"RELU": "0:n", "RELU6": "0:6", "RELU_N1_TO_1": "-1:1"}
        fused_code = {0: "-", 1: "0:n", 2: "-1:1", 3: "0:6"}
        cases, reqs, sems = [], [], []
        combos = []
        names = list(kinds)
        for f in (0, 1, 2, 3):
            for a in names:
                combos.append((f, [a]))
                for b2 in names:
                    combos.append((f, [a, b2]))
        self.rng.shuffle(combos)
        for f, seq in combos[:n]:
            b = netgen.B(self.rng, "rw_act", "int8")
            x = b.input([1, 4, 4, 8], scale=0.05, zp=self.rng.choice([0, 3, -7]))
            y = b.conv(x, 8, (1, 1), (1, 1), (1, 1), "SAME", act=f, out_scale=0.04)
            for k in seq:
                y = b.unary(k, y)
            data = netgen.serialize(b.finish([y]))
            res = pipeline.compile_net(data, ["--accelerator-config", "ethos-u55-128"], name="rwact")
            pipeline.reset_process_state()
            if res.status != "ok":
                ck.count("rw_act_compile_" + res.status)
                continue
            acts = []
            for art in res.streams:
                for op in art.npu_ops:
                    a = getattr(op, "activation", None)
                    if a is None:
                        continue
                    if a.op_type.name != "NONE_OR_RELU":
                        acts.append(None)
                        continue
                    acts.append((a.min, a.max))
            if any(a is None for a in acts) or any(v is not None and float(v) != int(v) for a in acts for v in a):
                ck.count("rw_act_not_integer_bounds")
                continue

            def rng_s(a):
                return ("n" if a[0] is None else str(int(a[0]))) + ":" + ("n" if a[1] is None else str(int(a[1])))

            real = [rng_s(a) for a in acts if a != (None, None)]
            src = [kinds[k] for k in seq]
            cases.append((f, seq, real))
            reqs.append(f"rw_actisect {fused_code[f]} " + " ".join(src))
            # semantic check: the real clamps applied in order == the source clamps applied in order, on -300..300
            got_first = real[0] if real else "-"
            sems.append((f"rwsem_actseq {fused_code[f]} " + " ".join(src) + f" {got_first} -40 40") if len(real) <= 1 else None)
        outs = self.model(reqs)
        sem_lines = [s for s in sems if s is not None]
        sem_outs = iter(self.model(sem_lines))
        for (f, seq, real), rq, m, s in zip(cases, reqs, outs, sems):
            self.evaluations += 1
            ck.count("rw_act_cases")
            ck.count(f"rw_act_npu_ops_{len(real)}")
            sem = next(sem_outs) if s is not None else "not-single-op"
            want = m[3:] if m.startswith("ok ") else m
            got = real[0] if len(real) == 1 else ("-" if not real else "+".join(real))
            self.nontrivial.add(("act", f, tuple(seq)))
            if len(real) <= 1 and sem != "ok":
                self.disagree("activation-intersection", f"fused={fused_code[f]} ops={seq}: model {want}, emitted {got}",
                              {"stream": "activation", "fused": f, "ops": seq, "request": rq, "emitted": real}, sem)
            elif len(real) <= 1 and want != got:
                self.disagree("activation-intersection", f"fused={fused_code[f]} ops={seq}: model {want}, emitted {got}",
                              {"stream": "activation", "fused": f, "ops": seq, "request": rq, "emitted": real}, sem)
            elif len(real) > 1:
                ck.count("rw_act_not_packed_into_one_op")

    # ---- 1. LeakyReLU ----------------------------------------------------------------------------
    def describe_lrelu(self, op, ifm, alpha):
        """canonical description of what convert_lrelu left behind (same vocabulary as Handlers/Rewrites.showPlan)"""
        from ethosu.vela import scaling
        from ethosu.vela.data_type import DataType
        from ethosu.vela.operation import Op

        def scalar_desc(mul):
            at = mul.inputs[1]
            v = int(np.asarray(at.values).reshape(-1)[0])
            sc = at.quantization.scale_f32
            if mul.explicit_scaling is not None:
                return "prelu"
            if v == 0 and float(sc) == 1.0:
                return "zero"
            if v == 1 and f32bits(sc) == f32bits(alpha) and at.quantization.zero_point == 0:
                return "one"
            if at.dtype == DataType.int32 and f32bits(sc) in (f32bits(alpha), f32bits(abs(np.float32(alpha)))):
                # the plan's vocabulary says what the constant's VALUE is (the quantised multiplier, sign included). Its tensor scale
                # only feeds the OFM scale / shift the register generator derives for the int32 MUL (C06 / C09): alpha before repair
                # C06-20 (a negative OFM scale, finding int16-lrelu-negative-alpha-negative-ofm-scale), |alpha| after it. Both are
                # read as "mulscale"; which one was seen is counted.
                want, _ = scaling.elementwise_mul_scale(ifm.quantization.scale_f32, np.float32(alpha), op.ofm.quantization.scale_f32)
                if v == want:
                    self.ck.count("rw_lrelu_mulscale_tensor_scale_" + ("negative" if float(sc) < 0 else "positive"))
                    return "mulscale"
            return f"?{v}/{sc}"

        if op.type == Op.Relu:
            return "relu"
        if op.type == Op.LeakyRelu:
            return "keep"
        if op.type == Op.Add and op.activation_lut is not None:
            return "lut"
        if op.type == Op.Maximum:
            mul = op.inputs[0].ops[0]
            if mul.type != Op.Mul or mul.inputs[0] is not ifm:
                return "?max-structure"
            second = op.inputs[1]
            if second is ifm:
                idm = 0
            else:
                m2 = second.ops[0]
                c1 = m2.inputs[1]
                if m2.type != Op.Mul or m2.inputs[0] is not ifm or int(np.asarray(c1.values).reshape(-1)[0]) != 1 or \
                        float(c1.quantization.scale_f32) != 1.0 or c1.quantization.zero_point != 0:
                    return "?identity-structure"
                idm = 1
            return f"mulmax {scalar_desc(mul)} {idm}"
        if op.type == Op.Add:
            mul = op.inputs[0].ops[0]
            relu = op.inputs[1].ops[0]
            mn = mul.inputs[0].ops[0] if mul.type == Op.Mul and mul.inputs[0].ops else None
            ok = (mul.type == Op.Mul and relu.type == Op.Relu and relu.inputs[0] is ifm and mn is not None and mn.type == Op.Minimum
                  and mn.inputs[0] is ifm and int(np.asarray(mn.inputs[1].values).reshape(-1)[0]) == 0
                  and op.explicit_scaling is not None and list(op.explicit_scaling.multiplier) == [1] and list(op.explicit_scaling.shift) == [0])
            if not ok:
                return "?add-structure"
            return f"minmulreluadd {1 if mul.inputs[0].dtype == DataType.int32 else 0} {scalar_desc(mul)}"
        return f"?{op.type.name}"

    def stream_lrelu(self, n):
        from ethosu.vela import tflite_graph_optimiser as go
        from ethosu.vela.data_type import DataType
        from ethosu.vela.operation import Op

        ck, rng = self.ck, self.rng
        alphas = [0.0, -0.0, 0.1, 0.2, 0.5, 0.998, 1.0, 1.5, 7.0, -0.3, -1.0, -2.5, 1e-39, 2.9e-39, 3e-39, -1e-40, 1e-30]
        pairs = [(DataType.int8, DataType.int8), (DataType.uint8, DataType.uint8), (DataType.int16, DataType.int16)] * 3 + \
                [(DataType.int8, DataType.int16), (DataType.int16, DataType.int8), (DataType.uint8, DataType.int8)]
        cases, reqs = [], []
        for i in range(n):
            alpha = np.float32(rng.choice(alphas) if rng.random() < 0.7 else rng.uniform(-2, 2))
            idt, odt = rng.choice(pairs)
            eq = rng.random() < 0.5
            prelu = rng.random() < 0.15
            s_in = self.rand_scale()
            zp = 0 if idt == DataType.int16 else rng.randint(*self.qrange(idt))
            zpo = zp if (eq and idt == odt) else (0 if odt == DataType.int16 else rng.randint(*self.qrange(odt)))
            ifm = self.tens([1, 4, 4, 8], idt, s_in, zp, "ifm")
            ofm = self.tens([1, 4, 4, 8], odt, s_in if eq else self.rand_scale() * 1.37, zpo, "ofm")
            real_eq = bool(ifm.quantization.is_scaling_equal(ofm.quantization))
            op = self.testutil.create_op(Op.LeakyRelu, [ifm], ofm, attrs={"alpha": float(alpha)})
            op.run_on_npu = True
            if prelu:
                op.attrs["alpha_scaling"] = (rng.randint(-5, 5), 1 << 30, 31)
            try:
                out = go.convert_lrelu(op, self.arch, None)
                desc = self.describe_lrelu(out, ifm, alpha)
            except Exception as e:  # noqa: B902
                desc = "raises:" + type(e).__name__
            cases.append((float(alpha), self.dtname(idt), self.dtname(odt), real_eq, prelu, desc))
            reqs.append(f"rw_lrelu {f32bits(alpha)} {self.dtname(idt)} {self.dtname(odt)} {int(real_eq)} {int(prelu)}")
        outs = self.model(reqs)
        for c, rq, m in zip(cases, reqs, outs):
            self.evaluations += 1
            ck.count("rw_lrelu_cases")
            want = m[3:] if m.startswith("ok ") else m
            ck.count("rw_lrelu_plan_" + want.split(" ")[0])
            self.nontrivial.add(("lrelu",) + c[1:5] + (want,))
            if c[5].startswith("raises:"):
                ck.count("rw_lrelu_real_" + c[5])
                continue
            if want != c[5]:
                # the structure itself is the observable here: no per-element semantics to fall back on
                self.disagree("convert_lrelu", f"alpha={c[0]} {c[1]}->{c[2]} scaling_equal={c[3]} prelu={c[4]}: model '{want}', real '{c[5]}'",
                              {"stream": "lrelu", "case": c, "request": rq}, "structure-only")

    # ---- 1b. Maximum(x, Mul(x, c)) -> LeakyRelu / Abs ---------------------------------------------
    def stream_mulmax(self, n):
        from ethosu.vela import tflite_graph_optimiser as go
        from ethosu.vela.data_type import DataType
        from ethosu.vela.operation import Op

        ck, rng = self.ck, self.rng
        cases, reqs, sems = [], [], []

        def build(dt, zp, s_x, q, zpc, s_c, swap=False):
            ifm = self.tens([1, 4, 4, 8], dt, s_x, zp, "ifm")
            ifm.ops = [self.testutil.create_op(Op.Placeholder, [], ifm, set_ifm_ofm_shapes=False)]
            cst = self.const([], dt, q, s_c, zpc, "c")        # shape []: 0-d value array, as the reader creates it
            mul_ofm = self.tens([1, 4, 4, 8], dt, s_x, zp, "mul_ofm")
            ofm = self.tens([1, 4, 4, 8], dt, s_x, zp, "ofm")
            mul = self.testutil.create_op(Op.Mul, [ifm, cst], mul_ofm)
            mx = self.testutil.create_op(Op.Maximum, [mul_ofm, ifm] if swap else [ifm, mul_ofm], ofm)
            mul.run_on_npu = mx.run_on_npu = True
            return mx

        # which decision does the tree under test implement? Before repair C01-15 it is taken on the quantised value of the
        # constant, after it on the real value: Maximum(x, Mul(x, 2)) with scale 1 is taken for a LeakyRelu only before
        probe = go.convert_mul_max_to_abs_or_lrelu(build(DataType.int8, 0, 1.0, 2, 0, 1.0), self.arch, None)
        variant = "old" if probe.type == Op.LeakyRelu else "new"
        ck.count("rw_mulmax_variant_" + variant)
        for i in range(n):
            dt = rng.choice([DataType.int8, DataType.uint8])
            lo, hi = self.qrange(dt)
            s_x = self.rand_scale()
            zp = rng.randint(lo, hi)
            mode = rng.choice(["unit", "unit", "gt1", "q0", "qm1", "minus1", "zero", "random", "random"])
            if mode == "unit":          # 0 <= c <= 1
                a = rng.randint(1, 255)
                s_c = float(np.float32(rng.uniform(0.05, 1.0) / a))
                zpc = rng.randint(lo, hi - a) if hi - a >= lo else lo
                q = zpc + a
            elif mode == "gt1":
                a = rng.randint(1, 255)
                s_c = float(np.float32(rng.uniform(1.01, 3.0) / a))
                zpc = rng.randint(lo, hi - a)
                q = zpc + a
            elif mode == "q0":
                q, zpc, s_c = 0, rng.randint(max(lo, -100), min(hi, 100)), self.rand_scale()
            elif mode == "qm1":
                q, zpc, s_c = (-1 if dt == DataType.int8 else rng.randint(lo, hi)), rng.randint(lo, hi), self.rand_scale()
            elif mode == "minus1":
                k = rng.choice([1, 2, 4, 8, 64])
                zpc = rng.randint(lo + k, hi)
                q, s_c = zpc - k, 1.0 / k
            elif mode == "zero":
                zpc = rng.randint(lo, hi)
                q, s_c = zpc, self.rand_scale()
            else:
                q, zpc, s_c = rng.randint(lo, hi), rng.randint(lo, hi), self.rand_scale()
            mx = build(dt, zp, s_x, q, zpc, s_c, rng.random() < 0.5)
            try:
                out = go.convert_mul_max_to_abs_or_lrelu(mx, self.arch, None)
                if out.type == Op.LeakyRelu:
                    a_sc = out.attrs.get("alpha_scaling")
                    first = f"lrelu {int(a_sc[0])} {int(out.attrs['alpha'] == 0)}"
                    out = go.convert_lrelu(out, self.arch, None)
                elif out.type == Op.Abs:
                    first = "abs"
                else:
                    first = "keep"
                if out.type == Op.Relu:
                    kind, tbl = "relu", []
                elif out.type == Op.Abs:
                    kind, tbl = "abs", []
                elif out.type == Op.Maximum:
                    kind, tbl = "keep", []
                elif out.type == Op.Add and out.activation_lut is not None:
                    kind, tbl = "lut", [int(v) for v in np.asarray(out.activation_lut.values).reshape(-1)]
                else:
                    kind, tbl = "?" + out.type.name, []
            except Exception as e:  # noqa: B902
                first, kind, tbl = "raises:" + type(e).__name__, "raises", []
            cases.append((mode, self.dtname(dt), q, zpc, s_c, zp, s_x, first, kind))
            reqs.append(f"rw_mulmax {variant} {q} {zpc} {f32bits(s_c)}")
            sems.append(f"rwsem_mulmax {kind} {zp} {q} {zpc} {f32bits(s_x)} {f32bits(s_c)} {f32bits(s_x)} {lo} {hi} " + " ".join(map(str, tbl)))
        outs = self.model(reqs)
        souts = self.model(sems)
        for c, rq, m, sq, sm in zip(cases, reqs, outs, sems, souts):
            self.evaluations += 1
            mode, dtn, q, zpc, s_c, zp, s_x, first, kind = c
            ck.count("rw_mulmax_cases")
            want = m[3:] if m.startswith("ok ") else m
            ck.count("rw_mulmax_plan_" + want.split(" ")[0])
            ck.count("rw_mulmax_real_" + kind)
            self.nontrivial.add(("mulmax", dtn, q, zpc, f32bits(s_c), zp))
            creal = (q - zpc) * float(np.float32(s_c))
            key = None
            if sm.startswith("fail"):
                if first.startswith("lrelu") and kind == "lut" and creal > 1:
                    key = "mul-max-to-lrelu:real-constant-above-one"
                elif kind == "relu" and q == 0 and zpc != 0:
                    key = "mul-max-to-relu:quantised-zero-with-nonzero-zero-point"
                elif kind == "abs" and q == -1 and creal != -1:
                    key = "mul-max-to-abs:quantised-minus-one-not-real-minus-one"
            if want != first or not (sm == "ok"):
                self.disagree("convert_mul_max_to_abs_or_lrelu",
                              f"{dtn} q={q} zp_c={zpc} scale={s_c} (c={creal:.6g}) x: zp={zp} scale={s_x}: model '{want}', real '{first}' -> {kind}",
                              {"stream": "mulmax", "case": c, "request": rq, "semantic_request": sq}, sm, key=key)


    # ---- 2. PAD folded into hardware padding ------------------------------------------------------
    def stream_padfold(self, n):
        from ethosu.vela import tflite_graph_optimiser as go
        from ethosu.vela.data_type import DataType
        from ethosu.vela.operation import Op, Padding, RoundingMode
        from ethosu.vela.tensor import create_const_tensor

        ck, rng = self.ck, self.rng
        cases, reqs, sems = [], [], []
        for i in range(n):
            kind = rng.choice("ccdaa")
            dt = rng.choice([DataType.int8, DataType.int8, DataType.uint8, DataType.int16])
            kh, kw = rng.choice([(1, 1), (2, 2), (3, 3), (3, 3), (5, 5), (2, 3), (3, 2), (4, 4), (5, 3), (7, 7)])
            sy, sx = rng.choice([(1, 1), (1, 1), (2, 2), (3, 3), (1, 2), (2, 1)])
            dy, dx = rng.choice([(1, 1), (1, 1), (2, 2), (1, 2)]) if kind != "a" and (sy, sx) == (1, 1) else (1, 1)
            ekh, ekw = (kh - 1) * dy + 1, (kw - 1) * dx + 1
            # pads biased to the boundary cases of the checks: 0, k//2, k//2 + 1, a multiple of the stride
            def pick(k, s_):
                return rng.choice([0, 0, k // 2, k // 2, max(k // 2 - 1, 0), k // 2 + 1, s_, 1])
            top, bottom, left, right = pick(ekh, sy), pick(ekh, sy), pick(ekw, sx), pick(ekw, sx)
            H, W, C = rng.randint(1, 7), rng.randint(1, 7), rng.choice([1, 2, 3])
            if H + top + bottom < ekh or W + left + right < ekw:
                H, W = H + ekh, W + ekw
            valid = rng.random() < 0.93
            same_type = rng.random() < 0.95
            sc_eq = rng.random() < 0.9
            lo, hi = self.qrange(dt)
            zp = 0 if dt == DataType.int16 else rng.randint(lo, hi)
            s_x = self.rand_scale()
            in0 = self.tens([1, H, W, C], dt if same_type else (DataType.uint8 if dt != DataType.uint8 else DataType.int8), s_x, zp, "in")
            padded_shape = [1, H + top + bottom, W + left + right, C]
            pad_t = create_const_tensor("pad", [4, 2], DataType.int32, [[0, 0], [top, bottom], [left, right], [0, 0]])
            pout = self.tens(padded_shape, dt, s_x if sc_eq else s_x * 1.5, zp, "pad_out")
            pad_op = self.testutil.create_op(Op.Pad, [in0, pad_t], pout)
            pad_op.run_on_npu = True
            oh, ow = (padded_shape[1] - ekh) // sy + 1, (padded_shape[2] - ekw) // sx + 1
            attrs = {"padding": Padding.VALID if valid else Padding.SAME, "stride_w": sx, "stride_h": sy, "dilation_w_factor": dx,
                     "dilation_h_factor": dy, "strides": (1, sy, sx, 1), "dilation": (1, dy, dx, 1)}
            if kind == "c":
                O = 2
                wt = self.const([kh, kw, C, O], dt, np.zeros([kh, kw, C, O]), 0.01, 0, "w")
                bias = create_const_tensor("b", [O], DataType.int32, [0] * O)
                out_t = self.tens([1, oh, ow, O], dt, self.rand_scale(), zp, "out")
                op = self.testutil.create_op(Op.Conv2DBias, [pout, wt, bias], out_t, attrs)
            elif kind == "d":
                attrs["depth_multiplier"] = 1
                wt = self.const([kh, kw, C, 1], dt, np.zeros([kh, kw, C, 1]), 0.01, 0, "w")
                bias = create_const_tensor("b", [C], DataType.int32, [0] * C)
                out_t = self.tens([1, oh, ow, C], dt, self.rand_scale(), zp, "out")
                op = self.testutil.create_op(Op.DepthwiseConv2DBias, [pout, wt, bias], out_t, attrs)
            else:
                attrs["ksize"] = [1, kh, kw, 1]
                attrs["filter_height"], attrs["filter_width"] = kh, kw
                out_t = self.tens([1, oh, ow, C], dt, s_x, zp, "out")
                op = self.testutil.create_op(Op.AvgPool, [pout], out_t, attrs)
            op.run_on_npu = True
            same_real = in0.dtype == pout.dtype
            eq_real = bool(pout.quantization.is_scaling_equal(in0.quantization))
            nng = self.testutil.create_graph([pad_op, op])
            try:
                out = go.replace_pad_by_hw_pad(op, self.arch, nng)
                if out.attrs["padding"] == Padding.EXPLICIT:
                    t_, l_, b_, r_ = (int(v) for v in out.attrs["explicit_padding"])
                    dw = kind == "a" and out.type == Op.DepthwiseConv2DBias
                    rd, bs = "-", "-"
                    if dw:
                        rd = {RoundingMode.HalfUp: "h", RoundingMode.AwayZero: "a"}.get(out.rounding_mode, "?")
                        bv = sorted(set(int(v) for v in np.asarray(out.bias.values).reshape(-1)))
                        bs = str(bv[0]) if len(bv) == 1 else "?" + str(bv)
                        wv = np.asarray(out.weights.values)
                        if list(wv.shape) != [kh, kw, 1, C] or not (wv == 1).all():
                            bs = "?weights"
                    elif out.type != {"c": Op.Conv2DBias, "d": Op.DepthwiseConv2DBias, "a": Op.AvgPool}[kind]:
                        rd = "?type"
                    real = f"ok {t_} {l_} {b_} {r_} {int(dw)} {rd} {bs}"
                    folded = (t_, l_, int(dw), bs if dw else "-")
                    if out.ifm is not in0:
                        real = "?pad-not-bypassed"
                else:
                    real, folded = "none", None
            except Exception as e:  # noqa: B902
                real, folded = "raises:" + type(e).__name__, None
            u8 = in0.dtype == DataType.uint8
            cases.append((kind, self.dtname(dt), H, W, C, (top, left, bottom, right), (kh, kw), (sy, sx), (dy, dx), valid, same_real, eq_real, real))
            reqs.append(f"rw_padfold {kind} {ekw} {ekh} {sx} {sy} {top} {left} {bottom} {right} {int(valid)} {int(same_real)} {int(eq_real)} "
                        f"{int(u8)} {zp}")
            if folded is not None and valid and not real.startswith("?") and "?" not in real:
                sems.append(f"rwsem_padfold {kind} {H} {W} {C} {top} {left} {bottom} {right} {kh} {kw} {sy} {sx} {dy} {dx} {folded[0]} {folded[1]} "
                            f"{folded[2]} {folded[3]} {int(u8)} {zp} {rng.getrandbits(20)}")
            else:
                sems.append(None)
        outs = self.model(reqs)
        sem_outs = iter(self.model([x for x in sems if x is not None]))
        for c, rq, m, sq in zip(cases, reqs, outs, sems):
            self.evaluations += 1
            sm = next(sem_outs) if sq is not None else "not-folded"
            ck.count("rw_padfold_cases")
            ck.count("rw_padfold_" + ("folded" if m.startswith("ok") else "kept") + "_" + c[0])
            if m.startswith("ok") and m.split()[5] == "1":
                ck.count("rw_padfold_avgpool_to_depthwise")
            self.nontrivial.add(("padfold",) + c[:10])
            if c[-1].startswith("raises:"):
                ck.count("rw_padfold_real_" + c[-1])
            if m != c[-1] or sm.startswith("fail") or sm.startswith("err"):
                self.disagree("replace_pad_by_hw_pad", f"{c[:12]}: model '{m}', real '{c[-1]}'",
                              {"stream": "padfold", "case": c, "request": rq, "semantic_request": sq}, sm)

    # ---- 3. FULLY_CONNECTED shapes -----------------------------------------------------------------
    def stream_fc(self, n):
        from ethosu.vela import tflite_graph_optimiser as go
        from ethosu.vela.data_type import DataType
        from ethosu.vela.operation import Op

        ck, rng = self.ck, self.rng
        cases, reqs, sems = [], [], []
        for i in range(n):
            I = rng.choice([1, 2, 3, 8, 16, 24])
            O = rng.choice([1, 4, 10])
            B = rng.choice([1, 1, 2, 3, 4, 5, 8, 16, 7])
            form = rng.choice(["2d", "2d", "4d", "3d", "split", "bad"])
            if form == "2d":
                shp = [B, I]
            elif form == "4d":
                shp = [B, 1, 1, I]
            elif form == "3d":
                shp = [1, B, I]
            elif form == "split" and I % 2 == 0:
                shp = [B, 2, I // 2]
            elif form == "bad":
                shp = [B, I + 1] if (B * (I + 1)) % I else [B, I]
            else:
                shp = [B, I]
            ifm = self.tens(shp, DataType.int8, 0.05, 0, "ifm")
            wt = self.const([I, O], DataType.int8, np.zeros([I, O]), 0.01, 0, "w")
            nb = int(np.prod(shp)) // I if int(np.prod(shp)) % I == 0 else B
            ofm = self.tens([nb, O], DataType.int8, 0.1, 0, "ofm")
            op = self.testutil.create_op(Op.FullyConnected, [ifm, wt], ofm)
            op.run_on_npu = True
            ofm4 = op.ofm_shapes[0].as_list()
            try:
                go.rewrite_fully_connected_input(op, self.arch, None)
                go.convert_batched_fc_shape(op, self.arch, None)
                i4, o4 = op.ifm_shapes[0].as_list(), op.ofm_shapes[0].as_list()
                w4 = len(op.inputs[1].shape) == 4
                real = f"ok {','.join(map(str, i4))} {','.join(map(str, o4))} {int(w4)}"
            except AssertionError:
                real, i4, o4 = "none", None, None
            except Exception as e:  # noqa: B902
                real, i4, o4 = "raises:" + type(e).__name__, None, None
            cases.append((shp, I, O, ofm4, real))
            reqs.append(f"rw_fc {','.join(map(str, shp))} {I} {','.join(map(str, ofm4))}")
            sems.append(f"rwsem_fc {','.join(map(str, i4))} {','.join(map(str, o4))} {int(np.prod(shp)) // I} {I} {O} {rng.getrandbits(16)}"
                        if i4 is not None else None)
        outs = self.model(reqs)
        sem_outs = iter(self.model([x for x in sems if x is not None]))
        for c, rq, m, sq in zip(cases, reqs, outs, sems):
            self.evaluations += 1
            sm = next(sem_outs) if sq is not None else "rejected"
            ck.count("rw_fc_cases")
            ck.count("rw_fc_" + m.split()[0])
            self.nontrivial.add(("fc", tuple(c[0]), c[1], c[2]))
            if m != c[-1] or sm.startswith("fail") or sm.startswith("err"):
                self.disagree("rewrite_fully_connected_input/convert_batched_fc_shape", f"ifm {c[0]} weights [{c[1]},{c[2]}] ofm {c[3]}: model '{m}', real '{c[-1]}'",
                              {"stream": "fc", "case": c, "request": rq, "semantic_request": sq}, sm)

    # ---- 4. concat / split / slice offsets -----------------------------------------------------------
    def stream_concat_split(self, n):
        from ethosu.vela import tflite_graph_optimiser as go
        from ethosu.vela.data_type import DataType
        from ethosu.vela.operation import Op
        from ethosu.vela.tensor import create_const_tensor

        ck, rng = self.ck, self.rng
        rows = []   # (stream, description, model request, real answer, semantic request)
        for i in range(n):
            rank = rng.choice([4, 4, 3, 2])
            axis = rng.randrange(rank)
            neg = rng.random() < 0.25
            base = [1] + [rng.randint(1, 5) for _ in range(rank - 1)]
            k = rng.randint(2, 4)
            sizes = [rng.randint(1, 6) for _ in range(k)]
            if axis == 0:
                base[0] = 1
            which = rng.choice(["concat", "concat", "split", "splitv", "slice"])
            if which == "concat":
                ins = []
                for j, d in enumerate(sizes):
                    shp = list(base)
                    shp[axis] = d
                    ins.append(self.tens(shp, DataType.int8, 0.05, 1, f"in{j}"))
                oshape = list(base)
                oshape[axis] = sum(sizes)
                ofm = self.tens(oshape, DataType.int8, 0.05, 1, "ofm")
                ax = axis - rank if neg else axis
                op = self.testutil.create_op(Op.ConcatTFLite, ins, ofm, attrs={"axis": ax})
                op.run_on_npu = True
                try:
                    go.rewrite_concat_ops(op, self.arch)
                    a4 = (4 - rank + axis)
                    offs = [int(o.write_offset.as_list()[a4]) for o in ofm.ops]
                    other = [v for o in ofm.ops for j2, v in enumerate(o.write_offset.as_list()) if j2 != a4]
                    wsh = [int(o.write_shape.as_list()[a4]) for o in ofm.ops]
                    ok_struct = all(v == 0 for v in other) and wsh == sizes and all(o.inputs[0] is t for o, t in zip(ofm.ops, ins))
                    real = f"ok {a4} {','.join(map(str, offs))} {offs[-1] + wsh[-1]}" if ok_struct else f"?structure {offs} {other} {wsh}"
                    sem = f"rwsem_concat {','.join(map(str, sizes))} {','.join(map(str, offs))}"
                except Exception as e:  # noqa: B902
                    real, sem = "raises:" + type(e).__name__, None
                rows.append(("concat", (rank, ax, sizes), f"rw_concat {rank} {ax} {','.join(map(str, sizes))}", real, sem))
            elif which in ("split", "splitv"):
                if which == "split":
                    sizes = [sizes[0]] * k
                ishape = list(base)
                ishape[axis] = sum(sizes)
                inp = self.tens(ishape, DataType.int8, 0.05, 1, "in")
                outs_t = []
                for j, d in enumerate(sizes):
                    shp = list(base)
                    shp[axis] = d
                    outs_t.append(self.tens(shp, DataType.int8, 0.05, 1, f"out{j}"))
                ax_t = create_const_tensor("axis", [], DataType.int32, axis)
                if which == "split":
                    op = self.testutil.create_op(Op.Split, [ax_t, inp], outs_t[0], attrs={"num_splits": k}, set_ifm_ofm_shapes=False)
                else:
                    sz_t = create_const_tensor("sizes", [k], DataType.int32, sizes)
                    op = self.testutil.create_op(Op.SplitV, [inp, sz_t, ax_t], outs_t[0], attrs={"num_splits": k}, set_ifm_ofm_shapes=False)
                for t in outs_t[1:]:
                    op.outputs.append(t)
                    t.ops = [op]
                op.set_ifm_ofm_shapes()
                op.run_on_npu = True
                idx = rng.randrange(k)
                try:
                    t = go.rewrite_split_ops(outs_t[idx], self.arch, None)
                    nop = t.ops[0]
                    a4 = 4 - rank + axis
                    ro, rs = nop.read_offsets[0].as_list(), nop.read_shapes[0].as_list()
                    full = [1] * (4 - rank) + list(base)
                    ok_struct = nop.type == Op.SplitSliceRead and nop.inputs[0] is inp and all(v == 0 for j2, v in enumerate(ro) if j2 != a4) and \
                        all(v == full[j2] for j2, v in enumerate(rs) if j2 != a4)
                    real = f"ok {ro[a4]} {rs[a4]}" if ok_struct else f"?structure {ro} {rs}"
                    sem = f"rwsem_split {','.join(map(str, sizes))} {idx} {ro[a4]} {rs[a4]}"
                except Exception as e:  # noqa: B902
                    real, sem = "raises:" + type(e).__name__, None
                rows.append(("split", (which, rank, axis, sizes, idx), f"rw_split {','.join(map(str, sizes))} {idx}", real, sem))
            else:
                ishape = [1] + [rng.randint(2, 7) for _ in range(3)]
                begin = [0] + [rng.randint(0, d - 1) for d in ishape[1:]]
                end = [1] + [rng.randint(b + 1, d) for b, d in zip(begin[1:], ishape[1:])]
                inp = self.tens(ishape, DataType.int8, 0.05, 1, "in")
                out_t = self.tens([e - b for b, e in zip(begin, end)], DataType.int8, 0.05, 1, "out")
                bt = create_const_tensor("begin", [4], DataType.int32, begin)
                et = create_const_tensor("end", [4], DataType.int32, end)
                st = create_const_tensor("strides", [4], DataType.int32, [1, 1, 1, 1])
                attrs = {"ellipsis_mask": 0, "new_axis_mask": 0, "shrink_axis_mask": 0, "begin_mask": 0, "end_mask": 0,
                         "offset_begin": list(begin), "offset_end": list(end)}
                op = self.testutil.create_op(Op.StridedSlice, [inp, bt, et, st], out_t, attrs=attrs)
                op.run_on_npu = True
                try:
                    t = go.rewrite_split_ops(out_t, self.arch, None)
                    nop = t.ops[0]
                    real = f"ok {','.join(map(str, nop.read_offsets[0].as_list()))} {','.join(map(str, nop.read_shapes[0].as_list()))}"
                except Exception as e:  # noqa: B902
                    real = "raises:" + type(e).__name__
                rows.append(("slice", (ishape, begin, end), f"rw_slice {','.join(map(str, begin))} {','.join(map(str, end))}", real, None))
        outs = self.model([r[2] for r in rows])
        sem_outs = iter(self.model([r[4] for r in rows if r[4] is not None]))
        for (stream, desc, rq, real, sq), m in zip(rows, outs):
            self.evaluations += 1
            sm = next(sem_outs) if sq is not None else "no-semantic-request"
            ck.count(f"rw_{stream}_cases")
            self.nontrivial.add((stream, str(desc)))
            if m != real or sm.startswith("fail") or sm.startswith("err"):
                self.disagree({"concat": "rewrite_concat_ops", "split": "rewrite_split_ops", "slice": "rewrite_split_ops(StridedSlice)"}[stream],
                              f"{desc}: model '{m}', real '{real}'", {"stream": stream, "case": desc, "request": rq, "semantic_request": sq}, sm)

    # ---- 5. depthwise with IFM depth 1 -> convolution -----------------------------------------------------
    def stream_dw2conv(self, n):
        from ethosu.vela import graph_optimiser_util as gu
        from ethosu.vela.data_type import DataType
        from ethosu.vela.errors import UnsupportedFeatureError
        from ethosu.vela.operation import Op, Padding
        from ethosu.vela.tensor import create_const_tensor

        ck, rng = self.ck, self.rng
        rows = []
        for i in range(n):
            M = rng.choice([1, 2, 3, 4, 8])
            C = rng.choice([1, 1, 1, 2, 3])
            O = C * M if rng.random() < 0.9 else C * M + 1
            kh, kw = rng.choice([(1, 1), (2, 2), (3, 3), (2, 3)])
            ifm = self.tens([1, 6, 6, C], DataType.int8, 0.05, 0, "ifm")
            wv = np.random.RandomState(rng.getrandbits(32)).randint(-127, 128, [kh, kw, O, 1])
            wt = self.const([kh, kw, O, 1], DataType.int8, wv, 0.01, 0, "w")
            bias = create_const_tensor("b", [O], DataType.int32, [0] * O)
            ofm = self.tens([1, 6, 6, O], DataType.int8, 0.1, 0, "ofm")
            attrs = {"padding": Padding.SAME, "stride_w": 1, "stride_h": 1, "dilation_w_factor": 1, "dilation_h_factor": 1, "strides": (1, 1, 1, 1),
                     "depth_multiplier": M, "channel_multiplier": M}
            op = self.testutil.create_op(Op.DepthwiseConv2DBias, [ifm, wt, bias], ofm, attrs)
            op.run_on_npu = True
            sem = None
            try:
                out = gu.convert_depthwise_to_conv(op, self.arch, None)
                if out.type == Op.Conv2DBias:
                    nv = np.asarray(out.inputs[1].values)
                    real = "toconv" if list(nv.shape) == [kh, kw, 1, O] and "depth_multiplier" not in out.attrs else f"?shape{list(nv.shape)}"
                    sem = f"rwsem_dw2conv {kh} {kw} {O} {','.join(map(str, wv.reshape(-1)))} {','.join(map(str, nv.reshape(-1)))} {rng.getrandbits(16)}"
                else:
                    real = "keep"
            except UnsupportedFeatureError:
                real = "unsupported"
            except Exception as e:  # noqa: B902
                real = "raises:" + type(e).__name__
            rows.append(((M, C, O, kh, kw), f"rw_dw2conv {M} {C} {O}", real, sem))
        outs = self.model([r[1] for r in rows])
        sem_outs = iter(self.model([r[3] for r in rows if r[3] is not None]))
        for (desc, rq, real, sq), m in zip(rows, outs):
            self.evaluations += 1
            sm = next(sem_outs) if sq is not None else "not-converted"
            ck.count("rw_dw2conv_cases")
            ck.count("rw_dw2conv_" + m)
            self.nontrivial.add(("dw2conv",) + desc)
            if m != real or sm.startswith("fail") or sm.startswith("err"):
                self.disagree("convert_depthwise_to_conv", f"mult/ifm depth/ofm depth/kernel {desc}: model '{m}', real '{real}'",
                              {"stream": "dw2conv", "case": desc, "request": rq, "semantic_request": sq}, sm)


    # ---- 5b. width-folded strided convolution (fixup_strided_conv): semantic check of the real output -----------
    def stream_strided_conv(self, n):
        from ethosu.vela import tflite_graph_optimiser as go
        from ethosu.vela.data_type import DataType
        from ethosu.vela.operation import Op, Padding
        from ethosu.vela.tensor import create_const_tensor

        from ethosu.vela.graph_optimiser_util import needed_total_padding

        ck, rng = self.ck, self.rng
        rows = []
        # deterministic witnesses of the two known defects first: (H, W, C, kh, kw, O, sy, sx, same, first)
        fixed = [(2, 18, 4, 1, 6, 1, 2, 4, True, True), (2, 10, 4, 2, 5, 1, 3, 6, True, False),
                 (4, 24, 3, 1, 3, 2, 1, 9, True, True), (4, 34, 1, 3, 2, 2, 3, 6, True, True)]
        for i in range(n):
            sx = rng.choice([2, 2, 3, 4, 4, 5, 6, 8, 9, 12])
            sy = rng.choice([1, 1, 2, 3])
            kh = rng.choice([1, 1, 2, 3])
            kw = rng.randint(1, 9)
            C = rng.choice([1, 1, 2, 3, 4])
            O = rng.choice([1, 2])
            mult = rng.randint(1, 5)
            W = sx * mult if rng.random() < 0.7 else rng.randint(max(kw, 1), 40)
            H = rng.randint(max(kh, 1), 4)
            same = rng.random() < 0.6
            if not same and W < kw:
                W = kw + rng.randint(0, 6)
            first = rng.random() < 0.8
            if i < len(fixed):
                H, W, C, kh, kw, O, sy, sx, same, first = fixed[i]
            ifm = self.tens([1, H, W, C], DataType.int8, 0.05, -3, "ifm")
            wv = np.random.RandomState(rng.getrandbits(32)).randint(-127, 128, [kh, kw, C, O])
            wt = self.const([kh, kw, C, O], DataType.int8, wv, 0.01, 0, "w")
            bias = create_const_tensor("b", [O], DataType.int32, [0] * O)
            if same:
                oh, ow = -(-H // sy), -(-W // sx)
            else:
                oh, ow = (H - kh) // sy + 1, (W - kw) // sx + 1
            ofm = self.tens([1, oh, ow, O], DataType.int8, 0.1, 0, "ofm")
            attrs = {"padding": Padding.SAME if same else Padding.VALID, "stride_w": sx, "stride_h": sy, "dilation_w_factor": 1,
                     "dilation_h_factor": 1, "strides": (1, sy, sx, 1)}
            op = self.testutil.create_op(Op.Conv2DBias, [ifm, wt, bias], ofm, attrs)
            op.run_on_npu = True
            op.op_index = 0 if first else 3
            try:
                out = go.fixup_strided_conv(op, self.arch, None)
                i4 = out.ifm_shapes[0].as_list()
                nv = np.asarray(out.weights.values)
                sx2, sy2 = out.get_kernel_stride()
                pad = out.attrs["padding"]
                mode, et, el = {Padding.SAME: "s", Padding.VALID: "v", Padding.EXPLICIT: "e"}[pad], 0, 0
                if pad == Padding.EXPLICIT:
                    et, el = int(out.attrs["explicit_padding"][0]), int(out.attrs["explicit_padding"][1])
                changed = (i4[2], i4[3], nv.shape[1], sx2, sy2, mode) != (W, C, kw, sx, sy, "s" if same else "v")
                real = f"{i4[2]}x{i4[3]} k{nv.shape[1]} s{sy2},{sx2} {mode}"
                sem = (f"rwsem_sconv {H} {W} {C} {kh} {kw} {O} {sy} {sx} {int(same)} {i4[2]} {i4[3]} {nv.shape[1]} {sy2} {sx2} {mode} {et} {el} "
                       f"{','.join(map(str, wv.reshape(-1)))} {','.join(map(str, nv.reshape(-1)))} {rng.getrandbits(16)}")
                if list(nv.shape) != [kh, nv.shape[1], i4[3], O] or list(out.ofm_shapes[0].as_list()) != [1, oh, ow, O]:
                    real = "?shapes " + real
            except Exception as e:  # noqa: B902
                real, sem, changed = "raises:" + type(e).__name__ + ":" + str(e)[:60], None, False
            key = None
            if sem is not None and same and i4[2] != W and W % i4[2] == 0:
                # attribution (not the verdict): the explicit padding of the OFM-height/width-1 branch does not belong to the folded
                # geometry -> it was computed from the unfolded width; otherwise the zero columns of the filter are the suspect
                r_ = W // i4[2]
                if mode == "e" and el != needed_total_padding(i4[2], sx // r_, nv.shape[1]) // 2 and (oh == 1 or ow == 1):
                    key = "strided-conv-fold:unit-output-padding-from-unfolded-width"
                else:
                    key = "strided-conv-fold:filter-zero-padding-misaligned"
            rows.append(((H, W, C, kh, kw, O, sy, sx, "SAME" if same else "VALID", "first" if first else "inner"), real, sem, changed, key))
        sem_outs = iter(self.model([r[2] for r in rows if r[2] is not None]))
        for desc, real, sq, changed, key in rows:
            self.evaluations += 1
            sm = next(sem_outs) if sq is not None else "no-semantic-request"
            ck.count("rw_sconv_cases")
            ck.count("rw_sconv_" + ("rewritten" if changed else "unchanged"))
            self.nontrivial.add(("sconv",) + desc)
            if real.startswith("raises"):
                ck.count("rw_sconv_real_raises")
            if real.startswith("?") or sm.startswith("fail") or sm.startswith("err") or real.startswith("raises"):
                self.disagree("fixup_strided_conv", f"H,W,C,kh,kw,O,sy,sx,pad,pos={desc}: real '{real}'",
                              {"stream": "sconv", "case": desc, "semantic_request": sq}, sm, key=key if sm.startswith("fail") else None)


    # ---- 7. dilation above 2 in software (fixup_dilation_gt2) -------------------------------------------------------
    def stream_dilation(self, n):
        from ethosu.vela import tflite_graph_optimiser as go
        from ethosu.vela.data_type import DataType
        from ethosu.vela.operation import Op, Padding
        from ethosu.vela.tensor import create_const_tensor

        ck, rng = self.ck, self.rng
        rows = []
        for i in range(n):
            kind = rng.choice("ccd")
            dt = rng.choice([DataType.int8, DataType.uint8, DataType.uint8])
            kh, kw = rng.choice([(1, 1), (2, 2), (3, 3), (3, 3), (1, 3), (2, 3), (3, 1)])
            dh, dw = rng.choice([1, 2, 3, 3, 4, 5, 6]), rng.choice([1, 2, 3, 3, 4, 5, 6])
            C = rng.choice([1, 2, 3])
            O = rng.choice([1, 2])
            H, W = rng.randint(1, 6), rng.randint(1, 6)
            zpw = 0 if dt == DataType.int8 else rng.choice([0, 128, rng.randint(1, 255)])
            ifm = self.tens([1, H, W, C], dt, 0.05, 3, "ifm")
            wshape = [kh, kw, C, O] if kind == "c" else [kh, kw, C, 1]
            lo, hi = self.qrange(dt)
            wv = np.random.RandomState(rng.getrandbits(32)).randint(lo, hi + 1, wshape)
            wt = self.const(wshape, dt, wv, 0.01, zpw, "w")
            nout = O if kind == "c" else C
            bias = create_const_tensor("b", [nout], DataType.int32, [0] * nout)
            ofm = self.tens([1, H, W, nout], dt, 0.1, 0, "ofm")
            attrs = {"padding": Padding.SAME, "stride_w": 1, "stride_h": 1, "dilation_w_factor": dw, "dilation_h_factor": dh,
                     "strides": (1, 1, 1, 1), "dilation": (1, dh, dw, 1)}
            if kind == "d":
                attrs["depth_multiplier"] = 1
            op = self.testutil.create_op(Op.Conv2DBias if kind == "c" else Op.DepthwiseConv2DBias, [ifm, wt, bias], ofm, attrs)
            op.run_on_npu = True
            sem = None
            try:
                out = go.fixup_dilation_gt2(op, self.arch, None)
                nv = np.asarray(out.weights.values)
                dw2, dh2 = out.get_kernel_dilation()
                if (dw2, dh2) == (dw, dh) and list(nv.shape) == wshape:
                    real = "none"
                else:
                    scw = (nv.shape[1] - 1) // (kw - 1) if kw > 1 else dw // dw2
                    sch = (nv.shape[0] - 1) // (kh - 1) if kh > 1 else dh // dh2
                    real = f"ok {dw2} {dh2} {scw} {sch} {nv.shape[1]} {nv.shape[0]}"
                    if list(out.weights.shape) != list(nv.shape) or tuple(out.attrs["dilation"]) != (1, dh2, dw2, 1):
                        real = "?attrs " + real
                    sem = (f"rwsem_dilation {kind} {H} {W} {C} {kh} {kw} {O} {dh} {dw} {nv.shape[0]} {nv.shape[1]} {dh2} {dw2} {zpw} "
                           f"{','.join(map(str, wv.reshape(-1)))} {','.join(map(str, nv.reshape(-1)))} {rng.getrandbits(16)}")
            except Exception as e:  # noqa: B902
                real = "raises:" + type(e).__name__
            rows.append(((kind, self.dtname(dt), H, W, C, kh, kw, O, dh, dw, zpw), f"rw_dilation {kw} {kh} {dw} {dh}", real, sem))
        outs = self.model([r[1] for r in rows])
        sem_outs = iter(self.model([r[3] for r in rows if r[3] is not None]))
        for (desc, rq, real, sq), m in zip(rows, outs):
            self.evaluations += 1
            sm = next(sem_outs) if sq is not None else "not-rewritten"
            ck.count("rw_dilation_cases")
            ck.count("rw_dilation_" + m.split()[0])
            self.nontrivial.add(("dilation",) + desc)
            key = None
            if sm.startswith("fail") and desc[1] == "u8" and desc[-1] != 0:
                key = "software-dilation:inserted-taps-zero-instead-of-weight-zero-point"
            if m != real or sm.startswith("fail") or sm.startswith("err"):
                self.disagree("fixup_dilation_gt2", f"kind,dtype,H,W,C,kh,kw,O,dh,dw,weight zp={desc}: model '{m}', real '{real}'",
                              {"stream": "dilation", "case": desc, "request": rq, "semantic_request": sq}, sm, key=key)

    # ---- driver ------------------------------------------------------------------------------------
    def run(self):
        t = self.ck.thorough
        self.stream_lrelu(3000 if t else 600)
        self.stream_mulmax(3000 if t else 500)
        self.stream_activation(48 if t else 16)
        self.stream_padfold(4000 if t else 700)
        self.stream_fc(1500 if t else 300)
        self.stream_concat_split(3000 if t else 500)
        self.stream_dw2conv(1000 if t else 200)
        self.stream_strided_conv(4000 if t else 600)
        self.stream_dilation(1500 if t else 300)


def run(ck, also=()):
    """`also`: modules with further stream classes (`run(ck, base)` continues on the same counters)"""
    s = Streams(ck)
    s.run()
    for name in also:
        __import__(name).run(ck, s)
    return s
