"""C01, rewrite streams: correspondence of `lean/VelaVerif/Model/Rewrites.lean` with the REAL graph-optimiser
rewrites, called in-process on operators built from the repo's own classes.

For every generated operator: (1) the real rewrite is called, the parameters of what it leaves behind are
serialised; (2) the Lean model answers the same request; (3) whenever the two differ - and, where it is cheap,
always - the Lean reference semantics (`Spec/RewriteSem.lean`) is applied to the *real* output on every element of
the type range / every output position: original and rewritten operator compute different tensors -> VIOLATION with
that input; the same tensors -> the correspondence is reported as `no-failing-input-found`.
Every verdict is an answer line of the Lean driver."""
import struct

import numpy as np

import common


def f32bits(x):
    return struct.unpack("<I", struct.pack("<f", float(np.float32(x))))[0]


class Streams:
    def __init__(self, ck):
        self.ck = ck
        self.rng = ck.rng
        self.evaluations = 0
        self.nontrivial = set()
        self.disagreements = 0
        common.setup_repo_path()
        from ethosu.vela.test import testutil

        self.testutil = testutil
        self.arch = testutil.create_arch()

    # ---- helpers -------------------------------------------------------------------------------
    def tens(self, shape, dtype, scale, zp, name):
        from ethosu.vela.tensor import QuantizationParameters, Tensor

        t = Tensor(list(shape), dtype, name)
        qp = QuantizationParameters()
        qp.scale_f32 = np.float32(scale)
        qp.zero_point = np.int64(zp)      # what tflite_reader stores: numpy scalars
        qp.quant_min, qp.quant_max = self.qrange(dtype)
        t.quantization = qp
        return t

    def const(self, shape, dtype, values, scale, zp, name):
        from ethosu.vela.tensor import QuantizationParameters, create_const_tensor

        qp = QuantizationParameters()
        qp.scale_f32 = np.float32(scale)
        qp.zero_point = np.int64(zp)      # what tflite_reader stores: numpy scalars
        qp.quant_min, qp.quant_max = self.qrange(dtype)
        return create_const_tensor(name, list(shape), dtype, values, quantization=qp)

    @staticmethod
    def qrange(dtype):
        from ethosu.vela.data_type import DataType

        return {DataType.uint8: (0, 255), DataType.int8: (-128, 127), DataType.int16: (-32768, 32767),
                DataType.int32: (-(1 << 31), (1 << 31) - 1)}[dtype]

    @staticmethod
    def dtname(dtype):
        from ethosu.vela.data_type import DataType

        return {DataType.uint8: "u8", DataType.int8: "i8", DataType.int16: "i16", DataType.int32: "i32"}[dtype]

    def rand_scale(self):
        r = self.rng.random()
        if r < 0.2:
            return 2.0 ** -self.rng.randint(0, 9)
        return float(np.float32(self.rng.uniform(0.2, 2.0) * 2.0 ** -self.rng.randint(0, 9)))

    def model(self, lines):
        return self.ck.model(lines, parallel=False)

    def disagree(self, stream, what, replay, sem_answer, key=None):
        """model != real: the failing-input search has been run (sem_answer is Lean's verdict on the real output)"""
        self.disagreements += 1
        self.ck.count(f"rw_{stream}_disagreements")
        if sem_answer.startswith("fail"):
            self.ck.violation(f"rewrite {stream}: {what}; the rewritten operator computes another tensor than the original: {sem_answer}",
                              dict(replay, lean_verdict=sem_answer), found_input=True, key=key)
        else:
            self.ck.violation(f"rewrite {stream}: model and real rewrite disagree ({what}); Lean semantics of the real output: {sem_answer[:80]}",
                              dict(replay, lean_verdict=sem_answer), found_input=False, key=None)

    # ---- 6. activation ranges of a pass --------------------------------------------------------
    def stream_activation(self, n):
        """source: CONV_2D (fused activation) -> RELU-type -> RELU-type …, compiled by the real compiler; the clamp(s) of
        the emitted NPU operations against the sequential clamps of the source (bounds are the integers -1, 0, 1, 6)."""
        import netgen
        import pipeline

        ck = self.ck
        kinds = {"RELU": "0:n", "RELU6": "0:6", "RELU_N1_TO_1": "-1:1"}
        fused_code = {0: "-", 1: "0:n", 2: "-1:1", 3: "0:6"}
        cases, reqs, sems = [], [], []
        combos = []
        names = list(kinds)
        for f in (0, 1, 2, 3):
            for a in names:
                combos.append((f, [a]))
                for b2 in names:
                    combos.append((f, [a, b2]))
        self.rng.shuffle(combos)
        for f, seq in combos[:n]:
            b = netgen.B(self.rng, "rw_act", "int8")
            x = b.input([1, 4, 4, 8], scale=0.05, zp=self.rng.choice([0, 3, -7]))
            y = b.conv(x, 8, (1, 1), (1, 1), (1, 1), "SAME", act=f, out_scale=0.04)
            for k in seq:
                y = b.unary(k, y)
            data = netgen.serialize(b.finish([y]))
            res = pipeline.compile_net(data, ["--accelerator-config", "ethos-u55-128"], name="rwact")
            pipeline.reset_process_state()
            if res.status != "ok":
                ck.count("rw_act_compile_" + res.status)
                continue
            acts = []
            for art in res.streams:
                for op in art.npu_ops:
                    a = getattr(op, "activation", None)
                    if a is None:
                        continue
                    if a.op_type.name != "NONE_OR_RELU":
                        acts.append(None)
                        continue
                    acts.append((a.min, a.max))
            if any(a is None for a in acts) or any(v is not None and float(v) != int(v) for a in acts for v in a):
                ck.count("rw_act_not_integer_bounds")
                continue

            def rng_s(a):
                return ("n" if a[0] is None else str(int(a[0]))) + ":" + ("n" if a[1] is None else str(int(a[1])))

            real = [rng_s(a) for a in acts if a != (None, None)]
            src = [kinds[k] for k in seq]
            cases.append((f, seq, real))
            reqs.append(f"rw_actisect {fused_code[f]} " + " ".join(src))
            # semantic check: the real clamps applied in order == the source clamps applied in order, on -300..300
            got_first = real[0] if real else "-"
            sems.append((f"rwsem_actseq {fused_code[f]} " + " ".join(src) + f" {got_first} -40 40") if len(real) <= 1 else None)
        outs = self.model(reqs)
        sem_lines = [s for s in sems if s is not None]
        sem_outs = iter(self.model(sem_lines))
        for (f, seq, real), rq, m, s in zip(cases, reqs, outs, sems):
            self.evaluations += 1
            ck.count("rw_act_cases")
            ck.count(f"rw_act_npu_ops_{len(real)}")
            sem = next(sem_outs) if s is not None else "not-single-op"
            want = m[3:] if m.startswith("ok ") else m
            got = real[0] if len(real) == 1 else ("-" if not real else "+".join(real))
            self.nontrivial.add(("act", f, tuple(seq)))
            if len(real) <= 1 and sem != "ok":
                self.disagree("activation-intersection", f"fused={fused_code[f]} ops={seq}: model {want}, emitted {got}",
                              {"stream": "activation", "fused": f, "ops": seq, "request": rq, "emitted": real}, sem)
            elif len(real) <= 1 and want != got:
                self.disagree("activation-intersection", f"fused={fused_code[f]} ops={seq}: model {want}, emitted {got}",
                              {"stream": "activation", "fused": f, "ops": seq, "request": rq, "emitted": real}, sem)
            elif len(real) > 1:
                ck.count("rw_act_not_packed_into_one_op")

    # ---- 1. LeakyReLU ----------------------------------------------------------------------------
    def describe_lrelu(self, op, ifm, alpha):
        """canonical description of what convert_lrelu left behind (same vocabulary as Handlers/Rewrites.showPlan)"""
        from ethosu.vela import scaling
        from ethosu.vela.data_type import DataType
        from ethosu.vela.operation import Op

        def scalar_desc(mul):
            at = mul.inputs[1]
            v = int(np.asarray(at.values).reshape(-1)[0])
            sc = at.quantization.scale_f32
            if mul.explicit_scaling is not None:
                return "prelu"
            if v == 0 and float(sc) == 1.0:
                return "zero"
            if v == 1 and f32bits(sc) == f32bits(alpha) and at.quantization.zero_point == 0:
                return "one"
            if at.dtype == DataType.int32 and f32bits(sc) == f32bits(alpha):
                want, _ = scaling.elementwise_mul_scale(ifm.quantization.scale_f32, np.float32(alpha), op.ofm.quantization.scale_f32)
                if v == want:
                    return "mulscale"
            return f"?{v}/{sc}"

        if op.type == Op.Relu:
            return "relu"
        if op.type == Op.LeakyRelu:
            return "keep"
        if op.type == Op.Add and op.activation_lut is not None:
            return "lut"
        if op.type == Op.Maximum:
            mul = op.inputs[0].ops[0]
            if mul.type != Op.Mul or mul.inputs[0] is not ifm:
                return "?max-structure"
            second = op.inputs[1]
            if second is ifm:
                idm = 0
            else:
                m2 = second.ops[0]
                c1 = m2.inputs[1]
                if m2.type != Op.Mul or m2.inputs[0] is not ifm or int(np.asarray(c1.values).reshape(-1)[0]) != 1 or \
                        float(c1.quantization.scale_f32) != 1.0 or c1.quantization.zero_point != 0:
                    return "?identity-structure"
                idm = 1
            return f"mulmax {scalar_desc(mul)} {idm}"
        if op.type == Op.Add:
            mul = op.inputs[0].ops[0]
            relu = op.inputs[1].ops[0]
            mn = mul.inputs[0].ops[0] if mul.type == Op.Mul and mul.inputs[0].ops else None
            ok = (mul.type == Op.Mul and relu.type == Op.Relu and relu.inputs[0] is ifm and mn is not None and mn.type == Op.Minimum
                  and mn.inputs[0] is ifm and int(np.asarray(mn.inputs[1].values).reshape(-1)[0]) == 0
                  and op.explicit_scaling is not None and list(op.explicit_scaling.multiplier) == [1] and list(op.explicit_scaling.shift) == [0])
            if not ok:
                return "?add-structure"
            return f"minmulreluadd {1 if mul.inputs[0].dtype == DataType.int32 else 0} {scalar_desc(mul)}"
        return f"?{op.type.name}"

    def stream_lrelu(self, n):
        from ethosu.vela import tflite_graph_optimiser as go
        from ethosu.vela.data_type import DataType
        from ethosu.vela.operation import Op

        ck, rng = self.ck, self.rng
        alphas = [0.0, -0.0, 0.1, 0.2, 0.5, 0.998, 1.0, 1.5, 7.0, -0.3, -1.0, -2.5, 1e-39, 2.9e-39, 3e-39, -1e-40, 1e-30]
        pairs = [(DataType.int8, DataType.int8), (DataType.uint8, DataType.uint8), (DataType.int16, DataType.int16)] * 3 + \
                [(DataType.int8, DataType.int16), (DataType.int16, DataType.int8), (DataType.uint8, DataType.int8)]
        cases, reqs = [], []
        for i in range(n):
            alpha = np.float32(rng.choice(alphas) if rng.random() < 0.7 else rng.uniform(-2, 2))
            idt, odt = rng.choice(pairs)
            eq = rng.random() < 0.5
            prelu = rng.random() < 0.15
            s_in = self.rand_scale()
            zp = 0 if idt == DataType.int16 else rng.randint(*self.qrange(idt))
            zpo = zp if (eq and idt == odt) else (0 if odt == DataType.int16 else rng.randint(*self.qrange(odt)))
            ifm = self.tens([1, 4, 4, 8], idt, s_in, zp, "ifm")
            ofm = self.tens([1, 4, 4, 8], odt, s_in if eq else self.rand_scale() * 1.37, zpo, "ofm")
            real_eq = bool(ifm.quantization.is_scaling_equal(ofm.quantization))
            op = self.testutil.create_op(Op.LeakyRelu, [ifm], ofm, attrs={"alpha": float(alpha)})
            op.run_on_npu = True
            if prelu:
                op.attrs["alpha_scaling"] = (rng.randint(-5, 5), 1 << 30, 31)
            try:
                out = go.convert_lrelu(op, self.arch, None)
                desc = self.describe_lrelu(out, ifm, alpha)
            except Exception as e:  # noqa: B902
                desc = "raises:" + type(e).__name__
            cases.append((float(alpha), self.dtname(idt), self.dtname(odt), real_eq, prelu, desc))
            reqs.append(f"rw_lrelu {f32bits(alpha)} {self.dtname(idt)} {self.dtname(odt)} {int(real_eq)} {int(prelu)}")
        outs = self.model(reqs)
        for c, rq, m in zip(cases, reqs, outs):
            self.evaluations += 1
            ck.count("rw_lrelu_cases")
            want = m[3:] if m.startswith("ok ") else m
            ck.count("rw_lrelu_plan_" + want.split(" ")[0])
            self.nontrivial.add(("lrelu",) + c[1:5] + (want,))
            if c[5].startswith("raises:"):
                ck.count("rw_lrelu_real_" + c[5])
                continue
            if want != c[5]:
                # the structure itself is the observable here: no per-element semantics to fall back on
                self.disagree("convert_lrelu", f"alpha={c[0]} {c[1]}->{c[2]} scaling_equal={c[3]} prelu={c[4]}: model '{want}', real '{c[5]}'",
                              {"stream": "lrelu", "case": c, "request": rq}, "structure-only")

    # ---- 1b. Maximum(x, Mul(x, c)) -> LeakyRelu / Abs ---------------------------------------------
    def stream_mulmax(self, n):
        from ethosu.vela import tflite_graph_optimiser as go
        from ethosu.vela.data_type import DataType
        from ethosu.vela.operation import Op

        ck, rng = self.ck, self.rng
        cases, reqs, sems = [], [], []

        def build(dt, zp, s_x, q, zpc, s_c, swap=False):
            ifm = self.tens([1, 4, 4, 8], dt, s_x, zp, "ifm")
            ifm.ops = [self.testutil.create_op(Op.Placeholder, [], ifm, set_ifm_ofm_shapes=False)]
            cst = self.const([], dt, q, s_c, zpc, "c")        # shape []: 0-d value array, as the reader creates it
            mul_ofm = self.tens([1, 4, 4, 8], dt, s_x, zp, "mul_ofm")
            ofm = self.tens([1, 4, 4, 8], dt, s_x, zp, "ofm")
            mul = self.testutil.create_op(Op.Mul, [ifm, cst], mul_ofm)
            mx = self.testutil.create_op(Op.Maximum, [mul_ofm, ifm] if swap else [ifm, mul_ofm], ofm)
            mul.run_on_npu = mx.run_on_npu = True
            return mx

        # which decision does the tree under test implement? Before repair C01-15 it is taken on the quantised value of the
        # constant, after it on the real value: Maximum(x, Mul(x, 2)) with scale 1 is taken for a LeakyRelu only before
        probe = go.convert_mul_max_to_abs_or_lrelu(build(DataType.int8, 0, 1.0, 2, 0, 1.0), self.arch, None)
        variant = "old" if probe.type == Op.LeakyRelu else "new"
        ck.count("rw_mulmax_variant_" + variant)
        for i in range(n):
            dt = rng.choice([DataType.int8, DataType.uint8])
            lo, hi = self.qrange(dt)
            s_x = self.rand_scale()
            zp = rng.randint(lo, hi)
            mode = rng.choice(["unit", "unit", "gt1", "q0", "qm1", "minus1", "zero", "random", "random"])
            if mode == "unit":          # 0 <= c <= 1
                a = rng.randint(1, 255)
                s_c = float(np.float32(rng.uniform(0.05, 1.0) / a))
                zpc = rng.randint(lo, hi - a) if hi - a >= lo else lo
                q = zpc + a
            elif mode == "gt1":
                a = rng.randint(1, 255)
                s_c = float(np.float32(rng.uniform(1.01, 3.0) / a))
                zpc = rng.randint(lo, hi - a)
                q = zpc + a
            elif mode == "q0":
                q, zpc, s_c = 0, rng.randint(max(lo, -100), min(hi, 100)), self.rand_scale()
            elif mode == "qm1":
                q, zpc, s_c = (-1 if dt == DataType.int8 else rng.randint(lo, hi)), rng.randint(lo, hi), self.rand_scale()
            elif mode == "minus1":
                k = rng.choice([1, 2, 4, 8, 64])
                zpc = rng.randint(lo + k, hi)
                q, s_c = zpc - k, 1.0 / k
            elif mode == "zero":
                zpc = rng.randint(lo, hi)
                q, s_c = zpc, self.rand_scale()
            else:
                q, zpc, s_c = rng.randint(lo, hi), rng.randint(lo, hi), self.rand_scale()
            mx = build(dt, zp, s_x, q, zpc, s_c, rng.random() < 0.5)
            try:
                out = go.convert_mul_max_to_abs_or_lrelu(mx, self.arch, None)
                if out.type == Op.LeakyRelu:
                    a_sc = out.attrs.get("alpha_scaling")
                    first = f"lrelu {int(a_sc[0])} {int(out.attrs['alpha'] == 0)}"
                    out = go.convert_lrelu(out, self.arch, None)
                elif out.type == Op.Abs:
                    first = "abs"
                else:
                    first = "keep"
                if out.type == Op.Relu:
                    kind, tbl = "relu", []
                elif out.type == Op.Abs:
                    kind, tbl = "abs", []
                elif out.type == Op.Maximum:
                    kind, tbl = "keep", []
                elif out.type == Op.Add and out.activation_lut is not None:
                    kind, tbl = "lut", [int(v) for v in np.asarray(out.activation_lut.values).reshape(-1)]
                else:
                    kind, tbl = "?" + out.type.name, []
            except Exception as e:  # noqa: B902
                first, kind, tbl = "raises:" + type(e).__name__, "raises", []
            cases.append((mode, self.dtname(dt), q, zpc, s_c, zp, s_x, first, kind))
            reqs.append(f"rw_mulmax {variant} {q} {zpc} {f32bits(s_c)}")
            sems.append(f"rwsem_mulmax {kind} {zp} {q} {zpc} {f32bits(s_x)} {f32bits(s_c)} {f32bits(s_x)} {lo} {hi} " + " ".join(map(str, tbl)))
        outs = self.model(reqs)
        souts = self.model(sems)
        for c, rq, m, sq, sm in zip(cases, reqs, outs, sems, souts):
            self.evaluations += 1
            mode, dtn, q, zpc, s_c, zp, s_x, first, kind = c
            ck.count("rw_mulmax_cases")
            want = m[3:] if m.startswith("ok ") else m
            ck.count("rw_mulmax_plan_" + want.split(" ")[0])
            ck.count("rw_mulmax_real_" + kind)
            self.nontrivial.add(("mulmax", dtn, q, zpc, f32bits(s_c), zp))
            creal = (q - zpc) * float(np.float32(s_c))
            key = None
            if sm.startswith("fail"):
                if first.startswith("lrelu") and kind == "lut" and creal > 1:
                    key = "mul-max-to-lrelu:real-constant-above-one"
                elif kind == "relu" and q == 0 and zpc != 0:
                    key = "mul-max-to-relu:quantised-zero-with-nonzero-zero-point"
                elif kind == "abs" and q == -1 and creal != -1:
                    key = "mul-max-to-abs:quantised-minus-one-not-real-minus-one"
            if want != first or not (sm == "ok"):
                self.disagree("convert_mul_max_to_abs_or_lrelu",
                              f"{dtn} q={q} zp_c={zpc} scale={s_c} (c={creal:.6g}) x: zp={zp} scale={s_x}: model '{want}', real '{first}' -> {kind}",
                              {"stream": "mulmax", "case": c, "request": rq, "semantic_request": sq[:400]}, sm, key=key)

    # ---- driver ------------------------------------------------------------------------------------
    def run(self):
        t = self.ck.thorough
        self.stream_lrelu(3000 if t else 600)
        self.stream_mulmax(3000 if t else 500)
        self.stream_activation(48 if t else 16)


def run(ck):
    s = Streams(ck)
    s.run()
    return s
