"""STRIDED_SLICE: the full mask algebra of the slice specification (round 5, seeded change C01-r5m2).

begin / end / strides and the five masks are indexed by *position in the specification*: a new-axis position consumes no
input dimension, a shrink position drops one, begin/end masks replace a value by the end of the range, negative values
count from the end of the dimension the position *addresses*, out-of-range values are clamped, dimensions beyond the
specification are taken in full.  The family draws every combination on every rank 1-4:

    MODES   plain_neg  negative begin / end values, no masks
            masks      begin_mask / end_mask bits with garbage in the masked entries
            new_axis   1-2 new-axis positions (leading, inner, trailing), negative values and masks BEHIND them
            shrink     1-2 shrink positions (negative begin, garbage end), other positions cut
            short      specification shorter than the rank
            clamp      begin below -dim / end above dim (the reference clamps)
            cpu        what Vela leaves on the CPU: strides != 1, ellipsis, new-axis and shrink together, rank > 4 result

The output shape written into the file is computed by `resolve` below (generator side); the verdict never uses it: Lean
resolves the raw specification itself (Spec/StridedSliceRef.lean) and rejects a file whose result shape disagrees.
"""
import numpy as np

import netgen
from netgen import B, Op

MODES = ["new_axis", "plain_neg", "shrink", "masks", "new_axis", "short", "shrink", "clamp", "new_axis", "cpu"]


def resolve(shape, begin, end, strides, bm=0, em=0, ell=0, na=0, sh=0):
    """TFLite reference (strided_slice.cc / strided_slice_logic.h) -> (effective input shape, starts, counts, output shape)"""
    n = len(begin)
    num_add = sum(1 for i in range(n) if not (ell >> i) & 1 and (na >> i) & 1)
    total = len(shape) + num_add
    axes = []          # (dim, start, stop, stride, bmask, emask, shrink)
    dims = list(shape)
    pos = 0
    while len(axes) < total:
        i = len(axes)
        if pos < n and (ell >> pos) & 1:
            width = max(1, min(1 + num_add + len(shape) - n, total - i))
            for _ in range(width):
                axes.append((dims.pop(0), 0, 0, 1, 1, 1, 0))
            pos += 1
        elif pos < n and (na >> pos) & 1:
            axes.append((1, 0, 1, 1, 0, 0, 0))
            pos += 1
        elif pos >= n:
            axes.append((dims.pop(0), 0, 0, 1, 1, 1, 0))
            pos += 1
        else:
            axes.append((dims.pop(0), begin[pos], end[pos], strides[pos], (bm >> pos) & 1, (em >> pos) & 1, (sh >> pos) & 1))
            pos += 1
    eff, starts, counts, out = [], [], [], []
    for d, b_, e_, st, mb, me, shr in axes:
        clampf = (lambda v: min(max(v, 0), d)) if st > 0 else (lambda v: min(max(v, -1), d - 1))
        s0 = clampf(b_ + d if b_ < 0 else b_)
        if mb:
            s0 = 0 if st > 0 else d - 1
        if shr:
            e0 = s0 + 1
        else:
            e0 = clampf(e_ + d if e_ < 0 else e_)
            if me:
                e0 = d if st > 0 else -1
        cnt = max(0, -((e0 - s0) // -st)) if st > 0 else max(0, -((s0 - e0) // st))
        eff.append(d)
        starts.append(s0)
        counts.append(cnt)
        if not shr:
            out.append(cnt)
    return eff, starts, counts, out


def _enc_begin(rng, lo, d, clamp):
    c = [lo, lo - d]
    if lo == 0 and clamp:
        c += [-d - rng.randint(1, 5)] * 2
    return rng.choice(c)


def _enc_end(rng, hi, d, clamp):
    c = [hi] + ([hi - d] if hi < d else [])
    if hi == d and clamp:
        c += [d + rng.randint(1, 9)] * 2
    return rng.choice(c)


def rand_spec(rng, shape, mode):
    """a random specification of kind `mode` on `shape` -> dict(begin, end, strides, bm, em, ell, na, sh, out)"""
    rank = len(shape)
    # which specification positions are new axes
    n_new = 0
    if mode == "new_axis":
        n_new = rng.randint(1, max(1, 4 - rank)) if rank < 4 else 1
    elif mode == "cpu" and rng.random() < 0.4:
        n_new = 1
    n_in = rank if mode != "short" or rank == 1 else rng.randint(1, rank - 1)      # input dimensions the specification covers
    length = n_in + n_new
    new_pos = sorted(rng.sample(range(length), n_new))
    if mode == "new_axis" and n_in > 0:
        # mostly not trailing: something has to sit BEHIND a new axis
        for _ in range(6):
            if new_pos[0] < length - len(new_pos) or rng.random() < 0.2:
                break
            new_pos = sorted(rng.sample(range(length), n_new))
    begin, end, strides = [], [], []
    bm = em = ell = na = sh = 0
    in_pos = [p for p in range(length) if p not in new_pos]
    shrink_pos = []
    if mode == "shrink" or (mode == "cpu" and n_new and rng.random() < 0.7):
        cands = [p for k, p in enumerate(in_pos)]
        shrink_pos = rng.sample(cands, min(len(cands), rng.choice([1, 1, 2])))
        if mode == "shrink" and len(shrink_pos) == len(in_pos) and len(in_pos) > 1 and rng.random() < 0.7:
            shrink_pos = shrink_pos[:-1]
    clamp = mode == "clamp"
    k = 0
    for p in range(length):
        if p in new_pos:
            na |= 1 << p
            # the entries at a new-axis position are ignored: garbage, also negative
            begin.append(rng.choice([0, 0, -1, 3]))
            end.append(rng.choice([1, 0, -1, 7]))
            strides.append(1)
            if rng.random() < 0.2:
                bm |= 1 << p
            if rng.random() < 0.2:
                em |= 1 << p
            continue
        d = shape[k]
        k += 1
        if p in shrink_pos:
            sh |= 1 << p
            i = rng.randrange(d)
            begin.append(rng.choice([i, i - d]))
            end.append(rng.choice([i + 1, 0, -1, d, i]))
            strides.append(1)
            continue
        style = rng.choice(["full", "cut", "cut", "cut"]) if d > 1 else "full"
        if rank == 4 and k == 1:
            style = "full"            # batch
        lo, hi = (0, d) if style == "full" else (lambda a: (a, rng.randint(a + 1, d)))(rng.randint(0, d - 1))
        masks = mode in ("masks", "new_axis", "clamp") or rng.random() < 0.15
        if mode in ("plain_neg", "new_axis", "short") and rng.random() < 0.5:
            # both ends counted from the end of the dimension
            begin.append(lo - d)
            if hi < d:
                end.append(hi - d)
            elif rng.random() < 0.5:
                em |= 1 << p
                end.append(rng.choice([0, -1, hi]))
            else:
                end.append(hi)
            strides.append(1)
            continue
        if lo == 0 and masks and rng.random() < 0.5:
            bm |= 1 << p
            begin.append(rng.choice([rng.randint(-d, d), 1, -1]))
        else:
            begin.append(_enc_begin(rng, lo, d, clamp) if mode != "masks" or rng.random() < 0.5 else lo)
        if hi == d and masks and rng.random() < 0.5:
            em |= 1 << p
            end.append(rng.choice([rng.randint(-d, d), 0, -1]))
        else:
            end.append(_enc_end(rng, hi, d, clamp) if mode != "masks" or rng.random() < 0.5 else hi)
        strides.append(1)
    if mode == "cpu":
        what = rng.choice(["stride", "ellipsis", "both_masks", "stride"]) if not (n_new and shrink_pos) else "both_masks"
        if what == "stride":
            cands = [p for p in in_pos if p not in shrink_pos]
            if cands:
                p = rng.choice(cands)
                strides[p] = rng.choice([2, 3, -1, 2])
                if strides[p] < 0:
                    # the whole dimension, reversed
                    begin[p], end[p] = -1, 0
                    bm &= ~(1 << p)
                    em |= 1 << p
        elif what == "ellipsis" and length >= 1:
            # one position becomes the ellipsis: the specification then covers fewer dimensions
            p = rng.choice(in_pos) if in_pos else 0
            ell = 1 << p
    eff, starts, counts, out = resolve(shape, begin, end, strides, bm, em, ell, na, sh)
    return dict(begin=begin, end=end, strides=strides, bm=bm, em=em, ell=ell, na=na, sh=sh, out=out, counts=counts, mode=mode)


def ss_op(b, x, spec):
    """append the STRIDED_SLICE `spec` after tensor x (same quantisation); None when the result would be empty"""
    if any(c == 0 for c in spec["counts"]):
        return None
    xt = b.t(x)
    n = len(spec["begin"])
    bt = b.const([n], "int32", spec["begin"], name=b.fresh("begin"))
    et = b.const([n], "int32", spec["end"], name=b.fresh("end"))
    st = b.const([n], "int32", spec["strides"], name=b.fresh("strides"))
    o = b.fm(list(spec["out"]), xt.dtype, scale=xt.scales[0], zp=xt.zps[0])
    b.net.ops.append(Op("STRIDED_SLICE", [x, bt, et, st], [o], ("StridedSliceOptions", dict(
        BeginMask=spec["bm"], EndMask=spec["em"], EllipsisMask=spec["ell"], NewAxisMask=spec["na"], ShrinkAxisMask=spec["sh"]))))
    b.net.desc.append("ss mode={mode} in={shape} begin={begin} end={end} strides={strides} bm={bm} em={em} ell={ell} na={na} sh={sh} out={out}".format(
        shape=list(xt.shape), **spec))
    return o


def rand_shape(rng, rank):
    dims = [rng.choice([2, 3, 4, 5, 6, 8]) for _ in range(rank)]
    if rank == 4:
        dims[0] = 1
    if rng.random() < 0.15:
        dims[rng.randrange(1 if rank == 4 else 0, rank)] = 1
    return dims


def build(b, rng, rank, mode, sink, pre):
    """input -> [NPU operator] -> STRIDED_SLICE -> sink ("out", "npu", "out+npu", "cpu", "out+cpu")"""
    import netgen_ext

    shape = rand_shape(rng, rank)
    x = b.input(shape)
    cur = (netgen_ext.npu_pre(b, x) or x) if pre else x
    r = None
    for _ in range(6):
        r = ss_op(b, cur, rand_spec(rng, shape, mode))
        if r is not None:
            break
    if r is None:
        r = b.unary("RELU", cur)
    outs = []
    parts = sink.split("+")
    if "out" in parts:
        outs.append(r)
    if "npu" in parts:
        outs.append(netgen_ext.ew_const(b, r) if rng.random() < 0.7 or not b.t(r).shape else b.unary("RELU", r))
    if "cpu" in parts:
        outs.append(netgen_ext.custom(b, [r]))
    return b.finish(outs or [r])


SINKS = ["out", "npu", "out+npu", "cpu", "out+cpu", "npu"]


def slice_masks(rng, idx, variant=None):
    """netgen pattern `slice_masks`: sweep variant v -> rank 1 + v mod 4, mode (v div 4) mod 10, sink (v + v div 4) mod 6"""
    import netgen_ext

    pick = netgen_ext._pick
    rank = pick(rng, variant, [1, 2, 3, 4])
    mode = pick(rng, variant, MODES, stride=4)
    sink = pick(rng, (variant + variant // 4) if variant is not None else None, SINKS)
    dtype = rng.choice(["int8", "int8", "uint8", "int16"])
    b = B(rng, f"pat{idx}_slice_masks", dtype)
    pre = rng.random() < 0.6
    b.net.desc.append(f"pattern=slice_masks rank={rank} mode={mode} sink={sink} dtype={dtype} pre={pre}")
    return build(b, rng, rank, mode, sink, pre)


def c01_net(rng, idx, make_builder):
    """C01 profile `ssmask`: the same family with sinks the Lean executor simulates (no third-party operators)"""
    rank = 1 + idx % 4
    mode = MODES[(idx // 4) % len(MODES)]
    sink = ["out", "npu", "out+npu"][(idx + idx // 4) % 3]
    dtype = rng.choice(["int8"] * 5 + ["uint8"] * 3 + ["int16"])
    b = make_builder(rng, f"c01_ssmask_{idx}", dtype)
    pre = rng.random() < 0.6
    b.net.desc.append(f"profile=ssmask rank={rank} mode={mode} sink={sink} dtype={dtype} pre={pre}")
    return build(b, rng, rank, mode, sink, pre)


def out_of_range(desc):
    """classification helper (never a verdict): which generated STRIDED_SLICE specifications of a network description carry a
    begin value below -dim ("begin") or an end value above dim ("end") at a position that addresses an input dimension and
    is not masked - the values the reference clamps"""
    import ast
    import re

    found = set()
    for d in desc or []:
        m = re.match(r"ss mode=\S+ in=(\[.*?\]) begin=(\[.*?\]) end=(\[.*?\]) strides=(\[.*?\]) bm=(\d+) em=(\d+) ell=(\d+) na=(\d+) sh=(\d+)", str(d))
        if not m:
            continue
        shape, begin, end, _st = (ast.literal_eval(m.group(i)) for i in range(1, 5))
        bm, em, ell, na, sh = (int(m.group(i)) for i in range(5, 10))
        if ell:
            continue
        k = 0
        for p in range(len(begin)):
            if (na >> p) & 1:
                continue
            if k >= len(shape):
                break
            dim = shape[k]
            k += 1
            if not (bm >> p) & 1 and begin[p] < -dim:
                found.add("begin")
            if not (em >> p) & 1 and not (sh >> p) & 1 and end[p] > dim:
                found.add("end")
    return found
