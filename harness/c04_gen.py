"""Generators and serialisation for the C04 check: random NPU operation lists built with the public
API types (ethosu.vela.api), in the line format of Handlers/Waits.lean (`c04ops`)."""
import math


def load_api():
    from ethosu.vela import api

    return api


class Buf:
    """a feature map living somewhere in memory (possibly rolling: several tiles)"""

    def __init__(self, region, addr, h, w, d, dtype, layout, tiles=None, strides=None):
        self.region, self.addr, self.h, self.w, self.d = region, addr, h, w, d
        self.dtype, self.layout, self.tiles, self.strides = dtype, layout, tiles, strides


def fm_from_buf(api, b, quant=None):
    fm = api.NpuFeatureMap()
    fm.data_type = b.dtype
    fm.shape = api.NpuShape3D(height=b.h, width=b.w, depth=b.d)
    if b.tiles is None:
        fm.tiles = api.NpuTileBox(height_0=b.h, height_1=b.h, width_0=b.w, addresses=[b.addr, 0, 0, 0])
    else:
        h0, h1, w0, addrs = b.tiles
        fm.tiles = api.NpuTileBox(height_0=h0, height_1=h1, width_0=w0, addresses=list(addrs))
    fm.region = b.region
    fm.layout = b.layout
    fm.quantization = quant or api.NpuQuantization(scale_f32=0.0625, zero_point=0)
    if b.strides is not None:
        fm.strides = api.NpuShape3D(height=b.strides[0], width=b.strides[1], depth=b.strides[2])
    return fm


def align(x, a):
    return (x + a - 1) // a * a


def buf_bytes(api, h, w, d, dtype, layout):
    eb = dtype.size_in_bytes()
    if layout == api.NpuLayout.NHWC:
        return h * w * d * eb
    return h * w * align(d, 16) * eb


class OpGen:
    """Random operation lists with deliberately shared buffers (so that RAW / WAR / WAW conflicts between
    DMA and kernel operations, and producer/consumer kernel pairs, are frequent)."""

    def __init__(self, rng, api, acc, arch, arena=1 << 15, regions=(1, 2)):
        self.rng, self.api, self.acc, self.arch = rng, api, acc, arch
        self.arena = arena
        self.regions = regions
        self.bufs = []
        self.wranges = []          # address ranges that hold weights / scales (DMA destinations)
        self.lut_slots = []        # LUT slots that were DMA'ed
        self.last_ofm = None
        self.stats = {}

    def count(self, k):
        self.stats[k] = self.stats.get(k, 0) + 1

    # ---- buffers -------------------------------------------------------------------------------
    def new_buf(self, h, w, d, dtype=None, layout=None, allow_tiles=True):
        api, rng = self.api, self.rng
        dtype = dtype or rng.choice([api.NpuDataType.UINT8, api.NpuDataType.INT8, api.NpuDataType.INT8, api.NpuDataType.INT16])
        layout = layout or rng.choice([api.NpuLayout.NHWC, api.NpuLayout.NHWC, api.NpuLayout.NHCWB16])
        size = buf_bytes(api, h, w, d, dtype, layout)
        region = rng.choice(self.regions)
        # small arena => accidental overlaps between unrelated buffers are common
        addr = align(rng.randrange(0, max(16, self.arena - size)), 16)
        tiles = None
        eb = dtype.size_in_bytes()
        row = w * d * eb if layout == api.NpuLayout.NHWC else w * align(d, 16) * eb     # stride_y of the default strides

        def disjoint_chunks(n):
            """n chunks of `size` bytes that do not overlap each other (a feature map never aliases itself)"""
            for _ in range(50):
                cs = [align(rng.randrange(0, max(16, self.arena - size)), 16) for _ in range(n)]
                if all(abs(x - y) >= size for i, x in enumerate(cs) for y in cs[:i]):
                    return cs
            base = align(rng.randrange(0, max(16, self.arena)), 16)
            return [base + i * align(size, 16) for i in range(n)]

        if allow_tiles and rng.random() < 0.2 and h >= 2:
            if rng.random() < 0.6:
                # rolling buffer of h rows entered at row r0: rows [0, h0) in tile 0, the rest wrapped to the base (tile 2)
                r0 = rng.randrange(1, h)
                tiles = (h - r0, h - r0, w, [addr + r0 * row, 0, addr, 0])
                self.count("buf_tiles_rolling")
            else:
                h0 = rng.randrange(1, h)
                a0, a2 = disjoint_chunks(2)
                tiles = (h0, h0, w, [a0, 0, a2, 0])
                addr = a0
                self.count("buf_tiles_vertical")
        elif allow_tiles and rng.random() < 0.08 and w >= 2:
            w0 = rng.randrange(1, w)
            if rng.random() < 0.5 and h >= 2:
                h0 = rng.randrange(1, h)
                h1 = rng.randrange(1, h)
                a0, a1, a2, a3 = disjoint_chunks(4)
                tiles = (h0, h1, w0, [a0, a1, a2, a3])
                self.count("buf_tiles_4")
            else:
                a0, a1 = disjoint_chunks(2)
                tiles = (h, h, w0, [a0, a1, 0, 0])
                self.count("buf_tiles_horizontal")
            addr = a0
        b = Buf(region, addr, h, w, d, dtype, layout, tiles)
        self.bufs.append(b)
        return b

    def pick_buf(self, pred=lambda b: True, p_reuse=0.65):
        rng = self.rng
        cands = [b for b in self.bufs if pred(b)]
        if cands and rng.random() < p_reuse:
            # prefer recent buffers: producer -> consumer chains
            return cands[-1] if rng.random() < 0.6 else rng.choice(cands)
        return None

    def rand_shape(self):
        rng = self.rng
        return (rng.choice([1, 2, 3, 4, 5, 7, 8, 12, 16, 24, 32, 40]), rng.choice([1, 2, 3, 4, 7, 8, 9, 16, 20, 33]),
                rng.choice([1, 3, 4, 8, 16, 16, 20, 32, 48]))

    # ---- operations -----------------------------------------------------------------------------
    def block_config(self, op):
        cfgs = self.api.npu_find_block_configs(op, self.acc)
        if not cfgs:
            return None
        r = self.rng.random()
        if r < 0.4:
            # small blocks: many jobs, interesting BLOCKDEP
            cfgs = sorted(cfgs, key=lambda c: c.height * c.width * c.depth)
            return cfgs[self.rng.randrange(0, max(1, len(cfgs) // 4))]
        return self.rng.choice(cfgs)

    def activation(self, op, ofm_dtype):
        api, rng = self.api, self.rng
        r = rng.random()
        if r < 0.2:
            act = api.NpuActivation(api.NpuActivationOp.TABLE_LOOKUP)
            act.lookup_table_index = rng.choice(self.lut_slots) if self.lut_slots and rng.random() < 0.8 else rng.randrange(8)
            op.activation = act
            self.count("act_lut")
        elif r < 0.35:
            act = api.NpuActivation(api.NpuActivationOp.NONE_OR_RELU)
            act.min = 0.0
            op.activation = act

    def weights_for(self, nbytes):
        """weights either in the constants region or in a range some DMA wrote (buffered weights)"""
        api, rng = self.api, self.rng
        n = 2 if self.arch.ncores == 2 and rng.random() < 0.7 else 1
        out = []
        for _ in range(n):
            if self.wranges and rng.random() < 0.6:
                r = rng.choice(self.wranges[-3:])
                out.append(api.NpuAddressRange(r.region, r.address, max(16, r.length // 16 * 16)))
                self.count("weights_from_dma")
            else:
                out.append(api.NpuAddressRange(0, align(rng.randrange(0, 1 << 16), 16), align(max(16, nbytes), 16)))
        if n == 2 and out[0].region != out[1].region:
            out[1] = api.NpuAddressRange(out[0].region, out[1].address, out[1].length)
        return out

    def gen_dma(self):
        api, rng = self.api, self.rng
        r = rng.random()
        if r < 0.3:
            # weights / scales into SRAM
            ln = rng.choice([16, 32, 64, 256, 1024])
            src = api.NpuAddressRange(0, align(rng.randrange(0, 1 << 16), 16), ln)
            dst = api.NpuAddressRange(rng.choice(self.regions), align(rng.randrange(0, self.arena), 16), ln)
            self.wranges.append(dst)
            self.count("dma_weights")
            return api.NpuDmaOperation(src, dst)
        if r < 0.5:
            # LUT into SHRAM
            slot = rng.randrange(8)
            src = api.NpuAddressRange(0, align(rng.randrange(0, 1 << 16), 16), 256)
            dst = api.NpuAddressRange(259, int(self.arch.shram_lut_address) + 256 * slot, 256)
            self.lut_slots.append(slot)
            self.count("dma_lut")
            return api.NpuDmaOperation(src, dst)
        # feature-map copies (memory-only operators): from / to existing buffers when possible
        b = self.pick_buf(lambda b: b.tiles is None and b.strides is None, 0.8)
        if b is not None and rng.random() < 0.5:
            ln = align(buf_bytes(api, b.h, b.w, b.d, b.dtype, b.layout), 16)
            src = api.NpuAddressRange(b.region, b.addr, ln)
            dst = api.NpuAddressRange(rng.choice(self.regions), align(rng.randrange(0, self.arena), 16), ln)
            self.count("dma_from_fm")
        elif b is not None:
            ln = align(buf_bytes(api, b.h, b.w, b.d, b.dtype, b.layout), 16)
            src = api.NpuAddressRange(rng.choice((0,) + tuple(self.regions)), align(rng.randrange(0, self.arena), 16), ln)
            dst = api.NpuAddressRange(b.region, b.addr, ln)
            self.count("dma_into_fm")
        else:
            ln = rng.choice([16, 48, 256, 4096])
            src = api.NpuAddressRange(rng.choice((0,) + tuple(self.regions)), align(rng.randrange(0, self.arena), 16), ln)
            dst = api.NpuAddressRange(rng.choice(self.regions), align(rng.randrange(0, self.arena), 16), ln)
            self.count("dma_random")
        return api.NpuDmaOperation(src, dst)

    def gen_kernel(self, force=None, consume_last=False, lut=None):
        """force: operation kind; consume_last: the IFM is the most recent OFM (producer -> consumer pair);
        lut: True / False forces / forbids a table-lookup activation (None: random)"""
        api, rng = self.api, self.rng
        kind = force or rng.choice(["conv", "conv", "dw", "pool", "ew", "ew", "ew_unary"])
        # 32-bit feature maps (REDUCE_SUM results) feed elementwise operations only
        ok32 = (lambda b: True) if kind in ("ew", "ew_unary") else (lambda b: b.dtype != api.NpuDataType.INT32)
        ifm_b = self.pick_buf(ok32)
        if consume_last and self.last_ofm is not None and ok32(self.last_ofm):
            ifm_b = self.last_ofm
        if ifm_b is None:
            h, w, d = self.rand_shape()
            ifm_b = self.new_buf(h, w, d)
        quant = api.NpuQuantization(scale_f32=0.0625, zero_point=0)
        if kind in ("ew", "ew_unary"):
            if kind == "ew":
                op = api.NpuElementWiseOperation(rng.choice([api.NpuElementWiseOp.ADD, api.NpuElementWiseOp.MUL,
                                                             api.NpuElementWiseOp.MIN, api.NpuElementWiseOp.MAX,
                                                             api.NpuElementWiseOp.SUB]))
            else:
                op = api.NpuElementWiseOperation(api.NpuElementWiseOp.ABS)
            op.ifm = fm_from_buf(api, ifm_b, quant)
            if kind == "ew":
                r = rng.random()
                if r < 0.2:
                    op.ifm2 = fm_from_buf(api, Buf(ifm_b.region, 0, 1, 1, 1, ifm_b.dtype, api.NpuLayout.NHWC), quant)
                    op.ifm2_scalar = 1.0
                    self.count("ew_scalar")
                else:
                    same = lambda b: (b.dtype == ifm_b.dtype and b is not ifm_b and
                                      b.h in (1, ifm_b.h) and b.w in (1, ifm_b.w) and b.d in (1, ifm_b.d))
                    b2 = self.pick_buf(same, 0.7)
                    if b2 is None:
                        bc = rng.random() < 0.3
                        b2 = self.new_buf(1 if bc and rng.random() < 0.5 else ifm_b.h, 1 if bc and rng.random() < 0.5 else ifm_b.w,
                                          1 if bc and rng.random() < 0.3 else ifm_b.d, dtype=ifm_b.dtype)
                    op.ifm2 = fm_from_buf(api, b2, quant)
                    if (b2.h, b2.w, b2.d) != (ifm_b.h, ifm_b.w, ifm_b.d):
                        self.count("ew_broadcast")
            oh, ow, od = ifm_b.h, ifm_b.w, ifm_b.d
            odtype = ifm_b.dtype
        else:
            # kernel extents over the whole range the hardware walks in sub-kernels of 8x8: up to and beyond 8 (and 16)
            kw, kh = rng.choice([(1, 1), (3, 3), (3, 1), (1, 3), (2, 2), (3, 2), (5, 5), (1, 7), (3, 3), (7, 7),
                                 (3, 12), (12, 3), (9, 9), (1, 9), (9, 1), (8, 8), (2, 17), (17, 2), (5, 11)])
            sx, sy = rng.choice([(1, 1), (1, 1), (2, 2), (1, 2), (2, 1), (3, 3), (1, 3)])
            dx, dy = (1, 1) if rng.random() < 0.75 else rng.choice([(2, 2), (1, 2), (2, 1)])
            if kind == "pool":
                dx = dy = 1
            kdw, kdh = (kw - 1) * dx + 1, (kh - 1) * dy + 1
            same_pad = rng.random() < 0.6
            if same_pad:
                # TFLite SAME: total = max((ceil(i/s)-1)*s + k - i, 0), smaller half first
                toth = max((math.ceil(ifm_b.h / sy) - 1) * sy + kdh - ifm_b.h, 0)
                totw = max((math.ceil(ifm_b.w / sx) - 1) * sx + kdw - ifm_b.w, 0)
                top, left = toth // 2, totw // 2
                bottom, right = toth - top, totw - left
            else:
                top = rng.randrange(0, kdh) if rng.random() < 0.3 else 0
                bottom = rng.randrange(0, kdh) if rng.random() < 0.3 else 0
                left = rng.randrange(0, kdw) if rng.random() < 0.3 else 0
                right = rng.randrange(0, kdw) if rng.random() < 0.3 else 0
            if ifm_b.h + top + bottom < kdh or ifm_b.w + left + right < kdw:
                return None
            oh = (ifm_b.h + top + bottom - kdh) // sy + 1
            ow = (ifm_b.w + left + right - kdw) // sx + 1
            # the last padding row/column must really be needed, otherwise the hardware reads beyond the IFM:
            # implied extent (o-1)*s + k - top - bottom <= ifm extent holds by construction of oh/ow
            if kind == "conv":
                op = api.NpuConv2DOperation()
                od = rng.choice([1, 4, 8, 16, 16, 24, 32])
                op.block_traversal = rng.choice([api.NpuBlockTraversal.DEPTH_FIRST, api.NpuBlockTraversal.PART_KERNEL_FIRST])
            elif kind == "dw":
                op = api.NpuConvDepthWiseOperation()
                od = ifm_b.d
            else:
                sub = rng.choice([api.NpuPoolingOp.MAX, api.NpuPoolingOp.AVERAGE, api.NpuPoolingOp.REDUCE_SUM])
                if sub == api.NpuPoolingOp.REDUCE_SUM and ifm_b.layout != api.NpuLayout.NHWC:
                    sub = api.NpuPoolingOp.AVERAGE
                op = api.NpuPoolingOperation(sub)
                od = 1 if sub == api.NpuPoolingOp.REDUCE_SUM else ifm_b.d
                if sub == api.NpuPoolingOp.REDUCE_SUM:
                    self.count("pool_reduce_sum")
            op.ifm = fm_from_buf(api, ifm_b, quant)
            op.kernel = api.NpuKernel(kw, kh, sx, sy, dx, dy)
            op.padding = api.NpuPadding(top=top, left=left, bottom=bottom, right=right)
            if kind in ("conv", "dw"):
                op.weights = self.weights_for(kw * kh * ifm_b.d * od // 2)
                op.biases = [api.NpuAddressRange(w.region, align(rng.randrange(0, 1 << 16), 16), align(10 * od, 16))
                             for w in op.weights]
                if op.biases and rng.random() < 0.3 and self.wranges:
                    r = rng.choice(self.wranges)
                    op.biases = [api.NpuAddressRange(r.region, r.address, max(16, r.length // 16 * 16)) for _ in op.biases]
            odtype = ifm_b.dtype
            if kind == "pool" and od == 1 and ifm_b.d != 1 and rng.random() < 0.5:
                odtype = api.NpuDataType.INT32
        # OFM: a new buffer, or an existing one of the right shape (WAW / WAR with earlier operations)
        fit = lambda b: (b.h, b.w, b.d) == (oh, ow, od) and b.dtype == odtype and b is not ifm_b
        ofm_b = self.pick_buf(fit, 0.35)
        if ofm_b is None:
            if rng.random() < 0.05 and kind in ("ew", "ew_unary"):
                ofm_b = ifm_b        # in place
                self.count("in_place")
            else:
                ofm_b = self.new_buf(oh, ow, od, dtype=odtype)
        else:
            # move to the end: most recent producer
            self.bufs.remove(ofm_b)
            self.bufs.append(ofm_b)
        op.ofm = fm_from_buf(api, ofm_b, quant)
        self.last_ofm = ofm_b
        if lut is None:
            self.activation(op, odtype)
        elif lut:
            act = api.NpuActivation(api.NpuActivationOp.TABLE_LOOKUP)
            act.lookup_table_index = rng.choice(self.lut_slots) if self.lut_slots else rng.randrange(8)
            op.activation = act
            self.count("act_lut")
        bc = self.block_config(op)
        if bc is None:
            return None
        op.block_config = bc
        self.count("kernel_" + kind)
        return op

    def lut_dma(self):
        api, rng = self.api, self.rng
        slot = rng.randrange(8)
        src = api.NpuAddressRange(0, align(rng.randrange(0, 1 << 16), 16), 256)
        dst = api.NpuAddressRange(259, int(self.arch.shram_lut_address) + 256 * slot, 256)
        self.lut_slots.append(slot)
        self.count("dma_lut")
        return api.NpuDmaOperation(src, dst)

    def gen_pattern(self):
        """short directed sequences around the two mechanisms of the property that random mixing reaches rarely:
        producer -> consumer pairs (BLOCKDEP path through the loops, any kernel extent) and the SHRAM lookup table
        (kernel running while the next table is DMA'ed; table user followed by an unrelated kernel)"""
        rng = self.rng
        r = rng.random()
        seq = []
        if r < 0.5:
            self.count("pattern_chain")
            seq.append(lambda: self.gen_kernel())
            for _ in range(rng.choice([1, 1, 2])):
                seq.append(lambda: self.gen_kernel(force=rng.choice(["conv", "dw", "pool", "conv"]), consume_last=True))
        elif r < 0.8:
            self.count("pattern_kernel_lutdma_lutuser")
            seq.append(lambda: self.gen_kernel(force=rng.choice(["conv", "dw", "pool", "ew"]), lut=False))
            seq.append(self.lut_dma)
            seq.append(lambda: self.gen_kernel(lut=True, consume_last=rng.random() < 0.5))
        else:
            self.count("pattern_lutuser_then_other")
            seq.append(self.lut_dma)
            seq.append(lambda: self.gen_kernel(lut=True))
            seq.append(lambda: self.gen_kernel(force=rng.choice(["conv", "dw", "pool", "ew"]), lut=False,
                                               consume_last=rng.random() < 0.3))
        out = []
        for mk in seq:
            try:
                op = mk()
            except Exception:  # noqa: B902  npu_find_block_configs asserts on some shapes
                self.count("gen_kernel_exception")
                op = None
            if op is not None:
                out.append(op)
        return out

    def gen_list(self, n, p_dma=0.4, p_pattern=0.35):
        ops = []
        tries = 0
        while len(ops) < n and tries < 6 * n:
            tries += 1
            r = self.rng.random()
            if r < p_pattern:
                ops.extend(self.gen_pattern())
            elif self.rng.random() < p_dma:
                ops.append(self.gen_dma())
            else:
                try:
                    op = self.gen_kernel()
                except Exception:  # noqa: B902  npu_find_block_configs asserts on some shapes
                    self.count("gen_kernel_exception")
                    op = None
                if op is not None:
                    ops.append(op)
        return ops


# ---- serialisation ----------------------------------------------------------------------------------


def ser_fm(api, fm):
    if fm is None:
        return [0] * 17
    t = fm.tiles
    s = fm.strides
    return [int(fm.region), 1 if fm.layout == api.NpuLayout.NHCWB16 else 0, int(fm.data_type.size_in_bytes()),
            int(fm.shape.height), int(fm.shape.width), int(fm.shape.depth),
            int(t.height_0), int(t.height_1), int(t.width_0)] + [int(a) for a in t.addresses] + \
           ([1, int(s.height), int(s.width), int(s.depth)] if s is not None else [0, 0, 0, 0])


def ser_op(api, op):
    if isinstance(op, api.NpuDmaOperation):
        return "D," + ",".join(str(int(x)) for x in (op.src.region, op.src.address, op.src.length,
                                                     op.dest.region, op.dest.address, op.dest.length))
    k = op.kernel
    p = op.padding
    uses_lut = op.activation is not None and op.activation.op_type == api.NpuActivationOp.TABLE_LOOKUP
    is_rsum = op.op_type == api.NpuOperationType.Pooling and op.sub_op_type == api.NpuPoolingOp.REDUCE_SUM
    v = [1 if op.op_type == api.NpuOperationType.Conv2D else 0, 1 if is_rsum else 0, 1 if uses_lut else 0,
         1 if op.ifm2_scalar is not None else 0, 1 if op.ifm2 is not None else 0,
         1 if k is not None else 0]
    v += [k.width, k.height, k.stride_x, k.stride_y, k.dilation_x, k.dilation_y] if k is not None else [0] * 6
    v += [1 if p is not None else 0] + ([p.top, p.left, p.bottom, p.right] if p is not None else [0] * 4)
    v += [op.block_config.height, op.block_config.width, op.block_config.depth, op.ifm.data_type.size_in_bits()]
    v += ser_fm(api, op.ifm) + ser_fm(api, op.ifm2) + ser_fm(api, op.ofm)
    v += [len(op.weights)] + [x for w in op.weights for x in (w.region, w.address, w.length)]
    v += [len(op.biases)] + [x for w in op.biases for x in (w.region, w.address, w.length)]
    return "B," + ",".join(str(int(x)) for x in v)


def describe_op(api, op):
    """human-readable replay form"""
    if isinstance(op, api.NpuDmaOperation):
        return {"dma": {"src": list(op.src), "dest": list(op.dest)}}

    def fm(f):
        if f is None:
            return None
        return {"region": f.region, "layout": f.layout.name, "dtype": f.data_type.name, "shape": list(f.shape),
                "tiles": [f.tiles.height_0, f.tiles.height_1, f.tiles.width_0, list(f.tiles.addresses)],
                "strides": list(f.strides) if f.strides is not None else None}

    k = op.kernel
    return {"type": type(op).__name__, "sub_op": getattr(getattr(op, "sub_op_type", None), "name", None),
            "ifm": fm(op.ifm), "ifm2": fm(op.ifm2), "ifm2_scalar": op.ifm2_scalar, "ofm": fm(op.ofm),
            "kernel": [k.width, k.height, k.stride_x, k.stride_y, k.dilation_x, k.dilation_y] if k else None,
            "padding": list(op.padding) if op.padding is not None else None,
            "weights": [list(w) for w in op.weights], "biases": [list(w) for w in op.biases],
            "activation": (op.activation.op_type.name, op.activation.lookup_table_index, op.activation.min) if op.activation else None,
            "block_config": list(op.block_config),
            "block_traversal": getattr(getattr(op, "block_traversal", None), "name", None)}


def rebuild_op(api, d):
    """inverse of describe_op (for --replay)"""
    if "dma" in d:
        return api.NpuDmaOperation(api.NpuAddressRange(*d["dma"]["src"]), api.NpuAddressRange(*d["dma"]["dest"]))

    def fm(f):
        if f is None:
            return None
        m = api.NpuFeatureMap()
        m.region = f["region"]
        m.layout = api.NpuLayout[f["layout"]]
        m.data_type = api.NpuDataType[f["dtype"]]
        m.shape = api.NpuShape3D(*f["shape"])
        t = f["tiles"]
        m.tiles = api.NpuTileBox(height_0=t[0], height_1=t[1], width_0=t[2], addresses=list(t[3]))
        m.quantization = api.NpuQuantization(scale_f32=0.0625, zero_point=0)
        if f.get("strides"):
            m.strides = api.NpuShape3D(*f["strides"])
        return m

    t = d["type"]
    if t == "NpuConv2DOperation":
        op = api.NpuConv2DOperation()
        op.block_traversal = api.NpuBlockTraversal[d["block_traversal"]]
    elif t == "NpuConvDepthWiseOperation":
        op = api.NpuConvDepthWiseOperation()
    elif t == "NpuPoolingOperation":
        op = api.NpuPoolingOperation(api.NpuPoolingOp[d["sub_op"]])
    else:
        op = api.NpuElementWiseOperation(api.NpuElementWiseOp[d["sub_op"]])
    op.ifm, op.ifm2, op.ofm = fm(d["ifm"]), fm(d["ifm2"]), fm(d["ofm"])
    op.ifm2_scalar = d["ifm2_scalar"]
    if d["kernel"]:
        op.kernel = api.NpuKernel(*d["kernel"])
    if d["padding"] is not None:
        op.padding = api.NpuPadding(*d["padding"])
    op.weights = [api.NpuAddressRange(*w) for w in d["weights"]]
    op.biases = [api.NpuAddressRange(*w) for w in d["biases"]]
    if d["activation"]:
        act = api.NpuActivation(api.NpuActivationOp[d["activation"][0]])
        act.lookup_table_index = d["activation"][1]
        if d["activation"][0] == "NONE_OR_RELU":
            act.min = d["activation"][2] if len(d["activation"]) > 2 else None
        op.activation = act
    op.block_config = api.NpuShape3D(*d["block_config"])
    return op
