#!/venv/bin/python
"""Worker of check_C07: runs the real encoder/decoder entry points of the tree under test on jobs read
from stdin (one JSON object per line) and answers one JSON object per line on stdout.

It runs in a process of its own because the code under test can take the interpreter down
(`mlw_decode.c` calls exit(1) on a bit-buffer underrun, out-of-range weights can segfault) and because the
ASan/UBSan build of the extension has to be loaded with LD_PRELOAD of the sanitizer runtime.
usage: c07_worker.py <extension dir> <repo>
"""
import json
import sys


def main():
    ext_dir, repo = sys.argv[1], sys.argv[2]
    sys.path.insert(0, ext_dir)
    sys.path.insert(1, repo)
    import numpy as np
    from ethosu import mlw_codec

    api = wc = None
    out = sys.stdout
    dtypes = {"int16": np.int16, "int8": np.int8, "uint8": np.uint8, "int64": np.int64, "int32": np.int32,
              "uint16": np.uint16, "uint32": np.uint32, "uint64": np.uint64, "object": object}

    def volume(job):
        """the OHWI ndarray handed to the entry point; `layout` chooses how it lies in memory"""
        shape = job["shape"]
        a = np.array(job["w"], dtype=dtypes[job.get("dtype", "int16")]).reshape(shape)
        lay = job.get("layout", "c")
        if lay == "hwio_t":      # stored HWIO, handed over as the transposed (non-contiguous) OHWI view
            return np.ascontiguousarray(np.transpose(a, (1, 2, 3, 0))).transpose(3, 0, 1, 2)
        if lay == "f":           # Fortran order
            return np.asfortranarray(a)
        if lay == "slice":       # every second element of a larger buffer along the last axis
            big = np.zeros(shape[:3] + [shape[3] * 2], dtype=a.dtype)
            big[..., ::2] = a
            return big[..., ::2]
        return a

    for line in sys.stdin:
        job = json.loads(line)
        res = {}
        try:
            op = job["op"]
            if op == "encode":
                seq = job["seq"]
                if job.get("seq_dtype"):       # the sequence handed over as an ndarray of that type instead of a list
                    seq = np.array(seq, dtype=dtypes[job["seq_dtype"]])
                enc = mlw_codec.encode(seq)
                res["enc"] = bytes(enc).hex()
                if job.get("decode", True):
                    res["dec"] = mlw_codec.decode(enc)
            elif op == "decode":
                res["dec"] = mlw_codec.decode(bytearray(bytes.fromhex(job["hex"])))
            elif op == "reorder":
                p = job["p"]    # iu, ou, od, kh, kw, id, obd, dw, pk, bits, dh, dwd
                w = volume(job)
                entry = job.get("entry", "codec")
                if entry == "codec":
                    enc, n = mlw_codec.reorder_encode(p[0], p[1], w, p[6], p[7], p[8], p[9], p[10], p[11])
                else:
                    if api is None:
                        from ethosu.vela import api, weight_compressor as wc
                        from ethosu.vela.architecture_features import Accelerator
                    acc = [a for a in Accelerator if a.value == job["acc"]][0]
                    trav = api.NpuBlockTraversal.PART_KERNEL_FIRST if p[8] else api.NpuBlockTraversal.DEPTH_FIRST
                    dil = tuple(job["dilation"])
                    if entry == "wc":
                        enc, n = wc.encode_weights(acc, w, dil, p[9], p[6], bool(p[7]), trav)
                    else:
                        npu_acc = [a for a in api.NpuAccelerator if Accelerator.from_npu_accelerator(a) == acc][0]
                        enc = api.npu_encode_weights(npu_acc, w, dil, p[9], p[6], bool(p[7]), trav)
                        n = None
                res["enc"] = bytes(enc).hex()
                res["n"] = n
                if job.get("decode", True):
                    res["dec"] = mlw_codec.decode(bytearray(enc))
            else:
                res["exc"] = "bad-op"
        except Exception as e:  # noqa: BLE001 — the kind of rejection is the datum
            res = {"exc": type(e).__name__ + ": " + str(e)[:200]}
        out.write(json.dumps(res) + "\n")
        out.flush()


main()
