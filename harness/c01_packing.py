"""Pass packing (pass_packing.pack_into_passes) against its Lean model (Model/PassPacking.lean) and the Spec clauses
(Spec/PassPacking.lean) on the REAL pass lists.

* `snapshot(sg)`: the graph description the model works on, taken from the repo's own Operation / Tensor objects right before
  the real function runs (operators numbered in a topological order: the number is the acyclicity witness Lean checks);
* `real_passes(sg, snap)`: the real `sg.passes` in the model's canonical form;
* `Capture`: wraps `pass_packing.pack_into_passes` while the compiler runs (every subgraph of every C01 network);
* `run(ck)`: the generated-graph stream (graphs built with `ethosu/vela/test/testutil.py`, real classes) and the judgement
  of captured / generated cases; `judge(ck, cases)` is shared with check_C01.py.
Every verdict is Lean's: model answer == real answer (string equality of two canonical renderings is the only thing Python
does), and on every case the Spec clauses (a)-(c) are evaluated by Lean on the REAL pass list."""
import collections
import json

import common

FIELDS = ("ops", "prim", "placement", "ew", "bt", "inputs", "outputs", "ifm", "ifm2", "ofm", "weights", "scale", "lut", "ifs", "ofs")


def _shape(s):
    return "x".join(str(int(v)) for v in (s.as_list() if hasattr(s, "as_list") else list(s)))


class Snap:
    def __init__(self):
        self.ops, self.tens, self.oid, self.tid = [], [], {}, {}
        self.line = ""
        self.desc = {}


def snapshot(sg):
    """graph description of one subgraph: everything connected to the output tensors through producers and consumers"""
    from ethosu.vela.operation import Op

    ops, tens, seen_o, seen_t = [], [], set(), set()
    stack = [("t", t) for t in reversed(sg.output_tensors)]
    while stack:
        kind, x = stack.pop()
        if kind == "t":
            if id(x) in seen_t:
                continue
            seen_t.add(id(x))
            tens.append(x)
            for o in list(x.ops) + [c for c in x.consumer_list if c is not None]:
                stack.append(("o", o))
        else:
            if id(x) in seen_o:
                continue
            seen_o.add(id(x))
            ops.append(x)
            for t in list(x.outputs) + [t for t in x.inputs if t is not None]:
                stack.append(("t", t))
    # topological numbering (producers first); a cycle keeps the discovery order for the rest
    idx = {id(o): i for i, o in enumerate(ops)}
    indeg = [0] * len(ops)
    succ = [[] for _ in ops]
    for i, o in enumerate(ops):
        for t in o.inputs:
            if t is None:
                continue
            for p in t.ops:
                if id(p) in idx:
                    succ[idx[id(p)]].append(i)
                    indeg[i] += 1
    order, ready = [], [i for i in range(len(ops)) if indeg[i] == 0]
    while ready:
        i = ready.pop(0)
        order.append(i)
        for j in succ[i]:
            indeg[j] -= 1
            if indeg[j] == 0:
                ready.append(j)
    order += [i for i in range(len(ops)) if i not in set(order)]
    ops = [ops[i] for i in order]
    sn = Snap()
    sn.ops, sn.tens = ops, tens
    sn.oid = {id(o): i for i, o in enumerate(ops)}
    sn.tid = {id(t): i for i, t in enumerate(tens)}
    types = {op: i for i, op in enumerate(Op)}

    def optt(t):
        return "n" if t is None else str(sn.tid[id(t)])

    op_strs = []
    for o in ops:
        act = "n" if o.activation is None else str(types[o.activation.op_type])
        lut = "n" if o.activation_lut is None or id(o.activation_lut) not in sn.tid else str(sn.tid[id(o.activation_lut)])
        op_strs.append(",".join([
            str(types[o.type]), str(types[o.original_type]), "1" if o.run_on_npu else "0",
            "/".join(optt(t) for t in o.inputs), "/".join(optt(t) for t in o.outputs), act, lut,
            "/".join(_shape(s) for s in o.ifm_shapes), "/".join(_shape(s) for s in o.ofm_shapes),
            "1" if o.read_offsets[0] is not None else "0", "1" if o.read_offsets[1] is not None else "0",
            str(-1 if o.op_index is None else int(o.op_index))]))
    t_strs = []
    for t in tens:
        t_strs.append(",".join(["/".join(str(sn.oid[id(o)]) for o in t.ops),
                                "/".join("n" if c is None else str(sn.oid[id(c)]) for c in t.consumer_list),
                                str(int(t.purpose.value))]))
    sn.body = (f"ops={';'.join(op_strs)} tens={';'.join(t_strs)} outs={','.join(str(sn.tid[id(t)]) for t in sg.output_tensors)} "
               f"ins={','.join(str(sn.tid[id(t)]) for t in sg.input_tensors if id(t) in sn.tid)}")
    sn.desc = {"ops": [f"{i}:{o.type.name}{'' if o.run_on_npu else '@cpu'}" for i, o in enumerate(ops)]}
    return sn


def real_passes(passes, sn):
    """the real pass list in the canonical form of Handlers/PassPacking.lean `showPass`"""
    from ethosu.vela.operation import Op

    def tt(t):
        return "n" if t is None else str(sn.tid.get(id(t), "?"))

    out = []
    for ps in passes:
        ops = list(ps.ops)
        prim = "n"
        if ps.primary_op is not None:
            if id(ps.primary_op) in sn.oid:
                prim = str(sn.oid[id(ps.primary_op)])
            elif ops and ps.primary_op is ops[0] and ps.primary_op.type == Op.AvgPool:
                prim = "c"
                ops = ops[1:]
            else:
                prim = "?"
        ofs = ps.ofm_shapes[0] if ps.ofm_shapes else None
        out.append(",".join([
            "/".join(str(sn.oid.get(id(o), "?")) for o in ops), prim, str(int(ps.placement.value)), "1" if ps.is_element_wise else "0",
            str(int(ps.npu_block_type.value)), "/".join(tt(t) for t in ps.inputs), "/".join(tt(t) for t in ps.outputs),
            tt(ps.ifm_tensor), tt(ps.ifm2_tensor), tt(ps.ofm_tensor), tt(ps.weight_tensor), tt(ps.scale_tensor), tt(ps.lut_tensor),
            "/".join(_shape(s) for s in ps.ifm_shapes), "n" if ofs is None else _shape(ofs)]))
    return ";".join(out)


class Capture:
    """wrap pass_packing.pack_into_passes for the duration of a compilation: per subgraph the snapshot taken before and the
    pass list the real function left behind"""

    def __init__(self):
        self.cases = []

    def __enter__(self):
        from ethosu.vela import pass_packing

        self.mod = pass_packing
        self.orig = pass_packing.pack_into_passes
        cap = self

        def wrapped(nng, arch, verbose_packing=False):
            snaps = [snapshot(sg) for sg in nng.subgraphs]
            try:
                r = cap.orig(nng, arch, verbose_packing)
            except Exception as e:  # noqa: B902  the model has to reject exactly what the code rejects
                for sn in snaps:
                    cap.cases.append({"body": sn.body, "real": None, "raised": type(e).__name__ + ": " + str(e)[:120], "ops": sn.desc["ops"]})
                raise
            for sg, sn in zip(nng.subgraphs, snaps):
                cap.cases.append({"body": sn.body, "real": real_passes(sg.passes, sn), "raised": None, "ops": sn.desc["ops"]})
            return r

        pass_packing.pack_into_passes = wrapped
        return self

    def __exit__(self, *a):
        self.mod.pack_into_passes = self.orig
        return False


# ------------------------------------------------------------------------------------------------
# generated graphs (real Operation / Tensor / Subgraph objects)

SHAPE = [1, 4, 4, 8]
SHAPE2 = [1, 8, 2, 8]      # same number of elements, another operator shape


class GB:
    """builds one subgraph out of the repo's own classes"""

    def __init__(self):
        from ethosu.vela.nn_graph import Graph, Subgraph

        self.nng, self.sg = Graph(), Subgraph()
        self.nng.subgraphs.append(self.sg)
        self.ops = []
        self.fms = []
        self.n = 0

    def fresh(self, p):
        self.n += 1
        return f"{p}{self.n}"

    def fm(self, shape=None):
        from ethosu.vela.data_type import DataType
        from ethosu.vela.tensor import Tensor, TensorPurpose

        t = Tensor(list(shape or SHAPE), DataType.int8, self.fresh("t"))
        t.purpose = TensorPurpose.FeatureMap
        return t

    def const(self, shape, purpose):
        import numpy as np
        from ethosu.vela.data_type import DataType
        from ethosu.vela.tensor import create_const_tensor

        return create_const_tensor(self.fresh("c"), list(shape), DataType.int8, np.zeros(shape, np.int8), purpose=purpose)

    def op(self, kind, inputs, outputs=None, npu=True, act=None, shapes=True, orig=None, ro=(False, False), op_index=None):
        """kind: Op; inputs: tensors (None allowed); returns the operation (outputs: default one fresh feature map)"""
        from ethosu.vela.operation import ActivationFunction, Op, Operation
        from ethosu.vela.shape4d import Shape4D
        from ethosu.vela.tensor import TensorPurpose

        o = Operation(kind, self.fresh(kind.name))
        o.run_on_npu = npu
        o.op_index = op_index
        for t in inputs:
            if t is None:
                o.inputs.append(None)
            else:
                o.add_input_tensor(t)
        outs = outputs if outputs is not None else [self.fm()]
        for t in outs:
            o.outputs.append(t)
            if o not in t.ops:
                t.ops.append(o)
        if act is not None:
            if act == Op.LUT:
                o.set_activation_lut(self.const([256], TensorPurpose.LUT))
            else:
                o.activation = ActivationFunction(act)
        if orig is not None:
            o._original_type = orig
        if shapes:
            for t in (o.ifm, o.ifm2):
                if t is not None:
                    o.ifm_shapes.append(Shape4D(list(t.shape)[-4:] if len(t.shape) >= 1 else [1]))
            if o.outputs:
                o.ofm_shapes.append(Shape4D(list(o.outputs[0].shape)))
        if ro[0]:
            o.read_offsets[0] = Shape4D(0, 1, 0, 0)
        if ro[1]:
            o.read_offsets[1] = Shape4D(0, 0, 1, 0)
        self.ops.append(o)
        return o

    def placeholder(self):
        from ethosu.vela.operation import Op

        o = self.op(Op.Placeholder, [], npu=False, shapes=False)
        return o.outputs[0]

    def finish(self, extra_outputs=()):
        consumed = set()
        for o in self.ops:
            for t in o.inputs:
                if t is not None:
                    consumed.add(id(t))
        outs = []
        for o in self.ops:
            for t in o.outputs:
                if id(t) not in consumed and all(t is not u for u in outs):
                    outs.append(t)
        for t in extra_outputs:
            if all(t is not u for u in outs):
                outs.append(t)
        self.sg.output_tensors = outs
        self.nng.refresh_after_modification()
        return self.nng


def op_classes():
    from ethosu.vela import pass_packing as pp
    from ethosu.vela.operation import Op

    def srt(s):
        # operator types without IFM indices (Clip, activation-only types) make build_pass assert "IFM missing": kept, but rare
        l = sorted(s, key=lambda o: o.name)
        with_ifm = [o for o in l if o.info.indices.ifms]
        return with_ifm * 12 + [o for o in l if not o.info.indices.ifms]

    return {
        "mac": [Op.Conv2DBias, Op.DepthwiseConv2DBias, Op.FullyConnected, Op.MaxPool, Op.AvgPool, Op.ReduceSum, Op.ResizeBilinear],
        "binary": srt(pp.binary_elem_wise_main_ops),
        "unary": srt(pp.unary_elem_wise_main_ops),
        "post": srt(pp.npu_post_ops),
        "limited": srt(pp.npu_post_fuse_limited_ops),
        "memonly": srt(pp.memory_only_ops),
        "memcpy": srt(pp.memcpy_ops),
        "cpu": srt(pp.cpu_ops),
        "other": [Op.Transpose, Op.StridedSlice, Op.ConcatTFLite, Op.Split, Op.Custom, Op.LUT, Op.HardSwish, Op.Mean, Op.Pack],
    }


def add_op(b, rng, cls, kind, srcs, **kw):
    """one operator of class `cls` reading the feature maps `srcs` (one or two)"""
    from ethosu.vela.operation import Op
    from ethosu.vela.tensor import TensorPurpose

    x = srcs[0]
    if cls == "mac":
        ins = [x]
        if kind in (Op.Conv2DBias, Op.DepthwiseConv2DBias, Op.FullyConnected):
            w = srcs[1] if (kind == Op.FullyConnected and len(srcs) > 1 and kw.pop("dynamic_weights", False)) else b.const([1, 1, 8, 8], TensorPurpose.Weights)
            ins += [w, b.const([8], TensorPurpose.FeatureMap)]
        kw.pop("dynamic_weights", None)
        return b.op(kind, ins, **kw)
    kw.pop("dynamic_weights", None)
    if cls == "binary":
        y = srcs[1] if len(srcs) > 1 else b.const([1, 1, 1, 8], TensorPurpose.FeatureMap)
        return b.op(kind, [x, y], **kw)
    if cls == "memonly" or kind in (Op.Transpose, Op.Pad, Op.Mean):
        return b.op(kind, [x, b.const([4], TensorPurpose.FeatureMap)], **kw)
    if kind == Op.ConcatTFLite or kind == Op.AddN or kind == Op.Pack:
        return b.op(kind, list(srcs), **kw)
    if kind == Op.Split:
        return b.op(kind, [b.const([1], TensorPurpose.FeatureMap), x], outputs=[b.fm(), b.fm()], **kw)
    return b.op(kind, [x], **kw)


def gen_random_graph(rng):
    """a random small graph: chains with fan-out, shared tensors, CPU / NPU placement, fused activations, slice reads,
    operator-shape mismatches, operators with two outputs, tensors with two producers, None inputs"""
    from ethosu.vela.operation import Op

    cl = op_classes()
    b = GB()
    fms = [b.placeholder() for _ in range(rng.choice([1, 1, 2]))]
    weights = [("mac", 5), ("binary", 4), ("unary", 2), ("post", 6), ("limited", 2), ("memonly", 1), ("memcpy", 1), ("cpu", 2), ("other", 1)]
    names = [n for n, w in weights for _ in range(w)]
    extra_out = []
    idx = 0
    for _ in range(rng.randint(1, 8)):
        cls = rng.choice(names)
        kind = rng.choice(cl[cls])
        last = fms[-1]
        x = last if rng.random() < 0.75 else rng.choice(fms)
        srcs = [x]
        if rng.random() < 0.6:
            srcs.append(x if rng.random() < 0.25 else rng.choice(fms))
        npu_capable = cls in ("mac", "binary", "unary", "post", "limited", "memcpy")
        npu = (rng.random() < 0.85) if npu_capable else (rng.random() < 0.02)
        act = None
        if cls in ("mac", "binary", "unary") and rng.random() < 0.4:
            act = rng.choice([Op.Relu, Op.Relu6, Op.ReluN1To1, Op.Clip, Op.LUT, Op.Tanh, Op.Sigmoid])
        elif cls in ("post", "limited") and rng.random() < 0.05:
            act = rng.choice([Op.Relu, Op.LUT])
        orig = Op.Transpose if kind == Op.AvgPool and rng.random() < 0.3 else None
        ro = (rng.random() < 0.1, cls == "binary" and rng.random() < 0.08)
        idx += 1
        o = add_op(b, rng, cls, kind, srcs, npu=npu, act=act, orig=orig, ro=ro, op_index=idx if rng.random() < 0.9 else None,
                   shapes=rng.random() > 0.01, dynamic_weights=rng.random() < 0.3)
        r = rng.random()
        if r < 0.06 and o.ifm_shapes:
            from ethosu.vela.shape4d import Shape4D

            o.ifm_shapes[0] = Shape4D(SHAPE2)           # the consumer views its input in another shape (bypassed reshape)
        elif r < 0.09 and o.ofm_shapes:
            from ethosu.vela.shape4d import Shape4D

            o.ofm_shapes[0] = Shape4D(SHAPE2)
        elif r < 0.11 and len(o.inputs) > 1 and o.activation_lut is None:
            # a None input (optional operand that is absent)
            t = o.inputs[-1]
            o.inputs[-1] = None
            if o in t.consumer_list:
                t.consumer_list.remove(o)
        if rng.random() < 0.06 and cls in ("mac", "unary"):
            # a second producer of the same tensor (the copies a CONCATENATION is rewritten to)
            o2 = add_op(b, rng, cls, kind, [rng.choice(fms)], npu=npu, outputs=[o.outputs[0]])
            o2.op_index = None
        for t in o.outputs:
            fms.append(t)
        if rng.random() < 0.1:
            extra_out.append(o.outputs[0])
    return b.finish(extra_out)


def gen_pair_cases():
    """every class of producer x fused activation x consumer x multi-consumer x read offset x placement of both"""
    from ethosu.vela.operation import Op

    cl = op_classes()
    producers = [("mac", Op.Conv2DBias), ("mac", Op.MaxPool), ("mac", Op.AvgPool), ("mac", Op.FullyConnected), ("binary", Op.Add),
                 ("unary", Op.Abs), ("post", Op.Relu), ("limited", Op.Sigmoid), ("limited", Op.Quantize), ("memonly", Op.Reshape),
                 ("memcpy", Op.Memcpy), ("cpu", Op.Softmax), ("other", Op.Transpose), ("other", Op.Split)]
    consumers = [("post", Op.Relu), ("post", Op.Relu6), ("post", Op.Clip), ("limited", Op.Tanh), ("limited", Op.Quantize), ("memonly", Op.Reshape),
                 ("binary", Op.Mul), ("mac", Op.Conv2DBias), ("unary", Op.LeakyRelu), ("memcpy", Op.Memcpy), ("cpu", Op.Pad), ("other", Op.Custom)]
    acts = [None, Op.Relu6, Op.LUT, Op.Tanh]
    for pc, pk in producers:
        for act in acts:
            for cc, ck in consumers:
                for fan in ("one", "two", "output", "same_twice"):
                    for ro in (False, True):
                        for pnpu in (True, False):
                            for cnpu in (True, False):
                                for third in (None, Op.Relu, Op.Sigmoid):
                                    if third is not None and (fan != "one" or ro or not pnpu or not cnpu):
                                        continue
                                    yield (pc, pk, act, cc, ck, fan, ro, pnpu, cnpu, third)


def build_pair(case):
    from ethosu.vela.operation import Op

    pc, pk, act, cc, ck, fan, ro, pnpu, cnpu, third = case
    b = GB()
    x = b.placeholder()
    p = add_op(b, None, pc, pk, [x], npu=pnpu, act=act, orig=Op.Transpose if (pk == Op.AvgPool and act == Op.Tanh) else None, op_index=1)
    y = p.outputs[0]
    srcs = [y, y] if fan == "same_twice" else [y]
    c = add_op(b, None, cc, ck, srcs, npu=cnpu, ro=(ro, False), op_index=2)
    extra = []
    if fan == "two":
        add_op(b, None, "post", Op.Relu, [y], npu=True, op_index=3)
    elif fan == "output":
        extra = [y]
    if third is not None:
        add_op(b, None, "post" if third == Op.Relu else "limited", third, [c.outputs[0]], npu=True, op_index=3)
    return b.finish(extra)


def run_real(nng):
    """the REAL pack_into_passes on a generated graph -> list of cases (one per subgraph)"""
    from ethosu.vela import pass_packing

    snaps = [snapshot(sg) for sg in nng.subgraphs]
    out = []
    try:
        pass_packing.pack_into_passes(nng, None)
    except (AssertionError, IndexError, AttributeError, TypeError, NameError, UnboundLocalError, KeyError, ValueError) as e:
        for sn in snaps:
            out.append({"body": sn.body, "real": None, "raised": type(e).__name__ + ": " + str(e)[:100], "ops": sn.desc["ops"]})
        return out
    for sg, sn in zip(nng.subgraphs, snaps):
        out.append({"body": sn.body, "real": real_passes(sg.passes, sn), "raised": None, "ops": sn.desc["ops"]})
    return out


# ------------------------------------------------------------------------------------------------
# judgement (shared by the generated-graph stream and the compile corpus of check_C01.py)

KEY_TWO_ACTIVATIONS = "relu-and-tanh-sigmoid-operators-in-one-pass-keep-only-the-last-activation"


class Result:
    def __init__(self):
        self.evaluations = 0
        self.nontrivial = set()


def _fields(ans):
    return dict(kv.split("=", 1) for kv in ans.split(" ") if "=" in kv)


def judge(ck, cases, stream, res=None, malformed_ok=False):
    """cases: dicts with `body` (graph), `real` (canonical real pass list or None when the real function raised), `raised`.
    Lean computes the model's pass list and evaluates the Spec clauses on the REAL pass list."""
    res = res or Result()
    if not cases:
        return res
    model = ck.model(["packmodel " + c["body"] for c in cases])
    with_list = [c for c in cases if c["real"] is not None]
    spec = dict(zip((id(c) for c in with_list), ck.model(["packspec " + c["body"] + " passes=" + c["real"] for c in with_list])))
    # real pass lists first (a Spec violation comes with its failing input), the cases in which the real function raised last
    order = sorted(range(len(cases)), key=lambda i: cases[i]["real"] is None)
    for c, m in ((cases[i], model[i]) for i in order):
        res.evaluations += 1
        ck.count(f"packing_{stream}_cases")
        where = f"{stream} {c.get('origin', '')} operators {c['ops']}"
        rp = {"stream": "pass packing: " + stream, "origin": c.get("origin"), "request": "packmodel " + c["body"],
              "operators": c["ops"], "model": m[:3000], "real": (c["real"] or c["raised"] or "")[:3000]}
        if c["real"] is None:
            # the real function raised: the model has to reject as well (what is raised is C13's subject, not C01's)
            ck.count(f"packing_{stream}_real_raised")
            ck.count("packing_real_raised:" + (c["raised"] or "?").split(":")[0])
            if not m.startswith("err:"):
                ck.violation(f"pass packing: the real pack_into_passes raised {c['raised']} on a graph the model packs ({where})",
                             rp, found_input=False)
            continue
        sp = spec[id(c)]
        f = _fields(sp)
        rp["semantic_request"] = "packspec " + c["body"] + " passes=" + c["real"]
        rp["lean_verdict"] = sp
        wf = f.get("wf") == "1"
        ck.count(f"packing_{stream}_wellformed_{int(wf)}")
        npasses = c["real"].count(";") + 1
        multi = sum(1 for p in c["real"].split(";") if "/" in p.split(",")[0] and p.split(",")[2] == "2")
        if multi:
            ck.count(f"packing_{stream}_graphs_with_fused_npu_pass")
        if ",c," in c["real"]:
            ck.count(f"packing_{stream}_graphs_with_created_avgpool")
        res.nontrivial.add(hash(c["body"]))
        if not getattr(res, "sampled_" + stream, False) and multi:
            setattr(res, "sampled_" + stream, True)
            ck.sample({"pass_packing": stream, "origin": c.get("origin"), "operators": c["ops"], "real_passes": c["real"][:400],
                       "lean_spec_verdict": sp, "model_equals_real": m == "ok " + c["real"]}, limit=8)
        bad_clauses = [k for k in ("a", "b", "c") if f.get(k) != "1"]
        if sp.startswith("err"):
            ck.violation(f"pass packing: the Spec request was not understood: {sp} ({where})", rp, found_input=False)
            continue
        if bad_clauses and (wf or not malformed_ok):
            names = {"a": "an operator is in no pass or in two (partition)", "b": "a producer comes after its consumer (order)",
                     "c": "pass shape / fused edge that somebody else reads (badshape=" + f.get("badshape", "") + ")"}
            ck.violation("pass packing: the REAL pass list violates " + "; ".join(names[k] for k in bad_clauses) + f" ({where})", rp,
                         found_input=True)
            continue
        if f.get("d") != "1":
            ck.violation(f"pass packing: a pass holds a RELU-type operator together with a TANH / SIGMOID operator; the command generator "
                         f"keeps one activation function (passes {f.get('badact')}; {where})", rp, found_input=True, key=KEY_TWO_ACTIVATIONS)
        if m != "ok " + c["real"]:
            ck.violation(f"pass packing: the model of pack_into_passes and the real function disagree, the Spec clauses hold on the real "
                         f"pass list: model {m[:200]} real {c['real'][:200]} ({where})", rp, found_input=False)
        if npasses > 1:
            ck.count(f"packing_{stream}_passes", npasses)
    return res


def run(ck):
    """the generated-graph stream"""
    import random

    res = Result()
    cases = []
    pairs = list(gen_pair_cases())
    ck.count("packing_pair_cases_total", len(pairs))
    if not ck.thorough:
        r = random.Random(ck.seed * 7907 + 11)
        pairs = r.sample(pairs, 4000)
    for case in pairs:
        for c in run_real(build_pair(case)):
            c["origin"] = "pair " + " ".join(str(getattr(x, "name", x)) for x in case)
            cases.append(c)
    rng = random.Random(ck.seed * 104729 + 5)
    for k in range(12000 if ck.thorough else 2500):
        for c in run_real(gen_random_graph(rng)):
            c["origin"] = f"random graph {k} of seed {ck.seed}"
            cases.append(c)
    judge(ck, cases, "generated", res, malformed_ok=True)
    run_slices(ck, res)
    run_bypass(ck, res)
    return res


# ------------------------------------------------------------------------------------------------
# slice reads moved onto consumers: remove_SplitSliceRead / move_splitsliceread_to_consumer against Model/SliceRead.lean


def _s4(v):
    return "x".join(str(int(x)) for x in v)


def gen_slice_case(rng):
    """a SplitSliceRead operator (real classes) with 1-3 consumers of its output"""
    from ethosu.vela.data_type import DataType
    from ethosu.vela.operation import Op, Operation
    from ethosu.vela.shape4d import Shape4D
    from ethosu.vela.tensor import Tensor, TensorPurpose

    def fm(shape, name):
        t = Tensor(list(shape), DataType.int8, name)
        t.purpose = TensorPurpose.FeatureMap
        return t

    full = [1, rng.randint(4, 8), rng.randint(4, 8), rng.choice([4, 8])]
    off = [0, rng.randint(0, 2), rng.randint(0, 2), rng.choice([0, 0, full[3] // 2])]
    shp = [1, rng.randint(1, full[1] - off[1]), rng.randint(1, full[2] - off[2]), full[3] - off[3]]
    x = fm(full, "x")
    producer = Operation(Op.MaxPool, "producer")
    producer.outputs.append(x)
    x.ops.append(producer)
    s_t = fm(shp, "slice")
    op = Operation(Op.SplitSliceRead, "slice_read")
    op.add_input_tensor(x)
    op.outputs.append(s_t)
    s_t.ops.append(op)
    op.read_offsets[0] = Shape4D(off)
    op.read_shapes[0] = Shape4D(shp)
    op.ifm_shapes = [Shape4D(full)]
    # the slice's own shape, or (rarely) an operator shape that differs from the tensor's (bypassed reshape)
    ofs = list(shp) if rng.random() < 0.92 else [1, shp[2], shp[1], shp[3]]
    op.ofm_shapes = [Shape4D(ofs)]
    cons, desc = [], []
    for k in range(rng.choice([1, 1, 2, 3])):
        kind = rng.choice(["Relu", "Conv2DBias", "MaxPool", "Add", "Add2", "Mul", "Reshape", "Memcpy", "cpu", "transpose", "AvgPool", "slice2",
                           "Relu", "MaxPool", "Add"])
        view = list(shp) if rng.random() < 0.85 else [1, shp[1], max(1, shp[2] // 2), shp[3] * 2]
        o_t = fm(view, f"o{k}")
        if kind in ("Add", "Add2", "Mul"):
            c = Operation(Op.Mul if kind == "Mul" else Op.Add, f"c{k}")
            other_shape = list(shp) if rng.random() < 0.7 else [1, 1, 1, shp[3]]
            other = fm(other_shape, f"other{k}")
            ins = [other, s_t] if kind == "Add2" else [s_t, other]
            for t in ins:
                c.add_input_tensor(t)
            c.ifm_shapes = [Shape4D(list(t.shape) if t is not s_t else view) for t in ins]
            bshape = list(shp) if rng.random() < 0.8 else [1, shp[1] + 1, shp[2], shp[3]]
            c.ofm_shapes = [Shape4D(bshape)]
        else:
            ty = {"Relu": Op.Relu, "Conv2DBias": Op.Conv2DBias, "MaxPool": Op.MaxPool, "Reshape": Op.Reshape, "Memcpy": Op.Memcpy,
                  "cpu": Op.MaxPool, "transpose": Op.AvgPool, "AvgPool": Op.AvgPool, "slice2": Op.MaxPool}[kind]
            c = Operation(ty, f"c{k}")
            c.add_input_tensor(s_t)
            if rng.random() > 0.03:
                c.ifm_shapes = [Shape4D(view)]
            c.ofm_shapes = [Shape4D(view)]
            if kind == "cpu":
                c.run_on_npu = False
            if kind == "transpose":
                c._original_type = Op.Transpose
            if kind == "slice2":
                # the consumer is itself the result of an earlier slice fold: it reads a part of the slice
                o2 = [0, rng.randint(0, max(0, shp[1] - 1)), rng.randint(0, max(0, shp[2] - 1)), 0]
                c.read_offsets[0] = Shape4D(o2)
                c.read_shapes[0] = Shape4D([1, shp[1] - o2[1], shp[2] - o2[2], shp[3]])
        c.outputs.append(o_t)
        o_t.ops.append(c)
        cons.append(c)
        desc.append(kind)
    if rng.random() < 0.08:
        s_t.consumer_list.append(None)
        desc.append("graph-output")
    return op, x, s_t, cons, desc


def slice_request(op, s_t):
    def cstr(c):
        if c is None:
            return "1,1,0,0,0,0,0,0,0,,,n,n,n,n"
        from ethosu.vela import pass_packing as pp
        from ethosu.vela.operation import Op

        o = lambda v: "n" if v is None else _s4(v.as_list())  # noqa: E731
        return ",".join(["0", "1" if c.run_on_npu else "0", "1" if c.type in pp.memory_only_ops else "0", "1" if c.type == Op.Mul else "0",
                         "1" if c.type == Op.Memcpy else "0", "1" if c.original_type == Op.Transpose else "0",
                         "1" if c.type.is_binary_elementwise_op() else "0", "1" if c.ifm is s_t else "0",
                         "1" if c.ifm2 is s_t else "0", "/".join(_s4(s.as_list()) for s in c.ifm_shapes),
                         "/".join(_s4(s.as_list()) for s in c.ofm_shapes), o(c.read_offsets[0]), o(c.read_offsets[1]),
                         o(c.read_shapes[0]), o(c.read_shapes[1])])

    from ethosu.vela.shape4d import Shape4D

    s = ",".join([_s4(op.ifm_shapes[0].as_list()), _s4(op.ofm_shapes[0].as_list()), _s4(Shape4D.from_list(s_t.shape).as_list()),
                  _s4(op.read_offsets[0].as_list()), _s4(op.read_shapes[0].as_list())])
    return f"slicefold s={s} cons={';'.join(cstr(c) for c in s_t.consumer_list)}"


def run_slices(ck, res):
    """the REAL remove_SplitSliceRead on generated operators against the model; the semantic part (offsets of a slice of a slice
    add up) is Props/C01Slice.slice_of_slice_read"""
    import random

    from ethosu.vela import tflite_graph_optimiser as tgo

    rng = random.Random(ck.seed * 31337 + 3)
    reqs, reals, descs = [], [], []
    for k in range(6000 if ck.thorough else 1500):
        op, x, s_t, cons, desc = gen_slice_case(rng)
        reqs.append(slice_request(op, s_t))
        o = lambda v: "n" if v is None else _s4(v.as_list())  # noqa: E731
        try:
            tgo.remove_SplitSliceRead(op, None)
        except IndexError:
            reals.append("err:index")
            descs.append(desc)
            continue
        if s_t.ops == []:
            # moved onto the consumers: every one of them now reads x
            ok_inputs = all((c.ifm is x) or (c.ifm2 is x) for c in cons)
            reals.append("fold=1 " + ";".join(",".join([o(c.read_offsets[0]), o(c.read_offsets[1]), o(c.read_shapes[0]), o(c.read_shapes[1]),
                                                         "/".join(_s4(s.as_list()) for s in c.ifm_shapes)]) for c in cons) +
                         ("" if ok_inputs else " inputs-not-rewired"))
        else:
            pool = s_t.ops[0]
            same = (pool.read_offsets[0] == op.read_offsets[0] and pool.read_shapes[0] == op.read_shapes[0] and pool.ifm is x)
            reals.append("fold=0" + ("" if same else " pool-reads-something-else"))
        descs.append(desc)
    answers = ck.model(reqs)
    for rq, real, ans, desc in zip(reqs, reals, answers, descs):
        res.evaluations += 1
        ck.count("slice_read_cases")
        ck.count("slice_read_" + real.split(" ")[0])
        if "slice2" in desc and real.startswith("fold=1"):
            ck.count("slice_read_slice_of_slice_folded")
        res.nontrivial.add(hash(rq))
        if ans != real:
            ck.violation(f"remove_SplitSliceRead: model {ans[:200]} real {real[:200]} (consumers {desc})",
                         {"stream": "slice reads", "request": rq, "real": real, "model": ans, "consumers": desc}, found_input=False)


def run_bypass(ck, res):
    """the REAL graph_optimiser_util.bypass_memory_only_ops on generated operators against `SliceRead.bypassDecision`"""
    import random

    from ethosu.vela import graph_optimiser_util as gou
    from ethosu.vela.data_type import DataType
    from ethosu.vela.operation import Op, Operation
    from ethosu.vela.tensor import Tensor, TensorPurpose

    rng = random.Random(ck.seed * 7717 + 9)
    reqs, reals = [], []
    for _ in range(400):
        x = Tensor([1, 4, 4, 8], DataType.int8, "x")
        x.purpose = TensorPurpose.FeatureMap
        prods = []
        for k in range(rng.choice([0, 1, 1, 1, 2])):
            p = Operation(Op.MaxPool, f"p{k}")
            p.run_on_npu = rng.random() < 0.75
            p.outputs.append(x)
            x.ops.append(p)
            prods.append(p)
        kind = rng.choice([Op.Reshape, Op.Squeeze, Op.ExpandDims, Op.QuantizedReshape, Op.Relu, Op.MaxPool])
        op = Operation(kind, "op")
        op.run_on_npu = rng.random() < 0.85
        op.add_input_tensor(x)
        y = Tensor([1, 16, 1, 8], DataType.int8, "y")
        y.purpose = TensorPurpose.FeatureMap
        op.outputs.append(y)
        y.ops.append(op)
        for k in range(rng.choice([0, 0, 0, 1, 2])):
            other = Operation(Op.Relu, f"r{k}")
            other.add_input_tensor(x)
        from ethosu.vela import pass_packing as pp

        reqs.append(f"bypassop {int(op.run_on_npu)} {int(kind in pp.memory_only_ops)} {len(x.consumer_list)} "
                    f"{'/'.join(str(int(p.run_on_npu)) for p in prods) or '-'}")
        gou.bypass_memory_only_ops(op, None, None)
        if op.type == Op.Memcpy:
            reals.append("memcpy")
        elif y.ops and y.ops[0] is not op and all(p.outputs == [y] for p in prods):
            reals.append("bypass")
        elif y.ops == [] and kind in pp.memory_only_ops and op.run_on_npu and not prods:
            reals.append("bypass")          # nothing produced the input: the output tensor is left without producer
        else:
            reals.append("untouched")
    answers = ck.model(reqs)
    for rq, real, ans in zip(reqs, reals, answers):
        res.evaluations += 1
        ck.count("bypass_memory_only_" + real)
        if ans != real:
            ck.violation(f"bypass_memory_only_ops: model {ans} real {real} ({rq})", {"stream": "bypass memory-only", "request": rq, "real": real,
                                                                                    "model": ans}, found_input=False)
