"""Pass packing (pass_packing.pack_into_passes) against its Lean model (Model/PassPacking.lean) and the Spec clauses
(Spec/PassPacking.lean) on the REAL pass lists.

* `snapshot(sg)`: the graph description the model works on, taken from the repo's own Operation / Tensor objects right before
  the real function runs (operators numbered in a topological order: the number is the acyclicity witness Lean checks);
* `real_passes(sg, snap)`: the real `sg.passes` in the model's canonical form;
* `Capture`: wraps `pass_packing.pack_into_passes` while the compiler runs (every subgraph of every C01 network);
* `run(ck)`: the generated-graph stream (graphs built with `ethosu/vela/test/testutil.py`, real classes) and the judgement
  of captured / generated cases; `judge(ck, cases)` is shared with check_C01.py.
Every verdict is Lean's: model answer == real answer (string equality of two canonical renderings is the only thing Python
does), and on every case the Spec clauses (a)-(c) are evaluated by Lean on the REAL pass list."""
import collections
import json

import common

FIELDS = ("ops", "prim", "placement", "ew", "bt", "inputs", "outputs", "ifm", "ifm2", "ofm", "weights", "scale", "lut", "ifs", "ofs")


def _shape(s):
    return "x".join(str(int(v)) for v in (s.as_list() if hasattr(s, "as_list") else list(s)))


class Snap:
    def __init__(self):
        self.ops, self.tens, self.oid, self.tid = [], [], {}, {}
        self.line = ""
        self.desc = {}


def snapshot(sg):
    """graph description of one subgraph: everything connected to the output tensors through producers and consumers"""
    from ethosu.vela.operation import Op

    ops, tens, seen_o, seen_t = [], [], set(), set()
    stack = [("t", t) for t in reversed(sg.output_tensors)]
    while stack:
        kind, x = stack.pop()
        if kind == "t":
            if id(x) in seen_t:
                continue
            seen_t.add(id(x))
            tens.append(x)
            for o in list(x.ops) + [c for c in x.consumer_list if c is not None]:
                stack.append(("o", o))
        else:
            if id(x) in seen_o:
                continue
            seen_o.add(id(x))
            ops.append(x)
            for t in list(x.outputs) + [t for t in x.inputs if t is not None]:
                stack.append(("t", t))
    # topological numbering (producers first); a cycle keeps the discovery order for the rest
    idx = {id(o): i for i, o in enumerate(ops)}
    indeg = [0] * len(ops)
    succ = [[] for _ in ops]
    for i, o in enumerate(ops):
        for t in o.inputs:
            if t is None:
                continue
            for p in t.ops:
                if id(p) in idx:
                    succ[idx[id(p)]].append(i)
                    indeg[i] += 1
    order, ready = [], [i for i in range(len(ops)) if indeg[i] == 0]
    while ready:
        i = ready.pop(0)
        order.append(i)
        for j in succ[i]:
            indeg[j] -= 1
            if indeg[j] == 0:
                ready.append(j)
    order += [i for i in range(len(ops)) if i not in set(order)]
    ops = [ops[i] for i in order]
    sn = Snap()
    sn.ops, sn.tens = ops, tens
    sn.oid = {id(o): i for i, o in enumerate(ops)}
    sn.tid = {id(t): i for i, t in enumerate(tens)}
    types = {op: i for i, op in enumerate(Op)}

    def optt(t):
        return "n" if t is None else str(sn.tid[id(t)])

    op_strs = []
    for o in ops:
        act = "n" if o.activation is None else str(types[o.activation.op_type])
        lut = "n" if o.activation_lut is None or id(o.activation_lut) not in sn.tid else str(sn.tid[id(o.activation_lut)])
        op_strs.append(",".join([
            str(types[o.type]), str(types[o.original_type]), "1" if o.run_on_npu else "0",
            "/".join(optt(t) for t in o.inputs), "/".join(optt(t) for t in o.outputs), act, lut,
            "/".join(_shape(s) for s in o.ifm_shapes), "/".join(_shape(s) for s in o.ofm_shapes),
            "1" if o.read_offsets[0] is not None else "0", "1" if o.read_offsets[1] is not None else "0",
            str(-1 if o.op_index is None else int(o.op_index))]))
    t_strs = []
    for t in tens:
        t_strs.append(",".join(["/".join(str(sn.oid[id(o)]) for o in t.ops),
                                "/".join("n" if c is None else str(sn.oid[id(c)]) for c in t.consumer_list),
                                str(int(t.purpose.value))]))
    sn.body = (f"ops={';'.join(op_strs)} tens={';'.join(t_strs)} outs={','.join(str(sn.tid[id(t)]) for t in sg.output_tensors)} "
               f"ins={','.join(str(sn.tid[id(t)]) for t in sg.input_tensors if id(t) in sn.tid)}")
    sn.desc = {"ops": [f"{i}:{o.type.name}{'' if o.run_on_npu else '@cpu'}" for i, o in enumerate(ops)]}
    return sn


def real_passes(passes, sn):
    """the real pass list in the canonical form of Handlers/PassPacking.lean `showPass`"""
    from ethosu.vela.operation import Op

    def tt(t):
        return "n" if t is None else str(sn.tid.get(id(t), "?"))

    out = []
    for ps in passes:
        ops = list(ps.ops)
        prim = "n"
        if ps.primary_op is not None:
            if id(ps.primary_op) in sn.oid:
                prim = str(sn.oid[id(ps.primary_op)])
            elif ops and ps.primary_op is ops[0] and ps.primary_op.type == Op.AvgPool:
                prim = "c"
                ops = ops[1:]
            else:
                prim = "?"
        ofs = ps.ofm_shapes[0] if ps.ofm_shapes else None
        out.append(",".join([
            "/".join(str(sn.oid.get(id(o), "?")) for o in ops), prim, str(int(ps.placement.value)), "1" if ps.is_element_wise else "0",
            str(int(ps.npu_block_type.value)), "/".join(tt(t) for t in ps.inputs), "/".join(tt(t) for t in ps.outputs),
            tt(ps.ifm_tensor), tt(ps.ifm2_tensor), tt(ps.ofm_tensor), tt(ps.weight_tensor), tt(ps.scale_tensor), tt(ps.lut_tensor),
            "/".join(_shape(s) for s in ps.ifm_shapes), "n" if ofs is None else _shape(ofs)]))
    return ";".join(out)


class Capture:
    """wrap pass_packing.pack_into_passes for the duration of a compilation: per subgraph the snapshot taken before and the
    pass list the real function left behind"""

    def __init__(self):
        self.cases = []

    def __enter__(self):
        from ethosu.vela import pass_packing

        self.mod = pass_packing
        self.orig = pass_packing.pack_into_passes
        cap = self

        def wrapped(nng, arch, verbose_packing=False):
            snaps = [snapshot(sg) for sg in nng.subgraphs]
            try:
                r = cap.orig(nng, arch, verbose_packing)
            except Exception as e:  # noqa: B902  the model has to reject exactly what the code rejects
                for sn in snaps:
                    cap.cases.append({"body": sn.body, "real": None, "raised": type(e).__name__ + ": " + str(e)[:120], "ops": sn.desc["ops"]})
                raise
            for sg, sn in zip(nng.subgraphs, snaps):
                cap.cases.append({"body": sn.body, "real": real_passes(sg.passes, sn), "raised": None, "ops": sn.desc["ops"]})
            return r

        pass_packing.pack_into_passes = wrapped
        return self

    def __exit__(self, *a):
        self.mod.pack_into_passes = self.orig
        return False
