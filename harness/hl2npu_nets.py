"""Networks that aim at the branches of high_level_command_to_npu_op.py (profile `hl2npu:<family>` of pipe_common.make_net).

bcast_first   binary elementwise whose FIRST operand is a non-constant feature map broadcast against the second
              (create_npu_elementwise_op swaps IFM/IFM2 itself and sets reversed_operands), different input scales
const_first   first operand constant / scalar (the scheduler reverses the operands), incl. SUB (non-commutative)
shared_w      two convolutions that share one weight tensor but differ in bias tensor / input scale: the second encode
              request finds the weights in the compression cache and builds a stand-alone scale tensor
transpose     TRANSPOSE on the NPU (OFM strides of the swapped shape), incl. permutations that move the channel axis
resize_half   RESIZE_BILINEAR with half-pixel centres: tile padding, OFM stride multiplier, tile base offsets
stripe_pad    cascades of SAME convolutions / pools with tall kernels (5, 7) whose stripes are only a few rows high, so that
              stripes other than the first and the last still need part of the top / bottom padding (cmd.pad_top/pad_bottom)
scalar        a quantised scalar constant (shape [], zero point and scale of its own) as second or first operand:
              `ifm2_scalar` is the dequantised value, quantised again with the IFM2 quantisation by the register generator
neg_alpha     (not in the rotation; profile `hl2npu:neg_alpha`) LEAKY_RELU with a NEGATIVE alpha: int8 / uint8 go through a table,
              int16 was lowered to MIN, int32 MUL by the negative quantised multiplier, RELU, ADD - the MUL reached the register
              generator with a negative OFM scale (finding int16-lrelu-negative-alpha-negative-ofm-scale; repaired by
              constraint_alpha_valid, patch C16-20: the int16 operator stays on the CPU). Index 0 is the witness network.
clamp         fused / stand-alone RELU-family activations behind operators that force the OFM zero point to 0 or override
              the OFM scale: average pools (with PAD, with QUANTIZE), LEAKY_RELU, ABS, resize, ADD/MUL with activation
"""
import numpy as np

FAMILIES = ["bcast_first", "const_first", "shared_w", "transpose", "resize_half", "clamp", "bcast_first", "shared_w", "clamp", "scalar", "stripe_pad"]


def build(rng, idx, family=None):
    import netgen
    from netgen import Op

    fam = family or FAMILIES[idx % len(FAMILIES)]
    if fam == "transpose":
        import netgen_ext

        return netgen_ext.build(rng, idx, "transpose_perm", None)
    if fam == "stripe_pad":
        # narrow -> wide -> narrow, so that `--optimise Size` cascades the chain into stripes of one or two rows
        b = netgen.B(rng, f"casc_hl{idx}_stripe_pad", "int8")
        h, w = rng.choice([33, 40, 48]), rng.choice([32, 64])
        c0, mid = rng.choice([4, 8]), rng.choice([24, 32, 48])
        x = b.input([1, h, w, c0])
        k1, k2, k3 = rng.choice([3, 5]), rng.choice([5, 7]), rng.choice([3, 5])
        b.net.desc.append(f"hl2npu family=stripe_pad in={[1, h, w, c0]} mid={mid} kernels={(k1, k2, k3)}")
        cur = b.conv(x, mid, (k1, k1), (1, 1), (1, 1), "SAME")
        kind = rng.choice(["dw", "conv", "pool"])
        if kind == "dw":
            cur = b.dwconv(cur, (k2, k2), (1, 1), (1, 1), "SAME")
        elif kind == "conv":
            cur = b.conv(cur, mid, (k2, k2), (1, 1), (1, 1), "SAME")
        else:
            cur = b.pool(cur, rng.choice(["AVERAGE_POOL_2D", "MAX_POOL_2D"]), (k2, k2), (1, 1), "SAME")
        cur = b.conv(cur, c0, (k3, k3), (1, 1), (1, 1), "SAME")
        return b.finish([cur])
    if fam == "resize_half":
        import ta_lib

        return ta_lib.ta_net(rng, 7 * idx + 5)          # index 5 (mod 7) of TA_FAMILIES = resize_half_pixel
    if fam == "neg_alpha":
        dtype = "int16" if idx % 2 == 0 else rng.choice(["int8", "uint8", "int16"])
        b = netgen.B(rng, f"hl{idx}_neg_alpha", dtype)
        if idx == 0:
            shape, alpha, si, so = [1, 8, 2, 8], -2.0, 0.01, 0.02
        else:
            shape = [1, rng.randint(1, 9), rng.randint(1, 9), rng.choice([1, 4, 8, 16, 20])]
            alpha = rng.choice([-2.0, -0.5, -0.125, -1.0, -8.0, -0.999])
            si, so = netgen.rand_scale(rng), None
        b.net.desc.append(f"hl2npu family=neg_alpha dtype={dtype} alpha={alpha} in={shape}")
        x = b.input(shape, scale=si, zp=0 if dtype == "int16" else None)
        if idx and rng.random() < 0.4:
            x = b.conv(x, shape[3], (1, 1), (1, 1), (1, 1), "SAME") or x
        xt = b.t(x)
        same = idx != 0 and rng.random() < 0.3          # equal input / output quantisation
        y = b.fm(list(xt.shape), dtype, scale=xt.scales[0] if same else so, zp=xt.zps[0] if same else (0 if dtype == "int16" else None))
        if idx % 5 == 3:
            # PRELU with a constant uniform negative alpha: convert_prelu turns it into a LeakyRelu with `alpha_scaling` (explicit positive
            # scale, negative scalar of the IFM type; for int16 an int16 MUL, no int32 path) - its operation list is legal on every tree
            za = 0 if dtype == "int16" else rng.choice([0, 3, -5] if dtype == "int8" else [0, 100, 128])
            lo_, hi_ = netgen._qrange(dtype)
            q = max(lo_, za - rng.choice([1, 20, 100]))
            al = b.const([1, 1, xt.shape[3]], dtype, np.full(xt.shape[3], q), [rng.choice([0.004, 0.01, 0.02])], [za])
            b.net.desc.append(f"PRELU uniform alpha q={q} zp={za}")
            b.net.ops.append(Op("PRELU", [x, al], [y], None))
        else:
            b.net.ops.append(Op("LEAKY_RELU", [x], [y], ("LeakyReluOptions", dict(Alpha=alpha))))
        if idx and rng.random() < 0.5:
            k = rng.choice(["relu", "conv", "lrelu"])
            if k == "relu":
                y = b.unary("RELU6", y)
            elif k == "conv":
                y = b.conv(y, 8, (1, 1), (1, 1), (1, 1), "SAME") or y
            else:
                z = b.fm(list(b.t(y).shape), dtype)
                b.net.ops.append(Op("LEAKY_RELU", [y], [z], ("LeakyReluOptions", dict(Alpha=rng.choice([0.5, -0.5, -2.0])))))
                y = z
        return b.finish([y])
    dtype = rng.choice(["int8", "int8", "uint8", "int16"]) if fam in ("bcast_first", "const_first", "scalar") else rng.choice(["int8", "int8", "uint8"])
    b = netgen.B(rng, f"hl{idx}_{fam}", dtype)
    b.net.desc.append(f"hl2npu family={fam} dtype={dtype}")
    lo, hi = netgen._qrange(dtype)

    def tail(y):
        k = rng.choice(["none", "relu", "conv", "pool"])
        if k == "relu":
            return b.unary(rng.choice(["RELU", "RELU6", "RELU_N1_TO_1"]), y)
        if k == "conv" and len(b.t(y).shape) == 4:
            z = b.conv(y, rng.choice([8, 16]), (1, 1), (1, 1), (1, 1), "SAME")
            return z if z is not None else y
        if k == "pool" and len(b.t(y).shape) == 4:
            z = b.pool(y, "MAX_POOL_2D", (1, 1), (1, 1), "VALID")
            return z if z is not None else y
        return y

    if fam == "bcast_first":
        h, w, c = rng.choice([1, 2, 5, 8, 16, 33]), rng.choice([2, 4, 7, 16, 24]), rng.choice([1, 3, 8, 16, 20, 32])
        big = [1, h, w, c]
        small = rng.choice([[1, 1, 1, c], [1, 1, 1, c], [1, 1, w, c], [1, h, 1, c], [1, h, w, 1], [1, 1, 1, 1], [1, 1, w, 1]])
        if small == big:
            big = [1, h + 1, w + 1, c]
        xb = b.input(big)
        how = rng.choice(["input", "pool", "conv"])
        xs = b.input(small)
        if how == "pool":
            xs = b.pool(xs, "MAX_POOL_2D", (1, 1), (1, 1), "VALID") or xs
        elif how == "conv" and small[3] == c:
            xs = b.conv(xs, c, (1, 1), (1, 1), (1, 1), "SAME") or xs
        if rng.random() < 0.5:
            xb = b.conv(xb, c, rng.choice([(1, 1), (3, 3)]), (1, 1), (1, 1), "SAME") or xb
        kind = rng.choice(["ADD", "SUB", "MUL", "SUB", "ADD", "MINIMUM", "MAXIMUM"])
        y = b.binary(kind, xs, xb, act=rng.choice([0, 0, 1, 3]))
        if rng.random() < 0.4:
            # a second one whose operands are the other way round: no swap
            y = b.binary(rng.choice(["ADD", "SUB", "MUL"]), y, xs)
        return b.finish([tail(y)])
    if fam == "const_first":
        h, w, c = rng.choice([1, 4, 9, 16]), rng.choice([2, 4, 7, 16]), rng.choice([1, 4, 8, 16, 20])
        x = b.input([1, h, w, c])
        if rng.random() < 0.5:
            x = b.conv(x, c, (1, 1), (1, 1), (1, 1), "SAME") or x
        cs = rng.choice([[1, 1, 1, c], [1, 1, 1, 1], [1, 1, w, c], [], [1, h, w, c], [c]])
        n = int(np.prod(cs)) if cs else 1
        k = b.const(cs, dtype, [rng.randint(lo, hi) for _ in range(n)], [netgen.rand_scale(rng)], [netgen.rand_zp(rng, dtype)])
        kind = rng.choice(["SUB", "SUB", "ADD", "MUL", "MINIMUM", "MAXIMUM"])
        y = b.binary(kind, k, x, act=rng.choice([0, 0, 1])) if kind in ("ADD", "SUB", "MUL") else b.binary(kind, k, x)
        if rng.random() < 0.4:
            y = b.binary(rng.choice(["SUB", "ADD"]), x, y)
        return b.finish([tail(y)])
    if fam == "scalar":
        h, w, c = rng.choice([1, 4, 9]), rng.choice([2, 4, 7]), rng.choice([1, 4, 8, 16])
        x = b.input([1, h, w, c])
        if rng.random() < 0.5:
            x = b.conv(x, c, (1, 1), (1, 1), (1, 1), "SAME") or x
        y = x
        for _ in range(rng.randint(1, 3)):
            yt = b.t(y)
            kind = rng.choice(["ADD", "SUB", "MUL", "MINIMUM", "MAXIMUM", "SUB"])
            same = kind in ("MINIMUM", "MAXIMUM")
            k = b.const([], dtype, [rng.randint(lo, hi)], [yt.scales[0] if same else netgen.rand_scale(rng)],
                        [yt.zps[0] if same else netgen.rand_zp(rng, dtype)])
            first = rng.random() < 0.4
            ins = [k, y] if first else [y, k]
            o = b.fm(list(yt.shape), dtype, scale=yt.scales[0] if same else None, zp=yt.zps[0] if same else None)
            if same:
                b.net.ops.append(Op(kind, ins, [o], ("MaximumMinimumOptions", {})))
            else:
                oname = {"ADD": "AddOptions", "SUB": "SubOptions", "MUL": "MulOptions"}[kind]
                b.net.ops.append(Op(kind, ins, [o], (oname, dict(FusedActivationFunction=rng.choice([0, 0, 1])))))
            y = o
        return b.finish([tail(y)])
    if fam == "shared_w":
        ic = rng.choice([4, 8, 16])
        oc = rng.choice([8, 20, 24, 40, 48, 72, 144])
        k = rng.choice([(1, 1), (3, 3)])
        hw = rng.choice([4, 8, 12])
        x1 = b.input([1, hw, hw, ic])
        y1 = b.conv(x1, oc, k, (1, 1), (1, 1), "SAME", per_channel=rng.random() < 0.5)
        first = b.net.ops[-1]
        outs = [y1]
        for _ in range(rng.randint(1, 2)):
            variant = rng.choice(["bias", "scale", "both"])
            # a different IFM scale and / or a different bias tensor behind the same weights
            x2 = b.input([1, hw, hw, ic]) if variant in ("scale", "both") else x1
            wt = b.t(first.inputs[1])
            if variant in ("bias", "both") or True:
                bs = [b.t(x2).scales[0] * s for s in wt.scales]
                br = np.random.RandomState(rng.getrandbits(32))
                bt = b.const([oc], "int64" if dtype == "int16" else "int32", br.randint(-3000, 3000, oc), bs, [0] * len(bs), 0, b.fresh("b"))
            z = b.fm([1, hw, hw, oc], dtype)
            b.net.ops.append(Op("CONV_2D", [x2, first.inputs[1], bt], [z], first.opts))
            outs.append(z)
        return b.finish(outs)
    # clamp
    h, w, c = rng.choice([4, 6, 9, 12]), rng.choice([4, 6, 8]), rng.choice([4, 8, 16])
    x = b.input([1, h, w, c])
    act = rng.choice([1, 3, 2])
    how = rng.choice(["avg_fused", "avg_relu", "pad_avg", "quant_relu", "lrelu_relu", "abs_relu", "resize_relu", "add_act", "mul_act",
                      "avg1x1_relu", "maxpool_fused", "conv_fused"])
    b.net.desc.append(how)
    relu = rng.choice(["RELU", "RELU6", "RELU_N1_TO_1"])
    if how == "avg_fused":
        kk = rng.choice([(2, 2), (3, 3), (1, 1)])
        y = b.pool(x, "AVERAGE_POOL_2D", kk, rng.choice([(1, 1), (2, 2)]), rng.choice(["SAME", "VALID"]), act=act) or x
    elif how == "avg_relu":
        y = b.pool(x, "AVERAGE_POOL_2D", (2, 2), (1, 1), "VALID") or x
        y = b.unary(relu, y)
    elif how == "pad_avg":
        p = b.pad(x, [[0, 0], [rng.choice([0, 1]), rng.choice([0, 1])], [rng.choice([0, 1]), rng.choice([0, 1])], [0, 0]])
        y = b.pool(p, "AVERAGE_POOL_2D", rng.choice([(2, 2), (3, 3)]), (1, 1), "VALID", act=act) or p
    elif how == "quant_relu":
        y = b.quantize(x)
        y = b.unary(relu, y)
    elif how == "lrelu_relu":
        y = b.unary("LEAKY_RELU", x)
        y = b.unary(relu, y)
    elif how == "abs_relu":
        y = b.unary("ABS", x)
        y = b.unary(relu, y)
    elif how == "resize_relu":
        y = b.resize(x, 2, rng.choice(["RESIZE_BILINEAR", "RESIZE_NEAREST_NEIGHBOR"]), align=False, half=False)
        y = b.unary(relu, y)
    elif how == "add_act":
        x2 = b.input([1, h, w, c])
        y = b.binary(rng.choice(["ADD", "SUB"]), x, x2, act=act)
    elif how == "mul_act":
        x2 = b.input([1, h, w, c])
        y = b.binary("MUL", x, x2, act=act)
    elif how == "avg1x1_relu":
        y = b.pool(x, "AVERAGE_POOL_2D", (1, 1), (1, 1), "VALID", act=act) or x
    elif how == "maxpool_fused":
        y = b.pool(x, "MAX_POOL_2D", (2, 2), (2, 2), "VALID", act=act) or x
    else:
        y = b.conv(x, c, (3, 3), (1, 1), (1, 1), "SAME", act=act) or x
    if rng.random() < 0.3:
        y = tail(y)
    return b.finish([y])
