#!/venv/bin/python
"""C12 — the offline arena plan is self-consistent and reported memory is sufficient.
Scheduler-bookkeeping stage (harness/sched_lib.py, design.d/SchedMem.md): the Lean model of the memory bookkeeping of scheduler.py /
cascade_builder.py (Model/SchedMem.lean, theorems in Props/C12Sched.lean) must reproduce every captured call of the real Scheduler /
CascadeBuilder, and the Lean Spec (Spec/SchedMem.lean) judges the real estimates, snapshots, buffers and fast-storage decisions.
Every output model is read with the plain flatbuffer walker; the Lean checker Arena.check judges the
OfflineMemoryAllocation plan (liveness under the operator order, overlap, alignment, scratch tensor);
the reported figures (summary CSV, console) are compared with the extent the plan requires in Lean.
Live-range stage (harness/liverange_lib.py, design.d/LiveRange.md) on the same compilations: the Lean model of
live_range.py (Model/LiveRange.lean, theorems in Props/C12LiveRange.lean) must reproduce every LiveRangeGraph the
scheduler and tensor allocation extract, and the Lean Spec (Spec/LiveRange.lean) judges the real arena ranges against
every access of the high-level command streams and CPU passes.
Serialisation stage (harness/serial_lib.py, design.d/Serialise.md) on the same compilations: the Lean model of npu_serialisation.py and of
the reported memory figures (Model/Serialise.lean, Model/Reported.lean, theorems in Props/C12Serial.lean) must reproduce the memory
tensors, the operand order of the call operators and the CSV / console figures; the Lean Spec (Spec/Serialise.lean) judges the
constants tensor, the scratch tensors and the operand order of the OUTPUT FILE against the source constants and Vela's tensors.
Raw-output stream (harness/raw_stream.py, design.d/RawOutput.md) on the same compilations: the real rawdata_writer.write_rawdata_output
on the compiled graph; the .npz must be what Model/RawOutput.lean says (theorems in Props/C12Raw.lean), its constants blob, scratch sizes
and input / output offsets must be those of the TFLite output of the same compilation, and the Lean Spec (Spec/RawOutput.lean) judges
the .npz alone (every listed input / output inside the published scratch size)."""
import csv
import io
import re
import struct

import common
import fbwalk
import inplace_lib
import liverange_lib
import pipe_common
import pipeline
import raw_stream
import sched_lib
import serial_lib
from common import Check, main_wrapper


PLAN = "OfflineMemoryAllocation"
# recorded findings of the unchanged compiler on an already compiled input (second generation); see design.d/C12 section in DESIGN notes
KEY_REPORT_SCRATCH = "recompiled-model:reported-arena-omits-scratch-tensor-of-existing-ethos-u-operators"
KEY_REPORT_OTHER_OPTS = "recompiled-model:reported-arena-is-the-fresh-allocation-but-the-input-plan-is-kept:other-options"


def report_key(o, model, scratch, reported):
    """stable key of the recorded finding that explains a too small reported figure, or None (classification only)"""
    if o.get("gen_count", 1) <= 1:
        return None
    if scratch >= 0 and reported < fbwalk.tensor_bytes(model["subgraphs"][0]["tensors"][scratch]):
        return KEY_REPORT_SCRATCH            # the figure does not even cover the arena of the passed-through Ethos-U operators
    if any(g != o["gen_opts"][0] for g in o["gen_opts"][1:]):
        return KEY_REPORT_OTHER_OPTS         # a later generation allocated with other options; the file keeps the first plan
    return None


def plan_buffers(model):
    """buffer index of every metadata entry that is an arena plan, in file order"""
    return [b for name, b in model["metadata_list"] if name == PLAN]


def arena_line(model, align, plan_buffer=None):
    sg = model["subgraphs"][0]
    meta = model["buffers"][model["metadata"][PLAN] if plan_buffer is None else plan_buffer]
    vals = struct.unpack("<%di" % (len(meta) // 4), meta)
    version, nsg, ntens = vals[0], vals[1], vals[2]
    offs = vals[3:3 + len(sg["tensors"])]
    eops = pipeline.ethosu_ops(model)
    scratch = fast = -1
    for si, op, mems, _rest in eops:
        if si == 0:
            scratch, fast = op["inputs"][2], op["inputs"][3]
            break
    tens = ",".join(f"{fbwalk.tensor_bytes(t)}:{offs[i]}:{int(t['is_variable'])}" for i, t in enumerate(sg["tensors"]))
    ops = []
    for op in sg["operators"]:
        code = model["operator_codes"][op["opcode_index"]]
        e = "E" if (code["builtin"] == 32 and code["custom"] == "ethos-u") else "C"
        ins = "/".join(str(i) for i in op["inputs"] if i >= 0)
        outs = "/".join(str(i) for i in op["outputs"] if i >= 0)
        words = ""
        if e == "E":
            # the command words of the operator (driver payload stripped): Lean decodes them to see which outputs the
            # stream really writes (an operator that turned out to be the identity gets no operation at all)
            cmd = sg["tensors"][op["inputs"][0]]
            words = ":" + ".".join(map(str, pipeline.strip_payload(pipeline.payload_words(model, cmd))))
        ops.append(f"{e}:{code['builtin']}:{ins}:{outs}{words}")
    line = (f"arena align={align} scratch={scratch} fast={fast} inputs={','.join(map(str, sg['inputs']))} "
            f"outputs={','.join(map(str, sg['outputs']))} tensors={tens} ops={';'.join(ops)}")
    return line, (version, nsg, ntens, len(vals) - 3), scratch, fast


def main():
    ck = Check("C12", "translation_validation")
    ck.lean_stage(["VelaVerif.Props.C12", "VelaVerif.Props.C12LiveRange", "VelaVerif.Props.C12InPlace", "VelaVerif.Props.C12Sched",
                   "VelaVerif.Props.C12Serial", "VelaVerif.Props.C12Raw", "VelaVerif.Props.C12Src"])
    n = 6000 if ck.thorough else 320
    # gen2:<p> = the OUTPUT of profile <p> compiled again (same or other options), sometimes a third time (harness/regen.py):
    # the final file must still carry ONE plan, and that plan must still cover what the passed-through Ethos-U operators touch
    profiles = ["cpu", "mixed", "pattern", "cascade", "weights", "pattern", "cpu", "lut", "pattern", "elementwise"]
    gen2_profiles = ["gen2:cpu", "gen2:pattern", "gen2:mixed"]       # run in addition (n // 4 compilations), the population above is unchanged
    pipeline.load_vela()
    liverange_lib.install()      # harness-side wrapping of live_range.extract_*, before the workers are forked
    inplace_lib.install()        # ... of extract_npu_subgraphs and _get_ifm_to_fuse (design.d/InPlace.md)
    inplace_lib.install_profile()
    sched_lib.install()          # ... of the Scheduler / CascadeBuilder memory bookkeeping (design.d/SchedMem.md)
    serial_lib.install(every=4 if ck.thorough else 1)         # ... of npu_serialisation / allocate_tensors / the weight encoder (design.d/Serialise.md)
    raw_stream.install()         # ... of compiler_driver: the raw output (.npz) of every compiled graph (design.d/RawOutput.md)
    if sched_lib.replay(ck) or serial_lib.replay(ck):
        return
    ip_stub_stats = inplace_lib.stage(ck, [], prefix="inplace_stub_", compiled=False)     # function level first
    outs = pipe_common.run_corpus(ck, n, profiles=profiles, want={"out_model": True, "extra": raw_stream.extra_c12},
                                  corpus_first=False, sweep=True)
    if ck.replay_arg is None:
        # boundary shapes of the in-place decision chain (harness/inplace_nets.py): every variant once (4x thorough)
        import inplace_nets

        outs += pipe_common.run_corpus(ck, inplace_nets.n_variants() * (4 if ck.thorough else 1), profiles=["inplace"],
                                       want={"out_model": True, "extra": serial_lib.extra_c12},
                                       corpus_first=False, sweep=False)
        # second generation (design.d/History.md): in addition, the population above is unchanged
        outs += pipe_common.run_corpus(ck, n // 4, profiles=gen2_profiles,
                                       want={"out_model": True, "extra": inplace_lib.extra_with_liverange}, corpus_first=False)
        # second-generation compilations kept because they exposed something: (profile, seed, index)
        #   gen2:cpu/0/7  CAST,QUANTIZE,CAST,QUANTIZE on 1x1x19x1 uint8, LinearAlloc then Greedy on another accelerator: the reported
        #                 arena (160) is the fresh allocation, the kept plan needs 275 (finding `...:other-options`).  After the merge
        #                 with the newer generators the entry hist kept for this finding (gen2:cpu/0/253) is another network, one
        #                 CONV_2D on the NPU, and shows the scratch-tensor finding; it stays as a second reproducer of that one
        #   gen2:pattern/0/256  fc1_after_conv: the report of the later generations leaves out the existing scratch tensor (2064 < 8202)
        for prof, sd, ix in (("gen2:cpu", 0, 7), ("gen2:cpu", 0, 253), ("gen2:pattern", 0, 256)):
            outs.append(pipe_common._worker((sd, ix, prof, {"out_model": True, "extra": inplace_lib.extra_with_liverange})))
    ip_known = inplace_lib.classify(ck, outs)
    lines, owners, extra = [], [], []
    plan_reqs, plan_owner = [], []
    for o in outs:
        if "harness_exception" in o:
            raise common.InfraError("pipeline worker failed:\n" + o["harness_exception"])
        ck.count("status_" + o["status"])
        if o["profile"].startswith("sweep:"):
            ck.count("sweep_" + o["profile"].split(":", 1)[1])
        if o["status"] != "ok" or not o.get("out_model"):
            continue
        model = fbwalk.parse(o["out_model"])
        if "OfflineMemoryAllocation" not in model["metadata"]:
            ck.violation("output model has no OfflineMemoryAllocation metadata", {"opts": o["opts"], "network": o["desc"]})
            continue
        opts = o["opts"]
        align = int(opts[opts.index("--cpu-tensor-alignment") + 1]) if "--cpu-tensor-alignment" in opts else 16
        plans = plan_buffers(model)
        if o.get("gen_count", 1) > 1:
            ck.count("second_generation_outputs")
            ck.count("generations_%d" % o["gen_count"])
            ck.count("second_generation_other_options" if any(g != o["gen_opts"][0] for g in o["gen_opts"][1:]) else
                     "second_generation_same_options")
        plan_reqs.append(f"arenaplans {len(plans)}")
        plan_owner.append((o, len(plans)))
        # every plan the file carries is judged (a runtime may pick any of them)
        for pi, pb in enumerate(plans):
            line, hdr, scratch, fast = arena_line(model, align, pb)
            lines.append(line)
            owners.append(o)
            extra.append((model, hdr, scratch, fast, pi, len(plans)))
    answers = ck.model(lines)
    for (o, nplans), a in zip(plan_owner, ck.model(plan_reqs, parallel=False) if plan_reqs else []):
        if a != "1":
            ck.count("files_without_exactly_one_plan")
            if ck.counters["files_without_exactly_one_plan"] > 4:
                continue            # keep room in the report for what the surplus plans say
            ck.violation(f"the output model carries {nplans} OfflineMemoryAllocation entries (exactly one arena plan expected) "
                         f"(network {o['idx']} {o['profile']}, options per generation {o.get('gen_opts', [o['opts']])})",
                         {"profile": o["profile"], "seed": o["seed"], "index": o["idx"], "opts": o["opts"], "gen_opts": o.get("gen_opts"),
                          "network": o["desc"], "plans": nplans,
                          "how_to_replay": "pipe_common._worker((seed, index, profile, {'out_model': True})); a profile gen2:<p> compiles the "
                                           "output of profile <p> again (harness/regen.py)"})
    rep_reqs, rep_owner = [], []
    nontrivial = set()
    programs = 0
    rejected = 0
    for o, ans, line, (model, hdr, scratch, fast, plan_i, plan_n) in zip(owners, answers, lines, extra):
        programs += 1
        m = re.match(r"conflicts=(\d+) (.*?) \| misaligned=(\d+) (.*?) \| scratch=(\d+) (.*?) \| required=(\d+)", ans)
        if not m:
            raise common.InfraError("unexpected arena answer: " + ans[:200] + " for " + line[:300])
        nconf, nmis, nscr, required = int(m.group(1)), int(m.group(3)), int(m.group(5)), int(m.group(7))
        sg = model["subgraphs"][0]
        nplanned = sum(1 for x in line.split("tensors=")[1].split(" ")[0].split(",") if x.split(":")[1] != "-1")
        ncpu = sum(1 for x in line.split("ops=")[1].split(";") if x.startswith("C"))
        if nplanned >= 3:
            nontrivial.add((o["profile"], o["idx"], tuple(o["opts"])))
        ck.count("cpu_ops", ncpu)
        ck.count("planned_tensors", nplanned)
        ck.count("models_with_cpu_ops" if ncpu else "models_npu_only")
        rp = {"profile": o["profile"], "seed": o["seed"], "index": o["idx"], "opts": o["opts"], "network": o["desc"],
              "arena_request": line[:3000], "verdict": ans}
        if o.get("gen_count", 1) > 1:
            rp.update(gen_opts=o["gen_opts"], generation=o["gen_count"], plan=f"{plan_i + 1} of {plan_n}",
                      history="the judged file is the output of compiling a Vela output again (profile gen2:<p>, harness/regen.py)")
        # metadata layout: [version, n_subgraphs, n_tensors, offsets...]
        if hdr[0] != 0 or hdr[2] != sum(len(s["tensors"]) for s in model["subgraphs"]) or hdr[3] != hdr[2]:
            ck.violation(f"OfflineMemoryAllocation header/length inconsistent: {hdr}", rp)
        if nconf:
            rejected += 1
            # a conflict that is the arena view of a recorded in-place finding: the Lean Spec on the real decisions of this
            # compilation (Spec/InPlace) names the destroyed tensors; every conflicting pair must contain one of them
            key = None
            kn = ip_known.get((o["profile"], o["idx"]))
            if kn is not None:
                names = [t["name"] for t in sg["tensors"]]
                pairs = [tuple(int(v) for v in p.split("-")) for p in m.group(2).split()]
                if pairs and all(any(names[i] in kn[1] for i in p) for p in pairs):
                    key = kn[0]
            ck.violation(f"arena tensors overlap while both live: pairs {m.group(2)} (network {o['idx']} {o['profile']} {o['opts']})", rp,
                         key=key)
        if nmis:
            rejected += 1
            ck.violation(f"arena offsets not aligned to {line.split('align=')[1].split(' ')[0]}: tensors {m.group(4)}", rp)
        if nscr:
            rejected += 1
            gen = "" if o.get("gen_count", 1) == 1 else f" [generation {o['gen_count']} output, plan {plan_i + 1} of {plan_n}, {o['profile']} {o['idx']}]"
            ck.violation(f"scratch tensor does not span the Ethos-U operands: {m.group(6)}{gen}", rp)
        # reported figures
        if o.get("csv"):
            rows = list(csv.DictReader(io.StringIO(o["csv"])))
            if rows:
                row = rows[-1]
                area = row.get("feature_map_storage_area", "").strip().lower()
                col = {"sram": "sram_memory_used", "dram": "dram_memory_used", "on-chip flash": "on_chip_flash_memory_used",
                       "off-chip flash": "off_chip_flash_memory_used"}.get(area)
                if col and row.get(col) not in (None, ""):
                    reported = int(round(float(row[col]) * 1024))
                    rep_reqs.append(f"reported {required} {reported}")
                    rep_owner.append((o, "csv " + col, required, reported, dict(rp, finding_key=report_key(o, model, scratch, reported))))
                    ck.count("arena_area_" + area)
    rep_ans = ck.model(rep_reqs, parallel=False) if rep_reqs else []
    for (o, what, required, reported, rp), a in zip(rep_owner, rep_ans):
        if a != "1":
            rejected += 1
            gen = "" if o.get("gen_count", 1) == 1 else f" [generation {o['gen_count']}: a Vela output compiled again, options per generation {o['gen_opts']}]"
            ck.violation(f"reported {what} = {reported} bytes is below the arena extent the plan requires ({required}) "
                         f"(network {o['idx']} {o['profile']} {o['opts']}){gen}", dict(rp, reported=reported, required=required),
                         key=rp.get("finding_key"))
    for o, ans in list(zip(owners, answers))[:3]:
        ck.sample({"network": o["desc"], "opts": o["opts"], "verdict": ans})
    lr_stats = liverange_lib.stage(ck, outs, known=ip_known)
    ip_stats = inplace_lib.stage(ck, outs, stub=False)
    # scheduler memory bookkeeping: the compilations above + a cascade-heavy corpus of its own (small SRAM targets, Dedicated_Sram)
    sched_outs = sched_lib.corpus(ck, 1200 if ck.thorough else 100) if ck.replay_arg is None else []
    if ck.replay_arg is None:
        # generated live-range sets through the real use_fast_storage_for_feature_maps / FastStorageComponentAllocator
        sched_outs += sched_lib.stub_fast(ck.rng, 3000 if ck.thorough else 300)
        # generated operator chains through the real CascadeBuilder.build_cascades, generated ranges through get_temporal_memory_usage
        sched_outs += sched_lib.stub_builder(ck.rng, 5000 if ck.thorough else 500)
        sched_outs += sched_lib.stub_tusage(ck.rng, 2000 if ck.thorough else 200)
    sc_stats = sched_lib.stage(ck, outs + sched_outs)
    # generated tensors / subgraph descriptions through the real copy functions and the real serialiser (function level)
    serial_stub = serial_lib.stub(serial_lib.stub_rng(ck.seed), 20000 if ck.thorough else 2000) if ck.replay_arg is None else []
    se_stats = serial_lib.stage(ck, outs + sched_outs + serial_stub)
    # the second output format: .npz = model, = TFLite output of the same compilation, accepted by the Lean Spec
    raw_stats = raw_stream.stage(ck, outs, raw_stream.FIELDS_C12)
    ck.finish({
        **lr_stats,
        **ip_stub_stats,
        **ip_stats,
        **sc_stats,
        **se_stats,
        **raw_stats,
        "programs": programs,
        "disagreements_checked": rejected,
        "evaluations": len(outs),
        "distinct_nontrivial": len(nontrivial),
        "reported_figures_checked": len(rep_reqs),
        "rule": "program = output model of one compiled (network, configuration); non-trivial when it plans >= 3 arena tensors; "
                "distinct by (profile, index, options). liverange_instances = calls of extract_live_ranges_from_schedule / "
                "_from_cascaded_passes on a fresh graph, distinct by abstract schedule, non-trivial when >= 3 ranges result. "
                "sched_model_requests = calls of the modelled scheduler functions (build_cascades, optimize_sub_schedule, "
                "get_temporal_memory_usage, use_fast_storage_for_feature_maps, propose_operator_buffering, ...) on the compilations "
                "of this check and of the cascade-heavy corpus harness/sched_nets.py; sched_spec_requests = Lean Spec verdicts on "
                "the real values of those calls. serial_model_requests = one `serial` and one `reported` request per compilation that "
                "reaches the serialiser (model of npu_serialisation.py / of the reported memory figures = real, digests of every placed "
                "range of the constants tensor) + generated calls of the real copy functions / serialiser; serial_spec_requests = Lean "
                "Spec verdicts on the constants tensor, scratch tensors and operand order of the output file and on the reported figures. "
                "raw_model_requests = compilations whose raw output (.npz, or the error raised) is compared with Model/RawOutput; "
                "raw_compared_with_tflite = .npz files compared in Lean with the TFLite output of the same compilation and judged by "
                "Spec/RawOutput",
        "exhaustive": False,
    }, assumptions=["liveness is taken from the operator order of the output graph; an input dying at and an output born at the same "
                    "Ethos-U operator may share bytes (ordering inside the stream is C03's subject)",
                    "memory-only CPU operators (RESHAPE, SQUEEZE, EXPAND_DIMS) may alias input and output exactly",
                    "live ranges: time has the granularity of live_range.py (one index per scheduled operation outside a cascade, "
                    "per cascade, per CPU pass; two ticks each); ordering inside one operation or one cascade is C03/C10's subject",
                    "live ranges: tensor identities, equivalence ids and the access list of the lrspec request are read from Vela's "
                    "own objects (high-level commands, cascaded passes) in the harness process",
                    "serialisation: the source constants are the streams captured when encode_weight_and_scale_tensor returned them and "
                    "the values of the constant feature maps of Vela's graph; addresses and storage sizes are read from Vela's tensors; "
                    "the memory tensors of the output file are identified by their name suffix",
                    "raw output: this repository writes the .npz for .tosa inputs only (no --output-format switch); the harness calls "
                    "the real write_rawdata_output on the compiled graph when compiler_driver has returned, before the TFLite writer "
                    "runs; the .npz is read back with NumPy (allow_pickle); a listed tensor occupies prod(shape) * elem_size bytes"])


main_wrapper(main)
