#!/venv/bin/python
"""C12 — the offline arena plan is self-consistent and reported memory is sufficient.
Scheduler-bookkeeping stage (harness/sched_lib.py, design.d/SchedMem.md): the Lean model of the memory bookkeeping of scheduler.py /
cascade_builder.py (Model/SchedMem.lean, theorems in Props/C12Sched.lean) must reproduce every captured call of the real Scheduler /
CascadeBuilder, and the Lean Spec (Spec/SchedMem.lean) judges the real estimates, snapshots, buffers and fast-storage decisions.
Every output model is read with the plain flatbuffer walker; the Lean checker Arena.check judges the
OfflineMemoryAllocation plan (liveness under the operator order, overlap, alignment, scratch tensor);
the reported figures (summary CSV, console) are compared with the extent the plan requires in Lean.
Live-range stage (harness/liverange_lib.py, design.d/LiveRange.md) on the same compilations: the Lean model of
live_range.py (Model/LiveRange.lean, theorems in Props/C12LiveRange.lean) must reproduce every LiveRangeGraph the
scheduler and tensor allocation extract, and the Lean Spec (Spec/LiveRange.lean) judges the real arena ranges against
every access of the high-level command streams and CPU passes."""
import csv
import io
import re
import struct

import common
import fbwalk
import inplace_lib
import liverange_lib
import pipe_common
import pipeline
import sched_lib
from common import Check, main_wrapper


def arena_line(model, align):
    sg = model["subgraphs"][0]
    meta = model["buffers"][model["metadata"]["OfflineMemoryAllocation"]]
    vals = struct.unpack("<%di" % (len(meta) // 4), meta)
    version, nsg, ntens = vals[0], vals[1], vals[2]
    offs = vals[3:3 + len(sg["tensors"])]
    eops = pipeline.ethosu_ops(model)
    scratch = fast = -1
    for si, op, mems, _rest in eops:
        if si == 0:
            scratch, fast = op["inputs"][2], op["inputs"][3]
            break
    tens = ",".join(f"{fbwalk.tensor_bytes(t)}:{offs[i]}:{int(t['is_variable'])}" for i, t in enumerate(sg["tensors"]))
    ops = []
    for op in sg["operators"]:
        code = model["operator_codes"][op["opcode_index"]]
        e = "E" if (code["builtin"] == 32 and code["custom"] == "ethos-u") else "C"
        ins = "/".join(str(i) for i in op["inputs"] if i >= 0)
        outs = "/".join(str(i) for i in op["outputs"] if i >= 0)
        words = ""
        if e == "E":
            # the command words of the operator (driver payload stripped): Lean decodes them to see which outputs the
            # stream really writes (an operator that turned out to be the identity gets no operation at all)
            cmd = sg["tensors"][op["inputs"][0]]
            words = ":" + ".".join(map(str, pipeline.strip_payload(pipeline.payload_words(model, cmd))))
        ops.append(f"{e}:{code['builtin']}:{ins}:{outs}{words}")
    line = (f"arena align={align} scratch={scratch} fast={fast} inputs={','.join(map(str, sg['inputs']))} "
            f"outputs={','.join(map(str, sg['outputs']))} tensors={tens} ops={';'.join(ops)}")
    return line, (version, nsg, ntens, len(vals) - 3), scratch, fast


def main():
    ck = Check("C12", "translation_validation")
    ck.lean_stage(["VelaVerif.Props.C12", "VelaVerif.Props.C12LiveRange", "VelaVerif.Props.C12InPlace", "VelaVerif.Props.C12Sched"])
    n = 6000 if ck.thorough else 320
    profiles = ["cpu", "mixed", "pattern", "cascade", "weights", "pattern", "cpu", "lut", "pattern", "elementwise"]
    pipeline.load_vela()
    liverange_lib.install()      # harness-side wrapping of live_range.extract_*, before the workers are forked
    inplace_lib.install()        # ... of extract_npu_subgraphs and _get_ifm_to_fuse (design.d/InPlace.md)
    inplace_lib.install_profile()
    sched_lib.install()          # ... of the Scheduler / CascadeBuilder memory bookkeeping (design.d/SchedMem.md)
    if sched_lib.replay(ck):
        return
    ip_stub_stats = inplace_lib.stage(ck, [], prefix="inplace_stub_", compiled=False)     # function level first
    outs = pipe_common.run_corpus(ck, n, profiles=profiles, want={"out_model": True, "extra": sched_lib.extra_c12},
                                  corpus_first=False, sweep=True)
    if ck.replay_arg is None:
        # boundary shapes of the in-place decision chain (harness/inplace_nets.py): every variant once (4x thorough)
        import inplace_nets

        outs += pipe_common.run_corpus(ck, inplace_nets.n_variants() * (4 if ck.thorough else 1), profiles=["inplace"],
                                       want={"out_model": True, "extra": sched_lib.extra_c12},
                                       corpus_first=False, sweep=False)
    ip_known = inplace_lib.classify(ck, outs)
    lines, owners, extra = [], [], []
    for o in outs:
        if "harness_exception" in o:
            raise common.InfraError("pipeline worker failed:\n" + o["harness_exception"])
        ck.count("status_" + o["status"])
        if o["profile"].startswith("sweep:"):
            ck.count("sweep_" + o["profile"].split(":", 1)[1])
        if o["status"] != "ok" or not o.get("out_model"):
            continue
        model = fbwalk.parse(o["out_model"])
        if "OfflineMemoryAllocation" not in model["metadata"]:
            ck.violation("output model has no OfflineMemoryAllocation metadata", {"opts": o["opts"], "network": o["desc"]})
            continue
        opts = o["opts"]
        align = int(opts[opts.index("--cpu-tensor-alignment") + 1]) if "--cpu-tensor-alignment" in opts else 16
        line, hdr, scratch, fast = arena_line(model, align)
        lines.append(line)
        owners.append(o)
        extra.append((model, hdr, scratch, fast))
    answers = ck.model(lines)
    rep_reqs, rep_owner = [], []
    nontrivial = set()
    programs = 0
    rejected = 0
    for o, ans, line, (model, hdr, scratch, fast) in zip(owners, answers, lines, extra):
        programs += 1
        m = re.match(r"conflicts=(\d+) (.*?) \| misaligned=(\d+) (.*?) \| scratch=(\d+) (.*?) \| required=(\d+)", ans)
        if not m:
            raise common.InfraError("unexpected arena answer: " + ans[:200] + " for " + line[:300])
        nconf, nmis, nscr, required = int(m.group(1)), int(m.group(3)), int(m.group(5)), int(m.group(7))
        sg = model["subgraphs"][0]
        nplanned = sum(1 for x in line.split("tensors=")[1].split(" ")[0].split(",") if x.split(":")[1] != "-1")
        ncpu = sum(1 for x in line.split("ops=")[1].split(";") if x.startswith("C"))
        if nplanned >= 3:
            nontrivial.add((o["profile"], o["idx"], tuple(o["opts"])))
        ck.count("cpu_ops", ncpu)
        ck.count("planned_tensors", nplanned)
        ck.count("models_with_cpu_ops" if ncpu else "models_npu_only")
        rp = {"profile": o["profile"], "seed": o["seed"], "index": o["idx"], "opts": o["opts"], "network": o["desc"],
              "arena_request": line[:3000], "verdict": ans}
        # metadata layout: [version, n_subgraphs, n_tensors, offsets...]
        if hdr[0] != 0 or hdr[2] != sum(len(s["tensors"]) for s in model["subgraphs"]) or hdr[3] != hdr[2]:
            ck.violation(f"OfflineMemoryAllocation header/length inconsistent: {hdr}", rp)
        if nconf:
            rejected += 1
            # a conflict that is the arena view of a recorded in-place finding: the Lean Spec on the real decisions of this
            # compilation (Spec/InPlace) names the destroyed tensors; every conflicting pair must contain one of them
            key = None
            kn = ip_known.get((o["profile"], o["idx"]))
            if kn is not None:
                names = [t["name"] for t in sg["tensors"]]
                pairs = [tuple(int(v) for v in p.split("-")) for p in m.group(2).split()]
                if pairs and all(any(names[i] in kn[1] for i in p) for p in pairs):
                    key = kn[0]
            ck.violation(f"arena tensors overlap while both live: pairs {m.group(2)} (network {o['idx']} {o['profile']} {o['opts']})", rp,
                         key=key)
        if nmis:
            rejected += 1
            ck.violation(f"arena offsets not aligned to {line.split('align=')[1].split(' ')[0]}: tensors {m.group(4)}", rp)
        if nscr:
            rejected += 1
            ck.violation(f"scratch tensor does not span the Ethos-U operands: {m.group(6)}", rp)
        # reported figures
        if o.get("csv"):
            rows = list(csv.DictReader(io.StringIO(o["csv"])))
            if rows:
                row = rows[-1]
                area = row.get("feature_map_storage_area", "").strip().lower()
                col = {"sram": "sram_memory_used", "dram": "dram_memory_used", "on-chip flash": "on_chip_flash_memory_used",
                       "off-chip flash": "off_chip_flash_memory_used"}.get(area)
                if col and row.get(col) not in (None, ""):
                    reported = int(round(float(row[col]) * 1024))
                    rep_reqs.append(f"reported {required} {reported}")
                    rep_owner.append((o, "csv " + col, required, reported, rp))
                    ck.count("arena_area_" + area)
    rep_ans = ck.model(rep_reqs, parallel=False) if rep_reqs else []
    for (o, what, required, reported, rp), a in zip(rep_owner, rep_ans):
        if a != "1":
            rejected += 1
            ck.violation(f"reported {what} = {reported} bytes is below the arena extent the plan requires ({required}) "
                         f"(network {o['idx']} {o['profile']} {o['opts']})", dict(rp, reported=reported, required=required))
    for o, ans in list(zip(owners, answers))[:3]:
        ck.sample({"network": o["desc"], "opts": o["opts"], "verdict": ans})
    lr_stats = liverange_lib.stage(ck, outs, known=ip_known)
    ip_stats = inplace_lib.stage(ck, outs, stub=False)
    # scheduler memory bookkeeping: the compilations above + a cascade-heavy corpus of its own (small SRAM targets, Dedicated_Sram)
    sched_outs = sched_lib.corpus(ck, 1200 if ck.thorough else 100) if ck.replay_arg is None else []
    if ck.replay_arg is None:
        # generated live-range sets through the real use_fast_storage_for_feature_maps / FastStorageComponentAllocator
        sched_outs += sched_lib.stub_fast(ck.rng, 3000 if ck.thorough else 300)
        # generated operator chains through the real CascadeBuilder.build_cascades, generated ranges through get_temporal_memory_usage
        sched_outs += sched_lib.stub_builder(ck.rng, 5000 if ck.thorough else 500)
        sched_outs += sched_lib.stub_tusage(ck.rng, 2000 if ck.thorough else 200)
    sc_stats = sched_lib.stage(ck, outs + sched_outs)
    ck.finish({
        **lr_stats,
        **ip_stub_stats,
        **ip_stats,
        **sc_stats,
        "programs": programs,
        "disagreements_checked": rejected,
        "evaluations": len(outs),
        "distinct_nontrivial": len(nontrivial),
        "reported_figures_checked": len(rep_reqs),
        "rule": "program = output model of one compiled (network, configuration); non-trivial when it plans >= 3 arena tensors; "
                "distinct by (profile, index, options). liverange_instances = calls of extract_live_ranges_from_schedule / "
                "_from_cascaded_passes on a fresh graph, distinct by abstract schedule, non-trivial when >= 3 ranges result. "
                "sched_model_requests = calls of the modelled scheduler functions (build_cascades, optimize_sub_schedule, "
                "get_temporal_memory_usage, use_fast_storage_for_feature_maps, propose_operator_buffering, ...) on the compilations "
                "of this check and of the cascade-heavy corpus harness/sched_nets.py; sched_spec_requests = Lean Spec verdicts on "
                "the real values of those calls",
        "exhaustive": False,
    }, assumptions=["liveness is taken from the operator order of the output graph; an input dying at and an output born at the same "
                    "Ethos-U operator may share bytes (ordering inside the stream is C03's subject)",
                    "memory-only CPU operators (RESHAPE, SQUEEZE, EXPAND_DIMS) may alias input and output exactly",
                    "live ranges: time has the granularity of live_range.py (one index per scheduled operation outside a cascade, "
                    "per cascade, per CPU pass; two ticks each); ordering inside one operation or one cascade is C03/C10's subject",
                    "live ranges: tensor identities, equivalence ids and the access list of the lrspec request are read from Vela's "
                    "own objects (high-level commands, cascaded passes) in the harness process"])


main_wrapper(main)
