"""Repairs that are written but not yet committed to /repo.

known_findings.txt records such a defect as

    fixed: property=Cxx PENDING-<n> (patch Cyy-<n>) <what failed> [was key=<key>] [was key=<key2>]

(`(patch ...)` may be omitted when the patch is /verif_patches/Cxx-<n>.diff). tools/apply_fix.sh replaces
`PENDING-<n>` by the commit hash once the coordinator has applied the patch; from then on the line is an
ordinary `fixed:` line and suppresses nothing.

While the line still says PENDING the tree under test may or may not contain the repair (the unchanged /repo
does not, a scratch tree with the patch applied does). `pending_keys` therefore looks at the tree itself: a key
is reported as *still open* only if the patch file exists and `git apply --check` says it applies forward (the
hunks are not in the tree yet). If the patch is missing, already applied, or no longer applies, nothing is
suppressed and a crash at that site is a plain VIOLATION. So
  * the unchanged /repo passes (the recorded crash is attributed to the pending repair, as a KNOWN-FINDING line),
  * a tree with the repair must not show the crash any more,
  * after apply_fix.sh the key is gone for good.
"""
import os
import re
import subprocess

import common

PATCH_DIR = os.environ.get("VERIF_PATCHES", "/verif_patches")

_applies_cache = {}


def patch_applies_forward(patch):
    """True iff /verif_patches/<patch>.diff exists and still applies to the tree under test (= is not in it)."""
    path = os.path.join(PATCH_DIR, patch + ".diff")
    key = (path, common.REPO)
    if key not in _applies_cache:
        ok = False
        if os.path.exists(path):
            try:
                r = subprocess.run(["git", "apply", "--check", path], cwd=common.REPO, capture_output=True, text=True, timeout=60)
                ok = r.returncode == 0
            except (OSError, subprocess.SubprocessError):
                ok = False
        _applies_cache[key] = ok
    return _applies_cache[key]


def pending_lines(pid):
    """[(n, patch, [keys], text)] of the `fixed: property=<pid> PENDING-n` lines."""
    out = []
    path = os.path.join(common.VERIF, "known_findings.txt")
    if not os.path.exists(path):
        return out
    for line in open(path):
        m = re.match(r"fixed: property=(\S+) PENDING-(\d+) (.*)", line.strip())
        if not m or m.group(1) != pid:
            continue
        n, text = int(m.group(2)), m.group(3)
        pm = re.search(r"\(patch (C\d+-\d+)\)", text)
        patch = pm.group(1) if pm else f"{pid}-{n}"
        keys = re.findall(r"\[was key=(\S+?)\]", text)
        out.append((n, patch, keys, text))
    return out


def pending_keys(pid):
    """{key: description} of the recorded defects of property `pid` whose repair is pending AND absent from the tree
    under test."""
    out = {}
    for n, patch, keys, text in pending_lines(pid):
        if patch_applies_forward(patch):
            for k in keys:
                out[k] = f"repair pending ({patch}, not in this tree): " + text[:300]
    return out


def register(ck):
    """Make `ck.violation(key=...)` treat the still-open pending keys like `finding:` keys. Returns the dict."""
    keys = pending_keys(ck.pid)
    have = {k["key"] for k in ck.known}
    for k, what in keys.items():
        if k not in have:
            ck.known.append({"property": ck.pid, "key": k, "what": what})
    return keys
