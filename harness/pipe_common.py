"""Shared driver for the pipeline-level checks: generate networks + configurations, compile each with
the real compiler in worker processes, and return plain data (protocol lines for the Lean checkers,
output model bytes, console text, status) to the check script."""
import os
import random
import zlib
import traceback
from concurrent.futures import ProcessPoolExecutor
import multiprocessing

import common

ACCS = ["ethos-u55-32", "ethos-u55-64", "ethos-u55-128", "ethos-u55-256", "ethos-u65-256", "ethos-u65-512"]
PROFILES = ["mixed", "cascade", "weights", "elementwise", "cpu", "cascade_chain", "lut", "pattern", "pattern"]


def sample_config(rng, profile):
    """CLI options for one compilation: accelerator x memory mode x optimise x allocator x alignment x arena cache."""
    acc = rng.choice(ACCS if profile not in ("cascade", "cascade_chain", "cascade_lut") else ["ethos-u55-32", "ethos-u55-64", "ethos-u55-128", "ethos-u55-128", "ethos-u55-256", "ethos-u65-256"])
    opts = ["--accelerator-config", acc]
    ini = os.path.join(common.REPO, "ethosu", "config_files", "Arm", "vela.ini")
    mode = rng.choice(["default", "default", "Sram_Only", "Shared_Sram", "Dedicated_Sram"])
    if mode != "default":
        if "u65" in acc:
            sysc = rng.choice(["Ethos_U65_High_End", "Ethos_U65_Mid_End", "Ethos_U65_Embedded"])
        else:
            sysc = rng.choice(["Ethos_U55_High_End_Embedded", "Ethos_U55_Deep_Embedded"])
            if mode == "Dedicated_Sram":
                mode = "Shared_Sram"
        if sysc == "Ethos_U55_Deep_Embedded" or sysc == "Ethos_U65_Embedded":
            mode = rng.choice(["Sram_Only", "Shared_Sram"])
        opts += ["--config", ini, "--system-config", sysc, "--memory-mode", mode]
    opt = rng.choice(["Size", "Performance"]) if profile not in ("cascade", "cascade_chain", "cascade_lut") else rng.choice(["Size", "Size", "Performance"])
    opts += ["--optimise", opt]
    opts += ["--tensor-allocator", rng.choice(["HillClimb", "HillClimb", "Greedy", "LinearAlloc"])]
    if rng.random() < 0.4:
        opts += ["--cpu-tensor-alignment", str(rng.choice([16, 32, 64, 128, 256]))]
    if rng.random() < 0.4:
        opts += ["--arena-cache-size", str(rng.choice([4096, 16384, 65536, 131072, 393216, 1 << 20]))]
    return opts


def more_options(rng):
    """The remaining CLI switches (verbosity, block dependency, iteration limits, debug database, ...)."""
    opts = []
    for flag in ["--verbose-config", "--verbose-high-level-command-stream", "--verbose-register-command-stream",
                 "--show-cpu-operations", "--force-symmetric-int-weights", "--show-subgraph-io-summary", "--enable-debug-db",
                 "--verbose-graph", "--verbose-quantization", "--verbose-packing", "--verbose-tensor-purpose",
                 "--verbose-tensor-format", "--verbose-schedule", "--verbose-allocation", "--verbose-operators",
                 "--verbose-weights", "--verbose-performance", "--verbose-progress", "--timing"]:
        if rng.random() < 0.12:
            opts.append(flag)
    if rng.random() < 0.3:
        opts += ["--max-block-dependency", str(rng.choice([0, 1, 2, 3]))]
    if rng.random() < 0.3:
        opts += ["--hillclimb-max-iterations", str(rng.choice([1, 10, 1000, 99999]))]
    if rng.random() < 0.1:
        opts += ["--recursion-limit", str(rng.choice([1000, 2000, 10000]))]
    return opts


def make_net(rng, idx, profile):
    import netgen

    if profile == "cascade_chain":
        return netgen.cascade_net(rng, idx)
    if profile == "cascade_lut":
        # cascades whose stripes interleave table-lookup activations with operations that have no table
        # (on the 16-bank configurations those destroy the table window in SHRAM between two stripes)
        # narrow -> wide -> narrow, so that keeping the wide intermediate maps whole is what `--optimise Size` avoids
        bb = netgen.B(rng, f"casclut{idx}", rng.choice(["int8", "int8", "uint8", "int16"]))
        h, w = rng.choice([33, 37, 48, 64]), rng.choice([32, 64])
        c0, mid = rng.choice([4, 8]), rng.choice([24, 32, 48])
        bb.set_extremes(0.1)
        x = bb.input([1, h, w, c0])
        kinds = [rng.choice(["lut", "lut", "dw", "pool", "conv", "lut"]) for _ in range(rng.randint(1, 3))]
        if "lut" not in kinds:
            kinds.insert(rng.randint(0, len(kinds)), "lut")
        bb.net.desc.append(f"cascade_lut in={[1, h, w, c0]} mid={mid} kinds={kinds}")
        cur = bb.conv(x, mid, (3, 3), (1, 1), (1, 1), "SAME", act=rng.choice([0, 1]))
        for kd in kinds:
            k = rng.choice([1, 3, 3])
            if kd == "lut":
                new = bb.unary(rng.choice(["TANH", "LOGISTIC", "LEAKY_RELU", "TANH"]), cur)
            elif kd == "dw":
                new = bb.dwconv(cur, (k, k), (1, 1), (1, 1), "SAME")
            elif kd == "pool":
                new = bb.pool(cur, rng.choice(["MAX_POOL_2D", "AVERAGE_POOL_2D"]), (2, 2), (1, 1), "SAME")
            else:
                new = bb.conv(cur, mid, (k, k), (1, 1), (1, 1), "SAME")
            cur = new if new is not None else cur
        cur = bb.conv(cur, c0, (3, 3), (1, 1), (1, 1), "SAME") or cur
        return bb.finish([cur])
    if profile == "pattern":
        return netgen.pattern_net(rng, idx)
    if profile.startswith("sweep:"):
        # deterministic pattern sweep (harness/sweep.py): the job index selects the sub-kind of the family
        return netgen.pattern_net(rng, idx, profile.split(":", 1)[1], variant=idx)
    if profile.startswith("pattern:"):
        return netgen.pattern_net(rng, idx, profile.split(":", 1)[1])
    if profile.startswith("hl2npu:"):
        # families that aim at the branches of high_level_command_to_npu_op.py (harness/hl2npu_nets.py)
        import hl2npu_nets

        return hl2npu_nets.build(rng, idx, profile.split(":", 1)[1] or None)
    if profile == "weird":
        return netgen.weird_net(rng, idx)
    if profile == "act_extremes":
        import extremes_gen

        return extremes_gen.act_extremes_net(rng, idx)
    if profile == "rejected":
        import reject_gen

        return reject_gen.rejected_net(rng, idx)
    if profile == "known_cascade_s3":
        # DESIGN.md section 8 #7: rolling buffer too small for a 3x3 stride-3 SAME consumer, H mod 3 == 1
        return netgen.cascade_net(rng, idx, h=37, w=64, c=32,
                                  specs=[(3, 1, "SAME", "conv"), (3, 3, "SAME", "conv"), (3, 1, "SAME", "conv")])
    if profile == "lut":
        b = netgen.B(rng, f"lut{idx}", rng.choice(["int8", "uint8", "int8", "int16"]))
        b.set_extremes(0.3, 0.5)      # table-lookup activations must see quantisation extremes (scale 1e-8 .. 1e3, end zero points)
        x = b.input([1, rng.randint(1, 12), rng.randint(1, 12), rng.choice([1, 4, 8, 16, 20])])
        cur = x
        for _ in range(rng.randint(1, 5)):
            k = rng.choice(["LOGISTIC", "TANH", "LEAKY_RELU", "conv_act", "LOGISTIC", "TANH"])
            b.net.desc.append(k)
            if k == "conv_act":
                new = b.conv(cur, rng.choice([4, 8, 16]), (1, 1), (1, 1), (1, 1), "SAME")
                if new is not None:
                    cur = b.unary(rng.choice(["LOGISTIC", "TANH"]), new)
            else:
                cur = b.unary(k, cur)
        return b.finish([cur])
    return netgen.random_net(rng, idx, profile)


def exc_site(tb, exc):
    """<ExceptionType>@<module>.<function> of the innermost frame inside the repository: the stable key
    under which a known crash is recorded."""
    if not tb or exc is None:
        return ""
    import re

    frames = re.findall(r'File "([^"]+)", line \d+, in (\S+)', tb)
    inner = [(f, fn) for f, fn in frames if "/ethosu/" in f]
    if not inner:
        return type(exc).__name__ + "@?"
    f, fn = inner[-1]
    return f"{type(exc).__name__}@{os.path.splitext(os.path.basename(f))[0]}.{fn}"


def arch_name(arch):
    return arch.accelerator_config.value


def _worker(job):
    seed, idx, profile, want = job
    if profile.startswith("gen2:"):
        import regen      # second-generation compilation: the OUTPUT of profile <base> is compiled again (harness/regen.py)

        return regen.worker(job)
    import netgen
    import pipeline

    rng = random.Random((seed << 20) ^ (idx * 7919) ^ zlib.crc32(profile.encode()))
    out = {"idx": idx, "profile": profile, "seed": seed}
    try:
        net = make_net(rng, idx, profile)
        opts = sample_config(rng, profile)
        if "more_opts" in want:
            opts += more_options(rng)
        opts += [e for e in getattr(net, "extra_opts", []) if e not in opts]      # options a generated case asks for
        if profile == "known_cascade_s3":
            opts = ["--accelerator-config", "ethos-u55-128", "--optimise", "Size"]
        if profile.startswith("hl2npu:") and net.name.startswith("casc"):
            opts = ["--accelerator-config", rng.choice(["ethos-u55-128", "ethos-u55-64", "ethos-u55-256", "ethos-u55-32"]), "--optimise", "Size"]
        if net.name.endswith(("casc_s2_valid",)) and rng.random() < 0.7:
            opts = ["--accelerator-config", rng.choice(["ethos-u55-128", "ethos-u55-64", "ethos-u55-256"]), "--optimise", "Size"]
        if net.name.endswith(("residual", "big_fm_u65")) and rng.random() < 0.6:
            ini = os.path.join(common.REPO, "ethosu", "config_files", "Arm", "vela.ini")
            opts = ["--accelerator-config", rng.choice(["ethos-u65-256", "ethos-u65-512"]), "--config", ini,
                    "--system-config", "Ethos_U65_High_End", "--memory-mode", "Dedicated_Sram", "--optimise", "Performance",
                    "--arena-cache-size", str(rng.choice([20000, 40000, 100000, 200000, 393216]))]
            if "more_opts" in want:
                opts += more_options(rng)
        if net.name.endswith(("fc1_after_conv", "deep_slices")) and rng.random() < 0.5:
            opts = ["--accelerator-config", "ethos-u65-512"] + opts[2:]
        if profile.startswith("sweep:"):
            import sweep as sweep_mod

            # the sweep's own configuration, whatever the name-based overrides above drew
            opts = sweep_mod.config(rng, profile, idx) + (more_options(rng) if "more_opts" in want else [])
        data = netgen.serialize(net)
        out.update(desc=net.describe(), opts=opts, src_ops=[o.kind for o in net.ops])
        import netgen_ext

        out["src_tags"] = netgen_ext.source_tags(net)
        res = pipeline.compile_net(data, opts, name=f"n{idx}")
        if "post_compile" in want:
            res = want["post_compile"](out, rng, res, data, opts)
        out.update(status=res.status, exc=(type(res.exc).__name__ + ": " + str(res.exc))[:300] if res.exc is not None else "",
                   tb=res.tb[-1500:], ret=res.ret, exc_site=exc_site(res.tb, res.exc))
        out["wrote_output"] = res.out_model is not None
        out["printed_error"] = any(l.startswith("Error:") or l.startswith("'Error:") for l in res.stdout.split("\n"))
        out["stdout_tail"] = res.stdout[-400:]
        out["stdout"] = res.stdout if "stdout" in want else ""
        out["csv"] = res.csv
        out["src_model"] = data if "models" in want else None
        out["out_model"] = res.out_model if ("models" in want or "out_model" in want) else None
        lines, nops, feats = [], [], set()
        if res.status == "ok" and res.out_model is not None:
            ext, _model = pipeline.extents_from_output(res.out_model)
            for art in res.streams:
                if "stream" in want and ext is not None:
                    try:
                        lines.append(pipeline.stream_line(art, ext))
                    except Exception:
                        out.setdefault("harness_errors", []).append(traceback.format_exc()[-800:])
                nops.append(len(art.npu_ops))
                if "words" in want:
                    out.setdefault("cmd_words", []).append(list(art.words))
                    out.setdefault("acc", arch_name(art.arch))
                out.setdefault("op_meta", []).append(pipeline.op_meta(art))
                feats |= pipeline.stream_features(art)
            if "inference" in want and ext is not None:
                try:
                    out["inference_line"] = pipeline.inference_line(res, ext)
                except Exception:
                    out.setdefault("harness_errors", []).append(traceback.format_exc()[-800:])
            out["extents"] = ext
            if "extra" in want:
                out["extra"] = want["extra"](res)
        out["stream_lines"] = lines
        out["npu_ops"] = nops
        out["features"] = sorted(feats)
        pipeline.reset_process_state()
    except BaseException:  # noqa: B902  harness failure, reported as such
        out["harness_exception"] = traceback.format_exc()[-1500:]
    return out


def replay_jobs(ck, want):
    """If the check was started with --replay <file>, the single job recorded in that file."""
    import json

    if not ck.replay_arg:
        return None
    r = json.load(open(ck.replay_arg))
    rp = r.get("replay", r)
    if not all(k in rp for k in ("seed", "index", "profile")):
        raise common.InfraError("replay file does not name (seed, index, profile)")
    return [(rp["seed"], rp["index"], rp["profile"], want)]


def run_corpus(ck, n, profiles=None, want=("stream",), jobs=None, corpus_first=True, sweep=False):
    """Compile `n` generated networks (plus the corpus, plus the pattern sweep when `sweep`) and return the list of
    worker outputs."""
    import pipeline

    pipeline.load_vela()       # build the C extension once, before forking
    rj = replay_jobs(ck, {k: True for k in want} if not isinstance(want, dict) else want)
    if rj is not None:
        return [_worker(rj[0])]
    profiles = profiles or PROFILES
    want = {k: True for k in want} if not isinstance(want, dict) else want
    jobs_list = []
    if corpus_first:
        for j, (p, s, i) in enumerate(CORPUS):
            jobs_list.append((s, i, p, want))
    if sweep:
        import sweep as sweep_mod

        jobs_list += [(ck.seed, i, p, want) for p, i in sweep_mod.jobs(ck.thorough)]
    for i in range(n):
        jobs_list.append((ck.seed, i, profiles[i % len(profiles)], want))
    jobs = jobs or min(16, os.cpu_count() or 4)
    ctx = multiprocessing.get_context("fork")
    with ProcessPoolExecutor(jobs, mp_context=ctx) as ex:
        outs = list(ex.map(_worker, jobs_list, chunksize=1))
    return outs


# (profile, seed, index) of generated networks kept because they once exposed something
CORPUS = [
    ("known_cascade_s3", 0, 0),
]
