"""History sensitivity for the function-level correspondences: *siblings*.

Every function-level harness used to feed INDEPENDENT random inputs, so two calls never agreed on all fields
but one.  A memo table whose key forgets a field (or any other state that leaks from one call into the next)
is invisible to such a stream: the stale entry is never asked for.  The Lean models are history-free, so the
defect shows as model != real (and, through the Lean Spec applied to the real output, as a failing input) as
soon as the real code is called on a *base* case and then, IN THE SAME PROCESS, on a case that differs from
it in exactly ONE field.

This module holds what is common to the checks:

  * `Family` bookkeeping: `derive(rng, base, alts, k)` -> up to k siblings of a tuple / list / dict case,
    each differing from the base in exactly one position (`alts[pos](rng, case)` proposes the other value);
  * `run_families(pool, fn, families)`: runs each family (base first, then its siblings, in order) inside ONE
    worker process and returns the results in the same nested shape - the process structure of a harness must
    never separate a base from its siblings;
  * `api_op_siblings(...)`: one-field variations of the public `ethosu.vela.api` operation objects (every field
    of the operation / feature maps / kernel / padding / activation / block config in turn), used by the checks
    that drive `npu_generate_register_command_stream` (C06, C04);
  * `sibling_lists(...)`: the three placements of a sibling the brief asks for - in the same operation list
    right after its base, in a later API call (list with the operation replaced), and on another accelerator.

Nothing in here decides pass/fail: siblings are ordinary cases that go to the same Lean model / Spec requests.
"""
import copy

# ------------------------------------------------------------------------------------------------------------
# generic part (tuples / lists / dicts)


def derive(rng, base, alts, k, order=None):
    """up to `k` siblings of `base` (tuple, list or dict).  `alts` maps a position / key to a function
    `(rng, base) -> value` (a value equal to the current one, or None-returning `KeyError`, is skipped).
    Positions are visited round-robin starting at a random offset so that over many bases EVERY field is varied
    equally often.  -> [(position, sibling)]"""
    keys = list(order if order is not None else alts.keys())
    if not keys:
        return []
    start = rng.randrange(len(keys))
    out = []
    for j in range(len(keys)):
        if len(out) >= k:
            break
        pos = keys[(start + j) % len(keys)]
        try:
            v = alts[pos](rng, base)
        except (KeyError, IndexError, ValueError):
            continue
        cur = base[pos]
        if v is None and cur is None:
            continue
        if v == cur:
            continue
        if isinstance(base, dict):
            sib = dict(base)
            sib[pos] = v
        else:
            sib = list(base)
            sib[pos] = v
            sib = tuple(sib) if isinstance(base, tuple) else sib
        out.append((pos, sib))
    return out


def choice_other(pos, values):
    """`alts` entry: a random member of `values` that differs from base[pos]"""
    def f(rng, base):
        cands = [v for v in values if v != base[pos]]
        if not cands:
            raise KeyError(pos)
        return rng.choice(cands)
    return f


def run_families(pool, fn, families, per_task=4):
    """`families`: list of lists of cases.  Every family is evaluated by ONE worker process, base first, then the
    siblings in order (several families per task to keep the IPC cost down).  -> list of lists of results"""
    tasks = [families[i:i + per_task] for i in range(0, len(families), per_task)]
    out = []
    for part in pool.imap(_run_task, [(fn, t) for t in tasks]):
        out.extend(part)
    return out


def toggle(pos):
    """`alts` entry: the other truth value (keeps the type: bool stays bool, 0/1 stays int)"""
    def f(rng, base):
        v = base[pos]
        return (not v) if isinstance(v, bool) else (0 if v else 1)
    return f


def bump_elem(pos, lo=1, hi=None, steps=(1, -1, 2, 7, 16), only=None):
    """`alts` entry for a position that holds a tuple of integers (a shape, a block, a kernel): ONE element moves by a step"""
    def f(rng, base):
        t = base[pos]
        if t is None:
            raise KeyError(pos)
        idx = list(only) if only is not None else list(range(len(t)))
        rng.shuffle(idx)
        for i in idx:
            for st in rng.sample(list(steps), len(steps)):
                v = t[i] + st
                if v >= lo and (hi is None or v <= (hi[i] if isinstance(hi, (list, tuple)) else hi)):
                    n = list(t)
                    n[i] = v
                    return tuple(n) if isinstance(t, tuple) else n
        raise KeyError(pos)
    return f


def _run_task(args):
    fn, fams = args
    return [[fn(c) for c in fam] for fam in fams]


# ------------------------------------------------------------------------------------------------------------
# public API operation objects (ethosu.vela.api)

FM_FIELDS = ["strides", "layout", "data_type", "region", "tiles", "address", "zero_point", "scale", "quantization"]
OP_FIELDS = ["activation", "lut_index", "act_min_max", "padding", "kernel_size", "kernel_stride", "kernel_dilation",
             "rounding_mode", "ifm_upscale", "block_traversal", "block_config", "fused_quantize", "rescale",
             "reversed_operands", "ifm2_scalar", "weights", "biases", "sub_op_type", "ofm_depth", "ifm_depth"]
DMA_FIELDS = ["dma_src", "dma_dest", "dma_length", "dma_channel_mode"]
ALL_FIELDS = FM_FIELDS + OP_FIELDS + DMA_FIELDS


def dense_strides(a, fm):
    es = fm.data_type.size_in_bytes()
    if fm.layout == a.NpuLayout.NHWC:
        sc = es
        sx = fm.shape.depth * sc
        sy = fm.shape.width * sx
    else:
        sx = 16 * es
        sc = sx * fm.shape.width
        sy = es * fm.shape.width * ((fm.shape.depth + 15) // 16 * 16)
    return sy, sx, sc


def fm_hull_end(a, fm):
    """one past the last byte of tile 0 (harness-side arithmetic, independent of register_command_stream_util)"""
    es = fm.data_type.size_in_bytes()
    sy, sx, sc = (fm.strides.height, fm.strides.width, fm.strides.depth) if fm.strides is not None else dense_strides(a, fm)
    h = min(fm.shape.height, fm.tiles.height_0)
    w = min(fm.shape.width, fm.tiles.width_0)
    d = fm.shape.depth
    if fm.layout == a.NpuLayout.NHWC:
        return fm.tiles.addresses[0] + (h - 1) * sy + (w - 1) * sx + d * es
    return fm.tiles.addresses[0] + (h - 1) * sy + (w - 1) * 16 * es + ((d - 1) // 16) * sc + ((d - 1) % 16 + 1) * es


def _real_fms(op):
    out = []
    for nm in ("ifm", "ifm2", "ofm"):
        fm = getattr(op, nm, None)
        if fm is not None and fm.shape is not None and fm.tiles is not None and fm.shape.height > 0:
            out.append((nm, fm))
    return out


def _set_tiles(a, fm, h0=None, h1=None, w0=None, addresses=None):
    t = fm.tiles
    fm.tiles = a.NpuTileBox(height_0=t.height_0 if h0 is None else h0, height_1=t.height_1 if h1 is None else h1,
                            width_0=t.width_0 if w0 is None else w0, addresses=list(t.addresses if addresses is None else addresses))


def _is_lut(a, op):
    return op.activation is not None and op.activation.op_type == a.NpuActivationOp.TABLE_LOOKUP


def _mut_fm(rng, a, op, field, opts):
    """vary `field` of one (random) feature map of `op` in place; -> "<fm>.<field>" or None"""
    fms = _real_fms(op)
    rng.shuffle(fms)
    is_rsum = isinstance(op, a.NpuPoolingOperation) and op.sub_op_type == a.NpuPoolingOp.REDUCE_SUM
    for nm, fm in fms:
        es = fm.data_type.size_in_bytes()
        nhwc = fm.layout == a.NpuLayout.NHWC
        if field == "strides":
            if fm.strides is not None and rng.random() < 0.5:
                fm.strides = None               # explicit -> dense
                return nm + ".strides"
            sy, sx, sc = dense_strides(a, fm)
            if fm.strides is not None:
                sy, sx, sc = fm.strides.height, fm.strides.width, fm.strides.depth
            if nhwc:
                if rng.random() < 0.5:
                    # a channel slice of a deeper tensor (e.g. 16 of 64 channels): larger pixel pitch
                    sx = sx * rng.choice([2, 3, 4])
                    sy = fm.shape.width * sx
                else:
                    sy = sy + es * rng.choice([16, 64, 256])      # a window of a wider tensor: larger row pitch
            else:
                if rng.random() < 0.5:
                    sc = sc + 16 * es * rng.choice([1, 4])
                    sy = max(sy, sc * ((fm.shape.depth + 15) // 16))
                else:
                    sy = sy + 16 * rng.choice([1, 4, 16])
            fm.strides = a.NpuShape3D(height=sy, width=sx, depth=sc)
            return nm + ".strides"
        if field == "layout":
            if is_rsum and nm == "ifm":
                continue
            if nhwc and any(x % 16 for x in fm.tiles.addresses):
                continue
            if nm == "ifm2" and op.ifm2_scalar is not None:
                continue
            fm.layout = a.NpuLayout.NHCWB16 if nhwc else a.NpuLayout.NHWC
            fm.strides = None
            return nm + ".layout"
        if field == "data_type":
            # the other signedness of the same width (width changes move every dependent quantity: not a one-field change)
            flip = {a.NpuDataType.INT8: a.NpuDataType.UINT8, a.NpuDataType.UINT8: a.NpuDataType.INT8,
                    a.NpuDataType.INT16: a.NpuDataType.UINT16, a.NpuDataType.UINT16: a.NpuDataType.INT16}
            if not opts.get("dtype_sign", True) or fm.data_type not in flip:
                continue
            if fm.quantization is not None and not (flip[fm.data_type].min_value() <= fm.quantization.zero_point <= flip[fm.data_type].max_value()):
                continue
            if nm != "ofm":
                # both operands of an operation have one signedness: IFM and IFM2 change together (label says ifm)
                if op.ifm2 is not None and op.ifm2.shape is None:
                    continue                    # scalar IFM2: its value would have to be re-quantised
                ins = [f2 for n2, f2 in fms if n2 != "ofm"]
                if any(f2.data_type != fm.data_type for f2 in ins):
                    continue
                if any(f2.quantization is not None and not (flip[f2.data_type].min_value() <= f2.quantization.zero_point
                                                            <= flip[f2.data_type].max_value()) for f2 in ins):
                    continue
                for f2 in ins:
                    f2.data_type = flip[f2.data_type]
                return "ifm.data_type"
            fm.data_type = flip[fm.data_type]
            return nm + ".data_type"
        if field == "region":
            regs = [r for r in opts.get("regions", (0, 1, 2, 3, 5, 7)) if r != fm.region]
            if not regs:
                continue
            fm.region = rng.choice(regs)
            return nm + ".region"
        if field == "tiles":
            t = fm.tiles
            if t.height_0 < fm.shape.height or t.width_0 < fm.shape.width:
                # several tiles -> one (the rows / columns that were elsewhere now follow tile 0)
                _set_tiles(a, fm, fm.shape.height, fm.shape.height, fm.shape.width, [t.addresses[0], 0, 0, 0])
                return nm + ".tiles"
            if fm.shape.height < 2:
                continue
            h0 = rng.randint(1, fm.shape.height - 1)
            sy = fm.strides.height if fm.strides is not None else dense_strides(a, fm)[0]
            far = opts.get("tile_base")
            a2 = t.addresses[0] + h0 * sy if far is None or rng.random() < 0.5 else far(fm)
            if a2 is None:
                continue
            # rows h0.. live in tile 2: right behind tile 0 (same bytes, another description) or somewhere else
            _set_tiles(a, fm, h0, h0, fm.shape.width, [t.addresses[0], 0, a2, 0])
            return nm + ".tiles"
        if field == "address":
            if opts.get("address_single_tile") and (fm.tiles.height_0 < fm.shape.height or fm.tiles.width_0 < fm.shape.width):
                continue            # moving one of several tiles could make the feature map alias itself
            step = 16 if not nhwc else max(es, rng.choice([es, 16, 64]))
            ad = list(fm.tiles.addresses)
            used = [i for i, x in enumerate(ad) if i == 0 or x != 0]
            i = rng.choice(used)
            ad[i] = ad[i] + step * rng.choice([1, 2, 16])
            _set_tiles(a, fm, addresses=ad)
            return nm + ".address"
        if field == "zero_point":
            if fm.quantization is None or fm.data_type == a.NpuDataType.INT32:
                continue
            lo, hi = max(fm.data_type.min_value(), -32768), min(fm.data_type.max_value(), 32767)
            zp = rng.choice([lo, hi, 0 if lo <= 0 else lo, rng.randint(lo, hi)])
            if zp == fm.quantization.zero_point:
                zp = lo if zp != lo else hi
            fm.quantization = a.NpuQuantization(scale_f32=fm.quantization.scale_f32, zero_point=zp)
            return nm + ".zero_point"
        if field == "scale":
            if fm.quantization is None or not opts.get("scale_toggle", True):
                continue
            q = fm.quantization
            if q.scale_f32 is None:
                fm.quantization = a.NpuQuantization(scale_f32=rng.choice([1.0, 0.5, 0.0078125]), zero_point=q.zero_point)
            elif opts.get("scale_none", True) and rng.random() < 0.5:
                fm.quantization = a.NpuQuantization(scale_f32=None, zero_point=q.zero_point)
            else:
                fm.quantization = a.NpuQuantization(scale_f32=q.scale_f32 * rng.choice([0.5, 2.0, 0.75]), zero_point=q.zero_point)
            return nm + ".scale"
    return None


def _implied_ifm(a, op):
    k, p = op.kernel, op.padding
    kdh, kdw = k.dilation_y * (k.height - 1) + 1, k.dilation_x * (k.width - 1) + 1
    ih = (op.ofm.shape.height - 1) * k.stride_y + kdh - p.top - p.bottom
    iw = (op.ofm.shape.width - 1) * k.stride_x + kdw - p.left - p.right
    return ih, iw


def _reshape_ifm(a, op):
    """dependent field: the IFM extent follows OFM, kernel, stride, dilation and padding (single dense tile only)"""
    fm = op.ifm
    if fm.tiles.height_0 < fm.shape.height or fm.tiles.width_0 < fm.shape.width:
        return False
    if op.ifm_upscale != a.NpuResamplingMode.NONE:
        return False
    ih, iw = _implied_ifm(a, op)
    if ih < 1 or iw < 1 or ih > 4096 or iw > 4096:
        return False
    if fm.strides is not None and (iw > fm.shape.width):
        fm.strides = None
    fm.shape = a.NpuShape3D(height=ih, width=iw, depth=fm.shape.depth)
    _set_tiles(a, fm, ih, ih, iw)
    return True


def mutate_op(rng, a, op, arch, field, opts=None):
    """vary ONE field of a *copy* of `op`; -> (label, sibling) or None when the field does not apply.
    Fields that other fields depend on take their dependents along (a kernel stride moves the IFM extent) and say so
    in the label."""
    opts = opts or {}
    op = copy.deepcopy(op)
    if isinstance(op, a.NpuDmaOperation):
        if field == "dma_src":
            op.src = a.NpuAddressRange(op.src.region, op.src.address + 16 * rng.choice([1, 4, 64]), op.src.length)
        elif field == "dma_dest":
            op.dest = a.NpuAddressRange(op.dest.region, op.dest.address + 16 * rng.choice([1, 4, 64]), op.dest.length)
            if op.dest.region > 7:
                return None
        elif field == "dma_length":
            ln = op.src.length + 16 * rng.choice([1, 3, 16])
            if op.dest.region > 7:
                return None
            op.src = a.NpuAddressRange(op.src.region, op.src.address, ln)
            op.dest = a.NpuAddressRange(op.dest.region, op.dest.address, ln)
        elif field == "dma_channel_mode":
            if not opts.get("dma_channel_mode", True):
                return None
            op.channel, op.mode = (op.channel + 1) % 2, op.mode
        else:
            return None
        return field, op
    if field in FM_FIELDS:
        if field == "quantization":
            return None
        lab = _mut_fm(rng, a, op, field, opts)
        return (lab, op) if lab else None
    conv = isinstance(op, (a.NpuConv2DOperation, a.NpuConvDepthWiseOperation))
    pool = isinstance(op, a.NpuPoolingOperation)
    ew = isinstance(op, a.NpuElementWiseOperation)
    if field == "activation":
        A = a.NpuActivationOp
        cur = None if op.activation is None else op.activation.op_type
        kinds = [None, A.NONE_OR_RELU, A.TABLE_LOOKUP, A.TABLE_LOOKUP] + ([A.TANH, A.SIGMOID] if opts.get("tanh", True) else [])
        if opts.get("lut_only"):
            kinds = [None, A.TABLE_LOOKUP]
        kinds = [k for k in kinds if k != cur]
        new = rng.choice(kinds)
        if new is None:
            op.activation = None
        else:
            if new in (A.TANH, A.SIGMOID) and (op.ifm.quantization is None or op.ifm.quantization.scale_f32 is None
                                               or op.ofm.quantization is None):
                new = A.TABLE_LOOKUP
                if cur == new:
                    return None
            act = a.NpuActivation(new)
            if new == A.TABLE_LOOKUP:
                slots = opts.get("lut_slots") or list(range(8))
                act.lookup_table_index = rng.choice(slots)
            elif new == A.NONE_OR_RELU:
                act.min, act.max = 0.0, None
            op.activation = act
        return "activation", op
    if field == "lut_index":
        if not _is_lut(a, op):
            return None
        op.activation.lookup_table_index = (op.activation.lookup_table_index + rng.randint(1, 7)) % 8
        return field, op
    if field == "act_min_max":
        if op.activation is None or op.activation.op_type != a.NpuActivationOp.NONE_OR_RELU:
            return None
        op.activation.min, op.activation.max = (None, 6.0) if op.activation.min is not None else (0.0, op.activation.max)
        return field, op
    if field == "padding":
        p = op.padding
        if p is None:
            return None
        moves = []
        if p.bottom > 0:
            moves.append(a.NpuPadding(top=p.top + 1, left=p.left, bottom=p.bottom - 1, right=p.right))
        if p.top > 0:
            moves.append(a.NpuPadding(top=p.top - 1, left=p.left, bottom=p.bottom + 1, right=p.right))
        if p.right > 0:
            moves.append(a.NpuPadding(top=p.top, left=p.left + 1, bottom=p.bottom, right=p.right - 1))
        if p.left > 0:
            moves.append(a.NpuPadding(top=p.top, left=p.left - 1, bottom=p.bottom, right=p.right + 1))
        if not moves:
            return None
        op.padding = rng.choice(moves)
        return field, op
    if field in ("kernel_size", "kernel_stride", "kernel_dilation"):
        k = op.kernel
        if k is None or ew or op.padding is None:
            return None
        v = [k.width, k.height, k.stride_x, k.stride_y, k.dilation_x, k.dilation_y]
        if field == "kernel_size":
            i = rng.choice([0, 1])
            v[i] = v[i] + 1 if v[i] < 8 and rng.random() < 0.7 else max(1, v[i] - 1)
        elif field == "kernel_stride":
            i = rng.choice([2, 3])
            v[i] = {1: 2, 2: rng.choice([1, 3]), 3: 2}.get(v[i], 1)
        else:
            if pool:
                return None
            i = rng.choice([4, 5])
            v[i] = 2 if v[i] == 1 else 1
        if v == [k.width, k.height, k.stride_x, k.stride_y, k.dilation_x, k.dilation_y]:
            return None
        op.kernel = a.NpuKernel(*v)
        if not _reshape_ifm(a, op):
            return None
        return field + "+ifm.shape", op
    if field == "rounding_mode":
        modes = [m for m in a.NpuRoundingMode if m != op.rounding_mode]
        op.rounding_mode = rng.choice(modes)
        return field, op
    if field == "ifm_upscale":
        if not opts.get("upscale", True):
            return None
        R = a.NpuResamplingMode
        if op.ifm_upscale == R.NONE:
            return None          # switching up-scaling on halves the IFM extent: not a one-field change
        op.ifm_upscale = R.NEAREST if op.ifm_upscale == R.TRANSPOSE else R.TRANSPOSE
        return field, op
    if field == "block_traversal":
        if not isinstance(op, a.NpuConv2DOperation):
            return None
        T = a.NpuBlockTraversal
        op.block_traversal = T.DEPTH_FIRST if op.block_traversal == T.PART_KERNEL_FIRST else T.PART_KERNEL_FIRST
        return field, op
    if field == "block_config":
        ub = arch.ofm_ublock
        bc = op.block_config
        cands = []
        for h, w, d in ((bc.height + ub.height, bc.width, bc.depth), (bc.height - ub.height, bc.width, bc.depth),
                        (bc.height, bc.width + ub.width, bc.depth), (bc.height, bc.width - ub.width, bc.depth),
                        (bc.height, bc.width, bc.depth + ub.depth), (bc.height, bc.width, bc.depth - ub.depth),
                        (bc.height, bc.width, bc.depth * 2), (bc.height * 2, bc.width, bc.depth), (bc.height, bc.width * 2, bc.depth)):
            up = op.ifm_upscale != a.NpuResamplingMode.NONE
            if max(ub.height, 2 if up else 1) <= h <= 32 and max(ub.width, 2 if up else 1) <= w <= 64 and ub.depth <= d <= 128:
                cands.append((h, w, d))
        if not cands:
            return None
        h, w, d = rng.choice(cands)
        op.block_config = a.NpuShape3D(height=h, width=w, depth=d)
        return field, op
    if field == "fused_quantize":
        if not pool or not opts.get("fused_quantize", True):
            return None
        if op.ifm.quantization is None or op.ifm.quantization.scale_f32 is None or op.ofm.quantization is None \
                or op.ofm.quantization.scale_f32 is None:
            return None
        op.fused_quantize = not op.fused_quantize
        return field, op
    if field == "rescale":
        if not opts.get("rescale", True) or getattr(op, "rescale", None) is None:
            return None
        if isinstance(op.rescale, tuple):
            op.rescale = (op.rescale[0], (op.rescale[1] + 1) % 64)
        elif isinstance(op.rescale, float):
            op.rescale = op.rescale * 0.5
        else:
            return None
        return field, op
    if field == "reversed_operands":
        if not ew or op.ifm2 is None or not opts.get("reversed", True):
            return None
        op.reversed_operands = not op.reversed_operands
        return field, op
    if field == "ifm2_scalar":
        if not ew or op.ifm2_scalar is None or not opts.get("scalar", True):
            return None
        q = op.ifm2.quantization
        sc = 1.0 if q is None or q.scale_f32 is None else q.scale_f32
        op.ifm2_scalar = float(op.ifm2_scalar + sc * rng.choice([1, 2, -1]))
        return field, op
    if field == "weights":
        if not conv or not op.weights:
            return None
        ws = list(op.weights)
        r = rng.random()
        if arch.ncores == 2 and r < 0.4:
            if len(ws) == 2:
                ws = ws[:1]
                op.biases = list(op.biases[:1])
            else:
                w = ws[0]
                ws = [w, a.NpuAddressRange(w.region, w.address + (w.length + 15) // 16 * 16 + 64, w.length)]
                if op.biases:
                    b = op.biases[0]
                    op.biases = [b, a.NpuAddressRange(b.region, b.address + (b.length + 15) // 16 * 16 + 32, b.length)]
        elif r < 0.7:
            w = ws[0]
            ws[0] = a.NpuAddressRange(w.region, w.address + 16 * rng.choice([1, 8, 256]), w.length)
        else:
            w = ws[-1]
            ws[-1] = a.NpuAddressRange(w.region, w.address, w.length + 16 * rng.choice([1, 5]))
        op.weights = ws
        return field, op
    if field == "biases":
        if not conv or not op.biases:
            return None
        b = op.biases[0]
        if rng.random() < 0.5:
            op.biases = [a.NpuAddressRange(b.region, b.address + 16 * rng.choice([1, 4]), b.length)] + list(op.biases[1:])
        else:
            op.biases = [a.NpuAddressRange(b.region, b.address, b.length + 16)] + list(op.biases[1:])
        return field, op
    if field == "sub_op_type":
        if pool:
            P = a.NpuPoolingOp
            if op.sub_op_type == P.REDUCE_SUM or not opts.get("pool_sub", True):
                return None
            new = P.AVERAGE if op.sub_op_type == P.MAX else P.MAX
            sib = a.NpuPoolingOperation(new)
        elif ew:
            E = a.NpuElementWiseOp
            groups = [[E.ADD, E.SUB], [E.MIN, E.MAX]]
            g = [x for x in groups if op.sub_op_type in x]
            if not g or not opts.get("ew_sub", True):
                return None
            new = [x for x in g[0] if x != op.sub_op_type][0]
            sib = a.NpuElementWiseOperation(new)
        else:
            return None
        for k_, v_ in vars(op).items():
            if k_ not in ("sub_op_type",):
                setattr(sib, k_, v_)
        return field, sib
    if field in ("ofm_depth", "ifm_depth"):
        if not isinstance(op, a.NpuConv2DOperation):
            return None
        fm = op.ofm if field == "ofm_depth" else op.ifm
        if fm.strides is not None or fm.layout != a.NpuLayout.NHWC:
            return None
        d = fm.shape.depth
        nd = rng.choice([x for x in (d + 1, d + 16, max(1, d - 1), d * 2, 16, 32) if x != d])
        fm.shape = a.NpuShape3D(height=fm.shape.height, width=fm.shape.width, depth=nd)
        return field, op
    return None


def api_op_siblings(rng, a, op, arch, k, fields=None, opts=None, accept=None):
    """up to k one-field siblings of `op`: the fields are tried in a random order (every field that applies to the operation
    is equally likely), so that over many bases every field is varied.  `accept(sibling) -> bool` filters (e.g. block config still fits).
    -> [(label, sibling)]"""
    fields = list(fields if fields is not None else ALL_FIELDS)
    is_dma = isinstance(op, a.NpuDmaOperation)
    fields = [f for f in fields if (f in DMA_FIELDS) == is_dma]
    if not fields:
        return []
    rng.shuffle(fields)
    out = []
    for f in fields:
        if len(out) >= k:
            break
        try:
            r = mutate_op(rng, a, op, arch, f, opts)
        except (AssertionError, ValueError):
            r = None
        if r is None:
            continue
        if accept is not None and not accept(r[1]):
            continue
        out.append(r)
    return out


def sibling_lists(rng, a, ops, arch, k, fields=None, opts=None, accept=None, probe=None, pick=None):
    """history placements for an operation list `ops` (already run as the BASE).
    For up to k (operation, field) choices returns (label, placement, new list):
      "after"   - the sibling is inserted right after its base in the same list (both share one generator call),
      "replace" - the list with the operation replaced (a later API call in the same process).
    `probe(sibling) -> extra operations` may append operations that make the varied field observable (C04: a DMA that
    touches the last bytes of the sibling's feature map)."""
    idxs = [i for i in range(len(ops)) if pick is None or pick(ops[i])]
    if not idxs:
        return []
    out = []
    tries = 0
    while len(out) < k and tries < 3 * k:
        tries += 1
        i = rng.choice(idxs)
        sibs = api_op_siblings(rng, a, ops[i], arch, 1, fields, opts, accept)
        if not sibs:
            continue
        label, sib = sibs[0]
        extra = list(probe(sib)) if probe is not None else []
        place = rng.choice(["after", "replace"])
        if place == "after":
            new = list(ops[:i + 1]) + [sib] + extra + list(ops[i + 1:])
        else:
            new = list(ops[:i]) + [sib] + extra + list(ops[i + 1:])
        out.append((f"{label}@{i}", place, new))
    return out
