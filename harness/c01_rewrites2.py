"""C01, rewrite streams, second part: correspondence of `lean/VelaVerif/Model/Rewrites2.lean` with the REAL lowerings of the
graph optimiser (transposed convolution, grouped convolution, MEAN, STRIDED_SLICE masks, RESIZE, PRELU, PAD -> concatenation),
called in-process on operators built from the repo's own classes.

Same scheme as `c01_rewrites.py`: (1) the real function is called, what it leaves behind is serialised; (2) the Lean model
answers the same request (`rw2_*`); (3) the Lean reference semantics (`rwsem2_*`, `Spec/RewriteSem2.lean`) is applied to the REAL
output - original operator against rewritten operator(s) on every output position / every element of the type range. Different
tensors -> VIOLATION with that input; model and real function differ but the tensors agree -> `no-failing-input-found`.
Every verdict is an answer line of the Lean driver."""
import numpy as np

import common
from c01_rewrites import Streams, f32bits


def csv(xs):
    xs = list(xs)
    return ",".join(str(int(x)) for x in xs) if xs else "-"


class Streams2(Streams):
    # ---- 8. transposed convolution ---------------------------------------------------------------------
    def stream_tconv(self, n):
        from ethosu.vela import tflite_graph_optimiser as go
        from ethosu.vela.data_type import DataType
        from ethosu.vela.operation import Op, Padding
        from ethosu.vela.tensor import create_const_tensor
        from ethosu.vela.ethos_u55_regs.ethos_u55_regs import resampling_mode

        ck, rng = self.ck, self.rng
        rows = []
        for i in range(n):
            sy, sx = rng.choice([(2, 2), (2, 2), (2, 2), (1, 2), (1, 1)])
            kh, kw = rng.randint(1, 5), rng.randint(1, 5)
            H, W = rng.randint(1, 5), rng.randint(1, 5)
            if i < 2:       # deterministic witnesses of finding transpose-conv-stride1:forward-padding-not-mirrored
                sy, sx, kh, kw, H, W = 1, 1, 2, 2, 4, 4
            if (sy, sx) == (1, 2):
                H, kh = 1, 1
            C, O = rng.choice([1, 2, 3]), rng.choice([1, 2])
            same = rng.random() < 0.5 if i >= 2 else i == 0
            if same:
                OH, OW = H * sy, W * sx
            else:
                OH, OW = H * sy + max(kh - sy, 0), W * sx + max(kw - sx, 0)
            if i >= 2 and (sy, sx) != (1, 1) and rng.random() < 0.05:       # a shape the supported-operator check would refuse: the model must agree all the same
                OH += rng.choice([1, 2])
            ifm = self.tens([1, H, W, C], DataType.int8, 0.05, 3, "ifm")
            wv = np.random.RandomState(rng.getrandbits(32)).randint(-127, 128, [kh, kw, C, O])
            wt = self.const([kh, kw, C, O], DataType.int8, wv, 0.01, 0, "w")
            bias = create_const_tensor("b", [O], DataType.int32, [0] * O)
            shp = create_const_tensor("oshape", [4], DataType.int32, [1, OH, OW, O])
            ofm = self.tens([1, OH, OW, O], DataType.int8, 0.1, 0, "ofm")
            attrs = {"padding": Padding.SAME if same else Padding.VALID, "stride_w": sx, "stride_h": sy, "strides": (1, sy, sx, 1)}
            op = self.testutil.create_op(Op.Conv2DBackpropInput, [shp, wt, ifm, bias], ofm, attrs)
            op.run_on_npu = True
            sem = None
            try:
                out = go.fixup_conv2d_backprop(op, self.arch, None)
                out = go.add_padding_fields(out, self.arch, None)
                k = out.kernel
                ksx, ksy = int(k.stride.x), int(k.stride.y)
                t, l, b, r = [int(v) for v in out.attrs["explicit_padding"]]
                up = {resampling_mode.NONE: "n", resampling_mode.TRANSPOSE: "t"}.get(out.ifm_resampling_mode, "x")
                ok_struct = out.type == Op.Conv2DBackpropInputSwitchedBias and out.ifm is ifm and out.weights is wt
                real = f"ok {int(up == 't')} {ksy} {ksx} {t} {l} {b} {r}" if ok_struct and up in "nt" else "?structure"
                if tuple(out.attrs["skirt"]) != (t, l, b, r) and up == "t":
                    real = "?skirt " + real
                sem = (f"rwsem2_tconv {int(same)} {H} {W} {C} {kh} {kw} {O} {sy} {sx} {OH} {OW} {up} {ksy} {ksx} {t} {l} {b} {r} "
                       f"{rng.getrandbits(16)}")
            except Exception as e:  # noqa: B902
                real = "raises:" + type(e).__name__
            supported = (OH, OW) == ((H * sy, W * sx) if same else (H * sy + max(kh - sy, 0), W * sx + max(kw - sx, 0)))
            rows.append((("SAME" if same else "VALID", H, W, C, kh, kw, O, sy, sx, OH, OW), f"rw2_tconv {int(same)} {kh} {kw} {sy} {sx} {H} {W} {OH} {OW}",
                         real, sem if supported else None))
        outs = self.model([r[1] for r in rows])
        sem_outs = iter(self.model([r[3] for r in rows if r[3] is not None]))
        for (desc, rq, real, sq), m in zip(rows, outs):
            self.evaluations += 1
            sm = next(sem_outs) if sq is not None else "not-a-supported-shape"
            ck.count("rw2_tconv_cases")
            ck.count("rw2_tconv_" + m.split()[0])
            self.nontrivial.add(("tconv",) + desc)
            if real.startswith("raises") and m == "none":
                ck.count("rw2_tconv_real_raises_model_none")
                continue
            if m != real or sm.startswith("fail") or sm.startswith("err"):
                # attribution (not the verdict): stride 1x1, and the real padding is the forward convolution's
                key = None
                if desc[7:9] == (1, 1) and sm.startswith("fail") and real.startswith("ok 0 1 1 "):
                    fwd = lambda k: ((k - 1) // 2, k // 2) if desc[0] == "SAME" else (0, 0)  # noqa: E731
                    (t_, b_), (l_, r_) = fwd(desc[4]), fwd(desc[5])
                    if real == f"ok 0 1 1 {t_} {l_} {b_} {r_}":
                        key = "transpose-conv-stride1:forward-padding-not-mirrored"
                self.disagree("fixup_conv2d_backprop/add_padding_fields", f"pad,H,W,C,kh,kw,O,sy,sx,OH,OW={desc}: model '{m}', real '{real}'",
                              {"stream": "tconv", "case": desc, "request": rq, "semantic_request": sq}, sm, key=key)

    # ---- 9. grouped convolution ------------------------------------------------------------------------
    def stream_groups(self, n):
        from ethosu.vela import tflite_graph_optimiser as go
        from ethosu.vela.data_type import DataType
        from ethosu.vela.operation import Op, Padding
        from ethosu.vela.tensor import create_const_tensor

        ck, rng = self.ck, self.rng
        rows = []
        for i in range(n):
            G = rng.choice([1, 2, 2, 3, 4])
            Cg, Og = rng.randint(1, 3), rng.randint(1, 3)
            C, O = G * Cg, G * Og
            kh, kw = rng.choice([(1, 1), (2, 2), (3, 3), (1, 3), (2, 1)])
            sy, sx = rng.choice([(1, 1), (1, 1), (2, 2), (1, 2)])
            H, W = rng.randint(kh, kh + 3), rng.randint(kw, kw + 3)
            same = rng.random() < 0.5
            per_channel = rng.random() < 0.5
            has_bias = rng.random() < 0.8
            ifm = self.tens([1, H, W, C], DataType.int8, 0.05, -3, "ifm")
            wv = np.random.RandomState(rng.getrandbits(32)).randint(-127, 128, [kh, kw, Cg, O])
            wt = self.const([kh, kw, Cg, O], DataType.int8, wv, 0.01, 0, "w")
            if per_channel:
                wt.quantization.scale_f32 = np.array([0.01 * (j + 1) for j in range(O)], np.float32)
                wt.quantization.zero_point = np.zeros(O, np.int64)
            bv = [rng.randint(-1000, 1000) for _ in range(O)]
            bias = self.const([O], DataType.int32, bv, 0.0005, 0, "b") if has_bias else None
            oh, ow = (-(-H // sy), -(-W // sx)) if same else ((H - kh) // sy + 1, (W - kw) // sx + 1)
            ofm = self.tens([1, oh, ow, O], DataType.int8, 0.1, 0, "ofm")
            attrs = {"padding": Padding.SAME if same else Padding.VALID, "stride_w": sx, "stride_h": sy, "dilation_w_factor": 1,
                     "dilation_h_factor": 1, "strides": (1, sy, sx, 1), "num_conv_groups": G}
            op = self.testutil.create_op(Op.Conv2DBias, [ifm, wt, bias], ofm, attrs)
            op.run_on_npu = True
            sem = None
            try:
                out = go.convert_conv_groups(op, self.arch, None)
                if out is op:
                    real = "none"
                else:
                    convs = [t.ops[0] for t in out.inputs]
                    split = convs[0].inputs[0].ops[0]
                    ok_struct = out.type == Op.ConcatTFLite and out.outputs[0] is ofm and split.type == Op.Split and split.inputs[1] is ifm and \
                        all(c.type == Op.Conv2DBias and c.attrs["num_conv_groups"] == 1 and c.inputs[0].ops[0] is split for c in convs) and \
                        int(split.attrs["num_splits"]) == G and len(split.outputs) == G
                    # the read offsets the split outputs get, the write offsets of the concatenation: by the real functions
                    go.rewrite_concat_ops(out, self.arch)
                    woffs = [int(o.write_offset.as_list()[3]) for o in ofm.ops]
                    parts, pws = [], []
                    for gi, c in enumerate(convs):
                        t = go.rewrite_split_ops(c.inputs[0], self.arch, None)
                        ro = t.ops[0].read_offsets[0].as_list()
                        nv = np.asarray(c.inputs[1].values)
                        s0, s1 = gi * Og, (gi + 1) * Og
                        if has_bias and list(np.asarray(c.inputs[2].values).reshape(-1)) != bv[s0:s1]:
                            ok_struct = False
                        if has_bias is False and c.inputs[2] is not None:
                            ok_struct = False
                        if per_channel and [f32bits(v) for v in np.asarray(c.inputs[1].quantization.scale_f32).reshape(-1)] != \
                                [f32bits(v) for v in wt.quantization.scale_f32[s0:s1]]:
                            ok_struct = False
                        if any(ro[:3]) or list(nv.shape) != [kh, kw, Cg, nv.shape[3]]:
                            ok_struct = False
                        parts.append((int(ro[3]), woffs[gi], int(nv.shape[3])))
                        pws.append(csv(nv.reshape(-1)))
                    real = f"ok {Cg} {Og} " + ",".join(f"{a}:{b}:{b + c}" for a, b, c in parts)
                    if not ok_struct:
                        real = "?structure " + real
                    sem = (f"rwsem2_groups {H} {W} {C} {O} {G} {kh} {kw} {sy} {sx} {int(same)} " + ",".join(f"{a}:{b}:{c}" for a, b, c in parts) +
                           f" {csv(wv.reshape(-1))} " + " ".join(pws) + f" {rng.getrandbits(16)}")
            except Exception as e:  # noqa: B902
                real = "raises:" + type(e).__name__ + ":" + str(e)[:60]
            rows.append(((G, Cg, Og, H, W, kh, kw, sy, sx, "SAME" if same else "VALID", per_channel, has_bias), f"rw2_groups {G} {C} {O}", real, sem))
        outs = self.model([r[1] for r in rows])
        sem_outs = iter(self.model([r[3] for r in rows if r[3] is not None]))
        for (desc, rq, real, sq), m in zip(rows, outs):
            self.evaluations += 1
            sm = next(sem_outs) if sq is not None else "not-rewritten"
            ck.count("rw2_groups_cases")
            ck.count("rw2_groups_" + m.split()[0])
            self.nontrivial.add(("groups",) + desc)
            if m != real or sm.startswith("fail") or sm.startswith("err"):
                self.disagree("convert_conv_groups", f"G,Cg,Og,H,W,kh,kw,sy,sx,pad,per-channel,bias={desc}: model '{m}', real '{real}'",
                              {"stream": "groups", "case": desc, "request": rq, "semantic_request": (sq or "")[:2000]}, sm)

    # ---- 10. MEAN ----------------------------------------------------------------------------------------
    def stream_mean(self, n):
        from ethosu.vela import tflite_graph_optimiser as go
        from ethosu.vela.data_type import DataType
        from ethosu.vela.operation import Op
        from ethosu.vela.tensor import create_const_tensor

        ck, rng = self.ck, self.rng
        rows = []
        for i in range(n):
            rank = rng.choice([4, 4, 4, 3, 2])
            r = rng.random()
            if r < 0.45:       # H and W
                shape = [1, rng.choice([1, 2, 7, 16, 63, 64, 65, 70, 100, 128, 190, 200]), rng.choice([1, 2, 5, 8, 16, 32, 40, 64, 100]), rng.choice([1, 2, 3])]
                axes = rng.choice([[1, 2], [1, 2], [1], [2]])
            elif r < 0.7:      # depth
                shape = [1, rng.choice([1, 1, 4]), rng.choice([1, 1, 5]), rng.choice([2, 8, 33])]
                if rng.random() < 0.85 and 1 not in shape[1:]:
                    shape[rng.choice([1, 2])] = 1
                axes = [3]
            else:
                shape = [1, rng.randint(1, 9), rng.randint(1, 9), rng.randint(1, 4)]
                axes = sorted(rng.sample([1, 2, 3], rng.randint(1, 2)))
            shape = shape[4 - rank:]
            axes = sorted({a - (4 - rank) for a in axes if a - (4 - rank) >= 0}) or [rank - 1]
            dt = rng.choice([DataType.int8, DataType.int8, DataType.uint8, DataType.int16])
            zpi = 0 if dt == DataType.int16 else rng.randint(*self.qrange(dt))
            zpo = 0 if dt == DataType.int16 else rng.randint(*self.qrange(dt))
            si, so = self.rand_scale(), self.rand_scale()
            if rng.random() < 0.2:
                so, zpo = si, zpi
            keep = rng.random() < 0.5
            oshape = [1 if j in axes else d for j, d in enumerate(shape)] if keep else [d for j, d in enumerate(shape) if j not in axes]
            ifm = self.tens(shape, dt, si, zpi, "ifm")
            ofm = self.tens(oshape, dt, so, zpo, "ofm")
            ax_t = create_const_tensor("axis", [len(axes)], DataType.int32, axes) if (len(axes) > 1 or rng.random() < 0.5) else \
                create_const_tensor("axis", [], DataType.int32, axes[0])
            op = self.testutil.create_op(Op.Mean, [ifm, ax_t], ofm, attrs={"keep_dims": keep})
            op.run_on_npu = True
            red = [int(j in axes) for j in range(rank)]
            s4 = [1] * (4 - rank) + shape
            r4 = [0] * (4 - rank) + red
            trivial = not any(r4[j] and s4[j] > 1 for j in range(4)) and bool(ifm.quantization.is_scaling_equal(ofm.quantization))
            sems = []
            try:
                if trivial:
                    real = real_scale = "memcpy"
                else:
                    out = go.convert_mean_to_depthwise_conv(op, self.arch, None)
                    # walk back from the final Mul
                    ok_struct = out.type == Op.Mul and out.outputs[0] is ofm and out.explicit_scaling is not None and \
                        list(out.explicit_scaling.multiplier) == [1] and out.rounding_mode is not None and out.rounding_mode.name == "TFLite"
                    scalar = int(np.asarray(out.inputs[1].values).reshape(-1)[0])
                    sv = int(out.explicit_scaling.shift[0])
                    convs, stack = [], [out.inputs[0].ops[0]]
                    while stack:
                        o2 = stack.pop()
                        if o2.type == Op.Add:
                            if o2.explicit_scaling is None or list(o2.explicit_scaling.multiplier) != [1] or list(o2.explicit_scaling.shift) != [0]:
                                ok_struct = False
                            stack += [t.ops[0] for t in o2.inputs]
                        elif o2.type == Op.DepthwiseConv2DBias:
                            convs.append(o2)
                        else:
                            ok_struct = False
                    convs.sort(key=lambda c: c.read_offsets[0].as_list()[1])
                    cdesc = []
                    for c in convs:
                        ro, rs = c.read_offsets[0].as_list(), c.read_shapes[0].as_list()
                        wsh = list(c.inputs[1].shape)
                        wvals = np.asarray(c.inputs[1].values)
                        if any(ro[j] for j in (0, 2, 3)) or not np.all(wvals == 1) or c.inputs[0] is not ifm or c.explicit_scaling is None or \
                                list(c.explicit_scaling.multiplier) != [1] or list(c.explicit_scaling.shift) != [0] or \
                                c.inputs[1].quantization.zero_point != 0 or c.outputs[0].dtype != DataType.int32:
                            ok_struct = False
                        cdesc.append((ro[1], wsh[0], rs[1], rs[2], wsh[1]))
                    i4 = convs[0].ifm_shapes[0].as_list()
                    inter = list(convs[0].outputs[0].shape)
                    kw_ = cdesc[0][4]
                    h_tot = sum(c[1] for c in cdesc)
                    if any(c[4] != kw_ for c in cdesc) or any(list(c.ifm_shapes[0].as_list()) != i4 for c in convs):
                        ok_struct = False
                    real = f"ok {csv(i4)} {csv(inter)} {h_tot} {kw_} " + ",".join(f"{a}:{b}:{c}:{d}" for a, b, c, d, _ in cdesc)
                    if not ok_struct:
                        real = "?structure " + real
                    real_scale = f"ok {scalar} {sv}"
                    nel = h_tot * kw_
                    sems.append(f"rwsem2_mean {h_tot} {kw_} " + ",".join(f"{a}:{b}" for a, b, _, _, _ in cdesc) + f" {rng.getrandbits(16)}")
                    lo, hi = self.qrange(dt)
                    smin, smax = (lo - zpi) * nel, (hi - zpi) * nel
                    step = max(1, (smax - smin) // 400)
                    sems.append(f"rwsem2_meanscale {f32bits(si)} {f32bits(so)} {nel} {scalar} {sv} {zpo} {lo} {hi} {smin} {smax} {step}")
            except Exception as e:  # noqa: B902
                real = real_scale = "raises:" + type(e).__name__ + ":" + str(e)[:60]
            rows.append(((self.dtname(dt), tuple(shape), tuple(axes), keep), f"rw2_mean {csv(shape)} {csv(red)}", real, real_scale,
                         (f32bits(si), f32bits(so)), sems, trivial))
        outs = self.model([r[1] for r in rows])
        # second request: the multiplier, with the element count the MODEL derived
        req2 = []
        for r, m in zip(rows, outs):
            nel = int(m.split()[5]) if m.startswith("ok ") else 1
            req2.append(f"rw2_meanscale {r[4][0]} {r[4][1]} {nel}")
        outs2 = self.model(req2)
        sem_outs = iter(self.model([s for r in rows for s in r[5]]))
        for (desc, rq, real, real_scale, _, sems, trivial), m, m2, rq2 in zip(rows, outs, outs2, req2):
            self.evaluations += 1
            sms = [next(sem_outs) for _ in sems]
            ck.count("rw2_mean_cases")
            self.nontrivial.add(("mean",) + desc)
            if trivial:
                ck.count("rw2_mean_memcpy")
                continue
            ck.count("rw2_mean_convs_" + str(len(m.split()[-1].split(","))) if m.startswith("ok ") else "rw2_mean_model_none")
            # the model's answer without n and hpc (not visible on the real operators)
            mt = m.split()
            m_cmp = " ".join(mt[:5] + mt[7:]) if m.startswith("ok ") else m
            if m == "none" and real.startswith("raises:AssertionError"):
                ck.count("rw2_mean_assertion")
                continue
            bad_sem = [s for s in sms if s.startswith("fail") or s.startswith("err")]
            if m_cmp != real or m2 != real_scale or bad_sem:
                self.disagree("convert_mean_to_depthwise_conv", f"dtype,shape,axes,keep_dims={desc}: model '{m_cmp}' / '{m2}', real '{real}' / '{real_scale}'",
                              {"stream": "mean", "case": desc, "request": rq, "scale_request": rq2, "semantic_requests": sems},
                              bad_sem[0] if bad_sem else (sms[0] if sms else "no-semantic-request"))

    # ---- 11. STRIDED_SLICE masks ---------------------------------------------------------------------------
    def stream_slice(self, n):
        from ethosu.vela.data_type import DataType
        from ethosu.vela.operation import Op
        from ethosu.vela.tensor import create_const_tensor
        from ethosu.vela.tflite_model_semantic import TFLiteSemantic

        ck, rng = self.ck, self.rng
        rows = []
        # which variant does the tree under test implement: values beyond the dimension stored as they are / clamped (repair C01-51)
        probe_t = create_const_tensor("probe", [1], DataType.int32, [9])
        variant = "clamp" if list(TFLiteSemantic._get_slice_offsets([4], probe_t, 0, is_begin=False)) == [4] else "raw"
        ck.count("rw2_slice_variant_" + variant)
        for i in range(n):
            rank = rng.choice([4, 4, 3, 2])
            shape = [rng.randint(1, 9) for _ in range(rank)]
            mode = rng.choice(["plain", "plain", "newaxis", "shrink", "short"])
            nm = sm = 0
            nspec = rank
            if mode == "newaxis":
                nnew = rng.randint(1, 4 - rank) if rank < 4 else 0
                nspec = rank + nnew
                for pos in rng.sample(range(nspec), nnew):
                    nm |= 1 << pos
            elif mode == "shrink":
                for pos in rng.sample(range(rank), rng.randint(1, max(1, rank - 1))):
                    sm |= 1 << pos
            elif mode == "short":
                nspec = rng.randint(1, rank)
            bm = rng.getrandbits(nspec) if rng.random() < 0.5 else 0
            em = rng.getrandbits(nspec) if rng.random() < 0.5 else 0
            begin, end = [], []
            idx = 0
            wild = rng.random() < 0.12           # values beyond the dimension: the reference clamps them
            for pos in range(nspec):
                if nm & (1 << pos):
                    begin.append(rng.choice([0, 0, 3])); end.append(rng.choice([0, 1, 7]))
                    continue
                d = shape[idx] if idx < rank else 1
                idx += 1
                b = rng.randint(0, d - 1)
                e = rng.randint(b + 1, d)
                if wild and rng.random() < 0.4:
                    e = d + rng.randint(1, 5)
                if wild and rng.random() < 0.2:
                    b = -d - rng.randint(1, 3)
                if rng.random() < 0.35:
                    b -= d
                if rng.random() < 0.35 and e != d:      # e == d has no negative form
                    e -= d
                begin.append(b); end.append(e)
            inp = self.tens(shape, DataType.int8, 0.05, 1, "in")
            bt = create_const_tensor("begin", [nspec], DataType.int32, begin)
            et = create_const_tensor("end", [nspec], DataType.int32, end)
            st = create_const_tensor("strides", [nspec], DataType.int32, [1] * nspec)
            out_t = self.tens([1], DataType.int8, 0.05, 1, "out")
            attrs = {"ellipsis_mask": 0, "new_axis_mask": nm, "shrink_axis_mask": sm, "begin_mask": bm, "end_mask": em}
            op = self.testutil.create_op(Op.StridedSlice, [inp, bt, et, st], out_t, attrs=attrs, set_ifm_ofm_shapes=False)
            sem = None
            try:
                valid, _ = TFLiteSemantic.constraint_slice_ranges(op)
                ob, oe = [int(v) for v in op.attrs["offset_begin"]], [int(v) for v in op.attrs["offset_end"]]
                real = f"ok {csv(ob)} {csv(oe)} {int(bool(valid))}"
                if valid:
                    sem = f"rwsem2_slice {csv(shape)} {csv(begin)} {csv(end)} {bm} {em} {sm} {nm} {csv(ob)} {csv(oe)}"
            except Exception as e:  # noqa: B902
                real = "raises:" + type(e).__name__
            rows.append(((mode, tuple(shape), tuple(begin), tuple(end), bm, em, sm, nm), f"rw2_slice {variant} {csv(shape)} {csv(begin)} {csv(end)} {bm} {em} {sm} {nm}",
                         real, sem, wild))
        outs = self.model([r[1] for r in rows])
        sem_outs = iter(self.model([r[3] for r in rows if r[3] is not None]))
        for (desc, rq, real, sq, wild), m in zip(rows, outs):
            self.evaluations += 1
            sm_ = next(sem_outs) if sq is not None else "not-valid"
            ck.count("rw2_slice_cases")
            ck.count("rw2_slice_" + desc[0])
            ck.count("rw2_slice_valid" if sq is not None else "rw2_slice_rejected")
            self.nontrivial.add(("slice",) + desc)
            if m != real or sm_.startswith("fail") or sm_.startswith("err"):
                key = "strided-slice:begin-end-beyond-the-dimension-not-clamped" if (m == real and wild and sm_.startswith("fail")) else None
                self.disagree("_get_slice_offsets/constraint_slice_ranges", f"mode,shape,begin,end,begin_mask,end_mask,shrink,new_axis={desc}: model '{m}', real '{real}'",
                              {"stream": "slice", "case": desc, "request": rq, "semantic_request": sq}, sm_, key=key)

    # ---- 13. PRELU -------------------------------------------------------------------------------------------
    def stream_prelu(self, n):
        from ethosu.vela import tflite_graph_optimiser as go
        from ethosu.vela.data_type import DataType
        from ethosu.vela.operation import Op

        ck, rng = self.ck, self.rng
        rows = []
        for i in range(n):
            dt = rng.choice([DataType.int8, DataType.int8, DataType.uint8, DataType.int16])
            lo, hi = self.qrange(dt)
            adt = dt
            alo, ahi = self.qrange(adt)
            C = rng.choice([1, 4, 8])
            kind = rng.choice(["uniform", "uniform", "uniform0", "small", "big", "nonconst"])
            za = 0 if adt == DataType.int16 else rng.choice([0, 0, rng.randint(alo, ahi)])
            sa = float(np.float32(2.0 ** -rng.randint(5, 9) * rng.uniform(1.0, 1.9)))
            if kind == "uniform":
                q = rng.randint(alo, ahi)
                av = [q] * C
            elif kind == "uniform0":
                av = [za] * C
            elif kind == "small":       # every alpha below one
                top = min(ahi, za + int(0.99 / sa))
                av = [rng.randint(alo, max(alo, top)) for _ in range(C)]
            else:
                av = [rng.randint(alo, ahi) for _ in range(C)]
            eq = rng.random() < 0.4
            si = self.rand_scale()
            zi = 0 if dt == DataType.int16 else rng.randint(lo, hi)
            so, zo = (si, zi) if eq else (self.rand_scale() * 1.3, 0 if dt == DataType.int16 else rng.randint(lo, hi))
            ifm = self.tens([1, 2, 2, C], dt, si, zi, "ifm")
            ofm = self.tens([1, 2, 2, C], dt, so, zo, "ofm")
            alpha = self.const([1, 1, C], adt, np.array(av).reshape(1, 1, C), sa, za, "alpha")
            if kind == "nonconst":
                alpha = self.tens([1, 1, C], adt, sa, za, "alpha_var")
            op = self.testutil.create_op(Op.Prelu, [ifm, alpha], ofm, attrs={})
            op.run_on_npu = True
            real_eq = bool(ifm.quantization.is_scaling_equal(ofm.quantization))
            sem = None
            try:
                out = go.convert_prelu(op, self.arch, None)
                if out.type == Op.Relu:
                    real = "ok relu"
                elif out.type == Op.LeakyRelu:
                    a_, m_, s_ = out.attrs["alpha_scaling"]
                    real = f"ok lrelu {int(a_)}"
                    if dt != DataType.int16:
                        # the table the next rewrite builds from `alpha_scaling`, against the reference PRELU on the whole type range
                        lut_op = go.convert_lrelu(out, self.arch, None)
                        if lut_op.activation_lut is not None:
                            tbl = [int(x) for x in np.asarray(lut_op.activation_lut.values).reshape(-1)]
                            sem = (f"rwsem2_prelu_lut {zi} {zo} {av[0]} {za} {f32bits(si)} {f32bits(sa)} {f32bits(so)} {lo} {hi} " + " ".join(map(str, tbl)))
                        else:
                            real += " ?no-lut:" + lut_op.type.name
                elif out.type == Op.Maximum:
                    mul = out.inputs[0].ops[0]
                    second = out.inputs[1]
                    idm = int(second is not ifm)
                    ok_struct = mul.type == Op.Mul and mul.inputs[0] is ifm and mul.inputs[1] is alpha and \
                        (second is ifm or (second.ops[0].type == Op.Mul and second.ops[0].inputs[0] is ifm and
                                           int(np.asarray(second.ops[0].inputs[1].values).reshape(-1)[0]) == 1))
                    real = f"ok mulmax {idm}" if ok_struct else "?max-structure"
                elif out.type == Op.Add:
                    mul, relu = out.inputs[0].ops[0], out.inputs[1].ops[0]
                    mn = mul.inputs[0].ops[0] if mul.inputs[0].ops else None
                    ok_struct = mul.type == Op.Mul and mul.inputs[1] is alpha and relu.type == Op.Relu and relu.inputs[0] is ifm and mn is not None and \
                        mn.type == Op.Minimum and mn.inputs[0] is ifm and int(np.asarray(mn.inputs[1].values).reshape(-1)[0]) == 0 and \
                        mn.inputs[1].quantization.zero_point == 0 and out.explicit_scaling is not None and \
                        list(out.explicit_scaling.multiplier) == [1] and list(out.explicit_scaling.shift) == [0]
                    real = "ok minmulreluadd" if ok_struct else "?add-structure"
                else:
                    real = "?" + out.type.name
            except Exception as e:  # noqa: B902
                real = "raises:" + type(e).__name__ + ":" + str(e)[:50]
            rows.append(((self.dtname(dt), kind, C, tuple(av[:3]), za, real_eq), f"rw2_prelu {int(kind != 'nonconst')} {min(av)} {max(av)} {za} {f32bits(sa)} {int(real_eq)}",
                         real, sem))
        outs = self.model([r[1] for r in rows])
        sem_outs = iter(self.model([r[3] for r in rows if r[3] is not None]))
        for (desc, rq, real, sq), m in zip(rows, outs):
            self.evaluations += 1
            sm = next(sem_outs) if sq is not None else "no-table"
            ck.count("rw2_prelu_cases")
            ck.count("rw2_prelu_" + (m.split()[1] if m.startswith("ok ") else m))
            if sq is not None:
                ck.count("rw2_prelu_tables_judged")
            self.nontrivial.add(("prelu",) + desc)
            if m != real or sm.startswith("fail") or sm.startswith("err"):
                self.disagree("convert_prelu", f"dtype,kind,C,alpha,alpha zp,scaling equal={desc}: model '{m}', real '{real}'",
                              {"stream": "prelu", "case": desc, "request": rq, "semantic_request": (sq or "")[:3000]}, sm)

    # ---- 12. RESIZE as 2x upscalings and one average pool -----------------------------------------------------
    def stream_resize(self, n):
        from ethosu.vela import tflite_graph_optimiser as go
        from ethosu.vela.data_type import DataType
        from ethosu.vela.ethos_u55_regs.ethos_u55_regs import resampling_mode
        from ethosu.vela.operation import Op, Padding
        from ethosu.vela.tensor import create_const_tensor

        ck, rng = self.ck, self.rng
        rows = []
        for i in range(n):
            bilinear = rng.random() < 0.5
            align = rng.random() < 0.4
            half = (not bilinear) and (not align) and rng.random() < 0.4
            nlog = rng.choice([1, 1, 2, 3])
            k = 2 ** nlog
            H, W = rng.randint(2, 5), rng.randint(2, 5)
            C = rng.choice([1, 3])
            OH, OW = ((H - 1) * k + 1, (W - 1) * k + 1) if align else (H * k, W * k)
            ifm = self.tens([1, H, W, C], DataType.int8, 0.05, 3, "ifm")
            ofm = self.tens([1, OH, OW, C], DataType.int8, 0.05, 3, "ofm")
            size_t = create_const_tensor("size", [2], DataType.int32, [OH, OW])
            attrs = {"align_corners": align, "half_pixel_centers": half, "upscale_factor": k}
            op = self.testutil.create_op(Op.ResizeBilinear if bilinear else Op.ResizeNearestNeighbor, [ifm, size_t], ofm, attrs)
            op.run_on_npu = True
            sem = None
            try:
                go.convert_resize_to_upscale_and_average_pool(op)
                chain, cur = [], ofm.ops[0]
                while True:
                    chain.append(cur)
                    if cur.inputs[0] is ifm or not cur.inputs[0].ops:
                        break
                    cur = cur.inputs[0].ops[0]
                chain.reverse()
                ok_struct = chain[0].inputs[0] is ifm and all(c.ifm_resampling_mode == resampling_mode.NEAREST for c in chain)
                shapes = [tuple(c.outputs[0].shape[1:3]) for c in chain[:-1]]
                for c in chain[:-1]:
                    if c.type not in (Op.ResizeBilinear, Op.ResizeNearestNeighbor) or tuple(c.attrs["ksize"][1:3]) != (1, 1):
                        ok_struct = False
                last = chain[-1]
                dww, mode, pads = "-", "c", (0, 0, 0, 0)
                if last.type == Op.DepthwiseConv2DBias:
                    wv = np.asarray(last.inputs[1].values)
                    kk = int(wv.shape[0])
                    flat = wv[:, :, 0, 0].reshape(-1)
                    ones = [j for j, v in enumerate(flat) if v == 1]
                    same_all = all(np.array_equal(wv[:, :, 0, ch], wv[:, :, 0, 0]) for ch in range(wv.shape[3]))
                    lastd = f"dwselect:{kk}:{ones[0]}" if len(ones) == 1 and int(np.abs(flat).sum()) == 1 and same_all else f"?weights{list(flat)}"
                    dww, mode = csv(flat), "v"
                    if last.attrs["padding"] != Padding.VALID:
                        ok_struct = False
                else:
                    kk = int(last.attrs["ksize"][1])
                    if tuple(last.attrs["ksize"][1:3]) != (kk, kk):
                        ok_struct = False
                    if kk == 1:
                        lastd = "copy"
                    elif last.attrs["padding"] == Padding.VALID:
                        lastd, mode = f"avgvalid:{kk}", "v"
                    elif last.attrs["padding"] == Padding.EXPLICIT:
                        pads = tuple(int(v) for v in last.attrs["explicit_padding"])
                        lastd, mode = (f"avgpadded:{kk}" if pads == (0, 0, kk - 1, kk - 1) else f"?pads{pads}"), "e"
                    else:
                        lastd = "?padding"
                real = f"ok {len(chain)} " + (",".join(f"{a}:{b}" for a, b in shapes) if shapes else "-") + " " + lastd
                if not ok_struct:
                    real = "?structure " + real
                sem = (f"rwsem2_resize {'b' if bilinear else 'n'} {int(align)} {int(half)} {H} {W} {len(chain)} {kk} {mode} "
                       f"{pads[0]} {pads[1]} {pads[2]} {pads[3]} {dww} {rng.getrandbits(16)}")
            except Exception as e:  # noqa: B902
                real = "raises:" + type(e).__name__ + ":" + str(e)[:50]
            rows.append((("bilinear" if bilinear else "nearest", align, half, H, W, C, k), f"rw2_resize {int(bilinear)} {int(align)} {H} {W} {nlog}", real, sem))
        outs = self.model([r[1] for r in rows])
        sem_outs = iter(self.model([r[3] for r in rows if r[3] is not None]))
        for (desc, rq, real, sq), m in zip(rows, outs):
            self.evaluations += 1
            sm = next(sem_outs) if sq is not None else "no-semantic-request"
            ck.count("rw2_resize_cases")
            ck.count("rw2_resize_" + m.split()[-1].split(":")[0])
            self.nontrivial.add(("resize",) + desc)
            if m != real or sm.startswith("fail") or sm.startswith("err"):
                self.disagree("convert_resize_to_upscale_and_average_pool", f"kind,align_corners,half_pixel,H,W,C,factor={desc}: model '{m}', real '{real}'",
                              {"stream": "resize", "case": desc, "request": rq, "semantic_request": sq}, sm)

    # ---- driver ------------------------------------------------------------------------------------
    def run(self):
        t = self.ck.thorough
        self.stream_tconv(2000 if t else 400)
        self.stream_groups(1000 if t else 200)
        self.stream_mean(2000 if t else 400)
        self.stream_slice(4000 if t else 800)
        self.stream_prelu(2000 if t else 400)
        self.stream_resize(1000 if t else 200)


def run(ck, base=None):
    s = Streams2(ck)
    s.run()
    if base is not None:       # the totals of check_C01 are read from the first stream object
        base.evaluations += s.evaluations
        base.nontrivial |= s.nontrivial
        base.disagreements += s.disagreements
    return s
