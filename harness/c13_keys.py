"""Sharper keys for C13 crash sites inside utility modules.

A crash whose innermost repository frame lies in a module of helper arithmetic (fp_math, scaling, numeric_util) is keyed
`<Exc>@<module>.<function>:<caller>` where <caller> is the innermost frame OUTSIDE those modules — the lowering that handed
the helper a value outside its domain.  A different lowering reaching the same helper is then a different (unrecorded) key."""
import re

UTILITY_MODULES = ("fp_math", "scaling", "numeric_util")


def refine(site, o):
    mod = site.split("@")[-1].split(".")[0]
    if mod not in UTILITY_MODULES:
        return site
    frames = re.findall(r'File "([^"]+)", line \d+, in (\S+)', o.get("tb") or "")
    for f, fn in reversed(frames):
        if "/ethosu/" in f and not f.endswith(tuple(m + ".py" for m in UTILITY_MODULES)):
            return site + ":" + fn
    return site
