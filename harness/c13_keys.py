"""Sharper keys for C13 crash sites inside utility modules.

A crash whose innermost repository frame lies in a module of helper arithmetic (fp_math, scaling, numeric_util) is keyed
`<Exc>@<module>.<function>:<caller>` where <caller> is the innermost frame OUTSIDE those modules — the lowering that handed
the helper a value outside its domain.  A different lowering reaching the same helper is then a different (unrecorded) key."""
import re

UTILITY_MODULES = ("fp_math", "scaling", "numeric_util")


_known = None


def refine(site, o):
    global _known
    mod = site.split("@")[-1].split(".")[0]
    if site == "AssertionError@tensor.address_for_coordinate":
        # a STRIDED_SLICE begin value below -dim (the reference clamps it, Vela reads from a negative coordinate)
        import gen_ssmask

        if "begin" in gen_ssmask.out_of_range(((o.get("desc") or {}).get("desc")) or []):
            return site + ":strided-slice-begin-below-minus-dim"
    if site in ("IndexError@tflite_graph_optimiser.rewrite_split_ops", "AssertionError@tensor.address_for_coordinate",
                "AssertionError@high_level_command_stream.__init__"):
        # rank sweep (gen_ranksweep.py): UNPACK with a negative axis (patch C13-50), SLICE with a size of -1 (patch C13-51)
        desc = [str(x) for x in (((o.get("desc") or {}).get("desc")) or [])]
        if any(re.match(r"unpack rank=\d+ axis=-", x) for x in desc):
            return site + ":unpack-negative-axis"
        if any(re.match(r"slice rank=\d+ begin=\[.*\] size=\[[^\]]*-1", x) for x in desc):
            return site + ":slice-size-minus-one"
    if mod not in UTILITY_MODULES:
        return site
    if _known is None:
        import common

        _known = {k["key"] for k in common.load_known_findings() if k["property"] == "C13"}
    if site in _known:
        return site          # recorded before the refinement existed (TypeError@scaling.quantise_scale)
    frames = re.findall(r'File "([^"]+)", line \d+, in (\S+)', o.get("tb") or "")
    for f, fn in reversed(frames):
        if "/ethosu/" in f and not f.endswith(tuple(m + ".py" for m in UTILITY_MODULES)):
            return site + ":" + fn
    return site
