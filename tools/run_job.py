#!/venv/bin/python
"""Run pipeline jobs (seed, index, profile) outside a check and print the Lean stream / inference verdicts.
usage: VERIF_REPO=<tree> tools/run_job.py <profile> <seed> <index>[..<index2>] [--full]
Development aid for the network generators: shows the network, the options, the compiler status and what
`streamcheck` (C02 bounds / C03 tagged memory) says about every emitted stream."""
import os
import sys

sys.path.insert(0, os.path.join(os.path.dirname(os.path.abspath(__file__)), "..", "harness"))
import common  # noqa: E402
import pipe_common  # noqa: E402
import pipeline  # noqa: E402


def main():
    args = [a for a in sys.argv[1:] if not a.startswith("--")]
    full = "--full" in sys.argv
    profile, seed = args[0], int(args[1])
    lo, _, hi = args[2].partition("..")
    idxs = range(int(lo), int(hi or lo) + 1)
    pipeline.load_vela()
    for idx in idxs:
        o = pipe_common._worker((seed, idx, profile, {"stream": True, "inference": True}))
        if "harness_exception" in o:
            print(idx, "HARNESS", o["harness_exception"])
            continue
        print(f"--- {profile} seed={seed} idx={idx} status={o['status']} {o.get('exc', '')} site={o.get('exc_site')}")
        print("   net:", o["desc"]["name"], o["desc"]["ops"], o["desc"]["inputs"], " ".join(map(str, o["desc"]["desc"])))
        print("   opts:", " ".join(o["opts"][1:]), "| npu_ops:", o.get("npu_ops"), "features:", o.get("features"))
        if o.get("harness_errors"):
            print("   HARNESS-ERRORS", o["harness_errors"][0])
        if o["status"] != "ok" and full:
            print(o.get("tb"))
        lines = o.get("stream_lines", [])
        if lines:
            for a in common.run_model(lines):
                print("   stream:", a if full else a[:300])
        if o.get("inference_line"):
            a = common.run_model([o["inference_line"]])[0]
            print("   inference:", a if full else a[:300])


main()
