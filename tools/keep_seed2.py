#!/usr/bin/env python3
"""usage: tools/keep_seed2.py <prefix: seed|seed2> <Cxx> <mN> <kept id> "<verdict text>"
Copy a confirmed seeded change (patch, demo, meta) into seeded/<kept id>/ together with what the checks printed
(tests.txt from tools/seed_tests.sh, check_*.txt from tools/seed_checks.sh)."""
import glob, json, os, re, shutil, sys
V = os.path.dirname(os.path.dirname(os.path.abspath(__file__)))
pfx, pid, m, kid, verdict = sys.argv[1:6]
src = f"/tmp/{pfx}_{pid}_out/{m}"
dst = os.path.join(V, "seeded", kid)
os.makedirs(dst, exist_ok=True)
for f in ("patch.diff", "demo.py", "patch_rebased.diff"):
    if os.path.exists(os.path.join(src, f)):
        shutil.copy(os.path.join(src, f), os.path.join(dst, f))
meta = json.load(open(os.path.join(src, "meta.json")))
tests = open(os.path.join(src, "tests.txt")).read().strip() if os.path.exists(os.path.join(src, "tests.txt")) else ""
meta["confirmed_by_coordinator"] = ("patch applies to /repo HEAD; repo test suite unchanged; demo exits non-zero with the patch and 0 without: " + tests)
runs = {}
for f in sorted(glob.glob(os.path.join(src, "check_*.txt"))):
    txt = open(f).read()
    viol = [l for l in txt.split("\n") if l.startswith("VIOLATION")]
    why = [l[:300] for l in txt.split("\n") if l.startswith("# ")][:2]
    tail = [l for l in txt.strip().split("\n") if l.startswith("[")][-1:] or [""]
    runs[os.path.basename(f)[6:-4]] = {"violations": len(viol), "first_reports": why, "summary": tail[0][:200]}
meta["checks_run"] = runs
meta["verdict"] = verdict
json.dump(meta, open(os.path.join(dst, "meta.json"), "w"), indent=1)
print("kept", dst)
