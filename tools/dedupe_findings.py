#!/usr/bin/env python3
"""known_findings.txt is merged with the union driver, so a `finding:` line that a branch replaced by a `fixed:` line
comes back when another branch still carries it. Drop every `finding:` line whose description (or key) is quoted by a
`fixed:` line of the same property, and exact duplicate lines."""
import os, re
p = os.path.join(os.path.dirname(os.path.dirname(os.path.abspath(__file__))), "known_findings.txt")
L = open(p).read().split("\n")
fixed = [l for l in L if l.startswith("fixed:")]
out, seen = [], set()
for l in L:
    if l.startswith("finding:"):
        m = re.match(r"finding: property=(C\d+) key=(\S+) (.*)", l)
        if m:
            pr, k, d = m.groups()
            if any(f"property={pr} " in f and (d[:140] in f or ("key=" + k) in f or (" " + k + " ") in f) for f in fixed):
                print("dropped stale finding", pr, k)
                continue
    if l and l in seen:
        continue
    seen.add(l)
    out.append(l)
open(p, "w").write("\n".join(out))
