#!/bin/sh
# usage: PFX=seed2 TIER=quick tools/seed_checks.sh <Cxx> <mN> [checks] — apply the seeded patch in the evaluation worktree /tmp/evalwt and run checks against it
cd "$(dirname "$0")/.." || exit 2
P=$1; M=$2; shift 2; CHECKS=${*:-$P}; PFX=${PFX:-seed}; OUT=/tmp/${PFX}_${P}_out/$M; WT=${EVALWT:-/tmp/evalwt}
[ -d $WT ] || git -C /repo worktree add -q --detach $WT main
git -C $WT checkout -q -- . ; git -C $WT checkout -q --detach main; git -C $WT apply $OUT/patch.diff || { echo "SEEDCHK $P/$M patch does not apply"; exit 2; }
cp -n /repo/ethosu/mlw_codec.cpython-312-x86_64-linux-gnu.so $WT/ethosu/ 2>/dev/null
RES=""
for c in $CHECKS; do
  VERIF_REPO=$WT timeout 3000 ./check $c ${TIER:-quick} > $OUT/check_${c}_${TIER:-quick}.txt 2>&1; rc=$?
  RES="$RES $c:rc=$rc:$(grep -c '^VIOLATION' $OUT/check_${c}_${TIER:-quick}.txt)viol"
done
git -C $WT checkout -q -- .
echo "SEEDCHK $PFX $P/$M checks:$RES"
