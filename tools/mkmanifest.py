#!/usr/bin/env python3
"""Assemble MANIFEST.json from manifest.d/_base.json, manifest.d/Cxx.json and manifest.d/not_applicable.json."""
import json, os, glob
V = os.path.dirname(os.path.dirname(os.path.abspath(__file__)))
base = json.load(open(os.path.join(V, "manifest.d", "_base.json")))
checks = []
for p in sorted(glob.glob(os.path.join(V, "manifest.d", "C*.json"))):
    checks.append(json.load(open(p)))
base["checks"] = checks
claimed = {c["property_id"] for c in checks}
na_path = os.path.join(V, "manifest.d", "not_applicable.json")
na = json.load(open(na_path)) if os.path.exists(na_path) else []
ids = [json.loads(l)["id"] for l in open(os.path.join(V, "properties.jsonl"))]
na = [e for e in na if e["property_id"] not in claimed]
for i in ids:
    if i not in claimed and i not in {e["property_id"] for e in na}:
        na.append({"property_id": i, "reason": "not yet claimed: check under construction (see DESIGN.md section 5)"})
base["not_applicable"] = sorted(na, key=lambda e: e["property_id"])
json.dump(base, open(os.path.join(V, "MANIFEST.json"), "w"), indent=1)
print("MANIFEST.json:", len(checks), "checks,", len(na), "not_applicable")
