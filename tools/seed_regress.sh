#!/bin/sh
# usage: tools/seed_regress.sh [lanes=4] [tier=quick] [glob=*]
# Regression sweep: every seeded/<id>/patch.diff is applied in a scratch worktree of /repo and the
# owning check (meta.json "property", plus "also_checks" when present) is run against it from a
# scratch copy of /verif (own .lake, so lanes do not share generated tables or the driver).
# Writes /tmp/seedreg/<id>.txt and prints one line per seeded change; removes its scratch trees.
cd "$(dirname "$0")/.." || exit 2
LANES=${1:-4}; TIER=${2:-quick}; GLOB=${3:-*}
OUT=/tmp/seedreg; mkdir -p $OUT
ls -d seeded/$GLOB | sort > $OUT/list.txt
lane() {
  k=$1; V=/tmp/seedreg_v$k; W=/tmp/seedreg_w$k
  rm -rf $V; mkdir -p $V; git ls-files | rsync -a --files-from=- . $V/; rsync -a lean/.lake $V/lean/
  git -C /repo worktree remove --force $W 2>/dev/null; git -C /repo worktree add -q --detach $W HEAD || exit 2
  cp /repo/ethosu/*.so $W/ethosu/ 2>/dev/null
  awk -v k=$k -v n=$LANES 'NR%n==k%n' $OUT/list.txt | while read d; do
    id=$(basename $d); P=$(python3 -c "import json,sys;m=json.load(open('$d/meta.json'));print(' '.join([m.get('property') or '$id'.split('-')[0]]+m.get('also_checks',[])))")
    git -C $W checkout -q -- . ; git -C $W clean -fdq -e '*.so'
    if ! git -C $W apply $PWD/$d/patch.diff 2>$OUT/$id.apply; then echo "SEEDREG $id patch-does-not-apply"; continue; fi
    RES=""
    for c in $P; do
      (cd $V && VERIF_REPO=$W timeout 3000 ./check $c $TIER > $OUT/$id.$c.txt 2>&1); rc=$?
      RES="$RES $c:rc=$rc:$(grep -c '^VIOLATION' $OUT/$id.$c.txt)viol:$(grep -c 'no-failing-input-found' $OUT/$id.$c.txt)nofi"
    done
    echo "SEEDREG $id$RES"
  done
  git -C /repo worktree remove --force $W; rm -rf $V
}
for k in $(seq 1 $LANES); do lane $k & done
wait
