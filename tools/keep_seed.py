#!/usr/bin/env python3
"""usage: tools/keep_seed.py <Cxx> <mN> "<what I ran and what caught it>"  — copy a confirmed seeded change into seeded/"""
import json, os, shutil, sys
V = os.path.dirname(os.path.dirname(os.path.abspath(__file__)))
pid, m, ran = sys.argv[1], sys.argv[2], sys.argv[3]
src = f"/tmp/seed_{pid}_out/{m}"
dst = os.path.join(V, "seeded", f"{pid}-{m}")
os.makedirs(dst, exist_ok=True)
for f in ("patch.diff", "demo.py"):
    shutil.copy(os.path.join(src, f), os.path.join(dst, f))
meta = json.load(open(os.path.join(src, "meta.json")))
meta["confirmed_by_coordinator"] = "patch applies to /repo HEAD at seeding time; test suite unchanged (539 passed, same 4 failing); demo exits non-zero with the patch and 0 without"
meta["checks_run"] = ran
json.dump(meta, open(os.path.join(dst, "meta.json"), "w"), indent=1)
print("kept", dst)
