#!/bin/sh
# usage: tools/benign_eval.sh <lanes> — harmless (behaviour-preserving) changes /tmp/benign_*_out/hN/patch.diff: apply each in a scratch
# worktree and run the quick tier of every check whose property anchors a changed file (plus C14, C13) from a private copy of /verif.
# A non-zero exit on such a change is a false alarm (or, by the rules of the task, a broken correspondence to be reported as such).
cd "$(dirname "$0")/.." || exit 2
LANES=${1:-4}; OUT=/tmp/benignreg; mkdir -p $OUT
ls -d /tmp/benign_*_out/h* | sort > $OUT/list.txt
lane() {
  k=$1; V=/tmp/benignreg_v$k; W=/tmp/benignreg_w$k
  rm -rf $V; mkdir -p $V; git ls-files | rsync -a --files-from=- . $V/; rsync -a lean/.lake $V/lean/
  git -C /repo worktree remove --force $W 2>/dev/null; git -C /repo worktree add -q --detach $W HEAD || exit 2
  cp /repo/ethosu/*.so $W/ethosu/ 2>/dev/null
  awk -v k=$k -v n=$LANES 'NR%n==k%n' $OUT/list.txt | while read d; do
    id=$(echo $d | sed 's#/tmp/benign_\(b[0-9]*\)_out/\(h[0-9]*\)#\1\2#')
    git -C $W checkout -q -- . ; git -C $W clean -fdq -e '*.so'
    if ! git -C $W apply $d/patch.diff 2>$OUT/$id.apply; then echo "BENIGN $id patch-does-not-apply"; continue; fi
    FILES=$(git -C $W diff --name-only | tr '\n' ' ')
    CH=$(python3 - "$FILES" <<'P'
import json,sys
files=sys.argv[1].split()
s=set(["C14","C13"])
for l in open('properties.jsonl'):
    p=json.loads(l)
    if any(f in (p.get('anchors',{}).get('files') or []) for f in files): s.add(p['id'])
print(' '.join(sorted(s)))
P
)
    RES=""
    for c in $CH; do
      (cd $V && VERIF_REPO=$W timeout 3000 ./check $c quick > $OUT/$id.$c.txt 2>&1); rc=$?
      [ $rc -ne 0 ] && RES="$RES $c:rc=$rc:$(grep -c '^VIOLATION' $OUT/$id.$c.txt)viol:$(grep -c 'no-failing-input-found' $OUT/$id.$c.txt)nofi"
    done
    echo "BENIGN $id files=[$FILES] checks=[$CH] alarms:[$RES ]"
  done
  git -C /repo worktree remove --force $W; rm -rf $V
}
for k in $(seq 1 $LANES); do lane $k & done
wait
