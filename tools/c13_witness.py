#!/venv/bin/python
"""Compile the deterministic witnesses of harness/extremes_gen.WITNESSES with the tree under test (VERIF_REPO) and print, per
witness, the recorded key and the crash site observed now ("ok" = the site is repaired in this tree)."""
import os
import sys

sys.path.insert(0, os.path.join(os.path.dirname(os.path.abspath(__file__)), "..", "harness"))
import common  # noqa: E402,F401
import c13_keys  # noqa: E402
import extremes_gen  # noqa: E402
import netgen  # noqa: E402
import pipe_common  # noqa: E402
import pipeline  # noqa: E402

pipeline.load_vela()
bad = 0
for key, build in extremes_gen.WITNESSES.items():
    for acc in (sys.argv[1:] or ["ethos-u55-128", "ethos-u65-512"]):
        res = pipeline.compile_net(netgen.serialize(build()), ["--accelerator-config", acc], introspect=False)
        pipeline.reset_process_state()
        site = pipe_common.exc_site(res.tb, res.exc) if res.status == "internal-exception" else res.status
        site = c13_keys.refine(site, {"tb": res.tb})
        if key.startswith("fixed:"):
            same = res.status != "internal-exception"
            print(f"{'repaired  ' if same else 'REGRESSED '} {key} [{acc}]: {site} {str(res.exc)[:100] if res.exc else ''}")
        else:
            same = key == site or key.startswith(site + ":")
            print(f"{'reproduced' if same else 'DIFFERENT '} {key} [{acc}]: {site} {str(res.exc)[:100] if res.exc else ''}")
        bad += not same
sys.exit(1 if bad else 0)
