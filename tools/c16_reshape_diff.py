#!/venv/bin/python
"""Exploration tool (not part of a check): compile every `X` and `X [then RESHAPE | EXPAND_DIMS/SQUEEZE]` network of the thorough C16
generator and compare the NPU operations the compiler emits (kinds, IFM / IFM2 / OFM extents, kernel): a bypassed memory-only operator must not
change them.  usage: cd harness && [VERIF_REPO=...] /venv/bin/python ../tools/c16_reshape_diff.py [seed] [label prefix]"""
import sys,random,collections,os,time,tempfile,multiprocessing
sys.path.insert(0,'.')
tempfile.tempdir="/dev/shm"
import common; common.build_mlw_codec(); common.setup_repo_path()
import c16_nets, netgen, pipeline, pipe_common
pipeline.load_vela()
seed=int(sys.argv[1]) if len(sys.argv)>1 else 0
filt=sys.argv[2] if len(sys.argv)>2 else ""
nets=c16_nets.cases(random.Random(seed*7919+16),True)
def sig(res):
    out=[]
    for art in res.streams:
        for op in art.npu_ops:
            f=lambda fm: None if fm is None else (fm.shape.height,fm.shape.width,fm.shape.depth)
            k=getattr(op,"kernel",None)
            out.append((type(op).__name__, str(getattr(op,"sub_op_type","")), f(getattr(op,"ifm",None)), f(getattr(op,"ifm2",None)), f(getattr(op,"ofm",None)),
                        (k.width,k.height,k.stride_x,k.stride_y) if k is not None else None))
    return out
def job(j):
    label,data,acc=j
    try:
        res=pipeline.compile_net(data,["--accelerator-config",acc],name="n")
        r=(label,res.status, sig(res) if res.status=="ok" else pipe_common.exc_site(res.tb,res.exc))
        pipeline.reset_process_state()
        return r
    except BaseException as e:
        return (label,"harness",repr(e))
base={}
jobs=[]
for idx,(l,n) in enumerate(nets):
    if filt and not l.startswith(filt): continue
    if "[" in l and not ("[then RESHAPE]" in l or "[then EXPAND_DIMS/SQUEEZE]" in l): continue
    if l.startswith("core") or l.startswith("random") or l.startswith("pattern"): continue
    try: data=netgen.serialize(n)
    except Exception: continue
    jobs.append((l,data,"ethos-u55-128"))
print(len(jobs),"jobs")
from concurrent.futures import ProcessPoolExecutor
with ProcessPoolExecutor(16, mp_context=multiprocessing.get_context("fork")) as ex:
    res=list(ex.map(job,jobs,chunksize=4))
by={l:(st,s) for l,st,s in res}
n=0;diffs=collections.Counter()
for l,(st,s) in by.items():
    if "[" not in l: continue
    b=l[:l.index(" [")]
    if b not in by: continue
    bst,bs=by[b]
    if bst!="ok": continue
    n+=1
    if st!="ok":
        diffs["crash:"+str(s)]+=1
        if diffs["crash:"+str(s)]<=4: print("CRASH",l,s)
        continue
    # alone: ops of X; with reshape: same ops expected (reshape bypassed) possibly plus a trailing copy
    strip=lambda ss:[x for x in ss if x[0]!="NpuDmaOperation"]
    a,bb=strip(s),strip(bs)
    if a[:len(bb)]!=bb:
        key=l.split(" ")[0]
        diffs["diff:"+key]+=1
        if diffs["diff:"+key]<=6: print("DIFF",l,"\n   alone:",bb,"\n   with :",a)
print(n,"pairs",dict(diffs))
