#!/bin/sh
# enumerate crash sites of the tree under test over many seeds: prints "<count> <site>" and one example per site
cd "$(dirname "$0")/.." || exit 2
from=${1:-100}; to=${2:-200}
for s in $(seq $from $to); do VERIF_SEED=$s ./check C13 quick 2>&1 | grep "^# compiler" | cut -c1-700; done > /tmp/c13_sweep_$from.txt
sed 's/.* at \([A-Za-z]*@[A-Za-z_.]*\) for.*/\1/' /tmp/c13_sweep_$from.txt | sort | uniq -c
