#!/usr/bin/env python3
"""Turn recorded `hl2npu` request lines (harness/hl2npu_examples.json: real commands of compiled networks, captured by
harness/hl2npu.py) into Lean terms: lean/VelaVerif/Lemmas/NpuOpBuildExample.lean.  Pure text transformation of the
protocol grammar of Handlers/NpuOpBuild.lean; the non-vacuity examples of Props/C06Build.lean are stated over these terms."""
import json
import os

V = os.path.dirname(os.path.dirname(os.path.abspath(__file__)))
NAMED = {"AvgPool": "avgPool", "QuantizedAvgPool": "quantizedAvgPool", "MaxPool": "maxPool", "QuantizedMaxPool": "quantizedMaxPool",
         "ReduceSum": "reduceSum", "ResizeBilinear": "resizeBilinear", "ResizeNearestNeighbor": "resizeNearest",
         "Conv2DBias": "conv2DBias", "DepthwiseConv2DBias": "depthwiseConv2DBias", "Mul": "mul", "Add": "add", "Sub": "sub",
         "Minimum": "minimum", "Maximum": "maximum", "LeakyRelu": "leakyRelu", "Abs": "abs", "CLZ": "clz", "SHR": "shr", "SHL": "shl",
         "Quantize": "quantize", "Transpose": "transpose"}
BT = ["default", "convMxN", "vectorProduct", "pooling", "convDepthWise", "elementWise", "reduceSum", "dma"]
MEM = ["unknown", "permanentNpu", "permanentCpu", "scratch", "scratchFast"]
FAF = {"Relu": "relu", "Relu6": "relu6", "ReluN1To1": "reluN1To1", "ReluN": "reluN", "Clip": "clip", "Clamp": "clamp", "Tanh": "tanh",
       "Sigmoid": "sigmoid", "LUT": "lut"}


def opt(s, f):
    return "none" if s == "n" else f"(some {f(s)})"


def i(x):
    x = int(x)
    return str(x) if x >= 0 else f"({x})"


def ilist(s):
    return "[" + ", ".join(i(x) for x in s.split(",") if x != "") + "]"


def fl(s):
    b, k = s.split(":")
    return f"⟨{b}, {k}⟩"


def quant(s):
    if s == "n":
        return "none"
    b, k, z, zk = s.split(":")
    sc = "none" if b == "n" else f"(some ⟨{b}, {k}⟩)"
    return f"(some ⟨{sc}, {i(z)}, {zk}⟩)"


def opt_t(s):
    name, bt = s.split("@")
    return "." + NAMED[name] if name in NAMED else f"(.other .{BT[int(bt)]})"


def dt(s):
    return "." + s if s in ("uint8", "int8", "uint16", "int16", "int32", "int64") else ".other"


def tens(s):
    t = s.split(",")
    assert t[0] == "T"
    p = 1
    n = int(t[p]); shape = t[p + 1:p + 1 + n]; p += 1 + n
    n = int(t[p]); stor = t[p + 1:p + 1 + n]; p += 1 + n
    q = t[p:p + 4]; p += 4
    fmt, elem, align, purpose, std, lin, addr = t[p:p + 7]
    return ("{ shape := [" + ", ".join(shape) + "], storageShape := [" + ", ".join(stor) + f"], quantum := ⟨{q[0]}, {q[1]}, {q[2]}, {q[3]}⟩, "
            f"fmt := .{['nhwc', 'nhcwb16', 'other'][int(fmt)]}, elemSize := {elem}, alignment := {align}, "
            f"purpose := .{['featureMap', 'weights', 'other'][int(purpose)]}, standard := {'true' if std != '0' else 'false'}, "
            f"linear := {'true' if lin != '0' else 'false'}, address := {addr} }}")


def tensd(s):
    t, d, m, q, sc, prod = s.split("/")
    pr = "none" if prod == "E" else "(some none)" if prod == "n" else f"(some (some {opt_t(prod)}))"
    return (f"{{ t := {tens(t)}, dtype := {dt(d)}, memType := .{MEM[int(m)]}, quant := {quant(q)}, scalar := {opt(sc, fl)}, producer := {pr} }}")


def box(s):
    a, b = s.split(";")
    return f"⟨{ilist(a)}, {ilist(b)}⟩"


def secs(s):
    if s == "-":
        return "[]"
    out = []
    for r in s.split("+"):
        c, d, o, sb, wo, wb = r.split(":")
        out.append(f"{{ core := {c}, depth := {d}, offset := {o}, scaleBytes := {sb}, weightOffset := {wo}, weightBytes := {wb}, index := 0, "
                   "slice := 0, scaleCh := [], weightCh := [], cbd := 0, scaleData := [], weightData := [] }")
    return "[" + ",   ".join(out) + "]"


def s4(s):
    return "⟨" + ", ".join(s.split(",")) + "⟩"


def arch(s):
    nc, sp, ma, ac, ss, _lb, _ls = s.split(",")
    return f"{{ ncores := {nc}, spilling := {'true' if sp != '0' else 'false'}, maxAddressOffset := {ma}, arenaCacheSize := {ac}, shramSizeBytes := {ss} }}"


def stripe(t):
    o = t["op"].split(",")
    pad = {"n": "none", "SAME": "(some .same)", "VALID": "(some .valid)", "EXPLICIT": "(some .explicit)", "TILE": "(some .tile)"}[o[12]]
    rnd = {"n": "none", "TFLite": "(some .tflite)", "ToZero": "(some .toZero)", "HalfUp": "(some .halfUp)", "AwayZero": "(some .awayZero)"}[o[11]]
    xp = "none" if t["xpad"] == "n" else "(some (" + ", ".join(i(x) for x in t["xpad"].split(",")) + "))"
    act = "none"
    if t["act"] != "n":
        f, mn, mx, li = t["act"].split("/")
        act = f"(some ⟨.{FAF.get(f, 'other')}, {opt(mn, fl)}, {opt(mx, fl)}, {i(li)}⟩)"
    expl = "none"
    if t["expl"] != "n":
        pc, m, sh = t["expl"].split("/")
        expl = f"(some ⟨{'true' if pc != '0' else 'false'}, {ilist(m)}, {ilist(sh)}⟩)"
    mult = "none" if t["mult"] == "n" else "(some (" + ", ".join(t["mult"].split(",")) + "))"
    opd = (f"{{ type := {opt_t(o[0])}, origType := {opt_t(o[1])}, ifmDtype := {dt(o[2])}, bias := {opt(o[3], dt)}, "
           f"memFnConcatSliceWrite := {'true' if o[4] != '0' else 'false'}, kernel := ⟨{o[5]}, {o[6]}, {o[7]}, {o[8]}, {o[9]}, {o[10]}⟩, "
           f"roundingMode := {rnd}, explicitPadding := {xp}, paddingAttr := {pad}, alpha := {opt(t['alpha'], fl)}, "
           f"readOffset0 := {opt(t['roff'], ilist)}, readShape0 := {opt(t['rshape'], ilist)}, forcedInputQuant := {quant(t['fiq'])}, "
           f"forcedOutputQuant := {quant(t['foq'])}, ofmQuant := {quant(t['ooq'])}, activation := {act}, explicitScaling := {expl}, "
           f"tileOffsIfm0 := {ilist(t['to0'])}, tileOffsIfm1 := {ilist(t['to1'])}, tileOffsOfm := {ilist(t['too'])}, ofmStrideMult := {mult}, "
           f"resampling := {o[13]} }}")
    ps = "[" + ", ".join("(" + opt_t(a) + ", " + opt_t(b) + ")" for a, b in (p.split("/") for p in t["psops"].split(",") if p)) + "]"
    s0, s1, so = t["shp"].split(";")
    bc = t["bc"].split(",")
    st = t["st"].split(",")
    w = "none"
    if t["w"] != "n":
        m, a, buf, pkf, sc = t["w"].split("/")
        w = (f"(some {{ memType := .{MEM[int(m)]}, address := {a}, buffered := {'true' if buf != '0' else 'false'}, ranges := {secs(sc)}, "
             f"partKernelFirst := {'true' if pkf != '0' else 'false'} }})")
    sc = "none"
    if t["sc"] != "n":
        m, a, hs, ss = t["sc"].split("/")
        sc = f"(some {{ memType := .{MEM[int(m)]}, address := {a}, hasSrc := {'true' if hs != '0' else 'false'}, ranges := {secs(ss)} }})"
    b = lambda v: "true" if v != "0" else "false"
    return (f"{{ op := {opd},\n    psOps := {ps}, ifmShape0 := {s4(s0)}, ifmShape1 := {opt(s1, s4)}, ofmShape0 := {s4(so)},\n    "
            f"blockConfig := ({bc[0]}, {bc[1]}, {bc[2]}, {bc[3]}), isFirstH := {b(st[0])}, isLastH := {b(st[1])}, padTop := {i(st[2])}, "
            f"padBottom := {i(st[3])},\n    ifm := {tensd(t['ifm'])},\n    ifmBox := {box(t['ifmbox'])},\n    ifm2 := {opt(t['ifm2'], tensd)},\n    "
            f"ifm2Box := {'none' if t['ifm2'] == 'n' else '(some ' + box(t['ifm2box']) + ')'},\n    ofm := {tensd(t['ofm'])},\n    ofmBox := {box(t['ofmbox'])},\n    "
            f"weight := {w},\n    weightDepth := {opt(t['wd'], str)},\n    scale := {sc},\n    reversedOperands := {b(st[4])} }}")


def dmatens(s):
    m, p, a, sc, t = s.split("/")
    pp = {"W": "weights", "L": "lut", "F": "featureMap"}.get(p, "other")
    return f"{{ memType := .{MEM[int(m)]}, purpose := .{pp}, address := {a}, ranges := {secs(sc)}, t := {tens(t)} }}"


def toks(line):
    return dict(x.split("=", 1) for x in line.split(" ")[1:])


def main():
    ex = json.load(open(os.path.join(V, "harness", "hl2npu_examples.json")))
    out = ["import VelaVerif.Model.NpuOpBuild",
           "/-! GENERATED by tools/hl2npu_example.py from harness/hl2npu_examples.json (request lines of real commands of compiled",
           "networks, captured by harness/hl2npu.py).  Concrete descriptors for the non-vacuity examples of Props/C06Build.lean. -/",
           "namespace VelaVerif.NpuOpBuild.Example", "open VelaVerif.NpuOp VelaVerif.NpuOpBuild", ""]
    for name in sorted(ex):
        lines = ex[name].split("\n")
        for j, line in enumerate(lines):
            t = toks(line)
            nm = name + ("Dma" if t["cmd"] == "D" else "")
            out.append(f"/-- `{name}` ({'DMA' if t['cmd'] == 'D' else 'NpuStripe'}) -/")
            out.append(f"def {nm}Arch : ArchD := {arch(t['arch'])}")
            if t["cmd"] == "D":
                out.append(f"def {nm} : DmaD :=\n  {{ src := {dmatens(t['src'])},\n    dst := {dmatens(t['dst'])},\n    box := {box(t['box'])} }}")
            else:
                out.append(f"def {nm} : StripeD :=\n  {stripe(t)}")
            out.append("")
    out.append("end VelaVerif.NpuOpBuild.Example")
    p = os.path.join(V, "lean", "VelaVerif", "Lemmas", "NpuOpBuildExample.lean")
    open(p, "w").write("\n".join(out) + "\n")
    print("wrote", p)


main()
