#!/bin/sh
# usage: PFX=seed3 [TIER=quick] [ALSO="C06 C04"] tools/seed_eval.sh <Cxx>
# Confirm and evaluate every seeded change /tmp/${PFX}_Cxx_out/mN (patch.diff, demo.py, meta.json) produced by a seeding agent in the
# worktree /tmp/${PFX}_Cxx: the patch applies, the repo test suite is unchanged, the demo fails with / passes without the patch; then the
# owning check (and $ALSO) is run against the patched worktree from a private copy of /verif (own .lake), so several properties can be
# evaluated in parallel. Writes tests.txt and check_<id>_<tier>.txt next to the patch.
cd "$(dirname "$0")/.." || exit 2
P=$1; PFX=${PFX:-seed3}; WT=/tmp/${PFX}_$P; TIER=${TIER:-quick}; V=/tmp/ev_${PFX}_$P
rm -rf $V; mkdir -p $V; git ls-files | rsync -a --files-from=- . $V/; rsync -a lean/.lake $V/lean/
SO=/repo/ethosu/mlw_codec.cpython-312-x86_64-linux-gnu.so
git -C $WT checkout -q -- . 2>/dev/null || { git -C /repo worktree add -q --detach $WT HEAD; }; git -C $WT clean -fdq -e '*.so'; cp $SO $WT/ethosu/
for OUT in /tmp/${PFX}_${P}_out/m*; do
  [ -f $OUT/patch.diff ] || continue
  M=$(basename $OUT)
  git -C $WT checkout -q -- . ; cp $SO $WT/ethosu/
  git -C $WT apply $OUT/patch.diff || { echo "$P $M patch does not apply" | tee $OUT/tests.txt; continue; }
  if git -C $WT diff --name-only | grep -q '\.[ch]$'; then (cd $WT && /venv/bin/python setup.py build_ext --inplace >/dev/null 2>&1); fi
  T=$(cd $WT && PYTHONPATH=$WT /venv/bin/python -m pytest -q -p no:cacheprovider --timeout=900 2>&1 | tail -1)
  (cd $WT && PYTHONPATH=$WT timeout 900 /venv/bin/python $OUT/demo.py >$OUT/demo_mut.txt 2>&1); D1=$?
  RES=""
  for c in $P $ALSO; do
    (cd $V && VERIF_REPO=$WT timeout 3000 ./check $c $TIER > $OUT/check_${c}_$TIER.txt 2>&1); rc=$?
    RES="$RES $c:rc=$rc:$(grep -c '^VIOLATION' $OUT/check_${c}_$TIER.txt)viol:$(grep -c 'no-failing-input-found' $OUT/check_${c}_$TIER.txt)nofi"
  done
  git -C $WT checkout -q -- . ; cp $SO $WT/ethosu/; rm -rf $WT/build
  (cd $WT && PYTHONPATH=$WT timeout 900 /venv/bin/python $OUT/demo.py >$OUT/demo_clean.txt 2>&1); D0=$?
  echo "$P $M tests=[$T] demo_mutated=$D1 demo_clean=$D0" > $OUT/tests.txt
  echo "SEEDEVAL $PFX $P/$M tests=[$T] demo_mutated=$D1 demo_clean=$D0 checks:$RES"
done
rm -rf $V
