#!/bin/sh
# usage: PFX=seed2 tools/seed_tests.sh <Cxx> — for every /tmp/${PFX}_Cxx_out/mN: apply in the seeding worktree, run the repo test suite and the demo, undo, run the demo clean
P=$1; PFX=${PFX:-seed}; WT=/tmp/${PFX}_$P
git -C $WT checkout -q -- . ; git -C $WT checkout -q --detach main || exit 2
[ -f $WT/ethosu/mlw_codec.cpython-312-x86_64-linux-gnu.so ] || cp /repo/ethosu/mlw_codec.cpython-312-x86_64-linux-gnu.so $WT/ethosu/
for OUT in /tmp/${PFX}_${P}_out/m*; do
  [ -f $OUT/patch.diff ] || continue
  git -C $WT checkout -q -- . ; git -C $WT apply $OUT/patch.diff || { echo "$P $(basename $OUT) patch does not apply" > $OUT/tests.txt; continue; }
  T=$(cd $WT && PYTHONPATH=$WT /venv/bin/python -m pytest -q -p no:cacheprovider --timeout=900 2>&1 | tail -1)
  (cd $WT && PYTHONPATH=$WT timeout 900 /venv/bin/python $OUT/demo.py >$OUT/demo_mut.txt 2>&1); D1=$?
  git -C $WT checkout -q -- .
  (cd $WT && PYTHONPATH=$WT timeout 900 /venv/bin/python $OUT/demo.py >$OUT/demo_clean.txt 2>&1); D0=$?
  echo "$P $(basename $OUT) tests=[$T] demo_mutated=$D1 demo_clean=$D0" > $OUT/tests.txt
done
