#!/usr/bin/env python3
"""usage: tools/mark_fixed.py <Cxx> <n> <key> [<key> ...]  — turn the `finding:` lines with these keys into
`fixed: property=Cxx PENDING-<n> <what failed> [was key=<key>]` (tools/apply_fix.sh then replaces PENDING-<n> by the commit)."""
import os, re, sys
p = os.path.join(os.path.dirname(os.path.dirname(os.path.abspath(__file__))), "known_findings.txt")
prop, n, keys = sys.argv[1], sys.argv[2], sys.argv[3:]
L = open(p).read().split("\n")
done = set()
for i, l in enumerate(L):
    m = re.match(r"finding: property=(\S+) key=(\S+) (.*)", l)
    if m and m.group(1) == prop and m.group(2) in keys:
        L[i] = f"fixed: property={prop} PENDING-{n} {m.group(3)} [was key={m.group(2)}]"
        done.add(m.group(2))
open(p, "w").write("\n".join(L))
missing = [k for k in keys if k not in done]
print("marked", sorted(done), "missing", missing)
sys.exit(1 if missing else 0)
