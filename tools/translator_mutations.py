#!/venv/bin/python
"""Self-test of the source tie (design.d/Translator.md, section "Self-test"): apply one source edit at
a time to a scratch worktree of /repo, regenerate `Gen/Src*.lean` from it, rebuild the `Props/*Src`
modules and report which obligations break.  Semantic mutations must break something; harmless
rewrites should not.

usage: tools/translator_mutations.py [name ...]      (default: all)
"""
import os
import re
import subprocess
import sys

HERE = os.path.dirname(os.path.abspath(__file__))
VERIF = os.path.dirname(HERE)
LEAN = os.path.join(VERIF, "lean")
SCRATCH = os.environ.get("TRANSLATOR_SCRATCH", "/tmp/r_translator")
PROPS = ["VelaVerif.Props.C19Src", "VelaVerif.Props.C04Src", "VelaVerif.Props.C06Src", "VelaVerif.Props.C09Src", "VelaVerif.Props.C10Src",
         "VelaVerif.Props.C15Src", "VelaVerif.Props.C17Src", "VelaVerif.Props.C02Src",
         "VelaVerif.Props.C05Src", "VelaVerif.Props.C08Src", "VelaVerif.Props.C12Src", "VelaVerif.Props.C16Src"]

# name -> (kind, file, old, new)
EDITS = {
    # semantic mutations
    "S1-round_up-off-by-one-at-multiples": ("semantic", "ethosu/vela/numeric_util.py",
        "    return ((a + b - 1) // b) * b", "    return ((a + b) // b) * b"),
    "S2-srm32-nudge": ("semantic", "ethosu/vela/fp_math.py",
        "        nudge = 1 - (1 << 30)", "        nudge = -(1 << 30)"),
    "S3-shift_left32-dropped-saturation-branch": ("semantic", "ethosu/vela/fp_math.py",
        "    elif shifted > np.iinfo(np.int32).max:\n        return np.int32(np.iinfo(np.int32).max)\n", ""),
    "S4-exp-barrel-constant": ("semantic", "ethosu/vela/fp_math.py",
        "    result = exp_barrel_shifter(+4, 242, result)", "    result = exp_barrel_shifter(+4, 243, result)"),
    "S5-make_da_tag-shift": ("semantic", "ethosu/vela/driver_actions.py",
        "    tag |= param << 16", "    tag |= param << 15"),
    "S6-reduced-scale-rounding-dropped": ("semantic", "ethosu/vela/scaling.py",
        "int((multiplier + (1 << 15)) >> 16)", "int(multiplier >> 16)"),
    "S7-rdbp-threshold-shift-vs-floordiv-on-negatives": ("semantic", "ethosu/vela/fp_math.py",
        "    if x < 0:\n        threshold += 1\n", "    if x <= 0:\n        threshold += 1\n"),
    "S8-coords_intersect-ge": ("semantic", "ethosu/vela/register_command_stream_util.py",
        "((end_x - start_x) > 0)", "((end_x - start_x) >= 0)"),
    "S9-offset-block-coords-wrong-modulus": ("semantic", "ethosu/vela/register_command_stream_util.py",
        "    coord_z = block.depth * (index % depth_blocks)", "    coord_z = block.depth * (index % width_blocks)"),
    "S10-quantise_scale-shift-range": ("semantic", "ethosu/vela/scaling.py",
        "    if not (0 <= shift < (1 << 6)):\n        # Shift outside of valid range, set scale to 0\n        return 0, 16\n\n    return significand_q31, shift",
        "    if not (0 <= shift <= (1 << 6)):\n        # Shift outside of valid range, set scale to 0\n        return 0, 16\n\n    return significand_q31, shift"),
    "S11-get_address-tile-offset": ("semantic", "ethosu/vela/register_command_stream_util.py",
        "        x -= fm.tiles.width_0\n        t = 1\n", "        t = 1\n"),
    "S12-range_lists_overlap-inner-none-check-dropped": ("semantic", "ethosu/vela/register_command_stream_util.py",
        "            if range2 is not None and ranges_overlap(range1, range2):", "            if ranges_overlap(range1, range2):"),
    "S13-area-ranges-tile1-condition": ("semantic", "ethosu/vela/register_command_stream_util.py",
        "    if x1 >= width_0 and y0 < height_1:", "    if x1 > width_0 and y0 < height_1:"),
    # second round (design.d/Translator.md section 8): graph_optimiser_util, shape4d, tensor, calc_blockdep
    "S14-needed_total_padding-floor": ("semantic", "ethosu/vela/graph_optimiser_util.py",
        "        return max(filter_size - stride, 0)", "        return max(filter_size - stride, 1)"),
    "S15-calc_explicit_padding-min-output": ("semantic", "ethosu/vela/graph_optimiser_util.py",
        "    output_size = max((padded_size - filter_size) // stride + 1, 1)", "    output_size = max((padded_size - filter_size) // stride + 1, 0)"),
    "S16-shape4d-clip_len-origin": ("semantic", "ethosu/vela/shape4d.py",
        "        return min(pos + length, size) - pos", "        return min(pos + length, size)"),
    "S17-shape4d-round_up-wrong-axis": ("semantic", "ethosu/vela/shape4d.py",
        "            round_up(lhs.batch, rhs.batch),", "            round_up(lhs.batch, rhs.height),"),
    "S18-shape4d-div_round_up-not-divided": ("semantic", "ethosu/vela/shape4d.py",
        "            round_up_divide(self.depth, rhs.depth),", "            round_up(self.depth, rhs.depth),"),
    "S19-get_strides-nhwc-order": ("semantic", "ethosu/vela/tensor.py",
        "            stride_order = [4, 1, 3, 2, 0]", "            stride_order = [4, 1, 2, 3, 0]"),
    "S20-get_strides-brick-stride": ("semantic", "ethosu/vela/tensor.py",
        "            strides[3] = 16 * stride  # STRIDE_X", "            strides[3] = 8 * stride  # STRIDE_X"),
    "S21-storage_size_for_shape-sum": ("semantic", "ethosu/vela/tensor.py",
        "        elems = elems if elems else 0\n        raw_size = elems * self.element_size()",
        "        elems = elems if elems else 0\n        raw_size = elems + self.element_size()"),
    "S22-get_full_shape-rank2": ("semantic", "ethosu/vela/tensor.py",
        "            return [self.shape[0], 1, 1, self.shape[1]]", "            return [1, self.shape[0], 1, self.shape[1]]"),
    "S23-shape_num_elements-start": ("semantic", "ethosu/vela/tensor.py",
        "    elems = 1\n    if shp is None:", "    elems = 0\n    if shp is None:"),
    "S24-calc_blockdep-max-instead-of-min": ("semantic", "ethosu/vela/register_command_stream_util.py",
        "        blockdep = min(blockdep, elapsed_jobs + outstanding_jobs)", "        blockdep = max(blockdep, elapsed_jobs + outstanding_jobs)"),
    "S25-calc_blockdep-both-overlap-or": ("semantic", "ethosu/vela/register_command_stream_util.py",
        "    if ifm_overlaps and ifm2_overlaps:", "    if ifm_overlaps or ifm2_overlaps:"),
    "S26-calc_blockdep-missing-in-area-continues": ("semantic", "ethosu/vela/register_command_stream_util.py",
        "        if in_area is None:\n            break", "        if in_area is None:\n            continue"),
    "S27-calc_blockdep-intersection-does-not-stop": ("semantic", "ethosu/vela/register_command_stream_util.py",
        "            if intersects(overlapping_fm, in_area[0], in_area[1], prev_op.ofm, out_area[0], out_area[1]):\n                break",
        "            if intersects(overlapping_fm, in_area[0], in_area[1], prev_op.ofm, out_area[0], out_area[1]):\n                continue"),
    "S28-round_up_to_int-plus-one": ("semantic", "ethosu/vela/numeric_util.py",
        "    return int(math.ceil(v))", "    return int(math.ceil(v)) + 1"),
    # third round: hillclimb_allocation, live_range, weight_compressor.encode_bias, tflite_supported_operators, operation.Kernel
    "S29-hillclimb-overlaps-inclusive-end": ("semantic", "ethosu/vela/hillclimb_allocation.py",
        "        return self.address < addr2 + size2 and addr2 < self.end_address", "        return self.address < addr2 + size2 and addr2 <= self.end_address"),
    "S30-is_neighbour-strict": ("semantic", "ethosu/vela/hillclimb_allocation.py",
        "        return self.start_time <= lr.end_time and lr.start_time <= self.end_time", "        return self.start_time < lr.end_time and lr.start_time <= self.end_time"),
    "S31-lt-size-order-reversed": ("semantic", "ethosu/vela/hillclimb_allocation.py",
        "            return self.size > other.size", "            return self.size < other.size"),
    "S32-mark_usage-end-inclusive": ("semantic", "ethosu/vela/live_range.py",
        "        op_time_end = op_time + op_length", "        op_time_end = op_time + op_length - 1"),
    "S33-mark_usage-start-overwritten": ("semantic", "ethosu/vela/live_range.py",
        "        self.start_time = min(self.start_time, op_time_start)", "        self.start_time = op_time_start"),
    "S34-encode_bias-shift-mask": ("semantic", "ethosu/vela/weight_compressor.py",
        "    data[9] = shift & 0x3F", "    data[9] = shift & 0x1F"),
    "S35-encode_bias-scale-range": ("semantic", "ethosu/vela/weight_compressor.py",
        "    assert 0 <= scale < (1 << 32)", "    assert 0 <= scale < (1 << 31)"),
    "S36-encode_bias-byte4-from-byte3": ("semantic", "ethosu/vela/weight_compressor.py",
        "    data[4] = (bias >> (4 * 8)) & 0xFF", "    data[4] = (bias >> (3 * 8)) & 0xFF"),
    "S37-stride_range-height-upper-exclusive": ("semantic", "ethosu/vela/tflite_supported_operators.py",
        "(stride_min <= h <= stride_max)", "(stride_min <= h < stride_max)"),
    "S38-filter_range-stride-exception-dropped": ("semantic", "ethosu/vela/tflite_supported_operators.py",
        "            valid = ((filter_min <= w <= filter_max) or sw == w) and (filter_min <= h <= filter_max)",
        "            valid = (filter_min <= w <= filter_max) and (filter_min <= h <= filter_max)"),
    "S39-dilated_product-sum": ("semantic", "ethosu/vela/tflite_supported_operators.py",
        "        product = op.kernel.area_width() * op.kernel.area_height()", "        product = op.kernel.area_width() + op.kernel.area_height()"),
    "S40-kernel-area_width": ("semantic", "ethosu/vela/operation.py",
        "        return (self.width - 1) * self.dilation.x + 1", "        return self.width * self.dilation.x"),
    "S41-filter_height_range-strict": ("semantic", "ethosu/vela/tflite_supported_operators.py",
        "        valid = filter_height_min <= h <= filter_height_max", "        valid = filter_height_min < h <= filter_height_max"),
    "H16-hillclimb-overlaps-conjuncts-swapped": ("harmless", "ethosu/vela/hillclimb_allocation.py",
        "        return self.address < addr2 + size2 and addr2 < self.end_address", "        return addr2 < self.end_address and self.address < addr2 + size2"),
    "H17-mark_usage-rename-local": ("harmless", "ethosu/vela/live_range.py", "op_time_start", "t_first"),
    "H18-mark_usage-comparison-flipped": ("harmless", "ethosu/vela/live_range.py",
        "        if op_time_end < op_time_start:", "        if op_time_start > op_time_end:"),
    "H19-encode_bias-byte0-without-shift": ("harmless", "ethosu/vela/weight_compressor.py",
        "    data[0] = (bias >> (0 * 8)) & 0xFF", "    data[0] = bias & 0xFF"),
    "H20-stride_range-rename-local": ("harmless", "ethosu/vela/tflite_supported_operators.py",
        "        valid = (stride_min <= w <= stride_max) and (stride_min <= h <= stride_max)\n        return valid, f\"Op has stride WxH as: {w}x{h}\"",
        "        in_range = (stride_min <= w <= stride_max) and (stride_min <= h <= stride_max)\n        return in_range, f\"Op has stride WxH as: {w}x{h}\""),
    "H21-dilated_product-chain-spelled-out": ("harmless", "ethosu/vela/tflite_supported_operators.py",
        "        valid = dilated_product_min <= product <= dilated_product_max", "        valid = dilated_product_min <= product and product <= dilated_product_max"),
    "H22-encode_bias-message-on-assert": ("harmless", "ethosu/vela/weight_compressor.py",
        "    assert 0 <= shift < (1 << 6)  # unsigned 6-bit range", "    assert 0 <= shift < 64, \"shift\""),
    # harmless rewrites
    "H8-needed_total_padding-max-operands-swapped": ("harmless", "ethosu/vela/graph_optimiser_util.py",
        "        return max(filter_size - stride, 0)", "        return max(0, filter_size - stride)"),
    "H9-calc_explicit_padding-rename-local": ("harmless", "ethosu/vela/graph_optimiser_util.py", "padded_size", "total_size"),
    "H10-shape4d-clip-rename-locals": ("harmless", "ethosu/vela/shape4d.py",
        "        n = Shape4D._clip_len(offset.batch, sub_shape.batch, self.batch)\n", "        nn = Shape4D._clip_len(offset.batch, sub_shape.batch, self.batch)\n        n = nn\n"),
    "H11-get_strides-rename-local": ("harmless", "ethosu/vela/tensor.py", "stride_order", "order_of_strides"),
    "H12-get_full_shape-membership-order": ("harmless", "ethosu/vela/tensor.py", "        if d in (1, 3):", "        if d in (3, 1):"),
    "H13-calc_blockdep-rename-local": ("harmless", "ethosu/vela/register_command_stream_util.py", "outstanding_jobs", "pending_jobs"),
    "H14-calc_blockdep-augassign-spelled-out": ("harmless", "ethosu/vela/register_command_stream_util.py",
        "        elapsed_jobs += in_area[2]", "        elapsed_jobs = elapsed_jobs + in_area[2]"),
    "H15-storage_size_for_shape-rename-local": ("harmless", "ethosu/vela/tensor.py", "rounded_size = numeric_util.round_up(numeric_util.round_up_to_int(raw_size), self.alignment)\n        return rounded_size\n\n    def storage_shape_for_sub_purpose",
        "result_size = numeric_util.round_up(numeric_util.round_up_to_int(raw_size), self.alignment)\n        return result_size\n\n    def storage_shape_for_sub_purpose"),
    "H1-rename-local": ("harmless", "ethosu/vela/fp_math.py", "ab_plus_nudge", "abn"),
    "H2-swap-independent-assignments": ("harmless", "ethosu/vela/fp_math.py",
        "    remainder = x & mask\n    threshold = mask >> 1\n", "    threshold = mask >> 1\n    remainder = x & mask\n"),
    "H3-mul-by-shift-instead-of-pow2": ("harmless", "ethosu/vela/fp_math.py",
        "    mul = saturating_rounding_mul32(int(x) * (1 << left_shift), scale)",
        "    mul = saturating_rounding_mul32(int(x) << left_shift, scale)"),
    "H4-type-hints-and-comments": ("harmless", "ethosu/vela/numeric_util.py",
        "def round_up(a, b):\n", "def round_up(a: int, b: int) -> int:\n    # rounds a up to a multiple of b\n"),
    "H5-shr-as-floordiv": ("harmless", "ethosu/vela/fp_math.py",
        "    result = x >> exponent\n", "    result = x // (1 << exponent)\n"),
    "H7-listcomp-variable-renamed": ("harmless", "ethosu/vela/register_command_stream_util.py",
        "    return [get_address_range(fm, strides, y, x0, c0, y, x1, c1) for y in range(y0, y1 + 1)]",
        "    return [get_address_range(fm, strides, row, x0, c0, row, x1, c1) for row in range(y0, y1 + 1)]"),
    "H6-reassociated-sum": ("harmless", "ethosu/vela/numeric_util.py",
        "    return ((a + b - 1) // b) * b", "    return ((a - 1 + b) // b) * b"),
}


def sh(cmd, **kw):
    return subprocess.run(cmd, shell=True, capture_output=True, text=True, **kw)


def run(name):
    kind, rel, old, new = EDITS[name]
    sh(f"git -C {SCRATCH} checkout -q .")
    p = os.path.join(SCRATCH, rel)
    src = open(p).read()
    if old not in src:
        return f"{name}: EDIT DOES NOT APPLY"
    open(p, "w").write(src.replace(old, new))
    r = sh(f"VERIF_REPO={SCRATCH} /venv/bin/python {VERIF}/harness/gen_tables.py")
    changed = r.stdout.strip()
    r = sh("lake build " + " ".join(PROPS), cwd=LEAN)
    out = r.stdout + r.stderr
    bad_mods = sorted(set(re.findall(r"^- (VelaVerif\.\S+)", out, re.M)))
    errs = re.findall(r"error: (\S+\.lean):(\d+):\d+: (.*)", out)
    sys.path.insert(0, os.path.join(VERIF, "harness"))
    import common
    seen = []
    for f, ln, msg in errs:
        t = common.theorem_at(os.path.join(LEAN, f), int(ln))
        key = f"{os.path.basename(f)}: {t}"
        if key not in seen:
            seen.append(key)
    sh(f"git -C {SCRATCH} checkout -q .")
    return f"{name} [{kind}] {changed}\n    broken modules: {bad_mods or 'none'}\n    first failing obligations: {seen[:6] or 'none'}"


def main():
    if not os.path.isdir(SCRATCH):
        sh(f"git -C /repo worktree add --detach {SCRATCH} HEAD")
        sh(f"cp /repo/ethosu/*.so {SCRATCH}/ethosu/")
    names = sys.argv[1:] or list(EDITS)
    for n in names:
        print(run(n), flush=True)
    # restore the generated files of the unchanged tree
    sh(f"/venv/bin/python {VERIF}/harness/gen_tables.py")
    r = sh("lake build " + " ".join(PROPS), cwd=LEAN)
    print("unchanged tree:", "all Src obligations build" if r.returncode == 0 else "BROKEN\n" + (r.stdout + r.stderr)[-800:])


if __name__ == "__main__":
    main()
