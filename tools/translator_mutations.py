#!/venv/bin/python
"""Self-test of the source tie (design.d/Translator.md, section "Self-test"): apply one source edit at
a time to a scratch worktree of /repo, regenerate `Gen/Src*.lean` from it, rebuild the `Props/*Src`
modules and report which obligations break.  Semantic mutations must break something; harmless
rewrites should not.

usage: tools/translator_mutations.py [name ...]      (default: all)
"""
import os
import re
import subprocess
import sys

HERE = os.path.dirname(os.path.abspath(__file__))
VERIF = os.path.dirname(HERE)
LEAN = os.path.join(VERIF, "lean")
SCRATCH = "/tmp/r_translator"
PROPS = ["VelaVerif.Props.C19Src", "VelaVerif.Props.C04Src", "VelaVerif.Props.C06Src", "VelaVerif.Props.C09Src", "VelaVerif.Props.C10Src",
         "VelaVerif.Props.C15Src", "VelaVerif.Props.C17Src"]

# name -> (kind, file, old, new)
EDITS = {
    # semantic mutations
    "S1-round_up-off-by-one-at-multiples": ("semantic", "ethosu/vela/numeric_util.py",
        "    return ((a + b - 1) // b) * b", "    return ((a + b) // b) * b"),
    "S2-srm32-nudge": ("semantic", "ethosu/vela/fp_math.py",
        "        nudge = 1 - (1 << 30)", "        nudge = -(1 << 30)"),
    "S3-shift_left32-dropped-saturation-branch": ("semantic", "ethosu/vela/fp_math.py",
        "    elif shifted > np.iinfo(np.int32).max:\n        return np.int32(np.iinfo(np.int32).max)\n", ""),
    "S4-exp-barrel-constant": ("semantic", "ethosu/vela/fp_math.py",
        "    result = exp_barrel_shifter(+4, 242, result)", "    result = exp_barrel_shifter(+4, 243, result)"),
    "S5-make_da_tag-shift": ("semantic", "ethosu/vela/driver_actions.py",
        "    tag |= param << 16", "    tag |= param << 15"),
    "S6-reduced-scale-rounding-dropped": ("semantic", "ethosu/vela/scaling.py",
        "int((multiplier + (1 << 15)) >> 16)", "int(multiplier >> 16)"),
    "S7-rdbp-threshold-shift-vs-floordiv-on-negatives": ("semantic", "ethosu/vela/fp_math.py",
        "    if x < 0:\n        threshold += 1\n", "    if x <= 0:\n        threshold += 1\n"),
    "S8-coords_intersect-ge": ("semantic", "ethosu/vela/register_command_stream_util.py",
        "((end_x - start_x) > 0)", "((end_x - start_x) >= 0)"),
    "S9-offset-block-coords-wrong-modulus": ("semantic", "ethosu/vela/register_command_stream_util.py",
        "    coord_z = block.depth * (index % depth_blocks)", "    coord_z = block.depth * (index % width_blocks)"),
    "S10-quantise_scale-shift-range": ("semantic", "ethosu/vela/scaling.py",
        "    if not (0 <= shift < (1 << 6)):\n        # Shift outside of valid range, set scale to 0\n        return 0, 16\n\n    return significand_q31, shift",
        "    if not (0 <= shift <= (1 << 6)):\n        # Shift outside of valid range, set scale to 0\n        return 0, 16\n\n    return significand_q31, shift"),
    "S11-get_address-tile-offset": ("semantic", "ethosu/vela/register_command_stream_util.py",
        "        x -= fm.tiles.width_0\n        t = 1\n", "        t = 1\n"),
    "S12-range_lists_overlap-inner-none-check-dropped": ("semantic", "ethosu/vela/register_command_stream_util.py",
        "            if range2 is not None and ranges_overlap(range1, range2):", "            if ranges_overlap(range1, range2):"),
    "S13-area-ranges-tile1-condition": ("semantic", "ethosu/vela/register_command_stream_util.py",
        "    if x1 >= width_0 and y0 < height_1:", "    if x1 > width_0 and y0 < height_1:"),
    # harmless rewrites
    "H1-rename-local": ("harmless", "ethosu/vela/fp_math.py", "ab_plus_nudge", "abn"),
    "H2-swap-independent-assignments": ("harmless", "ethosu/vela/fp_math.py",
        "    remainder = x & mask\n    threshold = mask >> 1\n", "    threshold = mask >> 1\n    remainder = x & mask\n"),
    "H3-mul-by-shift-instead-of-pow2": ("harmless", "ethosu/vela/fp_math.py",
        "    mul = saturating_rounding_mul32(int(x) * (1 << left_shift), scale)",
        "    mul = saturating_rounding_mul32(int(x) << left_shift, scale)"),
    "H4-type-hints-and-comments": ("harmless", "ethosu/vela/numeric_util.py",
        "def round_up(a, b):\n", "def round_up(a: int, b: int) -> int:\n    # rounds a up to a multiple of b\n"),
    "H5-shr-as-floordiv": ("harmless", "ethosu/vela/fp_math.py",
        "    result = x >> exponent\n", "    result = x // (1 << exponent)\n"),
    "H7-listcomp-variable-renamed": ("harmless", "ethosu/vela/register_command_stream_util.py",
        "    return [get_address_range(fm, strides, y, x0, c0, y, x1, c1) for y in range(y0, y1 + 1)]",
        "    return [get_address_range(fm, strides, row, x0, c0, row, x1, c1) for row in range(y0, y1 + 1)]"),
    "H6-reassociated-sum": ("harmless", "ethosu/vela/numeric_util.py",
        "    return ((a + b - 1) // b) * b", "    return ((a - 1 + b) // b) * b"),
}


def sh(cmd, **kw):
    return subprocess.run(cmd, shell=True, capture_output=True, text=True, **kw)


def run(name):
    kind, rel, old, new = EDITS[name]
    sh(f"git -C {SCRATCH} checkout -q .")
    p = os.path.join(SCRATCH, rel)
    src = open(p).read()
    if old not in src:
        return f"{name}: EDIT DOES NOT APPLY"
    open(p, "w").write(src.replace(old, new))
    r = sh(f"VERIF_REPO={SCRATCH} /venv/bin/python {VERIF}/harness/gen_tables.py")
    changed = r.stdout.strip()
    r = sh("lake build " + " ".join(PROPS), cwd=LEAN)
    out = r.stdout + r.stderr
    bad_mods = sorted(set(re.findall(r"^- (VelaVerif\.\S+)", out, re.M)))
    errs = re.findall(r"error: (\S+\.lean):(\d+):\d+: (.*)", out)
    sys.path.insert(0, os.path.join(VERIF, "harness"))
    import common
    seen = []
    for f, ln, msg in errs:
        t = common.theorem_at(os.path.join(LEAN, f), int(ln))
        key = f"{os.path.basename(f)}: {t}"
        if key not in seen:
            seen.append(key)
    sh(f"git -C {SCRATCH} checkout -q .")
    return f"{name} [{kind}] {changed}\n    broken modules: {bad_mods or 'none'}\n    first failing obligations: {seen[:6] or 'none'}"


def main():
    if not os.path.isdir(SCRATCH):
        sh(f"git -C /repo worktree add --detach {SCRATCH} HEAD")
        sh(f"cp /repo/ethosu/*.so {SCRATCH}/ethosu/")
    names = sys.argv[1:] or list(EDITS)
    for n in names:
        print(run(n), flush=True)
    # restore the generated files of the unchanged tree
    sh(f"/venv/bin/python {VERIF}/harness/gen_tables.py")
    r = sh("lake build " + " ".join(PROPS), cwd=LEAN)
    print("unchanged tree:", "all Src obligations build" if r.returncode == 0 else "BROKEN\n" + (r.stdout + r.stderr)[-800:])


if __name__ == "__main__":
    main()
