#!/bin/sh
# usage: tools/apply_fix.sh <Cxx> <n> [property the fixed: line is filed under, default Cxx]
# Apply /verif_patches/Cxx-n.diff to /repo as one "fix:" commit (after the repo test suite) and replace
# "property=<P> PENDING-n" in known_findings.txt by the commit hash.
P=$1; N=$2; FP=${3:-$P}
D=/verif_patches/$P-$N.diff; M=/verif_patches/$P-$N.msg
[ -f $D ] && [ -f $M ] || { echo "missing patch or msg"; exit 2; }
head -1 $M | grep -q '^fix:' || { echo "message does not start with fix:"; exit 2; }
cd /repo || exit 2
[ -z "$(git status --porcelain)" ] || { echo "/repo not clean"; exit 2; }
git apply $D || { echo "patch does not apply"; exit 2; }
if git diff --name-only | grep -q '\.c$\|\.h$'; then /venv/bin/python setup.py build_ext --inplace >/dev/null 2>&1; fi
T=$(/venv/bin/python -m pytest -q -p no:cacheprovider --timeout=900 2>&1 | tail -1)
echo "tests: $T"
echo "$T" | grep -q "539 passed\|54[0-3] passed" || { echo "unexpected test result; reverting"; git checkout -q -- .; git clean -fdq -e '*.so'; exit 1; }
git add -A . && git commit -qF $M && H=$(git rev-parse --short HEAD) && echo "committed $H"
sed -i "s/property=$FP PENDING-$N /property=$FP $H /" /verif/known_findings.txt
# lines filed under another property that name this patch explicitly: "property=Cyy PENDING-n (patch Cxx-n) ..."
sed -i "s/property=\(C[0-9]*\) PENDING-$N (patch $P-$N)/property=\1 $H (patch $P-$N)/" /verif/known_findings.txt
grep -n "property=C[0-9]* $H" /verif/known_findings.txt | cut -c1-120
