#!/bin/sh
# usage: tools/seed_one.sh <patch.diff | seeded/<id> | PFX:Cxx:mN> <check ids...>   [TIER=quick] [VERIF_SEED=n]
# Apply one seeded patch in a private scratch worktree of /repo and run the given checks against it from a private copy of /verif.
cd "$(dirname "$0")/.." || exit 2
S=$1; shift
case "$S" in
  *:*:*) PFX=${S%%:*}; R=${S#*:}; P=${R%%:*}; M=${R#*:}; PATCH=/tmp/${PFX}_${P}_out/$M/patch.diff; OUT=/tmp/${PFX}_${P}_out/$M;;
  *.diff) PATCH=$S; OUT=$(dirname $S);;
  *) PATCH=$S/patch.diff; OUT=/tmp/seedone_$(basename $S); mkdir -p $OUT;;
esac
TAG=$(echo "$S" | tr '/:' '__'); V=/tmp/so_v_$TAG; W=/tmp/so_w_$TAG; TIER=${TIER:-quick}
rm -rf $V; mkdir -p $V; git ls-files | rsync -a --files-from=- . $V/; rsync -a lean/.lake $V/lean/
git -C /repo worktree remove --force $W 2>/dev/null; git -C /repo worktree add -q --detach $W HEAD || exit 2
cp /repo/ethosu/*.so $W/ethosu/
git -C $W apply $(realpath $PATCH) || { echo "SEEDONE $S patch does not apply"; git -C /repo worktree remove --force $W; rm -rf $V; exit 2; }
RES=""
for c in "$@"; do
  (cd $V && VERIF_REPO=$W timeout 3000 ./check $c $TIER > $OUT/check_${c}_$TIER.txt 2>&1); rc=$?
  RES="$RES $c:rc=$rc:$(grep -c '^VIOLATION' $OUT/check_${c}_$TIER.txt)viol:$(grep -c 'no-failing-input-found' $OUT/check_${c}_$TIER.txt)nofi"
done
git -C /repo worktree remove --force $W; rm -rf $V
echo "SEEDONE $S checks:$RES"
