#!/venv/bin/python
"""Enumerate crash sites of the tree under test: for seeds a..b run the C13 corpus and print, per site,
the count and the smallest example."""
import sys, os, json
sys.path.insert(0, os.path.join(os.path.dirname(os.path.abspath(__file__)), "..", "harness"))
import common, pipe_common

class FakeCk:
    def __init__(self, seed): self.seed = seed; self.replay_arg = None

a, b = int(sys.argv[1]), int(sys.argv[2])
n = int(sys.argv[3]) if len(sys.argv) > 3 else 640
sites = {}
profiles = ["weird", "mixed", "cpu", "pattern", "lut", "elementwise", "weights", "cascade", "weird", "pattern"]
for seed in range(a, b):
    outs = pipe_common.run_corpus(FakeCk(seed), n, profiles=profiles, want={"more_opts": True}, corpus_first=False)
    for o in outs:
        if o.get("status") in ("ok", "vela-error") and not o.get("harness_exception"):
            continue
        site = o.get("exc_site") or o.get("status") or "harness"
        e = sites.setdefault(site, {"count": 0, "ex": None})
        e["count"] += 1
        size = len(o.get("src_ops", []))
        if e["ex"] is None or size < len(e["ex"].get("src_ops", [])):
            e["ex"] = {k: o.get(k) for k in ("seed", "idx", "profile", "src_ops", "opts", "exc", "desc")}
            e["ex"]["tb"] = (o.get("tb") or o.get("harness_exception") or "")[-500:]
for site, e in sorted(sites.items()):
    print(e["count"], site, json.dumps(e["ex"])[:1500])
    print()
