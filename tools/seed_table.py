#!/usr/bin/env python3
"""Regenerate the table of seeded changes in DESIGN.md (between the SEEDED_TABLE markers) from seeded/*/meta.json."""
import glob, json, os, re
V = os.path.dirname(os.path.dirname(os.path.abspath(__file__)))
rows = []
for d in sorted(glob.glob(os.path.join(V, "seeded", "*"))):
    try:
        m = json.load(open(os.path.join(d, "meta.json")))
    except Exception:
        continue
    sid = os.path.basename(d)
    files = ", ".join(os.path.basename(f) for f in (m.get("files") or []))[:60]
    summ = re.sub(r"\s+", " ", str(m.get("summary") or m.get("what") or "")).replace("|", "/")
    summ = summ[:150] + ("…" if len(summ) > 150 else "")
    cr = m.get("checks_run")
    if isinstance(cr, dict):
        got = "; ".join(f"{k.replace('_', ' ')}: {v.get('violations') if isinstance(v, dict) else v} viol." for k, v in cr.items())
    else:
        got = re.sub(r"\s+", " ", str(cr or "")).replace("|", "/")[:170]
    verdict = re.sub(r"\s+", " ", str(m.get("verdict") or "")).replace("|", "/")[:170]
    reg = m.get("regression")
    if reg:
        verdict = (verdict + " — " if verdict else "") + "current tree: " + reg
    rows.append(f"| {sid} | {files} | {summ} | {verdict or got} |")
table = "| id | file(s) | change | caught by |\n|---|---|---|---|\n" + "\n".join(rows) + "\n"
p = os.path.join(V, "DESIGN.md")
txt = open(p).read()
if "SEEDED_TABLE_PLACEHOLDER" in txt:
    txt = txt.replace("SEEDED_TABLE_PLACEHOLDER", "<!-- SEEDED_TABLE_BEGIN -->\n" + table + "<!-- SEEDED_TABLE_END -->")
else:
    txt = re.sub(r"<!-- SEEDED_TABLE_BEGIN -->.*?<!-- SEEDED_TABLE_END -->", lambda _m: "<!-- SEEDED_TABLE_BEGIN -->\n" + table + "<!-- SEEDED_TABLE_END -->", txt, flags=re.S)
open(p, "w").write(txt)
print(len(rows), "rows")
