#!/venv/bin/python
"""Self-test of the source translator's trusted base (design.d/Translator.md).

  1. `Model/PyRt.lean` (the Lean reading of Python / NumPy scalar integer semantics) against the real
     interpreter: every operator x every pair of operand types x boundary-biased values.
  2. every translated function that has only plain parameters (`Gen/Src*.lean`, via the `srcdrv`
     executable) against the real function of VERIF_REPO (/repo) on generated arguments, with Python-int
     and NumPy-typed operands.

Exit 0 when everything agrees, 1 with the first disagreements otherwise.  Not part of `./check`: the
checks tie the *models* to the code; this ties the *translator* (an unverified Python program) and its
run-time library to the interpreter.

usage: tools/py2lean_selftest.py [--seed N] [--ops N] [--calls N]
"""
import argparse
import importlib
import os
import random
import subprocess
import sys
import warnings

HERE = os.path.dirname(os.path.abspath(__file__))
VERIF = os.path.dirname(HERE)
LEAN = os.path.join(VERIF, "lean")
REPO = os.environ.get("VERIF_REPO", "/repo")
sys.path.insert(0, REPO)
sys.path.insert(0, os.path.join(VERIF, "harness"))
import numpy as np  # noqa: E402

warnings.simplefilter("ignore")
np.seterr(all="ignore")

TAGS = {"py": int, "i8": np.int8, "i16": np.int16, "i32": np.int32, "i64": np.int64,
        "u8": np.uint8, "u16": np.uint16, "u32": np.uint32}
RANGE = {"i8": (-128, 127), "i16": (-2 ** 15, 2 ** 15 - 1), "i32": (-2 ** 31, 2 ** 31 - 1), "i64": (-2 ** 63, 2 ** 63 - 1),
         "u8": (0, 255), "u16": (0, 65535), "u32": (0, 2 ** 32 - 1)}
TYPE_TAG = {np.int8: "i8", np.int16: "i16", np.int32: "i32", np.int64: "i64", np.uint8: "u8", np.uint16: "u16",
            np.uint32: "u32"}


def mk(tag, v):
    return int(v) if tag == "py" else TAGS[tag](v)


def render(x):
    if x is None:
        return "()"
    if isinstance(x, (bool, np.bool_)):
        return "true" if x else "false"
    if type(x) is int:
        return f"py:{x}"
    if type(x) in TYPE_TAG:
        return f"{TYPE_TAG[type(x)]}:{int(x)}"
    if isinstance(x, tuple):
        return "(" + ",".join(render(e) for e in x[:-1]) + "," + render(x[-1]) + ")" if len(x) == 2 else \
            "(" + render(x[0]) + "," + render(tuple(x[1:])) + ")"
    if isinstance(x, list):
        return "[" + ",".join(render(e) for e in x) + "]"
    if isinstance(x, bytearray):        # third round (`encode_bias`): the list of its bytes, Python ints
        return render(list(x))
    return "unsupported:" + type(x).__name__


EXC = {AssertionError: "assert", OverflowError: "overflow", ValueError: "value", ZeroDivisionError: "zerodiv",
       IndexError: "index"}


def outcome(f):
    try:
        r = f()
    except tuple(EXC) as e:
        for k, v in EXC.items():
            if isinstance(e, k):
                return "err " + v
    except MemoryError:
        return "skip"
    except Exception as e:  # noqa: BLE001
        return "err raised:" + type(e).__name__
    s = render(r)
    if "unsupported" in s:
        return "err unsupported"
    return s if s in ("true", "false") and False else "ok " + s


BINOPS = {
    "add": lambda a, b: a + b, "sub": lambda a, b: a - b, "mul": lambda a, b: a * b, "floordiv": lambda a, b: a // b,
    "mod": lambda a, b: a % b, "shl": lambda a, b: a << b, "shr": lambda a, b: a >> b, "and": lambda a, b: a & b,
    "or": lambda a, b: a | b, "xor": lambda a, b: a ^ b, "pow": lambda a, b: a ** b,
    "min": lambda a, b: min(a, b), "max": lambda a, b: max(a, b),
}
CMPOPS = {"lt": lambda a, b: a < b, "le": lambda a, b: a <= b, "gt": lambda a, b: a > b, "ge": lambda a, b: a >= b,
          "eq": lambda a, b: a == b, "ne": lambda a, b: a != b}
UNOPS = {"neg": lambda a: -a, "invert": lambda a: ~a, "abs": lambda a: abs(a), "int": lambda a: int(a)}


def values(rng, tag, n):
    lo, hi = RANGE.get(tag, (-2 ** 70, 2 ** 70))
    pool = [0, 1, -1, 2, -2, 3, 5, 7, 8, 15, 16, 17, 31, 32, 33, 63, 64, 65, 100, 127, 128, 255, 256]
    for k in (7, 8, 15, 16, 24, 30, 31, 32, 33, 62, 63, 64, 65):
        pool += [2 ** k, 2 ** k - 1, 2 ** k + 1, -(2 ** k), -(2 ** k) - 1, -(2 ** k) + 1]
    pool += [lo, lo + 1, hi, hi - 1]
    for bits in (4, 8, 16, 32, 64):
        pool += [rng.randrange(-2 ** bits, 2 ** bits) for _ in range(6)]
    pool = [v for v in pool if lo <= v <= hi]
    return [rng.choice(pool) for _ in range(n)]


def ops_requests(rng, n):
    reqs = []
    tags = list(TAGS)
    for _ in range(n):
        kind = rng.random()
        ta, tb = rng.choice(tags), rng.choice(tags)
        if rng.random() < 0.4:
            ta, tb = rng.choice(["py", "i32", "i64", "i16"]), rng.choice(["py", "i32", "i64", "i16"])
        a = values(rng, ta, 1)[0]
        b = values(rng, tb, 1)[0]
        if kind < 0.6:
            op = rng.choice(list(BINOPS))
            if op in ("shl", "pow") and ta == "py" and tb == "py":
                b = rng.choice([0, 1, 2, 3, 5, 8, 16, 31, 32, 33, 63, 64, 65, 100, -1, -5])
            if op == "pow" and ta == "py":
                b = rng.choice([0, 1, 2, 3, 5, 8, 16, 31, 64, -1, -3])
            if op == "pow" and abs(b) > 4096:
                b = b % 70
            if tb in ("u8", "u16", "u32") and b < 0:
                b = -b      # (third round) the literal exponents above are not values of an unsigned type: `np.uint16(-3)` itself raises
            if op == "shl" and tb == "py" and ta != "py" and abs(b) > 10 ** 6:
                pass   # goes through the conversion check (OverflowError) or the count rule
            py = outcome(lambda: BINOPS[op](mk(ta, a), mk(tb, b)))
        elif kind < 0.8:
            op = rng.choice(list(CMPOPS))
            r = outcome(lambda: CMPOPS[op](mk(ta, a), mk(tb, b)))
            py = r[3:] if r.startswith("ok ") else r
        elif kind < 0.9:
            op = rng.choice(list(UNOPS))
            py = outcome(lambda: UNOPS[op](mk(ta, a)))
        elif kind < 0.95:
            op = "truthy"
            py = "true" if mk(ta, a) else "false"
        else:
            op = "cast"
            if tb == "py":
                tb = "i32"
            py = outcome(lambda: TAGS[tb](mk(ta, a)))
            b = 0
        if py == "skip":
            continue
        reqs.append((f"op {op} {ta}:{a} {tb}:{b}", py))
    return reqs


def call_requests(rng, sigs, n):
    reqs = []
    mods = {}
    for name, shapes, params in sigs:
        if shapes.startswith("!"):
            continue        # record / opaque parameters: no direct counterpart to call
        modname, fn = name.split(".", 1)        # fn may be `Class.method` (static / class methods)
        if modname not in mods:
            try:
                mods[modname] = importlib.import_module("ethosu.vela." + modname)
            except Exception as e:  # noqa: BLE001
                print(f"cannot import {modname}: {e}")
                continue
        f = mods[modname]
        for part in fn.split("."):
            f = getattr(f, part)
        shp = shapes.split(",") if shapes else []
        typed = modname == "fp_math"
        for _ in range(n):
            args, rendered = [], []
            if fn == "encode_bias":
                # third round: the function asserts `np.int64` / `int` / `int` and three ranges: mostly well-typed arguments
                # around the range boundaries, sometimes a wrong type (the `isinstance` asserts are tag tests in PyRt)
                for k, (good, lim) in enumerate((("i64", 2 ** 39), ("py", 2 ** 32), ("py", 64))):
                    tag = good if rng.random() < 0.9 else rng.choice(["py", "i32", "i64", "u8"])
                    v = rng.choice([0, 1, -1, 5, 63, 64, 255, 256, -684, 1167018453, lim - 1, lim, -lim, -lim - 1, lim // 2,
                                    rng.randrange(-lim, lim), rng.randrange(-lim, lim)])
                    lo, hi = RANGE.get(tag, (-2 ** 70, 2 ** 70))
                    if not lo <= v <= hi:
                        tag = "py" if good == "py" else "i64"
                    args.append(mk(tag, v))
                    rendered.append(f"{tag}:{v}")
                py = outcome(lambda: f(*args))
                reqs.append((f"call {name} " + " ".join(rendered), py))
                continue
            for s in shp:
                if s == "N":
                    tag = rng.choice(["py", "py", "py", "i32", "i64", "i16", "i8", "u8"]) if typed else "py"
                    if typed and rng.random() < 0.5:
                        v = values(rng, "i32", 1)[0] if rng.random() < 0.8 else values(rng, "py", 1)[0]
                        lo, hi = RANGE.get(tag, (-2 ** 70, 2 ** 70))
                        if not lo <= v <= hi:
                            tag = "py"
                    else:
                        v = rng.choice([0, 1, 2, 3, 4, 5, 7, 8, 15, 16, 17, 26, 31, 32, 33, 62, 63, 64, 100, -1, -2, -5, -31, -32])
                        lo, hi = RANGE.get(tag, (-2 ** 70, 2 ** 70))
                        if not lo <= v <= hi:
                            tag = "py"
                    args.append(mk(tag, v))
                    rendered.append(f"{tag}:{v}")
                elif s == "B":
                    b = rng.random() < 0.5
                    args.append(b)
                    rendered.append("true" if b else "false")
                elif s.startswith("O3:"):
                    # a list of Optional[<NamedTuple with three int fields>] (NpuAddressRange, ...)
                    import ethosu.vela.api as api
                    cls = getattr(api, s[3:])
                    xs, rs = [], []
                    for _i in range(rng.randrange(0, 6)):
                        if rng.random() < 0.3:
                            xs.append(None)
                            rs.append("None")
                        else:
                            t = (rng.randrange(0, 3), rng.randrange(0, 200), rng.randrange(0, 60))
                            xs.append(cls(*t))
                            rs.append("(" + ",".join(f"py:{v}" for v in t) + ")")
                    args.append(xs)
                    rendered.append("[" + ";".join(rs) + "]")
                else:
                    xs = [rng.randrange(0, 2 ** 32) for _ in range(rng.randrange(0, 9))]
                    args.append(list(xs))
                    rendered.append("[" + ",".join(f"py:{x}" for x in xs) + "]")
            # keep huge shift counts out (CPython would need gigabytes; the model has unbounded ints)
            if any(isinstance(a, int) and not isinstance(a, bool) and abs(a) > 2 ** 20 for a in args) and fn in (
                    "shift_left32", "shift_left16", "rounding_divide_by_pot", "saturating_rounding_multiply_by_pot",
                    "rescale", "multiply_by_quantized_multiplier", "make_da_tag", "emit_reg_read"):
                big = [a for a in args[1:] if isinstance(a, int) and abs(a) > 2 ** 20]
                if big and fn != "make_da_tag":
                    continue
            # (only the `driver_actions` emitters mutate their list parameter; `full_shape`, `shape_num_elements` do not)
            lists = [a for a in args if isinstance(a, list)] if "O3:" not in shapes and modname == "driver_actions" else []

            def run():
                r = f(*args)
                if lists:               # the translated function returns the mutated list as well
                    return lists[0] if r is None else (r, lists[0])
                return r

            py = outcome(run)
            if py == "skip":
                continue
            reqs.append((f"call {name} " + " ".join(rendered), py))
    return reqs


def main():
    ap = argparse.ArgumentParser()
    ap.add_argument("--seed", type=int, default=0)
    ap.add_argument("--ops", type=int, default=60000)
    ap.add_argument("--calls", type=int, default=1500)
    a = ap.parse_args()
    rng = random.Random(a.seed)
    r = subprocess.run([sys.executable.replace("python3", "python"), os.path.join(VERIF, "harness", "gen_tables.py")],
                       capture_output=True, text=True, env=dict(os.environ, VERIF_REPO=REPO))
    if r.returncode != 0:
        print("gen_tables failed:", r.stderr[-500:])
        return 2
    r = subprocess.run(["lake", "build", "srcdrv"], cwd=LEAN, capture_output=True, text=True)
    if r.returncode != 0:
        print("srcdrv does not build (a generated file is broken?):", (r.stdout + r.stderr)[-1500:])
        return 2
    drv = os.path.join(LEAN, ".lake", "build", "bin", "srcdrv")
    out = subprocess.run([drv], input="sigs\n", capture_output=True, text=True).stdout.strip()
    sigs = []
    for item in out.split(" "):
        if item.count("/") >= 2:
            name, shapes, params = item.split("/", 2)
            sigs.append((name, shapes, params))
    reqs = ops_requests(rng, a.ops) + call_requests(rng, sigs, a.calls)
    res = subprocess.run([drv], input="\n".join(q for q, _ in reqs) + "\n", capture_output=True, text=True)
    if res.returncode != 0:
        print("srcdrv failed:", res.stderr[-500:])
        return 2
    got = res.stdout.split("\n")[:len(reqs)]
    bad = [(q, e, g) for (q, e), g in zip(reqs, got) if e != g]
    per = {}
    for (q, _e), _g in zip(reqs, got):
        k = " ".join(q.split(" ")[:2])
        per[k] = per.get(k, 0) + 1
    print(f"py2lean self-test: {len(reqs)} requests ({sum(1 for q, _ in reqs if q.startswith('op'))} operator, "
          f"{sum(1 for q, _ in reqs if q.startswith('call'))} function calls over "
          f"{len([k for k in per if k.startswith('call')])} functions), {len(bad)} disagreements")
    for q, e, g in bad[:25]:
        print(f"  DISAGREE {q}\n     python: {e}\n     lean:   {g}")
    return 1 if bad else 0


if __name__ == "__main__":
    sys.exit(main())
