#!/bin/sh
# usage: tools/eval_seed.sh <Cxx> <mN> [check ids to run, default Cxx] — confirm a seeded change and run checks against it
cd "$(dirname "$0")/.." || exit 2
P=$1; M=$2; shift 2; CHECKS=${*:-$P}
WT=/tmp/seed_$P; OUT=/tmp/seed_${P}_out/$M
[ -f $OUT/patch.diff ] || { echo "no patch"; exit 2; }
git -C $WT checkout -q -- . ; git -C $WT apply $OUT/patch.diff || { echo "patch does not apply"; exit 2; }
[ -f $WT/ethosu/mlw_codec.cpython-312-x86_64-linux-gnu.so ] || cp /repo/ethosu/mlw_codec.cpython-312-x86_64-linux-gnu.so $WT/ethosu/
T=$(cd $WT && PYTHONPATH=$WT /venv/bin/python -m pytest -q -p no:cacheprovider --timeout=900 2>&1 | tail -1)
(cd $WT && PYTHONPATH=$WT timeout 600 /venv/bin/python $OUT/demo.py >/tmp/demo_mut.txt 2>&1); D1=$?
RES=""
for c in $CHECKS; do
  VERIF_REPO=$WT timeout 3000 ./check $c ${TIER:-quick} > /tmp/check_${c}_mut.txt 2>&1; rc=$?
  RES="$RES $c:rc=$rc:$(grep -c '^VIOLATION' /tmp/check_${c}_mut.txt)viol"
  grep -B1 '^VIOLATION' /tmp/check_${c}_mut.txt | head -4 | cut -c1-300
done
git -C $WT checkout -q -- .
(cd $WT && PYTHONPATH=$WT timeout 600 /venv/bin/python $OUT/demo.py >/tmp/demo_clean.txt 2>&1); D0=$?
echo "SEED $P/$M tests=[$T] demo_mutated=$D1 demo_clean=$D0 checks:$RES"
