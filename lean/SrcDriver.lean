import VelaVerif.Gen.SrcDispatch
/-! Self-test driver of the source translator (`tools/py2lean_selftest.py`): one request per line,
    `op <name> <num> <num>`   a run-time operator of `Model/PyRt.lean`,
    `call <module.fn> <arg>…` a translated function of `Gen/Src*.lean`,
    `sigs`                    the callable functions.
    Kept out of the main driver `drv` so that a source change that breaks a generated file cannot take
    the property checks' driver down with it. -/
open VelaVerif.PyRt VelaVerif.Gen.SrcDispatch

def answer (line : String) : String :=
  let toks := (line.trimAscii.toString.splitOn " ").filter (· ≠ "")
  match toks with
  | ["op", name, a, b] =>
    match Num.parse? a, Num.parse? b with
    | some x, some y => (evalOp name x y).getD "bad-op"
    | _, _ => "bad-arg"
  | "call" :: name :: args => (callFn name args).getD "bad-call"
  | ["sigs"] => " ".intercalate (signatures.map fun (n, s, p) => n ++ "/" ++ s ++ "/" ++ p)
  | _ => "bad-request"

partial def loop (h : IO.FS.Stream) (out : IO.FS.Stream) : IO Unit := do
  let line ← h.getLine
  if line.isEmpty then return ()
  out.putStrLn (answer line)
  loop h out

def main : IO Unit := do
  let out ← IO.getStdout
  loop (← IO.getStdin) out
  out.flush
