import VelaVerif.Handlers.All
/-! Line protocol driver: one request per line on stdin, one canonical answer per line on stdout. -/
open VelaVerif.Handlers

def handlers : List (List String → Option String) := allHandlers

def dispatch (line : String) : String :=
  let toks := (line.trimAscii.toString.splitOn " ").filter (· ≠ "")
  match handlers.findSome? (fun h => h toks) with
  | some r => r
  | none => "bad-op"

partial def loop (h : IO.FS.Stream) (out : IO.FS.Stream) : IO Unit := do
  let line ← h.getLine
  if line.isEmpty then return ()
  out.putStrLn (dispatch line)
  loop h out

def main : IO Unit := do
  let out ← IO.getStdout
  loop (← IO.getStdin) out
  out.flush
