-- Root of the `VelaVerif` library: generated tables, models, specs, lemmas, property theorems.
import VelaVerif.Gen.Core
import VelaVerif.Model.Payload
import VelaVerif.Handlers.Payload
