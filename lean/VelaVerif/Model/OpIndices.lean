import VelaVerif.Gen.OpIndices
/-!
# Model of the operand-index alignment between TFLite and Vela's graph (reader_util.align_inputs_indices)
# and of the tensor order chosen by the TFLite writer (tflite_writer.serialise_subgraph)

```python
def align_inputs_indices(from_indices, to_indices, inputs):
    to_list = to_indices.ifms + to_indices.weights + to_indices.biases
    from_list = from_indices.ifms + from_indices.weights + from_indices.biases
    assert len(to_list) == len(from_list)
    if to_list != from_list:
        for idx, t_idx in enumerate(to_list):
            if t_idx >= len(inputs):
                # Biases are allowed to be left out
                assert t_idx in from_indices.biases and t_idx in to_indices.biases
                continue
            if to_list[idx] != from_list[idx]:
                # find t_idx in from list and swap.
                for jdx in from_list[idx:]:
                    if from_list[jdx] == t_idx:
                        inputs[idx], inputs[jdx] = inputs[jdx], inputs[idx]
                        from_list[idx], from_list[jdx] = from_list[jdx], from_list[idx]
                        break
    assert from_list == to_list
    return inputs
```
The reader calls it with (TFLite indices of the builtin operator, `Op.info.indices`), the writer with
(`Op.info.indices`, TFLite indices of `builtin_operator_inv_map[op.type]`).

The control flow depends on the two index triples and on `len(inputs)` only, never on the operands, so the
model first computes the *swap schedule* (`alignSwaps`) and then applies it (`applySwaps`). Python's
`IndexError` / `AssertionError` become `.error "index"` / `.error "assert"`; the model never defaults.
Note that `jdx` ranges over the *values* of `from_list[idx:]` and is then used as a *position* — the model
transcribes that literally.
-/
namespace VelaVerif.OpIndices

structure Indices where
  ifms : List Nat
  weights : List Nat
  biases : List Nat
deriving Repr, DecidableEq, Inhabited

def Indices.flat (x : Indices) : List Nat := x.ifms ++ x.weights ++ x.biases

/-- `l[i], l[j] = l[j], l[i]`; unchanged when a position is out of range (the callers check the range first) -/
def swapList (l : List α) (i j : Nat) : List α :=
  match l[i]?, l[j]? with
  | some a, some b => (l.set i b).set j a
  | _, _ => l

/-- `for jdx in cands: if from_list[jdx] == t_idx: … break` — the first hit, `none` when the loop falls through -/
def findSwap (fromList : List Nat) (tIdx : Nat) : List Nat → Except String (Option Nat)
  | [] => .ok none
  | jdx :: rest =>
    match fromList[jdx]? with
    | none => .error "index"
    | some v => if v == tIdx then .ok (some jdx) else findSwap fromList tIdx rest

/-- the `for idx, t_idx in enumerate(to_list)` loop from position `idx` on; state = (from_list, swaps so far) -/
def alignLoop (fromI toI : Indices) (toList : List Nat) (n : Nat) :
    Nat → List Nat → List Nat → List (Nat × Nat) → Except String (List Nat × List (Nat × Nat))
  | _, [], fl, sw => .ok (fl, sw)
  | idx, tIdx :: rest, fl, sw =>
    if tIdx ≥ n then
      if fromI.biases.contains tIdx && toI.biases.contains tIdx then alignLoop fromI toI toList n (idx + 1) rest fl sw
      else .error "assert"
    else if toList[idx]? != fl[idx]? then
      match findSwap fl tIdx (fl.drop idx) with
      | .error e => .error e
      | .ok none => alignLoop fromI toI toList n (idx + 1) rest fl sw
      | .ok (some jdx) =>
        if idx < n && jdx < n then alignLoop fromI toI toList n (idx + 1) rest (swapList fl idx jdx) (sw ++ [(idx, jdx)])
        else .error "index"
    else alignLoop fromI toI toList n (idx + 1) rest fl sw

/-- the position swaps `align_inputs_indices(from, to, inputs)` performs on an operand list of length `n` -/
def alignSwaps (fromI toI : Indices) (n : Nat) : Except String (List (Nat × Nat)) :=
  let toL := toI.flat
  let frL := fromI.flat
  if toL.length ≠ frL.length then .error "assert"
  else if toL == frL then .ok []
  else
    match alignLoop fromI toI toL n 0 toL frL [] with
    | .error e => .error e
    | .ok (fl, sw) => if fl == toL then .ok sw else .error "assert"

def applySwaps (sw : List (Nat × Nat)) (xs : List α) : List α :=
  sw.foldl (fun l p => swapList l p.1 p.2) xs

def alignInputs (fromI toI : Indices) (xs : List α) : Except String (List α) :=
  match alignSwaps fromI toI xs.length with
  | .ok sw => .ok (applySwaps sw xs)
  | .error e => .error e

/-- one row of the regenerated table: a builtin operator code, the TFLite index triple the reader uses for it,
    the index triple of the `Op` it maps to, and the TFLite triple the writer uses for that `Op` -/
structure Row where
  builtin : Nat
  op : String
  tflite : Indices
  nng : Indices
  wtflite : Indices
deriving Repr, DecidableEq

/-- every non-bias operand position the triples mention exists (biases may be left out) -/
def Row.rightArity (r : Row) (n : Nat) : Bool :=
  (r.tflite.ifms ++ r.tflite.weights ++ r.nng.ifms ++ r.nng.weights ++ r.wtflite.ifms ++ r.wtflite.weights).all (· < n)

/-- reader then writer on an operand list -/
def Row.roundTrip (r : Row) (xs : List α) : Except String (List α) :=
  match alignInputs r.tflite r.nng xs with
  | .ok ys => alignInputs r.nng r.wtflite ys
  | .error e => .error e

/-! ### decidable round-trip check of one row (what `decide` evaluates over the regenerated table) -/

/-- strictly above every element -/
def listBound : List Nat → Nat
  | [] => 0
  | x :: xs => max (x + 1) (listBound xs)

/-- above every index the row mentions and above the number of indices: from here on `align_inputs_indices`
    no longer depends on the number of operands (Lemmas/OpIndices.lean) -/
def Row.bound (r : Row) : Nat :=
  max (listBound (r.tflite.flat ++ r.nng.flat ++ r.wtflite.flat))
    (max r.tflite.flat.length (max r.nng.flat.length r.wtflite.flat.length))

/-- reader then writer succeed on `n` operands and their swaps compose to the identity on positions -/
def Row.rtOk (r : Row) (n : Nat) : Bool :=
  match alignSwaps r.tflite r.nng n with
  | .ok s1 =>
    match alignSwaps r.nng r.wtflite n with
    | .ok s2 => applySwaps (s1 ++ s2) (List.range n) == List.range n
    | .error _ => false
  | .error _ => false

def Row.ok (r : Row) : Bool :=
  (List.range (r.bound + 1)).all fun n => !r.rightArity n || r.rtOk n

def Indices.ofTri (t : Gen.OpIndices.Tri) : Indices := { ifms := t.1, weights := t.2.1, biases := t.2.2 }

def Row.ofRaw (r : Nat × String × Gen.OpIndices.Tri × Gen.OpIndices.Tri × Gen.OpIndices.Tri) : Row :=
  { builtin := r.1, op := r.2.1, tflite := .ofTri r.2.2.1, nng := .ofTri r.2.2.2.1, wtflite := .ofTri r.2.2.2.2 }

/-- the live tables of tflite_mapping.py / operation.py (regenerated on every run) -/
def table : List Row := Gen.OpIndices.rawTable.map Row.ofRaw

/-- Ops only the writer serialises (the Ethos-U custom operator) -/
def writerOnly : List Row := Gen.OpIndices.rawWriterOnly.map Row.ofRaw

/-! ## tensor order of the writer

```python
all_tensors = [tens for nm, idx, tens in sorted((tens.name, idx, tens) for idx, tens in enumerate(tensor_set))]
```
`tensor_set` is a Python `set` of `Tensor` objects (identity hash): its enumeration order is arbitrary. The sort
key is (name, enumeration index); the tensor itself is never compared because the index is unique. Any sorting
algorithm yields the same list for pairwise distinct keys, so insertion sort is a faithful model. -/

def pairLe (le : α → α → Bool) (x y : α × Nat) : Bool :=
  if le x.1 y.1 && le y.1 x.1 then decide (x.2 ≤ y.2) else le x.1 y.1

def insertBy (le2 : β → β → Bool) (x : β) : List β → List β
  | [] => [x]
  | y :: ys => if le2 x y then x :: y :: ys else y :: insertBy le2 x ys

def isort (le2 : β → β → Bool) : List β → List β
  | [] => []
  | x :: xs => insertBy le2 x (isort le2 xs)

/-- the tensors in the order the writer emits them, given their enumeration order and a name -/
def emitOrder (le : α → α → Bool) (key : β → α) (l : List β) : List β :=
  (isort (fun x y => pairLe le (key x.1, x.2) (key y.1, y.2)) l.zipIdx).map (·.1)

/-- positions (into the enumeration) in emission order -/
def writerOrder (le : α → α → Bool) (names : List α) : List Nat :=
  (emitOrder le (fun p : α × Nat => p.1) names.zipIdx).map (·.2)

end VelaVerif.OpIndices
