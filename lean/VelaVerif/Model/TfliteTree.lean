/-!
# The abstract flatbuffer table tree of a TFLite file, and the plain graph description the writer serialises

`ModelT` is what a plain flatbuffer walk of a `.tflite` file sees (harness/wtree.py, no Vela code): nested tables with the
presence / default rules of the schema — a scalar field that is absent reads as its schema default (so absent and default
cannot be told apart and are one value here), a vector / string / sub-table is `none` when its slot is absent and
`some` (possibly empty) when present. Slots the models do not know are reported in `extra`. Vectors of tables are lists
(absent = empty). Float32 values are their bit patterns. Constant data is either the raw bytes (short data, metadata
buffers) or length + digest (`Data`); the models never look inside.

`Desc` is the graph as the writer reads it (ethosu/vela/tflite_writer.py): tensors are identified by their position in
`Desc.tensors` (object identity in Python), operators carry the *graph-side* operand order (`Op.info.indices`), the option
table of an operator is an opaque payload (the generated option serialisers are outside the model).
-/
namespace VelaVerif.Tflite

abbrev Bytes := List Nat

inductive Data
  | raw (b : List Nat)
  | digest (len : Nat) (d : String)
deriving Repr, DecidableEq, Inhabited

def Data.len : Data → Nat
  | .raw b => b.length
  | .digest n _ => n

/-! ## the file -/

structure OpCodeT where
  deprecated : Int            -- deprecated_builtin_code (int8, default 0)
  custom : Option Bytes       -- custom_code
  version : Int               -- default 1
  builtin : Int               -- builtin_code (int32, default 0)
  extra : List Nat := []
deriving Repr, DecidableEq, Inhabited

structure QuantT where
  min : Option (List Nat)
  max : Option (List Nat)
  scale : Option (List Nat)
  zeroPoint : Option (List Int)
  quantDim : Int              -- quantized_dimension, default 0
  extra : List Nat := []
deriving Repr, DecidableEq, Inhabited

structure TensorT where
  shape : Option (List Int)
  type : Nat                  -- TensorType, default 0 (FLOAT32)
  buffer : Nat                -- default 0
  name : Option Bytes
  quant : Option QuantT
  isVariable : Bool           -- default false
  extra : List Nat := []
deriving Repr, DecidableEq, Inhabited

/-- the option payload of an operator: `builtin_options_type`, the option table rendered canonically (opaque text),
    `custom_options` (hex text) and `custom_options_format` -/
structure Payload where
  optType : Nat
  opts : Option String
  custom : Option String
  customFormat : Int
deriving Repr, DecidableEq, Inhabited

structure OperatorT where
  opcodeIndex : Nat           -- default 0
  inputs : Option (List Int)
  outputs : Option (List Int)
  payload : Payload
  mutating : Option (List Nat)   -- mutating_variable_inputs
  intermediates : Option (List Int)
  extra : List Nat := []
deriving Repr, DecidableEq, Inhabited

structure SubGraphT where
  tensors : List TensorT
  inputs : Option (List Int)
  outputs : Option (List Int)
  operators : List OperatorT
  name : Option Bytes
  extra : List Nat := []
deriving Repr, DecidableEq, Inhabited

structure BufferT where
  data : Option Data
  extra : List Nat := []
deriving Repr, DecidableEq, Inhabited

structure MetadataT where
  name : Option Bytes
  buffer : Nat
  extra : List Nat := []
deriving Repr, DecidableEq, Inhabited

structure ModelT where
  fileId : String
  version : Nat
  opcodes : List OpCodeT
  subgraphs : List SubGraphT
  description : Option Bytes
  buffers : List BufferT
  metadata : List MetadataT
  extra : List Nat := []
deriving Repr, DecidableEq, Inhabited

/-! ## the graph description -/

/-- `tensor.QuantizationParameters` as the writer reads it: `None` or a value per field; a scalar and a one-element array
    are the same list (`make_vector`) -/
structure QuantD where
  min : Option (List Nat)
  max : Option (List Nat)
  scale : Option (List Nat)
  zeroPoint : Option (List Int)
  quantDim : Option Int
deriving Repr, DecidableEq, Inhabited

structure TensorD where
  name : Bytes
  shape : List Int
  originalShape : List Int
  dtype : String              -- str(tens.dtype)
  quant : Option QuantD
  values : Option Data
  isVariable : Bool
  purpose : Nat               -- TensorPurpose value
  memArea : Nat               -- MemArea value
  memType : Nat               -- MemType value
  address : Option Int
  src : Option Nat            -- src_tensor
  /-- what the reader derives from the element type: (quant_min, quant_max); not read by the writer -/
  range : Option (Int × Int) := none
deriving Repr, DecidableEq, Inhabited

structure OpD where
  type : String               -- Op member name
  customCode : Bytes          -- attrs.get("custom_code", "")
  version : Int
  inputs : List (Option Nat)  -- graph-side order; `none` = None
  outputs : List (Option Nat)
  intermediates : List (Option Nat)
  payload : Payload           -- what the operator's option serialiser produces for its attrs
deriving Repr, DecidableEq, Inhabited

structure SubgraphD where
  name : Bytes
  cpu : Bool                  -- placement == PassPlacement.Cpu
  ops : List OpD              -- [op for ps in sg.passes for op in ps.ops]
  originalInputs : List Nat
  inputTensors : List Nat
  outputTensors : List Nat
  originalOutputPositions : Option (List Nat)
  /-- `sg.virtual_outputs`: the tensor and the position in `ops` of `tens.ops[0]` (`none`: not an operator of this list) -/
  virtualOutputs : List (Nat × Option Nat)
deriving Repr, DecidableEq, Inhabited

/-- one entry of `nng.metadata`: the name is `bytes` (as the reader stores it) or `str` -/
structure MetaD where
  nameIsBytes : Bool
  name : Bytes
  data : Option Data
deriving Repr, DecidableEq, Inhabited

structure Desc where
  tensors : List TensorD
  subgraphs : List SubgraphD
  metadata : List MetaD
  version : Bytes             -- ethosu.vela.__version__
deriving Repr, DecidableEq, Inhabited

end VelaVerif.Tflite
