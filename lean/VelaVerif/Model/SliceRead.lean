import VelaVerif.Gen.PassPacking
/-!
# Model of `remove_SplitSliceRead` / `move_splitsliceread_to_consumer` (tflite_graph_optimiser.py, graph_optimiser_util.py)

A STRIDED_SLICE / SPLIT has become a `SplitSliceRead` operator: read offset, read shape, `ifm_shapes[0]` (the whole input), `ofm_shapes[0]`
(the slice). `remove_SplitSliceRead` either moves the read onto every consumer of the slice (the consumer then reads the INPUT of the
slice through offset / shape) or replaces the operator by a 1x1 average pool that does the read.
-/
namespace VelaVerif.SliceRead

abbrev Shape := List Int

/-- what `remove_SplitSliceRead` looks at in a consumer of the slice -/
structure Consumer where
  isNone : Bool := false          -- `None` in `consumer_list` (graph output)
  runOnNpu : Bool := true
  memoryOnly : Bool := false      -- `type in memory_only_ops`
  isMul : Bool := false
  isMemcpy : Bool := false
  origTranspose : Bool := false
  binaryEw : Bool := false        -- `type.is_binary_elementwise_op()`
  ifmIsSlice : Bool := true       -- `consumer.ifm == op.ofm`
  ifm2IsSlice : Bool := false     -- `consumer.ifm2 == op.ofm`
  ifmShapes : List Shape := []
  ofmShapes : List Shape := []
  readOffsets : Option Shape × Option Shape := (none, none)
  readShapes : Option Shape × Option Shape := (none, none)
  deriving Repr, DecidableEq

structure Slice where
  ifmShape : Shape                -- `op.ifm_shapes[0]`
  ofmShape : Shape                -- `op.ofm_shapes[0]`
  ofmTensorShape : Shape          -- `Shape4D.from_list(op.ofm.shape)`
  readOffset : Shape              -- `op.read_offsets[0]`
  readShape : Shape               -- `op.read_shapes[0]`
  deriving Repr, DecidableEq

/-- the repaired conditions are switches (the `_witness` theorems run the old rule) -/
structure Rules where
  /-- C01-8: the offsets of a slice of a slice add up -/
  addOffsets : Bool := true
  /-- C01-9: only consumers that view the slice with its own shape -/
  shapeCheck : Bool := true
  /-- C01-14: not onto a Memcpy -/
  memcpyCheck : Bool := true

def Rules.current : Rules := {}

/-- `reads_slice_with_its_own_shape(consumer)`; `none`: IndexError on `ifm_shapes[0]` -/
def readsOwnShape (s : Slice) (c : Consumer) : Option Bool :=
  if c.ifmIsSlice then
    match c.ifmShapes[0]? with
    | none => none
    | some sh =>
      if sh != s.ofmShape then some false
      else if c.ifm2IsSlice && c.ifmShapes.length > 1 && c.ifmShapes[1]? != some s.ofmShape then some false
      else if c.binaryEw && c.ofmShapes.length > 0 && c.ofmShapes[0]? != some s.ofmShape then some false
      else some true
  else if c.ifm2IsSlice && c.ifmShapes.length > 1 && c.ifmShapes[1]? != some s.ofmShape then some false
  else if c.binaryEw && c.ofmShapes.length > 0 && c.ofmShapes[0]? != some s.ofmShape then some false
  else some true

/-- one consumer passes the `all(...)` of `remove_SplitSliceRead` -/
def consumerOk (R : Rules) (s : Slice) (c : Consumer) : Option Bool :=
  if c.isNone then some false
  else if !c.runOnNpu then some false
  else if c.memoryOnly then some false
  else if c.isMul then some false
  else if R.memcpyCheck && c.isMemcpy then some false
  else if c.origTranspose then some false
  else if R.shapeCheck then readsOwnShape s c
  else some true

/-- `all(...)` with Python's short circuit: the first consumer that fails ends the evaluation -/
def allOk (R : Rules) (s : Slice) : List Consumer → Option Bool
  | [] => some true
  | c :: rest =>
    match consumerOk R s c with
    | none => none
    | some false => some false
    | some true => allOk R s rest

/-- does the read move onto the consumers? (`none`: the code raises) -/
def folds (R : Rules) (s : Slice) (cs : List Consumer) : Option Bool :=
  if s.ofmShape == s.ofmTensorShape then allOk R s cs else some false

def addShape (a b : Shape) : Shape := List.zipWith (· + ·) a b

/-- `move_to_input(idx)` on the pair (read offset, read shape) of that input -/
def moveToInput (R : Rules) (s : Slice) (off shp : Option Shape) : Option Shape × Option Shape :=
  match off with
  | none => (some s.readOffset, some s.readShape)
  | some o => if R.addOffsets then (some (addShape s.readOffset o), shp) else (some s.readOffset, some s.readShape)

def setAt (l : List Shape) (i : Nat) (v : Shape) : List Shape := l.set i v

/-- `move_splitsliceread_to_consumer(op, cons_op)`: the consumer's read offsets / shapes / `ifm_shapes` afterwards
    (`none`: IndexError on `ifm_shapes[idx] = …`) -/
def moveToConsumer (R : Rules) (s : Slice) (c : Consumer) : Option Consumer :=
  if c.ifmIsSlice then
    if c.ifmShapes.length < 1 then none
    else
      let r := moveToInput R s c.readOffsets.1 c.readShapes.1
      some { c with readOffsets := (r.1, c.readOffsets.2), readShapes := (r.2, c.readShapes.2), ifmShapes := setAt c.ifmShapes 0 s.ifmShape }
  else if c.binaryEw && c.ifm2IsSlice then
    if c.ifmShapes.length < 2 then none
    else
      let r := moveToInput R s c.readOffsets.2 c.readShapes.2
      some { c with readOffsets := (c.readOffsets.1, r.1), readShapes := (c.readShapes.1, r.2), ifmShapes := setAt c.ifmShapes 1 s.ifmShape }
  else some c

/-! ## what a slice read means -/

/-- a 4-D tensor as a function of its coordinates; reading it through an offset -/
def readAt {α : Type} (X : List Int → α) (off : Shape) : List Int → α := fun i => X (addShape off i)

/-! ## `bypass_memory_only_ops` -/

inductive Bypass | untouched | memcpy | bypass
  deriving Repr, DecidableEq

/-- what `bypass_memory_only_ops` does with an operator: `nCons` = `len(op.ifm.consumer_list)`, `producersNpu` = `run_on_npu` of
    the producers of the IFM (`None` producers are skipped by the code) -/
def bypassDecision (runOnNpu memoryOnly : Bool) (nCons : Nat) (producersNpu : List Bool) : Bypass :=
  if !runOnNpu || !memoryOnly then .untouched
  else if nCons > 1 || producersNpu.any (!·) then .memcpy
  else .bypass

/-- after a bypass every producer of the IFM writes the memory-only operator's OFM instead (`prev_op.outputs = [ofm]`): the number
    of outputs a producer loses -/
def outputsLost (producerOutputs : Nat) : Nat := producerOutputs - 1

end VelaVerif.SliceRead
