import VelaVerif.Gen.PassPacking
/-!
# Model of `pass_packing.pack_into_passes` (ethosu/vela/pass_packing.py)

A functional transcription over a small graph description (`Graph`): operators with type (index into the regenerated
`Gen.PassPacking.opTable`), `run_on_npu`, inputs / outputs (tensor ids), fused activation, operator shapes, read offsets;
tensors with producers (`ops`), `consumers()` (with `none` = "the graph consumes the result") and purpose.

* `canPack`      — `can_pack(inp, curr_op)` with every condition of the repaired code;
* `walkRun`      — the `while to_process:` loop of `build_pass` (breadth first backwards from the start operators, `curr_flags`,
                   first accepting row of `test_sequence`, one major block type, `input_set`);
* `finishPass`   — the rest of `build_pass`: ElementWise default, `is_element_wise`, placement, `create_primary_op` (recorded as
                   `created`, the graph is not mutated), ordered inputs / LUTs / `input_refcounts`, ifm / ifm2 / weights / scale / lut;
* `dfsRun`       — `visit_tensor` / `visit_op` with their reference counts as an explicit task stack (depth first order preserved);
* `packDfs`      — the passes in the order `reversed(reverse_pass_list)` including the start-up pass;
* `reorder`      — the top list (start-up pass, CPU passes that only depend on graph inputs, sorted by `op_index`) and the
                   grouping of the remaining CPU passes (reverse index iteration over the list that is being mutated);
* `passLinks`    — the assertions of `Subgraph.build_pass_links`;
* `packIntoPasses` — all of it for one subgraph.

The model rejects (`Except`/`err`) what the code rejects (assertions, IndexError, NameError of `startup_ps`), it never defaults.
Mutable state is threaded as records; loops are structural recursion on fuel whose sufficiency is proved in `Lemmas/PassPacking*`.
-/
namespace VelaVerif.PassPacking
open VelaVerif.Gen.PassPacking

abbrev Shape := List Int

structure POp where
  type : Nat := 0
  origType : Nat := 0
  runOnNpu : Bool := false
  inputs : List (Option Nat) := []
  outputs : List Nat := []
  /-- fused activation: its `op_type` (index), `none` = no activation -/
  act : Option Nat := none
  /-- `activation_lut` (tensor id) -/
  actLut : Option Nat := none
  ifmShapes : List Shape := []
  ofmShapes : List Shape := []
  /-- `read_offsets[0] is not None`, `read_offsets[1] is not None` -/
  ro0 : Bool := false
  ro1 : Bool := false
  /-- `-1 if op_index is None else op_index` -/
  opIndex : Int := -1
  deriving Repr, Inhabited, DecidableEq

structure PTensor where
  ops : List Nat := []
  /-- `consumers()`; `none` is the entry `update_consumers` adds for a graph output -/
  consumers : List (Option Nat) := []
  purpose : Nat := 0
  deriving Repr, Inhabited, DecidableEq

structure Graph where
  ops : List POp
  tensors : List PTensor
  /-- `sg.output_tensors` -/
  outputs : List Nat
  /-- `sg.input_tensors` -/
  inputs : List Nat
  deriving Repr, Inhabited

def Graph.op (G : Graph) (i : Nat) : POp := G.ops.getD i default
def Graph.tensor (G : Graph) (i : Nat) : PTensor := G.tensors.getD i default

/-! ## operator type information (regenerated table) -/

def opInfo (ty : Nat) : String × Nat × Bool × List Nat × List Nat × List Nat :=
  opTable.getD ty ("?", 0, false, [], [], [])
def blockTypeOf (ty : Nat) : Nat := (opInfo ty).2.1
def ifmIdx (ty : Nat) : List Nat := (opInfo ty).2.2.2.1
def weightIdx (ty : Nat) : List Nat := (opInfo ty).2.2.2.2.1
def biasIdx (ty : Nat) : List Nat := (opInfo ty).2.2.2.2.2

/-- `Operation.get_input(index_list, ix)` -/
def getInput (o : POp) (idxs : List Nat) (k : Nat) : Option Nat :=
  match idxs[k]? with
  | none => none
  | some i => match o.inputs[i]? with
    | none => none
    | some x => x

def POp.ifm (o : POp) : Option Nat := getInput o (ifmIdx o.type) 0
def POp.ifm2 (o : POp) : Option Nat := getInput o (ifmIdx o.type) 1
def POp.weights (o : POp) : Option Nat := getInput o (weightIdx o.type) 0
def POp.bias (o : POp) : Option Nat := getInput o (biasIdx o.type) 0
/-- `op.ofm` -/
def POp.ofm (o : POp) : Option Nat := o.outputs.head?

/-! ## `test_sequence` -/

structure Row where
  set : Option (List Nat)
  incompat : Nat
  toSet : Nat
  toClear : Nat
  deriving Repr, DecidableEq

def rows : List Row := testSequence.map fun r => ⟨r.1, r.2.1, r.2.2.1, r.2.2.2⟩

/-- the rule set of pass packing: `test_sequence` and the conditions of `can_pack` that were added by repairs (the unrepaired
    variants are only used by the `_witness` theorems) -/
structure Rules where
  rows : List Row
  /-- C01-2: a RELU-type operator is not packed behind a LUT / tanh / sigmoid fused activation -/
  actCheck : Bool := true
  /-- C01-22: nothing is packed behind a TRANSPOSE -/
  transposeCheck : Bool := true
  /-- C01-1: an operator that reads its input through a slice is not packed with the producer -/
  readOffsetCheck : Bool := true
  /-- C01-31 (proposed; read off the live function by the table plug-in): a RELU-type operator and a TANH / SIGMOID operator do
      not share a pass -/
  mixCheck : Bool := reluTanhSigmoidRule

/-- the rules of the module under verification -/
def Rules.current : Rules := { rows := PassPacking.rows }

def hasFlag (flags f : Nat) : Bool := flags &&& f != 0

/-- `curr_flags &= ~flags_to_clear` -/
def clearBits (flags c : Nat) : Nat := flags ^^^ (flags &&& c)

/-- the tests of one `test_sequence` row in the order the code makes them -/
def rowAccepts (r : Row) (ty : Nat) (npu : Bool) (flags : Nat) : Bool :=
  (match r.set with | none => true | some s => s.contains ty) && (flags &&& r.incompat == 0) &&
    !(hasFlag r.toSet flagNpu && !npu)

/-- first accepting row at or after position `i` -/
def findRowFrom (ty : Nat) (npu : Bool) (flags : Nat) : Nat → List Row → Option (Nat × Row)
  | _, [] => none
  | i, r :: rs => if rowAccepts r ty npu flags then some (i, r) else findRowFrom ty npu flags (i + 1) rs

def findRow (R : Rules) (ty : Nat) (npu : Bool) (flags : Nat) : Option (Nat × Row) := findRowFrom ty npu flags 0 R.rows

/-! ## `can_pack` -/

/-- `len(consumers) > 1 or (len(consumers) == 1 and consumers[0] != curr_op)` -/
def otherConsumer (cs : List (Option Nat)) (cur : Nat) : Bool :=
  match cs with
  | [] => false
  | [c] => c != some cur
  | _ => true

/-- a RELU-type post operation does not share a pass with a LUT / tanh / sigmoid fused activation -/
def cpActOk (R : Rules) (c n : POp) : Bool :=
  !(R.actCheck && activationOps.contains c.type && (match n.act with | none => false | some a => !reluOps.contains a)) &&
  -- (C01-31) nor with a TANH / SIGMOID operator, in either order: the pass is executed with ONE activation function
  !(R.mixCheck && ((activationOps.contains c.type && (n.type == opTanh || n.type == opSigmoid)) ||
                   ((c.type == opTanh || c.type == opSigmoid) && activationOps.contains n.type)))

/-- nothing is packed behind a TRANSPOSE -/
def cpTransposeOk (R : Rules) (n : POp) : Bool := !(R.transposeCheck && n.origType == opTranspose)

/-- every output of next_op is consumed by curr_op only -/
def cpConsumersOk (G : Graph) (n : POp) (cur : Nat) : Bool := !(n.outputs.any fun o => otherConsumer (G.tensor o).consumers cur)

/-- no reshaping between next_op's OFM and curr_op's IFM (`none`: IndexError on `ifm_shapes[1]`) -/
def cpShape (inp : Nat) (c n : POp) : Option Bool :=
  if c.ifmShapes.length != 0 && n.ofmShapes.length != 0 then
    if some inp == c.ifm && n.ofmShapes[0]? != c.ifmShapes[0]? then some false
    else if c.ifm2.isSome && some inp == c.ifm2 then
      match c.ifmShapes[1]? with
      | none => none
      | some s1 => some (n.ofmShapes[0]? == some s1)
    else some true
  else some true

/-- curr_op consumes the whole output of next_op (no slice read) -/
def cpReadOk (R : Rules) (inp : Nat) (c : POp) : Bool :=
  !(R.readOffsetCheck && ((some inp == c.ifm && c.ro0) || (c.ifm2.isSome && some inp == c.ifm2 && c.ro1)))

/-- `can_pack(inp, curr_op)` with its conditions in the order the code tests them; `none` = the code raises (IndexError on
    `ifm_shapes[1]`) -/
def canPack (R : Rules) (G : Graph) (inp cur : Nat) : Option Bool :=
  match (G.tensor inp).ops with
  | [nx] =>
    if !cpActOk R (G.op cur) (G.op nx) then some false
    else if !cpTransposeOk R (G.op nx) then some false
    else if !cpConsumersOk G (G.op nx) cur then some false
    else match cpShape inp (G.op cur) (G.op nx) with
      | none => none
      | some false => some false
      | some true => some (cpReadOk R inp (G.op cur))
  | _ => some false

/-! ## the walk of `build_pass` -/

/-- an operator accepted into the pass: the `test_sequence` row that accepted it and (ghost) the tensor / consumer through
    which it was reached (`none` for a start operator) -/
structure Acc where
  op : Nat
  row : Nat
  via : Option (Nat × Nat)
  deriving Repr, DecidableEq

structure QItem where
  op : Nat
  tens : Option Nat
  /-- ghost: the operator whose input `tens` is -/
  cons : Option Nat
  deriving Repr, DecidableEq

structure Walk where
  queue : List QItem := []
  /-- `ops_list` order (= `reverse_ops_list` reversed: the newest operator first) -/
  acc : List Acc := []
  flags : Nat := 0
  blockType : Nat := 0
  primary : Option Nat := none
  inputSet : List Nat := []
  ifm : Option Nat := none
  /-- `ifm_shapes` (`none` = the Python variable is still None) -/
  ifmShapes : Option (List Shape) := none
  err : Option String := none
  /-- ghost: the model ran out of fuel (never happens: `Lemmas/PassPackingFuel`) -/
  fuelOut : Bool := false
  deriving Repr

def Walk.ops (w : Walk) : List Nat := w.acc.map (·.op)

def Walk.fail (w : Walk) (msg : String) : Walk := { w with queue := [], err := some msg }

def setInsert (l : List Nat) (x : Nat) : List Nat := if l.contains x then l else l ++ [x]

def ifmRowMask : Nat := flagMac ||| flagElementWise ||| flagPost ||| flagPostFusingLimited ||| flagMemcpy

/-- `for inp in reversed(curr_op.inputs)`: queue the producer or register the tensor as an input -/
def scanInputs (R : Rules) (G : Graph) (cur : Nat) : List (Option Nat) → Walk → Walk
  | [], w => w
  | none :: rest, w => scanInputs R G cur rest w
  | some inp :: rest, w =>
    match canPack R G inp cur with
    | none => w.fail "IndexError: can_pack ifm_shapes[1]"
    | some true =>
      scanInputs R G cur rest { w with queue := w.queue ++ [⟨(G.tensor inp).ops.headD 0, some inp, some cur⟩] }
    | some false => scanInputs R G cur rest { w with inputSet := setInsert w.inputSet inp }

/-- the new entry of `acc` when queue item `q` is accepted by row `ri` -/
def newAcc (q : QItem) (ri : Nat) : Acc :=
  ⟨q.op, ri, match q.tens, q.cons with | some t, some c => some (t, c) | _, _ => none⟩

/-- `curr_flags &= ~flags_to_clear; curr_flags |= flags_to_set` -/
def flagStep (f : Nat) (r : Row) : Nat := clearBits f r.toClear ||| r.toSet

/-- `reverse_ops_list.append(curr_op)`, the major block type / primary operator, the flags -/
def acceptCore (G : Graph) (w : Walk) (q : QItem) (ri : Nat) (r : Row) : Walk :=
  let nbt := blockTypeOf (G.op q.op).type
  { w with acc := newAcc q ri :: w.acc,
           blockType := if nbt != 0 then nbt else w.blockType,
           primary := if nbt != 0 then some q.op else w.primary,
           flags := flagStep w.flags r }

/-- an NPU row that sets Mac / ElementWise / Post / PostFusingLimited / Memcpy records the operator's IFM -/
def setIfm (G : Graph) (w : Walk) (o : POp) (r : Row) : Walk :=
  if hasFlag r.toSet flagNpu && hasFlag r.toSet ifmRowMask then
    if o.inputs.length < 1 then w.fail "assert len(curr_op.inputs) >= 1"
    else match o.ifm with
      | none => w.fail "assert ifm_tensor is not None"
      | some t =>
        if (G.tensor t).purpose != purposeFeatureMap then w.fail "assert ifm_tensor.purpose == FeatureMap"
        else { w with ifm := some t, ifmShapes := some o.ifmShapes }
  else w

/-- the body executed when row `ri` accepts the operator of queue item `q` -/
def acceptOp (R : Rules) (G : Graph) (w : Walk) (q : QItem) (ri : Nat) (r : Row) : Walk :=
  let o := G.op q.op
  if blockTypeOf o.type != 0 && (w.blockType != 0 || w.primary.isSome) then w.fail "assert: one major block type per pass"
  else
    let w := setIfm G (acceptCore G w q ri r) o r
    if w.err.isSome then w
    else if r.set.isNone && o.runOnNpu then w.fail "assert not curr_op.run_on_npu (fall-back row)"
    else scanInputs R G q.op o.inputs.reverse w

def walkStep (R : Rules) (G : Graph) (w : Walk) : Walk :=
  match w.queue with
  | [] => w
  | q :: rest =>
    let w := { w with queue := rest }
    if w.ops.contains q.op then w
    else
      let o := G.op q.op
      match findRow R o.type o.runOnNpu w.flags with
      | some (ri, r) => acceptOp R G w q ri r
      | none =>
        match q.tens with
        | none => w.fail "assert tens is not None"
        | some t => { w with inputSet := setInsert w.inputSet t }

def walkRun (R : Rules) (G : Graph) : Nat → Walk → Walk
  | 0, w => if w.queue.isEmpty then w else { w.fail "fuel" with fuelOut := true }
  | n + 1, w => if w.queue.isEmpty then w else walkRun R G n (walkStep R G w)

/-- enough steps for any walk: every operator is accepted at most once and queues at most its inputs -/
def walkFuel (G : Graph) (nstart : Nat) : Nat := (G.ops.map fun o => o.inputs.length + 1).sum + nstart + 1

def walkStart (start : List Nat) : Walk := { queue := start.map fun o => ⟨o, none, none⟩ }

/-! ## the rest of `build_pass` -/

inductive Placement | cpu | npu | memoryOnly | startupInit
  deriving Repr, DecidableEq, Inhabited

def Placement.code : Placement → Nat
  | .cpu => 1 | .npu => 2 | .memoryOnly => 3 | .startupInit => 4

/-- the primary operator of a pass: an operator of the graph, or the 1x1 average pool `create_primary_op` makes -/
inductive Primary | none | real (o : Nat) | created
  deriving Repr, DecidableEq, Inhabited

structure Pass where
  /-- `ps.ops` without the created average pool, dataflow order, with the accepting rows -/
  acc : List Acc := []
  primary : Primary := .none
  placement : Placement := .cpu
  flags : Nat := 0
  isElementWise : Bool := false
  blockType : Nat := 0
  /-- `ps.inputs` (ordered inputs, then the LUTs) -/
  inputs : List Nat := []
  /-- `input_refcounts` in dictionary (insertion) order -/
  inputRefs : List (Nat × Nat) := []
  outputs : List Nat := []
  ifm : Option Nat := none
  ifm2 : Option Nat := none
  ofm : Option Nat := none
  weights : Option Nat := none
  scale : Option Nat := none
  lut : Option Nat := none
  ifmShapes : List Shape := []
  ofmShape : Option Shape := none
  isStartup : Bool := false
  deriving Repr, Inhabited

def Pass.ops (p : Pass) : List Nat := p.acc.map (·.op)
def Pass.created (p : Pass) : Bool := p.primary == .created

/-- `placement` with the assertions that exactly one of the four flags is set -/
def placementOf (flags : Nat) : Except String Placement :=
  let cands := (if hasFlag flags flagNpu then [Placement.npu] else []) ++ (if hasFlag flags flagCpu then [Placement.cpu] else []) ++
    (if hasFlag flags flagMemoryOnly then [Placement.memoryOnly] else []) ++ (if hasFlag flags flagStartupInit then [Placement.startupInit] else [])
  match cands with
  | [p] => .ok p
  | [] => .error "assert placement != Unknown"
  | _ => .error "assert placement == Unknown (two placements)"

/-- `add_input_list` state: insertion-ordered refcounts, ordered inputs, LUTs -/
structure InAcc where
  refs : List (Nat × Nat) := []
  ordered : List Nat := []
  luts : List Nat := []
  deriving Repr

def bumpRef : List (Nat × Nat) → Nat → List (Nat × Nat)
  | [], t => [(t, 1)]
  | (u, n) :: rest, t => if u == t then (u, n + 1) :: rest else (u, n) :: bumpRef rest t

def addInput (G : Graph) (inputSet : List Nat) (a : InAcc) (inp : Option Nat) : InAcc :=
  match inp with
  | none => a
  | some t =>
    if inputSet.contains t then
      let fresh := !(a.refs.any fun p => p.1 == t)
      { refs := bumpRef a.refs t,
        ordered := if fresh && (G.tensor t).purpose != purposeLUT then a.ordered ++ [t] else a.ordered,
        luts := if fresh && (G.tensor t).purpose == purposeLUT then a.luts ++ [t] else a.luts }
    else a

def addInputs (G : Graph) (inputSet : List Nat) (a : InAcc) (inps : List (Option Nat)) : InAcc :=
  inps.foldl (addInput G inputSet) a

/-- remove the first occurrence (`list.remove`) -/
def removeFirst (l : List Nat) (x : Nat) : List Nat := l.erase x

/-- `ps.ifm_shapes` of a binary elementwise pass -/
def binaryIfmShapes (G : Graph) (ifm ifm2 : Option Nat) : List Nat → Except String (List Shape)
  | [] => .ok []
  | o :: rest => do
    let op := G.op o
    let pick (slot : Option Nat) : Except String (List Shape) :=
      if slot == op.ifm then
        match op.ifmShapes[0]? with | some s => .ok [s] | none => .error "IndexError: ifm_shapes[0]"
      else if slot == op.ifm2 then
        match op.ifmShapes[1]? with | some s => .ok [s] | none => .error "IndexError: ifm_shapes[1]"
      else .ok []
    let here ← if op.runOnNpu then do
        let a ← pick ifm
        let b ← pick ifm2
        pure (a ++ b)
      else pure []
    let more ← binaryIfmShapes G ifm ifm2 rest
    pure (here ++ more)

/-! everything `build_pass` does after the walk, as total functions of the final walk state plus the list of things that make the
code raise (`finishErr`); `finishPass` is their combination -/

/-- the ElementWise default of an NPU pass without Mac / ElementWise -/
def finFlags (w : Walk) : Nat :=
  if hasFlag w.flags flagNpu && !hasFlag w.flags (flagElementWise ||| flagMac) then w.flags ||| flagElementWise else w.flags

def isPostLike (G : Graph) (o : Nat) : Bool :=
  (npuPostOps.contains (G.op o).type || npuPostFuseLimitedOps.contains (G.op o).type) && (G.op o).runOnNpu

/-- `create_primary_op` makes a 1x1 average pool: no primary operator yet and an NPU post operation in the pass -/
def needCreate (G : Graph) (w : Walk) : Bool := w.primary.isNone && w.ops.any (isPostLike G)

/-- `ops_list[0]` -/
def firstOp (w : Walk) : Nat := w.ops.headD 0

/-- the input of the created average pool: `ops_list[0].inputs[0]` -/
def createdInp (G : Graph) (w : Walk) : Option Nat :=
  if needCreate G w then (G.op (firstOp w)).inputs.headD none else none

def finPrimary (G : Graph) (w : Walk) : Primary :=
  match w.primary with
  | some o => .real o
  | none => if needCreate G w then .created else .none

/-- `input_set` after `create_primary_op` added the average pool's input -/
def finInputSet (G : Graph) (w : Walk) : List Nat :=
  match createdInp G w with
  | some t => setInsert w.inputSet t
  | none => w.inputSet

/-- the inputs of an operator as the ordering loops see them (input 0 of the first operator now is the average pool's output,
    a new tensor that is in no set) -/
def inputsOf (G : Graph) (w : Walk) (o : Nat) : List (Option Nat) :=
  if needCreate G w && o == firstOp w then (G.op o).inputs.drop 1 else (G.op o).inputs

def primaryInputs (G : Graph) (w : Walk) : List (Option Nat) :=
  match finPrimary G w with
  | .real o => (G.op o).inputs
  | .created => [createdInp G w]
  | .none => []

/-- `input_ops_list` after `remove(primary_op)` (without the created average pool) -/
def restOps (G : Graph) (w : Walk) : List Nat :=
  match finPrimary G w with
  | .real o => removeFirst w.ops o
  | _ => w.ops

/-- ordered inputs, LUTs, `input_refcounts`: the primary operator first, then the rest of the list -/
def finInAcc (G : Graph) (w : Walk) : InAcc :=
  (restOps G w).foldl (fun a o => addInputs G (finInputSet G w) a (inputsOf G w o))
    (addInputs G (finInputSet G w) {} (primaryInputs G w))

def primIsBinary (G : Graph) (w : Walk) : Bool :=
  match finPrimary G w with
  | .real o => binaryElemWiseMainOps.contains (G.op o).type
  | .created => binaryElemWiseMainOps.contains opAvgPool
  | .none => false

def primNpu (G : Graph) (w : Walk) : Bool :=
  match finPrimary G w with
  | .real o => (G.op o).runOnNpu
  | .created => true
  | .none => false

/-- `ps.ifm_tensor`, `ps.ifm2_tensor`, `ps.ifm_shapes` -/
def finSlots (G : Graph) (w : Walk) : Except String (Option Nat × Option Nat × List Shape) :=
  let a := finInAcc G w
  if primIsBinary G w then
    match a.ordered.head?, a.ordered.getLast? with
    | some i0, some i2 =>
      let i1 := if a.ordered.length > 2 then a.ordered.getD (a.ordered.length - 2) i0 else i0
      match binaryIfmShapes G (some i1) (some i2) (restOps G w ++ (match finPrimary G w with | .real o => [o] | _ => [])) with
      | .error e => .error e
      | .ok shapes => .ok (some i1, some i2, shapes)
    | _, _ => .error "IndexError: ps.inputs[0]"
  else if finPrimary G w != .none && primNpu G w then
    match w.ifmShapes with
    | none => .error "TypeError: ifm_shapes is None"
    | some l => match l[0]? with
      | some s => .ok (w.ifm, none, [s])
      | none => .error "IndexError: ifm_shapes[0]"
  else .ok (w.ifm, none, [])

/-- what makes the rest of `build_pass` raise, in the order the code gets there (`none`: it does not raise) -/
def finishErr (G : Graph) (w : Walk) (ofm : Option Nat) : Option String :=
  match w.err with
  | some e => some e
  | none =>
    match placementOf (finFlags w) with
    | .error e => some e
    | .ok pl =>
      if w.ops.isEmpty then some "IndexError: ops_list[0]"
      else if needCreate G w && (G.op (firstOp w)).inputs.isEmpty then some "IndexError: op.inputs[0]"
      else if needCreate G w && (createdInp G w).isNone then some "AttributeError: create_primary_op on a None input"
      else match finSlots G w with
        | .error e => some e
        | .ok _ =>
          if pl == .npu && ofm.isNone then some "assert ps.placement != Npu or ps.ofm_tensor is not None" else none

/-- the pass, when nothing raises -/
def finishPure (G : Graph) (w : Walk) (ofm : Option Nat) (ofmShape : Option Shape) : Pass :=
  let a := finInAcc G w
  let slots := (finSlots G w).toOption.getD (none, none, [])
  { acc := w.acc, primary := finPrimary G w,
    placement := (placementOf (finFlags w)).toOption.getD .cpu,
    flags := finFlags w,
    isElementWise := w.ops.all fun o => elemWiseOps.contains (G.op o).type,
    blockType := if needCreate G w then blockTypeOf opAvgPool else w.blockType,
    inputs := a.ordered ++ a.luts, inputRefs := a.refs,
    outputs := (G.op (w.ops.getLast?.getD 0)).outputs,
    ifm := slots.1, ifm2 := slots.2.1, ofm := ofm,
    weights := match finPrimary G w with | .real o => (G.op o).weights | _ => none,
    scale := match finPrimary G w with | .real o => (G.op o).bias | _ => none,
    lut := match finPrimary G w with | .real o => (G.op o).actLut | _ => none,
    ifmShapes := slots.2.2, ofmShape := ofmShape }

/-- everything `build_pass` does after the walk. `ofm` / `ofmShape` are the arguments of `build_pass`. -/
def finishPass (G : Graph) (w : Walk) (ofm : Option Nat) (ofmShape : Option Shape) : Except String Pass :=
  match finishErr G w ofm with
  | some e => .error e
  | none => .ok (finishPure G w ofm ofmShape)

/-- `build_pass((op,), ofm_tensor, ofm_shape)` as `visit_op` calls it -/
def buildPass (R : Rules) (G : Graph) (o : Nat) : Except String Pass :=
  let op := G.op o
  match op.outputs.head? with
  | none => .error "IndexError: op.outputs[0]"
  | some ofm =>
    if op.runOnNpu && op.ofmShapes.isEmpty then .error "IndexError: op.ofm_shapes[0]"
    else finishPass G (walkRun R G (walkFuel G 1) (walkStart [o])) (some ofm) (if op.runOnNpu then op.ofmShapes[0]? else none)

/-- `build_pass(startup_list)` with the fix-up of the outputs -/
def buildStartupPass (R : Rules) (G : Graph) (startup : List Nat) : Except String Pass :=
  match finishPass G (walkRun R G (walkFuel G startup.length) (walkStart startup)) none none with
  | .error e => .error e
  | .ok p =>
    if startup.any fun o => (G.op o).outputs.isEmpty then .error "IndexError: startup op.outputs[0]"
    else .ok { p with outputs := startup.map fun o => (G.op o).outputs.headD 0, isStartup := true }

/-! ## `visit_tensor` / `visit_op` -/

inductive Task | vt (t : Nat) | vo (o : Nat)
  deriving Repr, DecidableEq

structure Dfs where
  stack : List Task := []
  /-- tensors / operators in the order their visits happened (the reference counts are the multiplicities) -/
  doneT : List Nat := []
  doneO : List Nat := []
  /-- `reversed(reverse_pass_list)`: the newest pass first -/
  passes : List Pass := []
  startup : List Nat := []
  err : Option String := none
  /-- ghost: the model ran out of fuel -/
  fuelOut : Bool := false
  deriving Repr

def Dfs.fail (d : Dfs) (msg : String) : Dfs := { d with stack := [], err := some msg }

/-- number of outputs without consumer (`visit_op` counts them as visited on the first visit) -/
def unusedOutputs (G : Graph) (o : Nat) : Nat := ((G.op o).outputs.filter fun t => (G.tensor t).consumers.length == 0).length

def expandRefs : List (Nat × Nat) → List Task
  | [] => []
  | (t, n) :: rest => List.replicate n (Task.vt t) ++ expandRefs rest

/-- all outputs of operator `o` have been visited: it goes to the start-up list or gets its pass (`d`: the state after the visit
    was counted) -/
def dfsStart (R : Rules) (G : Graph) (d : Dfs) (o : Nat) : Dfs :=
  if startupInitOps.contains (G.op o).type then { d with startup := d.startup ++ [o] }
  else match buildPass R G o with
    | .error e => d.fail e
    | .ok p => { d with passes := p :: d.passes, stack := expandRefs p.inputRefs ++ d.stack }

def dfsStep (R : Rules) (G : Graph) (d : Dfs) : Dfs :=
  match d.stack with
  | [] => d
  | .vt t :: rest =>
    let d := { d with stack := rest, doneT := t :: d.doneT }
    let n := d.doneT.count t
    let c := (G.tensor t).consumers.length
    if n > c then d.fail "assert visit_tensor_refcount[tens] <= len(tens.consumers())"
    else if n == c then { d with stack := (G.tensor t).ops.reverse.map Task.vo ++ d.stack }
    else d
  | .vo o :: rest =>
    let d := { d with stack := rest, doneO := o :: d.doneO }
    let n := d.doneO.count o + unusedOutputs G o
    let c := (G.op o).outputs.length
    if n > c then d.fail "assert visit_op_refcount[op] <= len(op.outputs)"
    else if n == c then dfsStart R G d o
    else d

def dfsRun (R : Rules) (G : Graph) : Nat → Dfs → Dfs
  | 0, d => if d.stack.isEmpty then d else { d.fail "fuel" with fuelOut := true }
  | n + 1, d => if d.stack.isEmpty then d else dfsRun R G n (dfsStep R G d)

/-- enough steps for any traversal that does not trip an assertion: a tensor is visited at most once per consumer, an operator at
    most once per output -/
def dfsFuel (G : Graph) : Nat :=
  (G.tensors.map fun t => t.consumers.length).sum + (G.ops.map fun o => o.outputs.length).sum + 1

/-- the first traversal: from the graph outputs -/
def dfsMain (R : Rules) (G : Graph) : Dfs := dfsRun R G (dfsFuel G) { stack := G.outputs.map Task.vt }

/-- the passes in the order `list(reversed(reverse_pass_list))`: the traversal from the outputs, then the start-up pass (whose
    inputs, if it had any, are visited like those of any pass) -/
def packDfs (R : Rules) (G : Graph) : Except String (List Pass) :=
  let d := dfsMain R G
  match d.err with
  | some e => .error e
  | none =>
    if d.startup.isEmpty then .ok d.passes
    else
      match buildStartupPass R G d.startup with
      | .error e => .error e
      | .ok sp =>
        let d2 := dfsRun R G (dfsFuel G) { d with passes := sp :: d.passes, stack := expandRefs sp.inputRefs }
        match d2.err with
        | some e => .error e
        | none => .ok d2.passes

/-! ## ordering of the pass list -/

/-- facts about `ps.ops[0]` the ordering uses (the created average pool has one input, the original first input) -/
structure Op0 where
  type : Nat
  inputs : List (Option Nat)
  ifm : Option Nat
  ifm2 : Option Nat
  weights : Option Nat
  outputs : Option (List Nat)     -- `none`: the created average pool (its output is a new tensor)
  opIndex : Int

def Pass.op0 (G : Graph) (p : Pass) : Except String Op0 :=
  match p.ops.head? with
  | none => .error "IndexError: ps.ops[0]"
  | some o =>
    if p.created then
      let inp := (G.op o).inputs.headD none
      .ok { type := opAvgPool, inputs := [inp], ifm := inp, ifm2 := none, weights := none, outputs := none, opIndex := -1 }
    else
      let op := G.op o
      .ok { type := op.type, inputs := op.inputs, ifm := op.ifm, ifm2 := op.ifm2, weights := op.weights, outputs := some op.outputs,
            opIndex := op.opIndex }

/-- does the CPU pass go to the top of the list? -/
def goesTop (G : Graph) (p : Pass) : Except String Bool := do
  let o ← p.op0 G
  let ifm2 ← match o.ifm2 with
    | some t => pure (some t)
    | none =>
      if o.type == opFullyConnected then
        match o.weights with
        | none => throw "AttributeError: weights is None"
        | some wt => pure (if (G.tensor wt).purpose == purposeFeatureMap then some wt else none)
      else pure none
  let other := o.inputs.any fun i => match i with
    | none => false
    | some t => (G.tensor t).ops.any fun pr => !startupInitOps.contains (G.op pr).type
  let inIn (t : Option Nat) : Bool := match t with | some x => G.inputs.contains x | none => false
  pure (p.placement == .cpu && ((inIn o.ifm && (inIn ifm2 || ifm2.isNone) && !other) ||
    (o.type == opVarHandle || o.type == opReadVariable || o.type == opCallOnce)))

/-- stable insertion into a list sorted by key -/
def insertByKey (key : Nat → Int) (x : Nat) : List Nat → List Nat
  | [] => [x]
  | y :: ys => if key x < key y then x :: y :: ys else y :: insertByKey key x ys

def sortByKey (key : Nat → Int) (l : List Nat) : List Nat := l.foldl (fun acc x => insertByKey key x acc) []

/-- the inner loop `for next_ps in pass_list[idx + 1:]` of the CPU pass `cpu` (index into the depth-first list `ps`);
    `lst` is the live list, `rest` the copied slice -/
def moveScan (G : Graph) (ps : List Pass) (lst : List Nat) (cpu : Nat) (cpuOut : Option (List Nat)) : List Nat → Except String (List Nat)
  | [] => pure lst
  | nx :: rest' =>
    let np := ps.getD nx default
    if np.placement == .cpu then
      let l1 := lst.erase cpu
      pure ((l1.take (l1.idxOf nx)) ++ [cpu] ++ (l1.drop (l1.idxOf nx)))
    else
      match np.op0 G with
      | .error e => .error e
      | .ok o =>
        let dep := match cpuOut with
          | none => false
          | some outs => outs.any fun t => o.ifm == some t || o.ifm2 == some t
        if dep || np.placement == .memoryOnly then pure lst
        else if lst.idxOf nx == lst.length - 1 then pure (lst.erase cpu ++ [cpu])
        else moveScan G ps lst cpu cpuOut rest'

/-- one iteration of `for cpu_ps in reversed(pass_list)` for the element at index `i` of the live list -/
def moveCpu (G : Graph) (ps : List Pass) (lst : List Nat) (i : Nat) : Except String (List Nat) :=
  match lst[i]? with
  | none => .error "reverse iterator out of range"
  | some cpu =>
    let cp := ps.getD cpu default
    if cp.placement != .cpu then pure lst
    else
      match cp.op0 G with
      | .error e => .error e
      | .ok o => moveScan G ps lst cpu o.outputs (lst.drop (lst.idxOf cpu + 1))

/-- `for cpu_ps in reversed(pass_list)` over the live list: indices n-1 … 0 -/
def moveAll (G : Graph) (ps : List Pass) : Nat → List Nat → Except String (List Nat)
  | 0, lst => pure lst
  | i + 1, lst =>
    match moveCpu G ps lst i with
    | .error e => .error e
    | .ok lst' => moveAll G ps i lst'

/-- the final order as indices into the depth-first list -/
def reorderIdx (G : Graph) (ps : List Pass) : Except String (List Nat) :=
  if ps.isEmpty then .ok []
  else match ps.findIdx? (·.isStartup) with
    | none => .error "NameError: startup_ps"
    | some startupIdx =>
      match ps.mapM (goesTop G), ps.mapM (fun p => (p.op0 G).map (·.opIndex)) with
      | .error e, _ => .error e
      | _, .error e => .error e
      | .ok tops, .ok keys =>
        let idxs := (List.range ps.length).filter (· != startupIdx)
        let top := sortByKey (fun i => keys.getD i (-1)) (startupIdx :: idxs.filter fun i => tops.getD i false)
        match moveAll G ps (idxs.filter fun i => !tops.getD i false).length (idxs.filter fun i => !tops.getD i false) with
        | .error e => .error e
        | .ok rest => .ok (top ++ rest)

/-- `Subgraph.build_pass_links`: the assertions only, as the list of those that fail. `order` = final order (indices into `ps`).
    `op.scheduled_pass` is the pass built last that contains the operator (the depth-first list has the newest pass first). -/
def linkProblems (G : Graph) (ps : List Pass) (order : List Nat) : List String :=
  order.flatMap fun pi =>
    (ps.getD pi default).inputs.flatMap fun t =>
      (G.tensor t).ops.flatMap fun o =>
        match ps.findIdx? fun p => p.ops.contains o with
        | none => ["AttributeError: scheduled_pass is None"]
        | some pj =>
          (if order.idxOf pj < order.idxOf pi then [] else ["assert pred_pass.time < ps.time"]) ++
          (if (ps.getD pj default).outputs.contains t then [] else ["assert tens in pred_pass.outputs"])

def passLinks (G : Graph) (ps : List Pass) (order : List Nat) : Except String Unit :=
  match linkProblems G ps order with
  | [] => .ok ()
  | e :: _ => .error e

/-- `pack_into_passes` for one subgraph: the final pass list -/
def packIntoPasses (R : Rules) (G : Graph) : Except String (List Pass) :=
  match packDfs R G with
  | .error e => .error e
  | .ok ps =>
    match reorderIdx G ps with
    | .error e => .error e
    | .ok order =>
      match passLinks G ps order with
      | .error e => .error e
      | .ok _ => .ok (order.map fun i => ps.getD i default)

end VelaVerif.PassPacking
