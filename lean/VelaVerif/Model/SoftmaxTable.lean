import VelaVerif.Model.FpMath
import VelaVerif.Model.Scaling
/-!
# Model of `SoftMax.generate_exp_table(beta, input_scale)` (`ethosu/vela/softmax.py`, property C19)

```python
real_beta = min(np.double(beta) * np.double(input_scale) * (1 << (31 - integer_bits)), np.double((1 << 31) - 1.0))
scale, shift = scaling.quantise_scale(real_beta)
if scale == (1 << 31):
    # significand rounded up to 1.0: renormalise as the reference QuantizeMultiplier does
    scale >>= 1
    shift -= 1
shift = 31 - shift
diff_min = -1.0 * math.floor(1.0 * ((1 << integer_bits) - 1) * (1 << (total_signed_bits - integer_bits)) / (1 << shift))
for x in range(256):
    input_diff = x - 255
    if input_diff >= diff_min:
        rescale = fp_math.saturating_rounding_mul32(input_diff * (1 << shift), scale)
        lut.append(fp_math.exp_on_negative_values(rescale))
    else:
        lut.append(0)
```

The argument of the model is the double `prod = np.double(beta) * np.double(input_scale) * (1 << 26)` as exact
integers (`Scaling.Dbl`): the one rounding float multiplication is performed by the protocol handler with IEEE
`Float`; everything from the `min` on is exact here (`min` = an exact comparison, `quantise_scale` =
`Model/Scaling.lean`, `31 · 2^26 / 2^shift` is an exactly representable double for `0 ≤ shift`, `math.floor`,
`-1.0 * int` and `int >= float` are exact).
-/
namespace VelaVerif.SoftmaxTable
open VelaVerif.FpMath (saturatingRoundingMul32 expOnNegativeValues pow2)
open VelaVerif.Scaling (Dbl quantiseScale)

inductive Err where
  | fp (e : FpMath.Err)        -- raised inside fp_math.py / `1 << negative`
  | sc (e : Scaling.Err)       -- raised inside scaling.quantise_scale
deriving Repr, DecidableEq

def liftF {α : Type} : Except FpMath.Err α → Except Err α
  | .ok v => .ok v
  | .error e => .error (.fp e)

def liftS {α : Type} : Except Scaling.Err α → Except Err α
  | .ok v => .ok v
  | .error e => .error (.sc e)

/-- `np.double((1 << 31) - 1.0)` -/
def maxRealMultiplier : Dbl := .fin false 2147483647 0

/-- Python `min(a, b)`: `b` only when `b < a` (so a NaN first argument is returned) -/
def pyMin (a b : Dbl) : Dbl := if Dbl.lt b a then b else a

def integerBits : Nat := 5
def totalSignedBits : Nat := 31

/-- `diff_min` (an integral float, kept as `Int`) from `shift = 31 - quantise shift`;
    `1 << shift` raises `ValueError` for a negative shift -/
def diffMin (shift : Int) : Except Err Int := do
  let p ← liftF (pow2 shift)
  -- 1.0 * 31 * (1 << 26) / (1 << shift): exact; math.floor; -1.0 * …
  return -((((2 : Int) ^ integerBits - 1) * 2 ^ (totalSignedBits - integerBits)) / p)

/-- loop body -/
def expEntry (scale shift dmin : Int) (x : Nat) : Except Err Int :=
  let inputDiff : Int := (x : Int) - 255
  if inputDiff ≥ dmin then do
    let rescale ← liftF (saturatingRoundingMul32 (inputDiff * 2 ^ shift.toNat) scale)
    liftF (expOnNegativeValues rescale)
  else pure 0

/-- `diff_min` and the loop, from the `quantise_scale` multiplier and `shift = 31 - quantise shift` -/
def tableFrom (scale shift : Int) : Except Err (List Int) :=
  match diffMin shift with
  | .error e => .error e
  | .ok dmin => (List.range 256).mapM (expEntry scale shift dmin)

/-- the local renormalisation added by /repo commit 20248de: `quantise_scale` may return the unnormalised multiplier
    `2^31` (significand rounded up to 1.0); `if scale == (1 << 31): scale >>= 1; shift -= 1` -/
def renormalise (p : Int × Int) : Int × Int :=
  if p.1 == 2147483648 then (p.1 >>> 1, p.2 - 1) else p

/-- `generate_exp_table` from `prod = double(beta) · double(input_scale) · 2^26` (the current code) -/
def generateExpTable (prod : Dbl) : Except Err (List Int) :=
  match quantiseScale (pyMin prod maxRealMultiplier) with
  | .error e => .error (.sc e)
  | .ok p =>
    let (scale, qshift) := renormalise p
    tableFrom scale (31 - qshift)

/-- `generate_exp_table` as it was BEFORE /repo commit 20248de (no renormalisation of the multiplier `2^31`): kept only
    so that the finding that led to the fix stays documented (`softmax_exp_table_m31_witness` in `Props/C19.lean`);
    not used by the protocol handler. -/
def generateExpTableOld (prod : Dbl) : Except Err (List Int) :=
  match quantiseScale (pyMin prod maxRealMultiplier) with
  | .error e => .error (.sc e)
  | .ok (scale, qshift) => tableFrom scale (31 - qshift)

end VelaVerif.SoftmaxTable
