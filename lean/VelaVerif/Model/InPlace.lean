import VelaVerif.Model.LiveRange
/-!
# Model of the in-place decision chain: CPU/NPU boundary rewrite → consumer lists → `_get_ifm_to_fuse`

Whether an elementwise operator may write its OFM over its IFM (one live range, one address) is decided in
`live_range._get_ifm_to_fuse` (`Model/LiveRange.lean: ifmToFuseP`) from two facts it cannot see for itself:

* `len(inp.tens.consumer_list) == 1` – the consumer list of the tensor *inside its own subgraph*, as
  `Subgraph.update_consumers` rebuilds it after the graph was cut (one entry per reading operator input, one `None`
  per occurrence in `output_tensors`);
* `not inp.tens.ifm_write_protected` – set by `extract_npu_subgraphs.rewrite_tensor_cpu_producer_npu_consumers` /
  `rewrite_tensor_npu_producer_cpu_consumers` on the clone of a tensor that crosses the boundary, from the consumer
  list of the original *at that moment of the rewriting*.

This file transcribes that chain over a small description of the graph before it is cut:

| Python (`extract_npu_subgraphs.py`, `nn_graph.py`) | Lean |
|---|---|
| `Subgraph.update_consumers` (the `refresh_after_modification()` that opens `extract_npu_subgraphs`) | `Graph.initCons` |
| `extract_subgraph`: placement vector, forward/backward assignment of memory-only passes | `scanPlaces`, `resolvePlaces` |
| … numbering of the NPU subgraphs (`split_count`, `subgraph_for_pass`) | `numberIslands`, `Graph.sg` |
| … the loop `for curr_sg in new_subgraphs: for ps in curr_sg.passes: for tens in ps.inputs / ps.outputs` | `visitIn`, `visitOut`, `stepPass`, `extract` |
| `rewrite_tensor_cpu_producer_npu_consumers` | `St.toNpu` |
| `rewrite_tensor_npu_producer_cpu_consumers` (both values of `multiple_npu_sg_have_same_cpu_out_tens`) | `St.toCpu` |
| `switch_tensor_for_op` | `Pass.subst` |
| the closing `nng.refresh_after_modification()` (consumer lists per subgraph) | `finalCons` |
| `_get_ifm_to_fuse` on the rewritten graph | `fuseInfo`, `decide_` |

Granularity.  One node = one `Pass`; a consumer is identified by the pass of the consuming operator (the rewriting only
asks `subgraph_for_pass[op.scheduled_pass]`).  `reads` of a pass = the inputs of all its operators, flattened, without
the tensors that live inside the pass (`ps.intermediates`); `inputs` / `outputs` = `ps.inputs` / `ps.outputs`;
`ifm`/`ifm2`/`ofm` = those of the operator `_get_ifm_to_fuse` looks at (`sched_op.parent_op`).  A tensor *object* is a
natural number: `0 … n₀-1` the tensors of the description, clones get the next free number in creation order.
Python object attributes are total functions of the object (`St.cons`, `St.wp`, …): there is no "index out of
range" that the Python code does not have.

Because the NPU subgraphs are maximal runs of NPU passes in pass order and are numbered in that order, walking
`new_subgraphs` and their passes is walking all passes in order and skipping the CPU ones (`extract`).

Not modelled: `force_linear_format` of subgraph outputs, the `Pass`/`Operation` objects of the call operators beyond
their input/output lists, `prune_startup_init_pass`, `build_pass_links`.
-/
namespace VelaVerif.InPlace

inductive Err where
  /-- IndexError: `source_sgs[0]` for a pass input without producer -/
  | index
  /-- AssertionError: producers in different subgraphs / producer neither in this subgraph nor on the CPU -/
  | assert_
  /-- AttributeError: `orig_tens.src_tensor` is `None` in the branch `multiple_npu_sg_have_same_cpu_out_tens` -/
  | attribute
deriving Repr, DecidableEq

/-- `PassPlacement` as `pack_into_passes` leaves it; `memOnly b`: `passes[idx].ops[0].run_on_npu = b` -/
inductive Place where
  | cpu | npu | memOnly (runOnNpu : Bool) | startup
deriving Repr, DecidableEq, Inhabited

/-- one sweep of `for idx, place in seq` (`last = (last_place == Npu)`) -/
def scanPlaces : Bool → List Place → List Place
  | _, [] => []
  | last, p :: rest =>
    let p' := match p with
      | .memOnly true => if last then Place.npu else p
      | _ => p
    let last' := match p' with
      | .memOnly _ => last
      | .npu => true
      | _ => false
    p' :: scanPlaces last' rest

/-- `place_vec` after "Forward, then backwards" and "Anything left, assign to the CPU": `true` = NPU -/
def resolvePlaces (l : List Place) : List Bool :=
  let v := l.map fun p => match p with | .startup => Place.cpu | p => p
  let f := scanPlaces false v
  let b := (scanPlaces false f.reverse).reverse
  b.map fun p => match p with | .npu => true | _ => false

/-- `subgraph_for_pass` as a number: 0 = the original (CPU) subgraph, `k ≥ 1` = `…_split_k`; arguments: was the previous
    pass an NPU pass, `split_count` so far -/
def numberIslands : Bool → Nat → List Bool → List Nat
  | _, _, [] => []
  | prev, n, true :: rest =>
    let n' := if prev then n else n + 1
    n' :: numberIslands true n' rest
  | _, n, false :: rest => 0 :: numberIslands false n rest

/-- producer of a tensor -/
inductive OpRef where
  /-- an operator of pass `i` of the graph description -/
  | pass (i : Nat)
  /-- the `SubgraphInput` / `Const` operator created in the start-up pass of NPU subgraph `k` -/
  | startup (k : Nat)
  /-- the `CustomNpuOp` that calls NPU subgraph `k` -/
  | call (k : Nat)
deriving Repr, DecidableEq, Inhabited

structure Pass where
  /-- inputs of all operators of the pass (what `update_consumers` walks), pass-internal tensors left out -/
  reads : List Nat
  /-- `ps.inputs` -/
  inputs : List Nat
  /-- `ps.outputs` -/
  outputs : List Nat
  /-- `ifm`, `ifm2`, `ofm` of the operator `_get_ifm_to_fuse` is asked about -/
  ifm : Option Nat
  ifm2 : Option Nat
  ofm : Option Nat
deriving Repr, DecidableEq, Inhabited

def Pass.empty : Pass := { reads := [], inputs := [], outputs := [], ifm := none, ifm2 := none, ofm := none }

/-- `new_tens if tens == orig_tens else tens` -/
def sub (o n x : Nat) : Nat := if x = o then n else x

/-- `switch_tensor_for_op` (for every operator of the pass that is a consumer) -/
def Pass.subst (p : Pass) (o n : Nat) : Pass :=
  { reads := p.reads.map (sub o n), inputs := p.inputs.map (sub o n), outputs := p.outputs.map (sub o n),
    ifm := p.ifm.map (sub o n), ifm2 := p.ifm2.map (sub o n), ofm := p.ofm.map (sub o n) }

/-! ## The graph before it is cut -/

structure TDesc where
  /-- `equivalence_id` -/
  eq : Nat
  /-- passes of `tens.ops` -/
  ops : List Nat
  /-- `tens.ops[0].type == Op.Const` -/
  isConst : Bool
deriving Repr, DecidableEq, Inhabited

structure PDesc where
  place : Place
  pass : Pass
deriving Repr, DecidableEq, Inhabited

structure Graph where
  tens : List TDesc
  /-- `orig_sg.passes`, in order -/
  passes : List PDesc
  /-- `orig_sg.output_tensors` -/
  outputs : List Nat
deriving Repr, Inhabited

def Graph.sgList (g : Graph) : List Nat := numberIslands false 0 (resolvePlaces (g.passes.map (·.place)))

/-- `subgraph_for_pass[passes[q]]` -/
def Graph.sg (g : Graph) (q : Nat) : Nat :=
  match g.sgList[q]? with
  | some k => k
  | none => 0

def Graph.passAt (g : Graph) (q : Nat) : Pass :=
  match g.passes[q]? with
  | some p => p.pass
  | none => Pass.empty

/-- `consumer_list` as `update_consumers` builds it on the uncut graph: one entry per reading operator input, one
    `None` per occurrence in `output_tensors` (order: by pass, the real order is the order of the traversal) -/
def Graph.initCons (g : Graph) (t : Nat) : List (Option Nat) :=
  ((List.range g.passes.length).flatMap fun q => ((g.passAt q).reads.filter (· == t)).map fun _ => some q) ++
  (g.outputs.filter (· == t)).map fun _ => none

/-! ## State of the rewriting -/

/-- the parts of an NPU `Subgraph` and its call pass that the rewriting fills -/
structure Island where
  /-- `npu_subgraph.output_tensors` -/
  outputs : List Nat := []
  /-- `npu_subgraph.input_tensors`: `[]` for a fresh `Subgraph`, only `update_consumers` fills it -/
  inputTensors : List Nat := []
  /-- `call_ps.inputs` = `call_ps.primary_op.inputs` -/
  callInputs : List Nat := []
  /-- `call_ps.outputs` = `call_ps.primary_op.outputs` -/
  callOutputs : List Nat := []
  /-- `startup_init_ps.outputs` -/
  startupOutputs : List Nat := []
deriving Repr, Inhabited

structure St where
  /-- number of tensor objects so far (the next clone gets this number) -/
  n : Nat
  eq : Nat → Nat
  /-- `src_tensor` -/
  src : Nat → Option Nat
  /-- `tens.ops` -/
  ops : Nat → List OpRef
  isConst : Nat → Bool
  /-- `consumer_list`: `some q` = an operator of pass `q`, `none` = `None` -/
  cons : Nat → List (Option Nat)
  /-- `ifm_write_protected` -/
  wp : Nat → Bool
  pass : Nat → Pass
  /-- `orig_sg.output_tensors` -/
  cpuOut : List Nat
  island : Nat → Island
  /-- the branch `multiple_npu_sg_have_same_cpu_out_tens` was taken (the theorems exclude it) -/
  usedMultiple : Bool

def upd {α : Type} (f : Nat → α) (a : Nat) (v : α) : Nat → α := fun x => if x = a then v else f x

def Graph.init (g : Graph) : St :=
  { n := g.tens.length,
    eq := fun t => match g.tens[t]? with | some d => d.eq | none => t,
    src := fun _ => none,
    ops := fun t => match g.tens[t]? with | some d => d.ops.map OpRef.pass | none => [],
    isConst := fun t => match g.tens[t]? with | some d => d.isConst | none => false,
    cons := g.initCons,
    wp := fun _ => false,
    pass := g.passAt,
    cpuOut := g.outputs,
    island := fun _ => {},
    usedMultiple := false }

/-- `subgraph_for_pass[op.scheduled_pass]` of a producer -/
def sgOfRef (sg : Nat → Nat) : OpRef → Nat
  | .pass i => sg i
  | .startup k => k
  | .call _ => 0

/-- consumer entry is an operator of subgraph `k` -/
def inSg (sg : Nat → Nat) (k : Nat) : Option Nat → Bool
  | some q => sg q == k
  | none => false

/-- consumer entry is an operator outside subgraph `k` (`None` is "handled separately") -/
def outSg (sg : Nat → Nat) (k : Nat) : Option Nat → Bool
  | some q => sg q != k
  | none => false

/-- `rewrite_tensor_cpu_producer_npu_consumers(orig_tens = t, …, npu_subgraph = island k, …)` -/
def St.toNpu (s : St) (sg : Nat → Nat) (k t : Nat) : St :=
  let x := s.n
  let old := s.cons t
  let isl := s.island k
  { s with
    n := s.n + 1,
    eq := upd s.eq x (s.eq t),
    src := upd s.src x (some t),
    ops := upd s.ops x [OpRef.startup k],
    isConst := upd s.isConst x (s.isConst t),
    -- the two `if`s BEFORE the consumers are moved: the whole consumer list of the original counts
    wp := upd s.wp x (s.wp t || decide (old.length > 1) || s.cpuOut.contains t),
    cons := upd (upd s.cons t (old.filter fun c => !inSg sg k c)) x (old.filter (inSg sg k)),
    pass := fun q => if sg q == k && old.contains (some q) then (s.pass q).subst t x else s.pass q,
    island := upd s.island k
      { isl with startupOutputs := isl.startupOutputs ++ [x],
                 callInputs := if s.isConst t then isl.callInputs else isl.callInputs ++ [t],
                 outputs := isl.outputs.map (sub t x) } }

/-- `rewrite_tensor_npu_producer_cpu_consumers(orig_tens = t, …, multiple_npu_sg_have_same_cpu_out_tens = multiple)` -/
def St.toCpu (s : St) (sg : Nat → Nat) (k t : Nat) (multiple : Bool) : Except Err St :=
  -- (new_tens, orig_tens, state with the clone created)
  let r : Except Err (Nat × Nat × St) :=
    if multiple then
      match s.src t with
      | some o => .ok (t, o, s)
      | none => .error .attribute
    else
      let x := s.n
      .ok (x, t, { s with n := s.n + 1, eq := upd s.eq x (s.eq t), src := upd s.src x (some t), ops := upd s.ops x [],
                           isConst := upd s.isConst x false, cons := upd s.cons x [], wp := upd s.wp x (s.wp t) })
  match r with
  | .error e => .error e
  | .ok (nw, og, s) =>
    let isl := s.island k
    let outs := isl.outputs ++ [og]
    let old := s.cons og
    .ok { s with
      ops := upd s.ops nw (s.ops nw ++ [OpRef.call k]),
      wp := upd s.wp nw (s.wp nw || (isl.inputTensors.contains og && decide (old.length > 1)) || outs.contains og),
      cons := upd (upd s.cons og (old.filter fun c => !outSg sg k c)) nw (s.cons nw ++ old.filter (outSg sg k)),
      pass := fun q => if sg q != k && old.contains (some q) then (s.pass q).subst og nw else s.pass q,
      cpuOut := s.cpuOut.map (sub og nw),
      island := upd s.island k { isl with outputs := outs, callOutputs := isl.callOutputs ++ [nw] },
      usedMultiple := s.usedMultiple || multiple }

/-- body of `for tens in ps.inputs` for a pass of NPU subgraph `k` -/
def visitIn (sg : Nat → Nat) (k : Nat) (s : St) (t : Nat) : Except Err St :=
  match s.ops t with
  | [] => .error .index
  | r :: rest =>
    let psg := sgOfRef sg r
    if !(rest.all fun r' => sgOfRef sg r' == psg) then .error .assert_
    else if psg != k then
      if psg != 0 then .error .assert_ else .ok (s.toNpu sg k t)
    else .ok s

/-- `(need_rewrite, multiple_npu_sg_have_same_cpu_out_tens, output_tensor)` of `for tens in ps.outputs` -/
def needRewrite (sg : Nat → Nat) (k : Nat) (s : St) (t : Nat) : Bool × Bool × Nat :=
  let need0 := (s.cons t).any (outSg sg k)
  s.cpuOut.foldl
    (fun (acc : Bool × Bool × Nat) o =>
      if !(s.island k).outputs.contains t then
        if t = o then (true, acc.2.1, acc.2.2)
        else if s.eq t = s.eq o then (true, true, o)
        else acc
      else acc)
    (need0, false, t)

/-- body of `for tens in ps.outputs` -/
def visitOut (sg : Nat → Nat) (k : Nat) (s : St) (t : Nat) : Except Err St :=
  let nr := needRewrite sg k s t
  if nr.1 then s.toCpu sg k nr.2.2 nr.2.1 else .ok s

def foldE (f : St → Nat → Except Err St) : St → List Nat → Except Err St
  | s, [] => .ok s
  | s, x :: xs =>
    match f s x with
    | .ok s' => foldE f s' xs
    | .error e => .error e

/-- one `ps` of one `curr_sg`: both loops run over the list the pass holds when the loop starts -/
def stepPass (sg : Nat → Nat) (s : St) (p : Nat) : Except Err St :=
  if sg p = 0 then .ok s
  else
    match foldE (visitIn sg (sg p)) s (s.pass p).inputs with
    | .error e => .error e
    | .ok s1 => foldE (visitOut sg (sg p)) s1 (s1.pass p).outputs

/-- "Rewrite tensors to fix up graphs." -/
def extract (g : Graph) : Except Err St := foldE (stepPass g.sg) g.init (List.range g.passes.length)

/-! ## After the cut: consumer lists per subgraph, the fuse decision -/

/-- number of NPU subgraphs -/
def Graph.nIslands (g : Graph) : Nat := g.sgList.foldl max 0

/-- `consumer_list` after the closing `refresh_after_modification()`: readers in the passes, the call operators,
    one `None` per occurrence in an `output_tensors` list.  (A tensor object lives in one subgraph; for an object that
    two subgraphs hold — never seen — Python would keep the list of the subgraph refreshed last.) -/
def finalCons (g : Graph) (s : St) (x : Nat) : List (Option OpRef) :=
  ((List.range g.passes.length).flatMap fun q => ((s.pass q).reads.filter (· == x)).map fun _ => some (OpRef.pass q)) ++
  ((List.range (g.nIslands + 1)).flatMap fun k => ((s.island k).callInputs.filter (· == x)).map fun _ => some (OpRef.call k)) ++
  ((s.cpuOut.filter (· == x)).map fun _ => none) ++
  ((List.range (g.nIslands + 1)).flatMap fun k => ((s.island k).outputs.filter (· == x)).map fun _ => none)

/-- what `_get_ifm_to_fuse` reads from the operator and its tensors when it is called (after scheduling), beyond
    what the rewriting determines: supplied per pass and role -/
structure TAttr where
  purpose : LiveRange.Purpose
  inTarget : Bool
  size : Nat
  shapeEmpty : Bool
  format : Nat
  dtype : Nat
  isVariable : Bool
deriving Repr, DecidableEq, Inhabited

structure FuseDesc where
  elementwise : Bool
  varWrite : Bool
  memcpy : Bool
  ofmShape : List Nat
  ifmShape : List Nat
  ifm2Shape : List Nat
  ofmAttr : TAttr
  ifmAttr : TAttr
  ifm2Attr : TAttr
deriving Repr, Inhabited

/-- the `LiveRange.Tensor` record of tensor object `x`: write protection, consumer and producer counts from the
    rewritten graph, the rest as supplied -/
def tensorRec (g : Graph) (s : St) (a : TAttr) (x : Nat) : LiveRange.Tensor :=
  { id := x, eqId := s.eq x, purpose := a.purpose, inTarget := a.inTarget, size := a.size, shapeEmpty := a.shapeEmpty,
    writeProtected := s.wp x, format := a.format, dtype := a.dtype, consumers := (finalCons g s x).length,
    producers := (s.ops x).length, isVariable := a.isVariable, preBuffer := false }

/-- `FuseInfo` of pass `o` of the rewritten graph; `none`: the pass has no OFM (not an NPU operation) -/
def fuseInfo (g : Graph) (s : St) (d : FuseDesc) (o : Nat) : Option LiveRange.FuseInfo :=
  match (s.pass o).ofm with
  | none => none
  | some ofm =>
    some { elementwise := d.elementwise, varWrite := d.varWrite, memcpy := d.memcpy,
           ofm := tensorRec g s d.ofmAttr ofm, ofmShape := d.ofmShape,
           ifm := (s.pass o).ifm.map (tensorRec g s d.ifmAttr), ifmShape := d.ifmShape,
           ifm2 := (s.pass o).ifm2.map (tensorRec g s d.ifm2Attr), ifm2Shape := d.ifm2Shape }

/-- the tensor object whose live range the OFM of pass `o` joins under the rules `ru`, if any -/
def fused (ru : LiveRange.FuseRules) (g : Graph) (s : St) (d : FuseDesc) (o : Nat) : Option Nat :=
  match fuseInfo g s d o with
  | none => none
  | some fi =>
    match LiveRange.ifmToFuseP ru fi with
    | some (some x) => some x.id
    | _ => none

/-! ## Well-formedness of a graph description (evaluated by the driver on every real graph) -/

/-- * every operator input that is not pass-internal is a pass input (`pack_into_passes`);
    * every tensor a pass reads has a producer, every producer is an earlier pass (execution order) that lists the
      tensor in `ps.outputs`; a tensor in `ps.outputs` has that pass in `ops`;
    * the IFMs of the operator the decision is about are inputs of its pass; the subgraph outputs are tensors of the
      description. -/
def Graph.wfPass (g : Graph) (q : Nat) : Bool :=
  let p := g.passAt q
  p.reads.all (fun t => p.inputs.contains t) &&
  p.reads.all (fun t => match g.tens[t]? with
    | some d => !d.ops.isEmpty && d.ops.all (fun i => decide (i < q) && (g.passAt i).outputs.contains t)
    | none => false) &&
  p.outputs.all (fun t => match g.tens[t]? with | some d => d.ops.contains q | none => false) &&
  (match p.ifm with | some t => p.reads.contains t | none => true) &&
  (match p.ifm2 with | some t => p.reads.contains t | none => true)

def Graph.wf (g : Graph) : Bool :=
  (List.range g.passes.length).all g.wfPass && g.outputs.all fun t => decide (t < g.tens.length)

/-- pass `q` of the description reads tensor `a` -/
def Graph.readsAt (g : Graph) (q a : Nat) : Bool := (g.passAt q).reads.contains a

/-! ## The memory-only operator in front of the boundary (`graph_optimiser_util.bypass_memory_only_ops`)

A RESHAPE / SQUEEZE / EXPAND_DIMS placed on the NPU is removed ("bypassed": the producer writes the reshaped tensor) unless
its IFM has several consumers or is produced on the CPU (a graph input counts: its Placeholder does not run on the NPU);
then it stays as a `Memcpy`.  So a tensor that crosses the CPU→NPU boundary and is read through a RESHAPE reaches
`_get_ifm_to_fuse` as the IFM of a Memcpy, never as the IFM of the operator behind the RESHAPE. -/

inductive MemOnlyFate where
  | memcpy | bypass
deriving Repr, DecidableEq

/-- `ifm_has_multiple_cons or ifm_is_cpu_produced` -/
def memOnlyFate (ifmConsumers : Nat) (ifmCpuProduced : Bool) : MemOnlyFate :=
  if decide (ifmConsumers > 1) || ifmCpuProduced then .memcpy else .bypass

end VelaVerif.InPlace
