import VelaVerif.Model.Box
/-!
# Model of the three nested stripe loops of `generate_high_level_commands_for_sched_op`

```
for start_height in range(ofm_start.height, ofm_end.height, ofm_step.height):
    end_height = min(start_height + ofm_step.height, ofm_end.height)
    for start_width in range(ofm_start.width, ofm_end.width, ofm_step.width):
        end_width = min(start_width + ofm_step.width, ofm_end.width)
        for depth_idx, start_channel in enumerate(ofm_depth_slices[:-1]):
            start_channel = max(start_channel, ofm_start.depth)
            end_channel = min(ofm_depth_slices[depth_idx + 1], ofm_end.depth)
            ofm_box = Box([ofm_start.batch, start_height, start_width, start_channel],
                          [ofm_end.batch, end_height, end_width, end_channel])
```
Coordinates of OFM boxes are natural numbers.
-/
namespace VelaVerif.Stripes
open VelaVerif.Box

/-- Python `range(start, stop, step)` for `step > 0`: `start + i*step` for `i < ceil((stop-start)/step)` -/
def pyRange (start stop step : Nat) : List Nat :=
  (List.range ((stop - start + step - 1) / step)).map fun i => start + i * step

/-- the intervals `[lo, min(lo+step, stop))` of one loop level -/
def axisIntervals (start stop step : Nat) : List (Nat × Nat) :=
  (pyRange start stop step).map fun lo => (lo, min (lo + step) stop)

/-- consecutive pairs of the depth-slice list, clamped to `[dStart, dEnd]` -/
def depthIntervals (dStart dEnd : Nat) : List Nat → List (Nat × Nat)
  | a :: b :: rest => (max a dStart, min b dEnd) :: depthIntervals dStart dEnd (b :: rest)
  | _ => []

/-- a 3-axis OFM box (the batch axis is the constant `[ofm_start.batch, ofm_end.batch]`) -/
structure OBox where
  y0 : Nat
  y1 : Nat
  x0 : Nat
  x1 : Nat
  c0 : Nat
  c1 : Nat
deriving Repr, DecidableEq, Inhabited

/-- the boxes of the three loops, before `Box.__init__` checks them -/
def ofmBoxesRaw (sH sW sC eH eW eC stepH stepW : Nat) (slices : List Nat) : List OBox :=
  let ds := depthIntervals sC eC slices
  (axisIntervals sH eH stepH).flatMap fun hh =>
    (axisIntervals sW eW stepW).flatMap fun ww =>
      ds.map fun cc => (⟨hh.1, hh.2, ww.1, ww.2, cc.1, cc.2⟩ : OBox)

/-- OFM boxes in emission order. `range()` with step 0 raises ValueError; a depth interval with
    `start > end` trips the assertion of `Box.__init__`; `batch start > batch end` as well. -/
def ofmBoxes (sN sH sW sC eN eH eW eC stepH stepW : Nat) (slices : List Nat) : Except Err (List OBox) :=
  if stepH = 0 ∨ stepW = 0 then .error .value else
  let bs := ofmBoxesRaw sH sW sC eH eW eC stepH stepW slices
  if bs.all (fun b => b.c0 ≤ b.c1) && (bs.isEmpty || sN ≤ eN) then .ok bs else .error .assert

/-- what the generator emits before the first failing `Box(...)`: the boxes up to it, and the error -/
def ofmBoxesPrefix (sN sH sW sC eN eH eW eC stepH stepW : Nat) (slices : List Nat) : List OBox × Option Err :=
  if stepH = 0 ∨ stepW = 0 then ([], some .value) else
  let bs := ofmBoxesRaw sH sW sC eH eW eC stepH stepW slices
  let good := bs.takeWhile fun b => decide (b.c0 ≤ b.c1) && decide (sN ≤ eN)
  (good, if good.length < bs.length then some .assert else none)

end VelaVerif.Stripes
