import VelaVerif.Model.Payload
/-!
# Model of `ethosu/vela/npu_serialisation.py` and of the part of `compiler_driver.compiler_driver` around it
(property C12, second sentence; the region extents "as published in the output file" of C02)

Hand transcription, in code order:

* `make_memory_tensor`                                    → `mkMem`
* `copy_compressed_values_to_memory_tensor`               → `copyCompressed`
* `copy_ifm_values_to_memory_tensor`                      → `copyIfm` (`fmBytes`: element byte order)
* `serialise_npu_subgraph_into_tensors`                   → `serialise`
* the loop over the NPU subgraphs in `compiler_driver`    → `serialiseAll`
* "Set Scratch and Fast_scratch Tensor size"              → `finalSizes`
* `rewrite_npu_call_ops` (operand lists, start-up pass)   → `rewriteInputs`, `startupOutputs`
* `high_level_command_to_npu_op.get_region`               → `getRegion`
* the hand-over to `tflite_writer` (offline plan entry)   → `planOffset`

NumPy: `values[a:b] = src` on a one-dimensional `uint8` array is `setSlice`: the slice is clamped to the array,
the source must have the length of the clamped slice or length one (broadcast), otherwise `ValueError`.
Bytes are `Nat`s below 256, constant feature-map values are `Int`s (the value of each NumPy element).

What is NOT modelled: `sram_used` of the cascaded passes (performance bookkeeping of `rewrite_npu_call_ops`), the name
strings, `set_format` (the memory tensors are linear NHWC byte vectors).
-/
namespace VelaVerif.Serialise
open VelaVerif

inductive MemArea where
  | unknown | sram | dram | onChipFlash | offChipFlash | shram
deriving Repr, DecidableEq, Inhabited

inductive MemType where
  | unknown | permanentNPU | permanentCPU | scratch | scratchFast
deriving Repr, DecidableEq, Inhabited

inductive Purpose where
  | unknown | weights | featureMap | scratch | scratchFast | lut | fsBias
deriving Repr, DecidableEq, Inhabited

inductive Port where
  | axi0 | axi1
deriving Repr, DecidableEq, Inhabited

inductive Err where
  | broadcast                 -- ValueError: could not broadcast input array from shape (m,) into shape (n,)
  | noValues                  -- AttributeError: `src_tensor.values` is None
  | noAddress                 -- TypeError: `src_tensor.address` is None
  | noLut                     -- AttributeError: `parent_ps.lut_tensor` is None
  | noTensor                  -- AttributeError: a memory tensor handed over by the previous subgraph is None
  | payload (e : Payload.Err) -- `driver_actions.create_driver_payload` failed
deriving Repr, DecidableEq

/-- the memory part of `ArchitectureFeatures`: which AXI port constants / arena / cache use and what the ports are -/
structure Arch where
  acc : Gen.AccRow
  constPort : Port
  arenaPort : Port
  cachePort : Port
  axi0 : MemArea
  axi1 : MemArea
deriving Repr

/-- `_mem_port_mapping` -/
def Arch.portArea (a : Arch) : Port → MemArea
  | .axi0 => a.axi0
  | .axi1 => a.axi1

/-- `permanent_storage_mem_area` -/
def Arch.flashArea (a : Arch) : MemArea := a.portArea a.constPort
/-- `feature_map_storage_mem_area` -/
def Arch.scratchArea (a : Arch) : MemArea := a.portArea a.arenaPort
/-- `fast_storage_mem_area` -/
def Arch.fastArea (a : Arch) : MemArea := a.portArea a.cachePort

/-- `is_spilling_enabled` (Dedicated SRAM): the cache port is SRAM and is not the arena port -/
def Arch.spilling (a : Arch) : Bool :=
  decide (a.portArea a.cachePort = .sram) && decide (a.cachePort ≠ a.arenaPort)

/-- `get_region(mem_type, arch)`; `none` = KeyError (MemType.Unknown) -/
def getRegion (a : Arch) : MemType → Option Nat
  | .permanentNPU => some 0
  | .permanentCPU => some 0
  | .scratch => some 1
  | .scratchFast => some (if a.spilling then 2 else 1)
  | .unknown => none

/-! ## NumPy slice assignment -/

/-- `mem[start:stop] = src` for `0 ≤ start`, `0 ≤ stop` -/
def setSlice (mem : List Nat) (start stop : Nat) (src : List Nat) : Except Err (List Nat) :=
  let s := min start mem.length
  let e := max s (min stop mem.length)
  if src.length = e - s then .ok (mem.take s ++ src ++ mem.drop e)
  else if src.length = 1 then .ok (mem.take s ++ List.replicate (e - s) (src.headD 0) ++ mem.drop e)
  else .error .broadcast

/-! ## element bytes -/

/-- `n` little-endian bytes of `u` -/
def leNat : Nat → Nat → List Nat
  | 0, _ => []
  | n + 1, u => u % 256 :: leNat n (u / 256)

/-- `ndarray.tobytes()` of one element of an `itemSize`-byte integer type on a little-endian host: two's complement -/
def leBytes (itemSize : Nat) (v : Int) : List Nat := leNat itemSize (v % (256 : Int) ^ itemSize).toNat

/-- assignment of an integer element to a `uint8` array (unsafe cast: modulo 256) -/
def toU8 (v : Int) : Nat := (v % 256).toNat

/-! ## source tensors -/

/-- an `NpuWeightTensor` (encoded weights or encoded scales) -/
structure Comp where
  address : Option Nat        -- `tens.address` (TensorAddressMap; None = never allocated)
  storageSize : Nat           -- `tens.storage_size()`
  buffer : List Nat           -- `tens.buffer` (the encoded stream)
deriving Repr, DecidableEq

/-- a constant feature map (IFM / IFM2 / LUT tensor) -/
structure Fm where
  address : Option Nat
  memType : MemType
  dtypeSize : Nat             -- `tens.dtype.size_in_bytes()`
  itemSize : Nat              -- `tens.values.dtype.itemsize`
  values : Option (List Int)  -- `tens.values.flatten()`
deriving Repr, DecidableEq

/-- the bytes `copy_ifm_values_to_memory_tensor` assigns -/
def fmBytes (t : Fm) (vals : List Int) : List Nat :=
  if t.dtypeSize > 1 then vals.flatMap (leBytes t.itemSize) else vals.map toU8

def copyCompressed (mem : List Nat) (t : Comp) : Except Err (List Nat) :=
  match t.address with
  | none => .error .noAddress
  | some a => setSlice mem a (a + t.storageSize) t.buffer

def copyIfm (mem : List Nat) (t : Fm) : Except Err (List Nat) :=
  match t.values, t.address with
  | none, _ => .error .noValues
  | some _, none => .error .noAddress
  | some vals, some a => setSlice mem a (a + (fmBytes t vals).length) (fmBytes t vals)

/-- what the serialiser reads of one scheduled operation -/
structure SOp where
  weights : Option Comp       -- `op_info.npu_weights_tensor`
  scales : Option Comp        -- `op_info.npu_scales_tensor`
  ifm : Option Fm
  ifm2 : Option Fm
  lut : Option (Option Fm)    -- `some l` iff `parent_op.activation_lut`; `l` = `parent_ps.lut_tensor`
deriving Repr, DecidableEq

inductive Item where
  | comp (t : Comp)
  | fm (t : Fm)
  | missingLut
deriving Repr, DecidableEq

def inArena (t : Fm) : Bool := t.memType == .scratch || t.memType == .scratchFast

/-- the copies of one scheduled operation, in code order -/
def opItems (o : SOp) : List Item :=
  (match o.weights with | some t => [.comp t] | none => []) ++
  (match o.scales with | some t => [.comp t] | none => []) ++
  (match o.ifm with | some t => if inArena t then [] else [.fm t] | none => []) ++
  (match o.ifm2 with | some t => if inArena t then [] else [.fm t] | none => []) ++
  (match o.lut with | none => [] | some none => [.missingLut] | some (some t) => [.fm t])

def applyItem (mem : List Nat) : Item → Except Err (List Nat)
  | .comp t => copyCompressed mem t
  | .fm t => copyIfm mem t
  | .missingLut => .error .noLut

def applyItems : List Item → List Nat → Except Err (List Nat)
  | [], mem => .ok mem
  | it :: rest, mem =>
    match applyItem mem it with
    | .error e => .error e
    | .ok m => applyItems rest m

/-! ## memory tensors -/

structure MemTensor where
  size : Nat                    -- `shape[0]`
  memArea : MemArea
  memType : MemType
  purpose : Purpose
  values : Option (List Nat)    -- None for tensors without data
deriving Repr, DecidableEq

/-- `make_memory_tensor` -/
def mkMem (area : MemArea) (mt : MemType) (sz : Nat) (wantValues : Bool) : MemTensor :=
  { size := sz, memArea := area, memType := mt, purpose := .featureMap,
    values := if wantValues then some (List.replicate sz 0) else none }

structure Sg where
  isNpu : Bool                          -- `sg.placement == PassPlacement.Npu`
  memoryUsed : List (MemArea × Nat)     -- `sg.memory_used`
  ops : List SOp                        -- `sg.sched_ops` with their cost-map entries
  words : List Nat                      -- `sg.register_command_stream`
deriving Repr

/-- `d.get(k, 0)` -/
def lookup {κ : Type} [BEq κ] (d : List (κ × Nat)) (k : κ) : Nat :=
  match d with
  | [] => 0
  | p :: rest => if p.1 == k then p.2 else lookup rest k

def dictGet (d : List (MemArea × Nat)) (k : MemArea) : Nat := lookup d k

def sgItems (sg : Sg) : List Item := sg.ops.flatMap opItems

structure Result where
  scratch : Option MemTensor
  fast : Option MemTensor
  flash : Option MemTensor
  cmd : Option MemTensor        -- `sg.command_stream_tensor`; none for a subgraph that is not on the NPU
deriving Repr, DecidableEq

/-- `serialise_npu_subgraph_into_tensors(sg, arch, scratch_tens, scratch_fast_tens, flash_tens)` -/
def serialise (arch : Arch) (sg : Sg) (scratch fast flash : Option MemTensor) : Except Err Result :=
  if !sg.isNpu then .ok ⟨scratch, fast, flash, none⟩ else
  let flashSize := dictGet sg.memoryUsed arch.flashArea
  let scratchSize := dictGet sg.memoryUsed arch.scratchArea
  match Payload.createDriverPayload arch.acc sg.words with
  | .error e => .error (.payload e)
  | .ok payload =>
    -- `flash_tens == scratch_tens is None`
    let first : Except Err (MemTensor × MemTensor × MemTensor) :=
      if scratch.isNone && flash.isNone then
        .ok ({ mkMem arch.scratchArea .scratch scratchSize false with purpose := .scratch },
             { mkMem arch.fastArea .scratchFast 0 false with purpose := .scratchFast },
             mkMem arch.flashArea .permanentCPU flashSize true)
      else
        match scratch, flash, fast with
        | some s, some f, some q => .ok ({ s with size := s.size + scratchSize }, { q with size := 0 }, { f with size := f.size + flashSize })
        | _, _, _ => .error .noTensor
    match first with
    | .error e => .error e
    | .ok (s, q, f) =>
      let cmd : MemTensor := { mkMem arch.flashArea .permanentCPU payload.length true with values := some payload }
      match f.values with
      | none =>
        -- a constants tensor without data (never created by this function): nothing fails as long as nothing is copied
        if (sgItems sg).isEmpty then .ok ⟨some s, some q, some f, some cmd⟩ else .error .noValues
      | some vals =>
        match applyItems (sgItems sg) vals with
        | .error e => .error e
        | .ok vals' => .ok ⟨some s, some q, some { f with values := some vals' }, some cmd⟩

/-- the loop `for sg in npu_subgraphs` of `compiler_driver`: the three shared tensors and one command-stream tensor per subgraph -/
def serialiseAll (arch : Arch) : List Sg → Option MemTensor → Option MemTensor → Option MemTensor →
    Except Err (Option MemTensor × Option MemTensor × Option MemTensor × List (Option MemTensor))
  | [], s, q, f => .ok (s, q, f, [])
  | sg :: rest, s, q, f =>
    match serialise arch sg s q f with
    | .error e => .error e
    | .ok r =>
      match serialiseAll arch rest r.scratch r.fast r.flash with
      | .error e => .error e
      | .ok (s', q', f', cmds) => .ok (s', q', f', r.cmd :: cmds)

def typeGet (d : List (MemType × Nat)) (k : MemType) : Nat := lookup d k

/-- `scratch_tens.set_all_shapes([root_sg.memory_used_per_type.get(MemType.Scratch, 0)])` and the same for the fast tensor -/
def finalSizes (perType : List (MemType × Nat)) (scratch fast : Option MemTensor) : Option MemTensor × Option MemTensor :=
  (scratch.map fun s => { s with size := typeGet perType .scratch },
   fast.map fun q => { q with size := typeGet perType .scratchFast })

/-! ## `rewrite_npu_call_ops` -/

/-- identity of an operand of the CPU-side call operator -/
inductive TRef where
  | cmd (sg : Nat)      -- `callee.command_stream_tensor` of NPU subgraph `sg`
  | flash
  | scratch
  | fast
  | other (id : Nat)    -- an input of the subgraph proper
deriving Repr, DecidableEq

/-- the list walked by `for tens in [...]` -/
def memOperands (callee : Nat) : List TRef := [.fast, .scratch, .flash, .cmd callee]

/-- `op.inputs.insert(0, tens)` for every memory tensor (the same for `ps.inputs`, `cps.inputs`) -/
def rewriteInputs (callee : Nat) (inputs : List TRef) : List TRef :=
  (memOperands callee).foldl (fun acc t => t :: acc) inputs

/-- `add_const_tens_to_startup_cascaded_pass` for the tensors that are neither scratch tensor: the outputs of the start-up pass
    (these get a live range in the final `Permanent_CPU` allocation).  The function inserts into `passes[0].outputs` and into
    the cascaded pass's `outputs`; `aliased` says that the two are one list object (then every tensor is entered twice) -/
def startupOutputs (aliased : Bool) (callee : Nat) (outs : List TRef) : List TRef :=
  (memOperands callee).foldl (fun acc t =>
    if t ≠ .scratch ∧ t ≠ .fast then (if aliased then t :: t :: acc else t :: acc) else acc) outs

/-- which memory tensor holds the tensors of a memory type, as the allocation lists of `scheduler._update_tensor_allocation`
    and `compiler_driver` place them -/
def holder (a : Arch) : MemType → Option TRef
  | .permanentNPU => some .flash
  | .permanentCPU => some .flash
  | .scratch => some .scratch
  | .scratchFast => some (if a.spilling then .fast else .scratch)
  | .unknown => none

/-! ## hand-over to the writer -/

/-- the `OfflineMemoryAllocation` entry `tflite_writer` derives for a tensor: its address when the memory type is Scratch /
    Scratch_fast (0 for an address that was never set), else -1 -/
def planOffset (mt : MemType) (address : Option Nat) : Int :=
  if mt = .scratch ∨ mt = .scratchFast then (address.getD 0 : Nat) else -1

/-- the memory tensors never receive an address (`TensorAddressMap` has no entry for them) -/
def memPlanOffset (t : MemTensor) : Int := planOffset t.memType none

/-- does the writer give the tensor a data buffer (`assign_buffers_to_tensors`: buffer 0 for arena tensors) -/
def hasBuffer (t : MemTensor) : Bool := !(t.memType == .scratch || t.memType == .scratchFast)

end VelaVerif.Serialise
