import VelaVerif.Model.EmitRegs
import VelaVerif.Model.NpuOp
/-!
# Model of `register_command_stream_generator.py`

* `RegMachine`, `Machines`, `step`, `runWords` — `RegisterMachine` / `CommandStreamEmitter`
  (`cmd0_with_param`, `cmd1_with_offset`, `cmd1_with_address`, `cmd_wait`, `cmd_do_operation`, the two
  register machines, `switch_bank`, the `& 0xFFFF` / `& 0xFFFFFFFF` masks).  Mutation of `self` becomes
  a returned state; the emitted tuples are returned flattened (`to_list`).
* `regProgram` — `generate_registers_for_op`: the register writes of one operation in emission order,
  as `List RegWrite` (`generate_common`, `generate_ifm/ifm2/ofm`, `generate_addresses/tiles/strides`,
  `generate_*_precision`, `generate_padding`, `generate_kernel`, `generate_weights/biases`,
  `generate_activation`, `generate_block_config`, `generate_shram_registers`, `generate_ifm2_broadcast`,
  `generate_dma_op` with `check_dma_op`, and the emission part of the three scaling functions).
* `program` / `generate` — `generate_command_stream`: `PARALLEL_MODE`, per operation registers,
  `BLOCKDEP`, waits, `NPU_OP_*`, final `NPU_OP_STOP`, the 16 MiB limit.

Not modelled (taken as integers from the run, see `NpuOp.Oracle`): `try_block_config`, `calc_blockdep`,
`get_wait_dependency`, the float part of the scaling functions, `check_mem_limits`.
The model rejects what the code rejects (`Err`), it never substitutes a default.
-/
namespace VelaVerif.Emit
open VelaVerif.Gen VelaVerif.NpuOp

/-! ## RegisterMachine -/

/-- dictionary key of `RegisterMachine.registers[bank]`: the enum *member* (`cmd0.X` and `cmd1.Y` are
    members of different `Enum` classes and never compare equal) -/
structure Key where
  c1 : Bool
  code : Nat
deriving DecidableEq, Repr, Inhabited

/-- stored value: `(command, param)` for cmd0, `(command, offset)` for cmd1 -/
abbrev Val := Nat × Nat

abbrev RegMap := List (Key × Val)

def RegMap.get : RegMap → Key → Option Val
  | [], _ => none
  | (k', v) :: m, k => if k' = k then some v else RegMap.get m k

def RegMap.set : RegMap → Key → Val → RegMap
  | [], k, v => [(k, v)]
  | (k', v') :: m, k, v => if k' = k then (k, v) :: m else (k', v') :: RegMap.set m k v

/-- `n_banks` dictionaries; `cur` is `registers[bank_idx]`, `others` the remaining banks in the order
    `switch_bank` will reach them (`bank_idx = (bank_idx + 1) % n_banks` is a rotation). -/
structure RegMachine where
  cur : RegMap
  others : List RegMap
deriving Repr, Inhabited

def RegMachine.new (nBanks : Nat) : RegMachine := ⟨[], List.replicate (nBanks - 1) []⟩

/-- `set_register`: returns `is_changed` -/
def RegMachine.setRegister (rm : RegMachine) (k : Key) (v : Val) : Bool × RegMachine :=
  (decide (rm.cur.get k ≠ some v), { rm with cur := rm.cur.set k v })

def RegMachine.switchBank (rm : RegMachine) : RegMachine :=
  match rm.others with
  | [] => rm
  | o :: os => ⟨o, os ++ [rm.cur]⟩

/-- `CommandStreamEmitter.reg_machine` -/
structure Machines where
  m0 : RegMachine      -- everything else
  m1 : RegMachine      -- commands with "DMA" in their name
deriving Repr, Inhabited

def Machines.new (banks0 banks1 : Nat) : Machines := ⟨RegMachine.new banks0, RegMachine.new banks1⟩

def Machines.setReg (ms : Machines) (dma : Bool) (k : Key) (v : Val) : Bool × Machines :=
  if dma then
    let r := ms.m1.setRegister k v
    (r.1, { ms with m1 := r.2 })
  else
    let r := ms.m0.setRegister k v
    (r.1, { ms with m0 := r.2 })

def Machines.switchBank (ms : Machines) (dma : Bool) : Machines :=
  if dma then { ms with m1 := ms.m1.switchBank } else { ms with m0 := ms.m0.switchBank }

/-! ## CommandStreamEmitter -/

/-- Python `int(x) & 0xFFFF` (two's complement for negative ints) -/
def mask16 (x : Int) : Nat := (x % 65536).toNat
/-- Python `int(x) & 0xFFFFFFFF` -/
def mask32 (x : Int) : Nat := (x % 4294967296).toNat

/-- `cmd.value | (param << 16)` with `param = int(param) & 0xFFFF` -/
def cmd0Word (code : Nat) (param : Int) : Nat := code ||| (mask16 param <<< 16)
/-- `cmd.value | CmdMode.Payload32.value | (param << 16)` -/
def cmd1Word (code : Nat) (param : Int) : Nat := code ||| Regs.cmdModePayload32 ||| (mask16 param <<< 16)

/-- one call on the emitter -/
inductive Item where
  | set0 (code : Nat) (param : Int)                 -- cmd0_with_param
  | set1 (code : Nat) (offset : Int) (param : Int)  -- cmd1_with_offset
  | wait (code : Nat) (channel count : Int)         -- cmd_wait
  | doOp (code : Nat) (param : Int)                 -- cmd_do_operation
deriving Repr, DecidableEq, Inhabited

/-- the tuple that is appended to `cmd_stream` when the command is not elided -/
def Item.words : Item → List Nat
  | .set0 code param => [cmd0Word code param]
  | .set1 code offset param => [cmd1Word code param, mask32 offset]
  | .wait code channel count => [cmd0Word code (16 * channel + count)]
  | .doOp code param => [cmd0Word code param]

/-- One emitter call. `sel c1 code` is `get_reg_machine` (true = DMA machine).
    Returns the new register machines and whether the command is written. -/
def step (sel : Bool → Nat → Bool) (ms : Machines) : Item → Machines × Bool
  | .set0 code param =>
    let r := ms.setReg (sel false code) ⟨false, code⟩ (cmd0Word code param, mask16 param)
    (r.2, r.1)
  | .set1 code offset param =>
    let r := ms.setReg (sel true code) ⟨true, code⟩ (cmd1Word code param, mask32 offset)
    (r.2, r.1)
  | .wait _ _ _ => (ms, true)
  | .doOp code _ => (ms.switchBank (sel false code), true)

/-- the emitted words (`emit.to_list()`) for a sequence of emitter calls -/
def runWords (sel : Bool → Nat → Bool) : Machines → List Item → List Nat
  | _, [] => []
  | ms, it :: rest =>
    let r := step sel ms it
    (if r.2 then it.words else []) ++ runWords sel r.1 rest

/-- the same calls with elision switched off (`is_changed = True  # force command`) -/
def fullWords (items : List Item) : List Nat := items.flatMap Item.words

/-! ## Register programs -/

inductive Err where
  | align | size | assert | vela | type | key | index | oracle
deriving Repr, DecidableEq, Inhabited

def Err.toString : Err → String
  | .align => "err:align" | .size => "err:size" | .assert => "err:assert" | .vela => "err:vela"
  | .type => "err:type" | .key => "err:key" | .index => "err:index" | .oracle => "err:oracle"

inductive RegWrite where
  | w0 (r : Reg0) (param : Int)
  | w1 (r : Reg1) (offset param : Int)
deriving Repr, DecidableEq, Inhabited

/-- `cmd1_with_address(cmd, offset)` = `cmd1_with_offset(cmd, offset, offset >> 32)` -/
def RegWrite.addr (r : Reg1) (a : Int) : RegWrite := .w1 r a (a / 4294967296)

def RegWrite.toItem : RegWrite → Item
  | .w0 r p => .set0 r.code p
  | .w1 r o p => .set1 r.code o p

abbrev Prog := Except Err (List RegWrite)

def checkAlignment (payload required : Int) : Except Err Unit :=
  if payload % required ≠ 0 then .error .align else .ok ()

def checkSize (payload required : Int) : Except Err Unit :=
  if payload % required ≠ 0 then .error .size else .ok ()

def nameAt (l : List String) (i : Nat) : Except Err String :=
  match l[i]? with
  | some n => .ok n
  | none => .error .key

def mapValue (tbl : List (String × Nat)) (names : List String) (ordinal : Nat) : Except Err Nat := do
  let n ← nameAt names ordinal
  match lookupName tbl n with
  | some v => .ok v
  | none => .error .key

/-- `precision_map[dtype.size_in_bits()]` -/
def precisionOf (bits : Nat) : Except Err Nat :=
  match EmitTbl.precisionMap.find? (·.1 == bits) with
  | some p => .ok p.2
  | none => .error .key

def bcastBit (n : String) : Nat := (lookupName EmitTbl.ifm2Broadcast n).getD 0

def roundUp (a b : Int) : Int := ((a + b - 1) / b) * b

/-- `get_strides`: (STRIDE_Y, STRIDE_X, STRIDE_C) -/
def getStrides (fm : FM) : Shape3 :=
  match fm.strides with
  | some s => s
  | none =>
    let es := fm.dtype.bytes
    if !fm.nhcwb16 then
      let sc := es
      let sx := fm.shape.depth * sc
      let sy := fm.shape.width * sx
      ⟨sy, sx, sc⟩
    else
      let sx := 16 * es
      let sc := sx * fm.shape.width
      let sy := es * fm.shape.width * roundUp fm.shape.depth 16
      ⟨sy, sx, sc⟩

/-- `check_strides` -/
def checkStrides (fm : FM) (s : Shape3) : Except Err Unit := do
  if fm.nhcwb16 then
    checkSize s.depth 16
    checkSize s.height 16
  else
    checkSize s.height fm.dtype.bytes
    checkSize s.width fm.dtype.bytes

/-- `for addr in addresses: check_alignment(addr, required_alignment)` -/
def checkAllAligned (required : Int) : List Int → Except Err Unit
  | [] => .ok ()
  | a :: rest =>
    match checkAlignment a required with
    | .error e => .error e
    | .ok () => checkAllAligned required rest

/-- `generate_addresses` (with `check_addresses`) -/
def genAddresses (arch : Arch) (regs : List Reg1) (fm : FM) : Prog := do
  let required := if fm.nhcwb16 then arch.nhcwb16Align else fm.dtype.bytes
  checkAllAligned required fm.addresses
  match regs, fm.addresses with
  | [r0, r1, r2, r3], a0 :: a1 :: a2 :: a3 :: _ =>
    .ok [.addr r0 a0, .addr r1 a1, .addr r2 a2, .addr r3 a3]
  | _, _ => .error .index

/-- `generate_tiles` -/
def genTiles (h0 h1 w0 : Reg0) (fm : FM) : List RegWrite :=
  [.w0 h0 (fm.height0 - 1), .w0 h1 (fm.height1 - 1), .w0 w0 (fm.width0 - 1)]

/-- `generate_strides` -/
def genStrides (fm : FM) (c y x : Reg1) : Prog := do
  let s := getStrides fm
  checkStrides fm s
  .ok [.addr c s.depth, .addr y s.height, .addr x s.width]

/-- `get_zero_point` -/
def zeroPointOf (fm : FM) : Int := if fm.hasQuant then fm.zeroPoint else 0

/-- `generate_ifm_precision` -/
def genIfmPrecision (fm : FM) (opToScale : Nat) (reg : Reg0) : Prog := do
  let ap ← precisionOf fm.dtype.bits
  let prec := (if fm.dtype.signed then 1 else 0) + (ap <<< 2)
  let prec := if fm.nhcwb16 then prec ||| (1 <<< 6) else prec
  let prec := prec ||| (opToScale <<< 8)
  .ok [.w0 reg prec]

/-- `generate_ofm_precision` -/
def genOfmPrecision (op : BlockOp) (useGlobalScale : Bool) : Prog := do
  let ap ← precisionOf op.ofm.dtype.bits
  let prec := (if op.ofm.dtype.signed then 1 else 0) + (ap <<< 1)
  let prec := if useGlobalScale then prec ||| (1 <<< 8) else prec
  let prec := if op.ofm.nhcwb16 then prec ||| (1 <<< 6) else prec
  let rm ← mapValue EmitTbl.roundingModeMap EmitTbl.apiRoundingModes op.rounding
  .ok [.w0 .ofmPrecision ((prec ||| (rm <<< 14) : Nat) : Int)]

/-- `generate_ifm` -/
def genIfm (arch : Arch) (fm : FM) : Prog := do
  let a ← genAddresses arch [.ifmBase0, .ifmBase1, .ifmBase2, .ifmBase3] fm
  let s ← genStrides fm .ifmStrideC .ifmStrideY .ifmStrideX
  .ok ([.w0 .ifmRegion fm.region] ++ a ++ genTiles .ifmHeight0M1 .ifmHeight1M1 .ifmWidth0M1 fm ++
       [.w0 .ifmDepthM1 (fm.shape.depth - 1)] ++ s ++ [.w0 .ifmZeroPoint (zeroPointOf fm)])

/-- `generate_ifm2` -/
def genIfm2 (arch : Arch) (fm : FM) (hasScalar : Bool) : Prog := do
  if hasScalar then
    .ok [.w0 .ifm2ZeroPoint (zeroPointOf fm)]
  else
    let a ← genAddresses arch [.ifm2Base0, .ifm2Base1, .ifm2Base2, .ifm2Base3] fm
    let s ← genStrides fm .ifm2StrideC .ifm2StrideY .ifm2StrideX
    .ok ([.w0 .ifm2Region fm.region] ++ a ++ genTiles .ifm2Height0M1 .ifm2Height1M1 .ifm2Width0M1 fm ++ s ++
         [.w0 .ifm2ZeroPoint (zeroPointOf fm)])

/-- `generate_ofm` -/
def genOfm (arch : Arch) (fm : FM) : Prog := do
  let a ← genAddresses arch [.ofmBase0, .ofmBase1, .ofmBase2, .ofmBase3] fm
  let s ← genStrides fm .ofmStrideC .ofmStrideY .ofmStrideX
  .ok ([.w0 .ofmRegion fm.region] ++ a ++ genTiles .ofmHeight0M1 .ofmHeight1M1 .ofmWidth0M1 fm ++
       [.w0 .ofmHeightM1 (fm.shape.height - 1), .w0 .ofmWidthM1 (fm.shape.width - 1),
        .w0 .ofmDepthM1 (fm.shape.depth - 1)] ++ s ++ [.w0 .ofmZeroPoint (zeroPointOf fm)])

/-- `generate_padding` -/
def genPadding (p : Padding) : List RegWrite :=
  [.w0 .ifmPadTop p.top, .w0 .ifmPadLeft p.left, .w0 .ifmPadBottom p.bottom, .w0 .ifmPadRight p.right]

/-- the `NPU_SET_KERNEL_STRIDE` word of `generate_kernel` (strides and dilations ≥ 1, as `NpuKernel.__init__` asserts) -/
def kernelStrideWord (sx sy dx dy : Nat) (partKernelFirst : Bool) : Nat :=
  let stride := (sx - 1) &&& 1
  let stride := stride ||| ((((sy - 1) &&& 1)) <<< 1)
  let stride := stride ||| (((sx - 1) >>> 1) <<< 6)
  let stride := stride ||| (((sy - 1) >>> 1) <<< 9)
  let stride := stride ||| ((dx - 1) <<< 3)
  let stride := stride ||| ((dy - 1) <<< 4)
  if partKernelFirst then stride ||| (1 <<< 2) else stride

/-- `generate_kernel` -/
def genKernel (k : Kernel) (partKernelFirst : Bool) : Prog := do
  if k.strideX < 1 || k.strideY < 1 || k.dilationX < 1 || k.dilationY < 1 then .error .assert else
  .ok [.w0 .kernelHeightM1 (k.dilationY * (k.height - 1)), .w0 .kernelWidthM1 (k.dilationX * (k.width - 1)),
       .w0 .kernelStride (kernelStrideWord k.strideX.toNat k.strideY.toNat k.dilationX.toNat k.dilationY.toNat
                            partKernelFirst : Nat)]

/-- `generate_weights` -/
def genWeights (arch : Arch) (ws : List AddrRange) : Prog :=
  match ws with
  | [] => .ok []
  | w0 :: _ => do
    let core (i : Nat) (b l : Reg1) : Prog :=
      match ws[i]? with
      | some w => do
        checkAlignment w.address 16
        checkSize w.length 16
        .ok [.addr b w.address, .w1 l w.length 0]
      | none =>
        if i < arch.ncores then do
          checkAlignment w0.address 16
          .ok [.addr b w0.address, .w1 l 0 0]
        else .ok []
    let c0 ← core 0 .weightBase .weightLength
    let c1 ← core 1 .weight1Base .weight1Length
    .ok ([.w0 .weightRegion w0.region] ++ c0 ++ c1)

/-- `generate_biases` -/
def genBiases (arch : Arch) (bs : List AddrRange) : Prog :=
  match bs with
  | [] => .ok []
  | b0 :: _ => do
    let core (i : Nat) (b l : Reg1) : Prog :=
      match bs[i]? with
      | some w => do
        checkSize w.length 16
        .ok [.addr b w.address, .w1 l w.length 0]
      | none =>
        if i < arch.ncores then .ok [.addr b b0.address, .w1 l 0 0] else .ok []
    let c0 ← core 0 .scaleBase .scaleLength
    let c1 ← core 1 .scale1Base .scale1Length
    .ok ([.w0 .scaleRegion b0.region] ++ c0 ++ c1)

/-- `generate_activation` -/
def genActivation (act : Option Activation) (ofm : FM) : Prog := do
  let a : Activation := act.getD ⟨0, none, none, 0⟩        -- NpuActivation(NONE_OR_RELU)
  let dmin := ofm.dtype.minValue
  let dmax := ofm.dtype.maxValue
  let qmin := max (max (a.qmin.getD dmin) (-32768)) dmin
  let qmax := min (min (a.qmax.getD dmax) 32767) dmax
  let n ← nameAt EmitTbl.apiActivationOps a.opType
  if n == "TABLE_LOOKUP" then
    if a.lutIndex < 0 || a.lutIndex ≥ 8 then .error .assert else
    let v : Nat := 16 + a.lutIndex.toNat
    if ofm.dtype.bits = 32 && ofm.dtype.signed then
      .ok [.w0 .activation ((v ||| (3 <<< 12) : Nat) : Int), .w0 .activationMin (max (-128) qmin),
           .w0 .activationMax (min 127 qmax)]
    else
      .ok [.w0 .activation v, .w0 .activationMin qmin, .w0 .activationMax qmax]
  else
    match lookupName EmitTbl.activationOpMap n with
    | some v => .ok [.w0 .activation v, .w0 .activationMin qmin, .w0 .activationMax qmax]
    | none => .error .key

/-- `generate_block_config` -/
def genBlockConfig (b : Shape3) : List RegWrite :=
  [.w0 .ofmBlkHeightM1 (b.height - 1), .w0 .ofmBlkWidthM1 (b.width - 1), .w0 .ofmBlkDepthM1 (b.depth - 1)]

/-- `has_ifm2` -/
def hasIfm2 (op : BlockOp) : Bool := op.ifm2.isSome && op.ifm2Scalar.isNone

/-- `generate_shram_registers` (layout and accumulator format are the allocator's, see `Oracle`) -/
def genShram (op : BlockOp) : List RegWrite :=
  [.w0 .ifmIbEnd op.oracle.ibEnd, .w0 .abStart op.oracle.abStart] ++
  (if hasIfm2 op then [.w0 .ifm2IbStart op.oracle.ibStart2] else []) ++
  [.w0 .accFormat op.oracle.accFormat]

/-- `generate_common` -/
def genCommon (arch : Arch) (op : BlockOp) (partKernelFirst : Bool) (useGlobalScale : Bool) (opToScale : Nat) : Prog := do
  let ifm ← genIfm arch op.ifm
  let ifmPrec ← genIfmPrecision op.ifm opToScale .ifmPrecision
  let up ← mapValue EmitTbl.resamplingModeMap EmitTbl.apiResamplingModes op.upscale
  let pad := match op.padding with | some p => genPadding p | none => []
  let ofm ← genOfm arch op.ofm
  let ofmPrec ← genOfmPrecision op useGlobalScale
  let kern ← if op.kind != .elementwise then
      match op.kernel with
      | some k => genKernel k partKernelFirst
      | none => .error .assert
    else .ok []
  let w ← genWeights arch op.weights
  let b ← genBiases arch op.biases
  let act ← genActivation op.activation op.ofm
  .ok (ifm ++ ifmPrec ++ [.w0 .ifmUpscale up] ++ pad ++ ofm ++ ofmPrec ++ kern ++ w ++ b ++ act ++
       genBlockConfig op.blockConfig ++ genShram op)

def scaleWrite (r : Reg1) (v : Option (Int × Int)) : Prog :=
  match v with
  | some (s, sh) => .ok [.w1 r s sh]
  | none => .error .oracle

/-- final part of `generate_ofm_scaling_for_pooling`: a scale that does not fit the 32-bit payload is rejected
    (`VelaError`), never truncated -/
def poolScaleWrite (v : Option (Int × Int)) : Prog :=
  match v with
  | some (s, sh) => if 0 ≤ s ∧ s < 4294967296 then .ok [.w1 .ofmScale s sh] else .error .vela
  | none => .error .oracle

/-- `generate_ifm2_broadcast` -/
def genIfm2Broadcast (op : BlockOp) (ifm2 : FM) : Prog := do
  let b := if op.reversedOperands then bcastBit "ReverseOperandOrder" else 0
  if op.ifm2Scalar.isSome then
    .ok [.w0 .ifm2Broadcast ((b ||| bcastBit "UseIFM2Scalar" : Nat) : Int)]
  else
    let dim (x y : Int) (bit : String) (acc : Nat) : Except Err Nat :=
      if x ≠ y then (if y ≠ 1 then .error .assert else .ok (acc ||| bcastBit bit)) else .ok acc
    let b ← dim op.ifm.shape.height ifm2.shape.height "BroadcastHdim" b
    let b ← dim op.ifm.shape.width ifm2.shape.width "BroadcastWdim" b
    let b ← dim op.ifm.shape.depth ifm2.shape.depth "BroadcastCdim" b
    .ok [.w0 .ifm2Broadcast b]

/-- `generate_registers_for_op` for the four block operations -/
def blockProgram (arch : Arch) (op : BlockOp) : Prog := do
  match op.kind with
  | .conv => genCommon arch op op.partKernelFirst false 0
  | .depthwise => genCommon arch op false false 0
  | .pool =>
    let sub ← nameAt EmitTbl.apiPoolingOps op.subOp
    if sub == "REDUCE_SUM" && op.ifm.nhcwb16 &&
        ((op.ifm.dtype.bits = 32 && op.ifm.dtype.signed) || (arch.isU65 && arch.ncores = 2)) then .error .vela else
    let avg := sub == "AVERAGE" || sub == "REDUCE_SUM"
    -- `sub_op_type in (AVERAGE, REDUCE_SUM) and sum(npu_op.padding) == 0`: `sum(None)` raises only when the first operand holds
    let g ← match op.padding with
      | none => if avg then (.error .type : Except Err Bool) else pure false
      | some p => pure (avg && p.top + p.left + p.bottom + p.right = 0)
    let g := if op.rescaleKind = 2 then true else if op.rescaleKind = 3 then false else g
    let c ← genCommon arch op false g 0
    if g then do
      let s ← poolScaleWrite op.oracle.ofmScale
      .ok (c ++ s)
    else .ok c
  | .elementwise =>
    let sub ← nameAt EmitTbl.apiElementWiseOps op.subOp
    let g := sub == "ADD" || sub == "SUB" || sub == "MUL" || sub == "LRELU" || sub == "ABS"
    -- generate_scaling_for_elementwise: OPA/OPB for ADD and SUB, then OFM_SCALE
    let ab ← if sub == "ADD" || sub == "SUB" then do
        let a ← scaleWrite .opaScale op.oracle.opaScale
        let b ← scaleWrite .opbScale op.oracle.opbScale
        pure (a ++ b)
      else pure []
    let os ← scaleWrite .ofmScale op.oracle.ofmScale
    let c ← genCommon arch op false g op.oracle.opToScale
    if EmitTbl.unaryElemwiseOps.contains sub then .ok (ab ++ os ++ c) else
    match op.ifm2 with
    | none => .error .assert
    | some ifm2 =>
      let i2 ← genIfm2 arch ifm2 op.ifm2Scalar.isSome
      let p2 ← genIfmPrecision ifm2 0 .ifm2Precision
      let bc ← genIfm2Broadcast op ifm2
      let sc ← match op.ifm2Scalar with
        | some q => if ifm2.dtype.minValue ≤ q && q ≤ ifm2.dtype.maxValue then pure [RegWrite.w0 .ifm2Scalar q] else .error .assert
        | none => pure []
      .ok (ab ++ os ++ c ++ i2 ++ p2 ++ bc ++ sc)

/-- `check_dma_op` -/
def checkDmaOp (arch : Arch) (d : DmaOp) : Except Err Unit := do
  if arch.isU65 then
    if d.src.region = Regs.basePtrIndexMem2Mem then checkAlignment d.src.address 16
    if d.dst.region = Regs.basePtrIndexMem2Mem then
      checkAlignment d.dst.address 16
      checkSize d.src.length 16
  else
    checkAlignment d.src.address 16
    checkAlignment d.dst.address 16
    checkSize d.src.length 16

/-- `generate_dma_op` -/
def dmaProgram (arch : Arch) (d : DmaOp) : Prog := do
  checkDmaOp arch d
  .ok [.w0 .dma0SrcRegion d.src.region, .addr .dma0Src d.src.address, .w0 .dma0DstRegion d.dst.region,
       .addr .dma0Dst d.dst.address, .addr .dma0Len d.src.length]

def regProgram (arch : Arch) : Op → Prog
  | .block b => blockProgram arch b
  | .dma d => dmaProgram arch d

/-! ## generate_command_stream -/

/-- `generate_cmd_waits` -/
def waitItems (kernelWait dmaWait : Int) : List Item :=
  (if kernelWait ≥ 0 then [Item.wait OpCode.kernelWait.code 0 kernelWait] else []) ++
  (if dmaWait ≥ 0 then [Item.wait OpCode.dmaWait.code 0 dmaWait] else [])

/-- `generate_operation_code` -/
def opCodeItem : Op → Except Err Item
  | .dma d => .ok (.doOp OpCode.dmaStart.code (d.channel * 16 + d.mode))
  | .block b =>
    match b.kind with
    | .conv => .ok (.doOp OpCode.conv.code 0)
    | .depthwise => .ok (.doOp OpCode.depthwise.code 0)
    | .pool => do
      let v ← mapValue EmitTbl.poolingOpMap EmitTbl.apiPoolingOps b.subOp
      .ok (.doOp OpCode.pool.code v)
    | .elementwise => do
      let v ← mapValue EmitTbl.elementwiseOpMap EmitTbl.apiElementWiseOps b.subOp
      .ok (.doOp OpCode.elementwise.code v)

def opWaits : Op → Int × Int
  | .dma d => (d.kernelWait, d.dmaWait)
  | .block b => (b.oracle.kernelWait, b.oracle.dmaWait)

/-- everything the loop body of `generate_command_stream` emits for one operation -/
def opItems (arch : Arch) (op : Op) : Except Err (List Item) := do
  let ws ← regProgram arch op
  let bd := match op with
    | .block b => [Item.set0 Reg0.blockdep.code b.oracle.blockdep]
    | .dma _ => []
  let oc ← opCodeItem op
  .ok (ws.map RegWrite.toItem ++ bd ++ waitItems (opWaits op).1 (opWaits op).2 ++ [oc])

def stopItem : Item := .doOp OpCode.stop.code 0xFFFF

/-- the `for op_index, npu_op in enumerate(npu_op_list)` loop (stops at the first operation that raises) -/
def bodyItems (arch : Arch) : List Op → Except Err (List Item)
  | [] => .ok []
  | op :: rest =>
    match opItems arch op with
    | .error e => .error e
    | .ok a =>
      match bodyItems arch rest with
      | .error e => .error e
      | .ok b => .ok (a ++ b)

/-- `NPU_SET_PARALLEL_MODE` is written first on Ethos-U65 -/
def preItems (arch : Arch) : List Item :=
  if arch.isU65 then [Item.set0 Reg0.parallelMode.code ((arch.ncores : Int) - 1)] else []

def program (arch : Arch) (ops : List Op) : Except Err (List Item) :=
  match bodyItems arch ops with
  | .error e => .error e
  | .ok body => .ok (preItems arch ++ body ++ [stopItem])

/-- `get_reg_machine` as a function of (cmd0/cmd1, opcode number), from the regenerated table -/
def selGen (c1 : Bool) (code : Nat) : Bool :=
  if c1 then (Reg1.all.any fun r => r.code == code && r.isDma)
  else (Reg0.all.any fun r => r.code == code && r.isDma) || (OpCode.all.any fun o => o.code == code && o.isDma)

def machinesGen : Machines :=
  Machines.new (EmitTbl.regMachineBanks.getD 0 1) (EmitTbl.regMachineBanks.getD 1 1)

/-- `generate_command_stream` (words), including the 16 MiB limit -/
def generate (arch : Arch) (ops : List Op) : Except Err (List Nat) := do
  let items ← program arch ops
  let ws := runWords selGen machinesGen items
  if ws.length * EmitTbl.wordSize ≥ 2 ^ 24 then .error .vela else .ok ws

end VelaVerif.Emit
