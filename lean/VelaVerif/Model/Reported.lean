import VelaVerif.Model.Serialise
/-!
# Model of the memory figures Vela reports (property C12: "The SRAM and arena figures reported (console, CSV) ...")

* `tensor_allocation.allocate_tensors`: the bookkeeping `sg.memory_used[mem_area]`, `sg.memory_used_per_type[mem_type]`
  (the allocation itself is `Model/Alloc.lean`; here a call is its area, its memory-type set and the total it returned)
  → `recordCall`, `memoryUsed`, `perType`; `nng.memory_used = root_sg.memory_used`
* `stats_writer.write_summary_metrics_csv`: the columns `<area>_memory_used` (`nng.memory_used.get(area, 0) / 1024.0` for every
  area of `mem_areas_to_report()`), `arena_cache_size` (`arch.arena_cache_size / 1024`), `total_npu_encoded_weights`,
  `total_original_weights` → `csvMemory`, `totalEncoded`, `totalOriginal`.  The model gives BYTES; the division by 1024 is exact
  in binary floating point for every integer below 2^53, so the harness multiplies the CSV text back (representation only).
* `stats_writer.print_performance_metrics_for_strat`: the lines `Total <area> used  <KiB with two decimals>` for the areas with
  bandwidth that are keys of `memory_used` → `consoleMemory` (hundredths of a KiB, round half to even as `format(x, ".2f")`
  does on the exactly representable quotient).
* `npu_performance.calc_new_performance_for_network`: the two weight totals (first occurrence per `equivalence_id`).

Cycles, bandwidths and MACs are not modelled.
-/
namespace VelaVerif.Reported
open VelaVerif.Serialise

/-- one call of `allocate_tensors(nng, sg, arch, mem_area, mem_type_set, ...)` on one subgraph -/
structure AllocCall where
  area : MemArea
  types : List MemType      -- `mem_type_set` in iteration order (a set: no duplicates)
  total : Nat               -- `total_sz` the allocator returned
  recorded : Bool           -- `lrs.ranges` non-empty, not a dry test, `total_sz <= max_size`
deriving Repr, DecidableEq

/-- `d[k] = n if d.get(k, 0) == 0 else d[k] + n` on an insertion-ordered dict -/
def bump {κ : Type} [BEq κ] (d : List (κ × Nat)) (k : κ) (n : Nat) : List (κ × Nat) :=
  match d with
  | [] => [(k, n)]
  | p :: rest => if p.1 == k then (p.1, p.2 + n) :: rest else p :: bump rest k n

structure Books where
  used : List (MemArea × Nat)        -- `sg.memory_used`
  perType : List (MemType × Nat)     -- `sg.memory_used_per_type`
deriving Repr, DecidableEq

def recordCall (b : Books) (c : AllocCall) : Books :=
  if c.recorded then
    { used := bump b.used c.area c.total,
      perType := c.types.foldl (fun d t => bump d t c.total) b.perType }
  else b

/-- the books of a subgraph after the given calls (a fresh subgraph starts with two empty dicts) -/
def books (calls : List AllocCall) : Books := calls.foldl recordCall ⟨[], []⟩

/-- `mem_areas_to_report()` -/
def reportAreas : List MemArea := [.sram, .dram, .onChipFlash, .offChipFlash]

/-- CSV columns `<area>_memory_used`, in bytes -/
def csvMemory (used : List (MemArea × Nat)) : List Nat := reportAreas.map (lookup used)

/-- round half to even of `n * 100 / 1024` -/
def hundredthsKiB (n : Nat) : Nat :=
  let q := n * 100 / 1024
  let r := n * 100 % 1024
  if 2 * r > 1024 ∨ (2 * r = 1024 ∧ q % 2 = 1) then q + 1 else q

/-- console lines `Total <area> used`: (area, hundredths of a KiB) for the areas with bandwidth that are keys of `memory_used` -/
def consoleMemory (used : List (MemArea × Nat)) (withBandwidth : List MemArea) : List (MemArea × Nat) :=
  (reportAreas.filter fun a => withBandwidth.contains a && used.any (fun p => p.1 == a)).map fun a => (a, hundredthsKiB (lookup used a))

/-- `total_npu_encoded_weights`: `len(buffer)` of every encoded weight tensor, once per `equivalence_id`, in schedule order -/
def totalOnce : List (Nat × Nat) → List Nat → Nat
  | [], _ => 0
  | (id, n) :: rest, seen => if seen.contains id then totalOnce rest seen else n + totalOnce rest (id :: seen)

def totalEncoded (ws : List (Nat × Nat)) : Nat := totalOnce ws []

/-- `total_original_weights`: `values.itemsize * values.size`, once per `equivalence_id` -/
def totalOriginal (ws : List (Nat × Nat × Nat)) : Nat := totalOnce (ws.map fun w => (w.1, w.2.1 * w.2.2)) []

/-! ## what a compilation publishes against what it reports -/

/-- the extent an arena plan needs: highest `offset + size` over the planned tensors (`-1` = not in the arena) -/
def planExtent (plan : List (Int × Nat)) : Nat :=
  plan.foldl (fun acc p => if p.1 < 0 then acc else max acc (p.1.toNat + p.2)) 0

/-- `tflite_writer.serialise_model`: an `OfflineMemoryAllocation` entry that came with the input file is kept, the plan of this
    compilation is only written when there is none -/
def publishedPlan (inputPlan : Option (List (Int × Nat))) (fresh : List (Int × Nat)) : List (Int × Nat) :=
  inputPlan.getD fresh

end VelaVerif.Reported
