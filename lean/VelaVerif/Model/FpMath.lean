/-!
# Model of `ethosu/vela/fp_math.py` (property C19)

Hand transcription of every function of `fp_math.py` over unbounded `Int` (= the behaviour of the
Python code when it is called with Python `int` operands, which is what the functions were written
and unit-tested for).

Conventions
* Python `a // d` with `d > 0` is floor division = Lean `Int` `/` (`Int.ediv`, floor for `d > 0`).
* Python `x >> n` on (unbounded / NumPy signed) integers is floor division by `2^n` = `x / 2^n`.
* Python `x & mask` for `mask = 2^n - 1 ≥ 0` is `x % 2^n` (`Int.emod`, always in `[0, 2^n)`), also for
  negative `x` (two's complement with infinite sign extension).
* `assert np.int32(a) == a` is an error outcome `Err.assert_` when `a` does not fit (with a Python
  `int` operand NumPy 2 raises `OverflowError` from the constructor inside the `assert` statement,
  with an `np.int64` operand the comparison fails and `AssertionError` is raised; the harness maps
  an exception raised *on an `assert` line* to `err:assert`).
* `np.int32(v)` / `np.int16(v)` applied to a *NumPy* scalar is a C cast (wraps); applied to a
  Python `int` it raises `OverflowError` when out of range.  The places where that matters are
  modelled explicitly (`wrap32` or `Err.overflow`) and proved unreachable in `Props/C19.lean`.
* `1 << n` with `n < 0` raises `ValueError` → `Err.value`.
-/
namespace VelaVerif.FpMath

inductive Err where
  | assert_    -- an `assert` of the function fired (operand outside the declared integer type, …)
  | overflow   -- NumPy `OverflowError` (Python int does not fit the fixed-width type)
  | value      -- `ValueError: negative shift count`
deriving Repr, DecidableEq

abbrev R := Except Err Int

def i32min : Int := -2147483648
def i32max : Int := 2147483647
def i16min : Int := -32768
def i16max : Int := 32767

def inI32 (x : Int) : Bool := decide (i32min ≤ x) && decide (x ≤ i32max)
def inI16 (x : Int) : Bool := decide (i16min ≤ x) && decide (x ≤ i16max)

/-- `assert np.int32(a) == a` -/
def chk32 (a : Int) : Except Err Unit := if inI32 a then .ok () else .error .assert_
/-- `assert np.int16(a) == a` -/
def chk16 (a : Int) : Except Err Unit := if inI16 a then .ok () else .error .assert_

/-- two's-complement reinterpretation of the low 32 bits (C cast `np.int32(np.int64 value)`) -/
def wrap32 (x : Int) : Int := (x + 2147483648) % 4294967296 - 2147483648
def wrap16 (x : Int) : Int := (x + 32768) % 65536 - 32768

/-- `1 << n` for a Python int `n` -/
def pow2 (n : Int) : Except Err Int := if n < 0 then .error .value else .ok (2 ^ n.toNat)

/-- Common body of `saturating_rounding_mul32/16`: `ab` is the exact product (NumPy computes it in
    the next wider type, where it cannot overflow), `k` is 31 or 15. -/
def roundingMulBody (ab : Int) (k : Nat) : Int :=
  let divider : Int := 2 ^ k
  if ab ≥ 0 then
    let nudge : Int := 2 ^ (k - 1)
    (ab + nudge) / divider
  else
    let nudge : Int := 1 - 2 ^ (k - 1)
    let abPlusNudge := ab + nudge
    let result := abPlusNudge / divider
    -- "Python uses floor, the reference uses truncation so we need to compensate for that."
    if result * divider < abPlusNudge then result + 1 else result

/-- `saturating_rounding_mul32(a, b)` -/
def saturatingRoundingMul32 (a b : Int) : R := do
  chk32 a
  chk32 b
  if a == b && a == i32min then return i32max
  return roundingMulBody (a * b) 31

/-- `saturating_rounding_mul16(a, b)` -/
def saturatingRoundingMul16 (a b : Int) : R := do
  chk16 a
  chk16 b
  if a == b && a == i16min then return i16max
  return roundingMulBody (a * b) 15

/-- `saturating_mul16(a, b)`: rounding to zero instead of to nearest -/
def saturatingMul16 (a b : Int) : R := do
  chk16 a
  chk16 b
  if a == b && a == i16min then return i16max
  let ab := a * b
  let divider : Int := 2 ^ 15
  if ab ≥ 0 then return ab / divider
  let result := ab / divider
  if result * divider < ab then return result + 1 else return result

/-- `shift_left32(a, offset)` -/
def shiftLeft32 (a offset : Int) : R := do
  if ¬ (offset ≥ 0) then throw .assert_
  chk32 a
  let shifted := a * 2 ^ offset.toNat
  if shifted < i32min then return i32min
  else if shifted > i32max then return i32max
  else return shifted

/-- `shift_left16(a, offset)` -/
def shiftLeft16 (a offset : Int) : R := do
  if ¬ (offset ≥ 0) then throw .assert_
  chk16 a
  let shifted := a * 2 ^ offset.toNat
  if shifted < i16min then return i16min
  else if shifted > i16max then return i16max
  else return shifted

/-- `downscale_multiplier_int32_to_int16(a)`; the final `np.int16(..)` of a Python int raises
    `OverflowError` if the value does not fit (proved unreachable). -/
def downscaleMultiplierInt32ToInt16 (a : Int) : R := do
  chk32 a
  let roundingOffset : Int := 2 ^ 15
  if a ≥ i32max - roundingOffset then return i16max
  let v := (a + roundingOffset) / 2 ^ 16
  if inI16 v then return v else throw .overflow

/-- `rounding_divide_by_pot(x, exponent)` -/
def roundingDivideByPot (x exponent : Int) : R := do
  chk32 x
  chk32 exponent
  let p ← pow2 exponent            -- 1 << exponent
  let mask := p - 1
  let remainder := x % p           -- x & mask
  let threshold := mask / 2        -- mask >> 1
  let threshold := if x < 0 then threshold + 1 else threshold
  let result := x / p              -- x >> exponent
  if remainder > threshold then return result + 1 else return result

/-- `saturating_rounding_multiply_by_pot(x, exponent)` -/
def saturatingRoundingMultiplyByPot (x exponent : Int) : R := do
  chk32 x
  chk32 exponent
  let p ← pow2 (32 - 1 - exponent)
  let threshold := p - 1
  if x > threshold then return i32max
  else if x < -threshold then return i32min
  else shiftLeft32 x exponent

/-- `rescale(integer_bits_src, integer_bits_dst, x)` -/
def rescale (src dst x : Int) : R := do
  chk32 src
  chk32 dst
  chk32 x
  let exponent := src - dst
  if exponent < 0 then roundingDivideByPot x (-exponent)
  else saturatingRoundingMultiplyByPot x exponent

def expConstantTerm : Int := 1895147668
def expConstant1Over3 : Int := 715827883

/-- `exp_on_interval_between_negative_one_quarter_and_0_excl(a)` (input Q0.31).
    The final `np.int32(...)` is applied to an `np.int64` sum, i.e. it is a wrapping cast. -/
def expOnIntervalBetweenNegativeOneQuarterAnd0Excl (a : Int) : R := do
  chk32 a
  if ¬ (-(2 ^ 29) ≤ a ∧ a < 0) then throw .assert_
  let x := a + 2 ^ 28
  let x2 ← saturatingRoundingMul32 x x
  let x3 ← saturatingRoundingMul32 x2 x
  let x4 ← saturatingRoundingMul32 x2 x2
  let x4Over4 ← roundingDivideByPot x4 2
  let t ← saturatingRoundingMul32 (x4Over4 + x3) expConstant1Over3
  let poly ← roundingDivideByPot (t + x2) 1
  let m ← saturatingRoundingMul32 expConstantTerm (x + poly)
  return wrap32 (expConstantTerm + m)

/-- the seven `exp_barrel_shifter(exponent, multiplier, result)` stages -/
def expBarrelStages : List (Int × Int) :=
  [(-2, 1672461947), (-1, 1302514674), (0, 790015084), (1, 290630308),
   (2, 39332535), (3, 720401), (4, 242)]

/-- one `exp_barrel_shifter` call (`fractional_bits = 26`, `integer_bits = 5`);
    `remainder & (1 << shift)` is non-zero iff bit `shift` of `remainder` is set -/
def expBarrelShifter (remainder : Int) (st : Int × Int) (result : Int) : R := do
  let shift : Int := if 5 > st.1 then 26 + st.1 else 0
  if (remainder / 2 ^ shift.toNat) % 2 ≠ 0 then saturatingRoundingMul32 result st.2
  else return result

/-- `exp_on_negative_values(a)` (input Q5.26, result Q0.31) -/
def expOnNegativeValues (a : Int) : R := do
  chk32 a
  if ¬ (a ≤ 0) then throw .assert_
  let oneQuarter : Int := 16777216
  let aModQuarterMinusOneQuarter := a % 16777216 - oneQuarter     -- (a & mask) - one_quarter
  let r ← rescale 5 0 aModQuarterMinusOneQuarter
  let result ← expOnIntervalBetweenNegativeOneQuarterAnd0Excl r
  let remainder := aModQuarterMinusOneQuarter - a
  let result ← expBarrelStages.foldlM (fun res st => expBarrelShifter remainder st res) result
  if a == 0 then return i32max else return result

/-- `multiply_by_quantized_multiplier(x, scale, shift)` -/
def multiplyByQuantizedMultiplier (x scale shift : Int) : R := do
  let shift := 31 - shift
  let leftShift := if shift > 0 then shift else 0
  let rightShift := if shift < 0 then -shift else 0
  let mul ← saturatingRoundingMul32 (x * 2 ^ leftShift.toNat) scale
  roundingDivideByPot mul rightShift

/-- Python `round(m * 2^e)` for an exact dyadic value: round half to even -/
def roundHalfEven (m : Int) (e : Int) : Int :=
  if e ≥ 0 then m * 2 ^ e.toNat
  else
    let d : Int := 2 ^ (-e).toNat
    let q := m / d
    let r := m % d
    if 2 * r < d then q else if 2 * r > d then q + 1 else (if q % 2 == 0 then q else q + 1)

/-- `from_float(x, integer_bits)` for the double `x = m · 2^e` (the product `x * (1 << fractional_bits)`
    is exact for doubles away from overflow/underflow, which is all the harness generates) -/
def fromFloat (m e integerBits : Int) : R := do
  let fractionalBits := 32 - integerBits - 1
  let _ ← pow2 fractionalBits
  let v := roundHalfEven m (e + fractionalBits)
  return min (max v i32min) i32max

end VelaVerif.FpMath
