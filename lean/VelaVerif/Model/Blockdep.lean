import VelaVerif.Model.NpuAccess
/-!
# Model of `register_command_stream_util.calc_blockdep` and its helpers (property C04)

Hand transcription of `get_ifm_ofm_block_depth`, `coords_intersect`, `intersects`,
`get_offset_block_coords`, `get_first_job_input_volume`, `get_prev_job_output_volume`,
`calc_blockdep`, plus `ArchitectureFeatures.calc_ifm_block_depth` / `get_ifm_block_size`.
`none` = the Python code raises (assertion, `ZeroDivisionError`).

Every `Rect` the real code builds here comes from `shape3d_to_rect`, i.e. has origin (0, 0, 0); the
model keeps only the size.
-/
namespace VelaVerif.Blockdep
open VelaVerif.Gen VelaVerif.NpuAccess

/-- `PointXYZ` -/
structure Pt where
  x : Int
  y : Int
  z : Int
deriving Repr, DecidableEq, Inhabited

/-- `Block(width, height, depth)` -/
structure Blk3 where
  width : Int
  height : Int
  depth : Int
deriving Repr, DecidableEq, Inhabited

/-- `arch.calc_ifm_block_depth(ifm_depth, ifm_bits)` -/
def calcIfmBlockDepth (a : AccRow) (ifmDepth ifmBits : Int) : Option Int :=
  if ¬ (ifmBits = 8 ∨ ifmBits = 16 ∨ ifmBits = 32) then none
  else if ¬ ifmDepth > 0 then none
  else
    let d := roundUp ifmDepth a.ifmUblock.depth
    some (min (8 * 32 / ifmBits) d)

/-- `get_ifm_ofm_block_depth(arch, npu_op)` -/
def getIfmOfmBlockDepth (a : AccRow) (op : BlockOp) : Option Int :=
  if op.isConv2D then calcIfmBlockDepth a op.ifm.shape.depth op.ifmBits
  else if op.isReduceSum then some op.ifm.shape.depth      -- reduce sum reads every IFM channel
  else some op.ofm.shape.depth

/-- `arch.get_ifm_block_size(ifm_block_depth, ofm_block, kernel, subkernel)` with no resampling.
    `get_first_job_input_volume` passes `arch.ofm_block_max` as the sub-kernel limit. -/
def getIfmBlockSize (a : AccRow) (ifmBlockDepth : Int) (ofmBlock : Blk3) (k : Kernel) (subW subH : Int) : Blk3 :=
  let dkh := (k.height - 1) * k.dilationY + 1
  let h := roundUp ((ofmBlock.height - 1) * k.strideY + min subH dkh) a.ifmUblock.height
  let dkw := (k.width - 1) * k.dilationX + 1
  let w := roundUp ((ofmBlock.width - 1) * k.strideX + min subW dkw) a.ifmUblock.width
  { width := w, height := h, depth := ifmBlockDepth }

/-- `coords_intersect` -/
def coordsIntersect (sa ea sb eb : Pt) : Bool :=
  decide (min ea.x eb.x - max sa.x sb.x > 0) && decide (min ea.y eb.y - max sa.y sb.y > 0) &&
  decide (min ea.z eb.z - max sa.z sb.z > 0)

/-- `intersects(ifm, ifm_start, ifm_end, prev_ofm, ofm_start, ofm_end)` -/
def intersects (ifm : FMap) (is ie : Pt) (prevOfm : FMap) (os oe : Pt) : Bool :=
  if ifm.shape = prevOfm.shape ∧ ifm.tiles = prevOfm.tiles ∧ ifm.nhcwb16 = prevOfm.nhcwb16 ∧
      ifm.elemBytes = prevOfm.elemBytes ∧ getStrides ifm = getStrides prevOfm then coordsIntersect is ie os oe
  else
    rangeListsOverlap (getAddressRangesForArea ifm is.y is.x is.z ie.y ie.x ie.z)
      (getAddressRangesForArea prevOfm os.y os.x os.z oe.y oe.x oe.z)

/-- `get_offset_block_coords(area, block, offset)` for an area with origin 0 and the given size.
    Outer `none`: Python raises `ZeroDivisionError` (a block dimension of 0) or the block has a negative
    dimension (outside the modelled domain: `generate_registers_for_op` rejects such a block config before
    `calc_blockdep` runs); inner `none`: the function returns `None`.
    With positive divisors Lean's `/` and `%` on `Int` are Python's `//` and `%`, including the negative
    `index` that `offset < -total_blocks` produces (the real function then returns a block *above* the area). -/
def getOffsetBlockCoords (size : Blk3) (block : Blk3) (offset : Int) : Option (Option Pt) :=
  if block.width ≤ 0 ∨ block.height ≤ 0 ∨ block.depth ≤ 0 then none else
  let wb := roundUpDivide size.width block.width
  let hb := roundUpDivide size.height block.height
  let db := roundUpDivide size.depth block.depth
  let total := wb * hb * db
  let index := if offset < 0 then total + offset else offset
  if index ≥ total then some none
  else if db ≤ 0 ∨ wb ≤ 0 then none     -- ZeroDivisionError in the coordinate computation (empty area)
  else
    some (some { x := block.width * ((index / db) % wb), y := block.height * (index / (db * wb)),
                 z := block.depth * (index % db) })

structure Area where
  start : Pt
  stop : Pt
deriving Repr, DecidableEq, Inhabited

/-- `get_first_job_input_volume(arch, ifm, ofm, ifm_block_depth, ofm_block, kernel, padding, block_offset)`.
-/
def getFirstJobInputVolume (a : AccRow) (ifmSize ofmSize : Blk3) (ifmBlockDepth : Int) (ofmBlock : Blk3)
    (k : Kernel) (p : Padding) (blockOffset : Int) : Option (Option Area) :=
  let ifmBlock := getIfmBlockSize a ifmBlockDepth ofmBlock k a.ofmBlockMax.width a.ofmBlockMax.height
  if ifmBlockDepth ≤ 0 then none else
  let ifmDepthBlocks := roundUpDivide ifmSize.depth ifmBlockDepth
  if ifmDepthBlocks ≤ 0 then none else
  match getOffsetBlockCoords ofmSize ofmBlock (blockOffset / ifmDepthBlocks) with
  | none => none
  | some none => some none
  | some (some oc) =>
    let sx := max 0 (oc.x * k.strideX - p.left)
    let sy := max 0 (oc.y * k.strideY - p.top)
    let sz := 0 + (blockOffset % ifmDepthBlocks) * ifmBlock.depth
    some (some { start := ⟨sx, sy, sz⟩, stop := ⟨sx + ifmBlock.width, sy + ifmBlock.height, sz + ifmBlock.depth⟩ })

/-- `get_prev_job_output_volume(ofm, ofm_block, block_offset)` -/
def getPrevJobOutputVolume (ofmSize ofmBlock : Blk3) (blockOffset : Int) : Option (Option Area) :=
  if blockOffset < 0 then none else
  match getOffsetBlockCoords ofmSize ofmBlock (-1 - blockOffset) with
  | none => none
  | some none => some none
  | some (some s) =>
    some (some { start := s, stop := ⟨s.x + ofmBlock.width, s.y + ofmBlock.height, s.z + ofmBlock.depth⟩ })

def shapeSize (s : Shape3) : Int := s.width * s.height * s.depth
def shapeToBlk (s : Shape3) : Blk3 := ⟨s.width, s.height, s.depth⟩

/-- `to_kernel(npu_op.kernel)`; `none` = the `Kernel` constructor's assertions -/
def toKernel (k : Option Kernel) : Option Kernel :=
  match k with
  | none => some ⟨1, 1, 1, 1, 1, 1⟩
  | some k => if k.strideX > 0 ∧ k.strideY > 0 ∧ k.dilationX > 0 ∧ k.dilationY > 0 then some k else none

/-- everything the two nested loops of `calc_blockdep` need -/
structure LoopCtx where
  acc : AccRow
  curIfmSize : Blk3
  curOfmSize : Blk3
  curIfmBlockDepth : Int
  curOfmBlock : Blk3
  kernel : Kernel
  padding : Padding
  prevOfmSize : Blk3
  prevOfmBlock : Blk3
  overlappingFm : FMap
  prevOfm : FMap
deriving Repr, Inhabited

def LoopCtx.inArea (c : LoopCtx) (f : Nat) : Option (Option Area) :=
  getFirstJobInputVolume c.acc c.curIfmSize c.curOfmSize c.curIfmBlockDepth c.curOfmBlock c.kernel c.padding f

def LoopCtx.outArea (c : LoopCtx) (k : Nat) : Option (Option Area) :=
  getPrevJobOutputVolume c.prevOfmSize c.prevOfmBlock k

def LoopCtx.hit (c : LoopCtx) (ia oa : Area) : Bool :=
  intersects c.overlappingFm ia.start ia.stop c.prevOfm oa.start oa.stop

/-- The inner loop `for block_offset in range(MAX_BLOCKDEP)`: the value of `outstanding_jobs` when it
    ends.  It stops at the first previous-OFM block that is missing or intersects; every other
    iteration adds `out_area[2] = 1`.  (The `elif outstanding_jobs > MAX_BLOCKDEP: break` can never
    fire: `outstanding_jobs ≤ 2` when it is tested.) -/
def innerLoop (c : LoopCtx) (ia : Area) : List Nat → Option Nat
  | [] => some 0
  | k :: ks =>
    match c.outArea k with
    | none => none
    | some none => some 0
    | some (some oa) =>
      if c.hit ia oa then some 0
      else (innerLoop c ia ks).map (· + 1)

/-- The outer loop `for forward_offset in range(MAX_BLOCKDEP)`; `elapsed_jobs` equals the forward
    offset because `in_area[2] = 1`. -/
def outerLoop (c : LoopCtx) : List Nat → Nat → Option Nat
  | [], bd => some bd
  | f :: fs, bd =>
    match c.inArea f with
    | none => none
    | some none => some bd
    | some (some ia) =>
      match innerLoop c ia (List.range maxBlockdep) with
      | none => none
      | some outstanding =>
        let bd' := min bd (f + outstanding)
        if f + 1 > maxBlockdep then some bd' else outerLoop c fs bd'

inductive Path where
  | noPrev | lutShram | both | noOverlap | broadcastIfm2 | loop
deriving Repr, DecidableEq, Inhabited

/-- `ifm_overlaps = range_lists_overlap(prev_ofm_ranges, ifm_ranges)` -/
def ifmOverlaps (prev op : BlockOp) : Bool :=
  rangeListsOverlap (getAddressRanges prev.ofm) (getAddressRanges op.ifm)

/-- `ifm2_overlaps` (False without a non-scalar IFM2) -/
def ifm2Overlaps (prev op : BlockOp) : Bool :=
  if hasIfm2 op then
    (match op.ifm2 with | some f => rangeListsOverlap (getAddressRanges prev.ofm) (getAddressRanges f) | none => false)
  else false

/-- the part of `calc_blockdep` before the loops: which early return is taken, or the loop context -/
def classify (a : AccRow) (prev : Option BlockOp) (op : BlockOp) : Option (Path × Option LoopCtx) :=
  match prev with
  | none => some (.noPrev, none)
  | some prev =>
    if prev.usesLut ∧ a.shramReservedUnusedBanks = 0 ∧ ¬ op.usesLut then some (.lutShram, none) else
    if ifmOverlaps prev op = true ∧ ifm2Overlaps prev op = true then some (.both, none)
    else if ifmOverlaps prev op = false ∧ ifm2Overlaps prev op = false then some (.noOverlap, none)
    else
      -- exactly one of IFM / IFM2 overlaps
      let mkLoop (overlappingFm : FMap) : Option (Path × Option LoopCtx) :=
        match getIfmOfmBlockDepth a op, toKernel op.kernel with
        | some ibd, some k =>
          some (.loop, some {
            acc := a, curIfmSize := shapeToBlk op.ifm.shape, curOfmSize := shapeToBlk op.ofm.shape,
            curIfmBlockDepth := ibd, curOfmBlock := shapeToBlk op.blockConfig, kernel := k,
            padding := op.padding.getD ⟨0, 0, 0, 0⟩,
            prevOfmSize := shapeToBlk prev.ofm.shape, prevOfmBlock := shapeToBlk prev.blockConfig,
            overlappingFm := overlappingFm, prevOfm := prev.ofm })
        | _, _ => none
      if ifm2Overlaps prev op then
        match op.ifm2 with
        | none => none          -- unreachable: ifm2_overlaps implies has_ifm2
        | some f2 =>
          if shapeSize f2.shape < shapeSize op.ifm.shape then some (.broadcastIfm2, none)
          else mkLoop f2
      else mkLoop op.ifm

/-- `calc_blockdep(arch, prev_op, npu_op)` -/
def calcBlockdep (a : AccRow) (prev : Option BlockOp) (op : BlockOp) : Option Nat :=
  match classify a prev op with
  | none => none
  | some (.noPrev, _) => some 0
  | some (.lutShram, _) => some 0
  | some (.both, _) => some 0
  | some (.noOverlap, _) => some maxBlockdep
  | some (.broadcastIfm2, _) => some 0
  | some (.loop, some c) => outerLoop c (List.range maxBlockdep) maxBlockdep
  | some (.loop, none) => none

/-- the value written to `NPU_SET_BLOCKDEP`: `min(blockdep, arch.max_blockdep)`
    (`create_default_arch` sets `max_blockdep = MAX_BLOCKDEP`) -/
def emittedBlockdep (a : AccRow) (prev : Option BlockOp) (op : BlockOp) : Option Nat :=
  (calcBlockdep a prev op).map fun b => min b maxBlockdep

end VelaVerif.Blockdep
