import VelaVerif.Gen.Regs
import VelaVerif.Gen.EmitTbl
/-!
# Register vocabulary of the command-stream emitter (model side)

One constructor per member of `ethos_u55_regs.cmd0` (`NPU_SET_*` and `NPU_OP_*`) and `cmd1`.  The
*numbers* are not written here: `code` looks the name up in the regenerated tables `Gen.Regs.tblCmd0`
/ `tblCmd1`, so the model follows whatever opcode numbers the live source has; `Props/C06.lean` proves
(by `decide`, re-run against every regenerated table) that all names are present, that the numbers
agree with the hand-written specification `Spec/Isa.lean`, and the range facts the decoder relies on.
The register-machine selection (`"DMA" in cmd.name`) is read from `Gen.EmitTbl.dmaMachineCmd0/1`,
which the table generator obtains by *calling* `CommandStreamEmitter.get_reg_machine`.
-/
namespace VelaVerif.Emit
open VelaVerif.Gen

inductive Reg0 where
  | ifmPadTop | ifmPadLeft | ifmPadRight | ifmPadBottom | ifmDepthM1 | ifmPrecision | ifmUpscale
  | ifmZeroPoint | ifmWidth0M1 | ifmHeight0M1 | ifmHeight1M1 | ifmIbEnd | ifmRegion | ofmWidthM1
  | ofmHeightM1 | ofmDepthM1 | ofmPrecision | ofmBlkWidthM1 | ofmBlkHeightM1 | ofmBlkDepthM1
  | ofmZeroPoint | ofmWidth0M1 | ofmHeight0M1 | ofmHeight1M1 | ofmRegion | kernelWidthM1
  | kernelHeightM1 | kernelStride | parallelMode | accFormat | activation | activationMin
  | activationMax | weightRegion | scaleRegion | abStart | blockdep | dma0SrcRegion | dma0DstRegion
  | dma0Size0 | dma0Size1 | ifm2Broadcast | ifm2Scalar | ifm2Precision | ifm2ZeroPoint | ifm2Width0M1
  | ifm2Height0M1 | ifm2Height1M1 | ifm2IbStart | ifm2Region
deriving DecidableEq, Repr, Inhabited

def Reg0.name : Reg0 → String
  | .ifmPadTop => "NPU_SET_IFM_PAD_TOP"
  | .ifmPadLeft => "NPU_SET_IFM_PAD_LEFT"
  | .ifmPadRight => "NPU_SET_IFM_PAD_RIGHT"
  | .ifmPadBottom => "NPU_SET_IFM_PAD_BOTTOM"
  | .ifmDepthM1 => "NPU_SET_IFM_DEPTH_M1"
  | .ifmPrecision => "NPU_SET_IFM_PRECISION"
  | .ifmUpscale => "NPU_SET_IFM_UPSCALE"
  | .ifmZeroPoint => "NPU_SET_IFM_ZERO_POINT"
  | .ifmWidth0M1 => "NPU_SET_IFM_WIDTH0_M1"
  | .ifmHeight0M1 => "NPU_SET_IFM_HEIGHT0_M1"
  | .ifmHeight1M1 => "NPU_SET_IFM_HEIGHT1_M1"
  | .ifmIbEnd => "NPU_SET_IFM_IB_END"
  | .ifmRegion => "NPU_SET_IFM_REGION"
  | .ofmWidthM1 => "NPU_SET_OFM_WIDTH_M1"
  | .ofmHeightM1 => "NPU_SET_OFM_HEIGHT_M1"
  | .ofmDepthM1 => "NPU_SET_OFM_DEPTH_M1"
  | .ofmPrecision => "NPU_SET_OFM_PRECISION"
  | .ofmBlkWidthM1 => "NPU_SET_OFM_BLK_WIDTH_M1"
  | .ofmBlkHeightM1 => "NPU_SET_OFM_BLK_HEIGHT_M1"
  | .ofmBlkDepthM1 => "NPU_SET_OFM_BLK_DEPTH_M1"
  | .ofmZeroPoint => "NPU_SET_OFM_ZERO_POINT"
  | .ofmWidth0M1 => "NPU_SET_OFM_WIDTH0_M1"
  | .ofmHeight0M1 => "NPU_SET_OFM_HEIGHT0_M1"
  | .ofmHeight1M1 => "NPU_SET_OFM_HEIGHT1_M1"
  | .ofmRegion => "NPU_SET_OFM_REGION"
  | .kernelWidthM1 => "NPU_SET_KERNEL_WIDTH_M1"
  | .kernelHeightM1 => "NPU_SET_KERNEL_HEIGHT_M1"
  | .kernelStride => "NPU_SET_KERNEL_STRIDE"
  | .parallelMode => "NPU_SET_PARALLEL_MODE"
  | .accFormat => "NPU_SET_ACC_FORMAT"
  | .activation => "NPU_SET_ACTIVATION"
  | .activationMin => "NPU_SET_ACTIVATION_MIN"
  | .activationMax => "NPU_SET_ACTIVATION_MAX"
  | .weightRegion => "NPU_SET_WEIGHT_REGION"
  | .scaleRegion => "NPU_SET_SCALE_REGION"
  | .abStart => "NPU_SET_AB_START"
  | .blockdep => "NPU_SET_BLOCKDEP"
  | .dma0SrcRegion => "NPU_SET_DMA0_SRC_REGION"
  | .dma0DstRegion => "NPU_SET_DMA0_DST_REGION"
  | .dma0Size0 => "NPU_SET_DMA0_SIZE0"
  | .dma0Size1 => "NPU_SET_DMA0_SIZE1"
  | .ifm2Broadcast => "NPU_SET_IFM2_BROADCAST"
  | .ifm2Scalar => "NPU_SET_IFM2_SCALAR"
  | .ifm2Precision => "NPU_SET_IFM2_PRECISION"
  | .ifm2ZeroPoint => "NPU_SET_IFM2_ZERO_POINT"
  | .ifm2Width0M1 => "NPU_SET_IFM2_WIDTH0_M1"
  | .ifm2Height0M1 => "NPU_SET_IFM2_HEIGHT0_M1"
  | .ifm2Height1M1 => "NPU_SET_IFM2_HEIGHT1_M1"
  | .ifm2IbStart => "NPU_SET_IFM2_IB_START"
  | .ifm2Region => "NPU_SET_IFM2_REGION"

def Reg0.all : List Reg0 :=
  [.ifmPadTop, .ifmPadLeft, .ifmPadRight, .ifmPadBottom, .ifmDepthM1, .ifmPrecision, .ifmUpscale, .ifmZeroPoint,
   .ifmWidth0M1, .ifmHeight0M1, .ifmHeight1M1, .ifmIbEnd, .ifmRegion, .ofmWidthM1, .ofmHeightM1, .ofmDepthM1,
   .ofmPrecision, .ofmBlkWidthM1, .ofmBlkHeightM1, .ofmBlkDepthM1, .ofmZeroPoint, .ofmWidth0M1, .ofmHeight0M1, .ofmHeight1M1,
   .ofmRegion, .kernelWidthM1, .kernelHeightM1, .kernelStride, .parallelMode, .accFormat, .activation, .activationMin,
   .activationMax, .weightRegion, .scaleRegion, .abStart, .blockdep, .dma0SrcRegion, .dma0DstRegion, .dma0Size0,
   .dma0Size1, .ifm2Broadcast, .ifm2Scalar, .ifm2Precision, .ifm2ZeroPoint, .ifm2Width0M1, .ifm2Height0M1, .ifm2Height1M1,
   .ifm2IbStart, .ifm2Region]


inductive Reg1 where
  | ifmBase0 | ifmBase1 | ifmBase2 | ifmBase3 | ifmStrideX | ifmStrideY | ifmStrideC | ofmBase0
  | ofmBase1 | ofmBase2 | ofmBase3 | ofmStrideX | ofmStrideY | ofmStrideC | weightBase | weightLength
  | scaleBase | scaleLength | ofmScale | opaScale | opbScale | dma0Src | dma0Dst | dma0Len | dma0Skip0
  | dma0Skip1 | ifm2Base0 | ifm2Base1 | ifm2Base2 | ifm2Base3 | ifm2StrideX | ifm2StrideY
  | ifm2StrideC | weight1Base | weight1Length | scale1Base | scale1Length
deriving DecidableEq, Repr, Inhabited

def Reg1.name : Reg1 → String
  | .ifmBase0 => "NPU_SET_IFM_BASE0"
  | .ifmBase1 => "NPU_SET_IFM_BASE1"
  | .ifmBase2 => "NPU_SET_IFM_BASE2"
  | .ifmBase3 => "NPU_SET_IFM_BASE3"
  | .ifmStrideX => "NPU_SET_IFM_STRIDE_X"
  | .ifmStrideY => "NPU_SET_IFM_STRIDE_Y"
  | .ifmStrideC => "NPU_SET_IFM_STRIDE_C"
  | .ofmBase0 => "NPU_SET_OFM_BASE0"
  | .ofmBase1 => "NPU_SET_OFM_BASE1"
  | .ofmBase2 => "NPU_SET_OFM_BASE2"
  | .ofmBase3 => "NPU_SET_OFM_BASE3"
  | .ofmStrideX => "NPU_SET_OFM_STRIDE_X"
  | .ofmStrideY => "NPU_SET_OFM_STRIDE_Y"
  | .ofmStrideC => "NPU_SET_OFM_STRIDE_C"
  | .weightBase => "NPU_SET_WEIGHT_BASE"
  | .weightLength => "NPU_SET_WEIGHT_LENGTH"
  | .scaleBase => "NPU_SET_SCALE_BASE"
  | .scaleLength => "NPU_SET_SCALE_LENGTH"
  | .ofmScale => "NPU_SET_OFM_SCALE"
  | .opaScale => "NPU_SET_OPA_SCALE"
  | .opbScale => "NPU_SET_OPB_SCALE"
  | .dma0Src => "NPU_SET_DMA0_SRC"
  | .dma0Dst => "NPU_SET_DMA0_DST"
  | .dma0Len => "NPU_SET_DMA0_LEN"
  | .dma0Skip0 => "NPU_SET_DMA0_SKIP0"
  | .dma0Skip1 => "NPU_SET_DMA0_SKIP1"
  | .ifm2Base0 => "NPU_SET_IFM2_BASE0"
  | .ifm2Base1 => "NPU_SET_IFM2_BASE1"
  | .ifm2Base2 => "NPU_SET_IFM2_BASE2"
  | .ifm2Base3 => "NPU_SET_IFM2_BASE3"
  | .ifm2StrideX => "NPU_SET_IFM2_STRIDE_X"
  | .ifm2StrideY => "NPU_SET_IFM2_STRIDE_Y"
  | .ifm2StrideC => "NPU_SET_IFM2_STRIDE_C"
  | .weight1Base => "NPU_SET_WEIGHT1_BASE"
  | .weight1Length => "NPU_SET_WEIGHT1_LENGTH"
  | .scale1Base => "NPU_SET_SCALE1_BASE"
  | .scale1Length => "NPU_SET_SCALE1_LENGTH"

def Reg1.all : List Reg1 :=
  [.ifmBase0, .ifmBase1, .ifmBase2, .ifmBase3, .ifmStrideX, .ifmStrideY, .ifmStrideC, .ofmBase0,
   .ofmBase1, .ofmBase2, .ofmBase3, .ofmStrideX, .ofmStrideY, .ofmStrideC, .weightBase, .weightLength,
   .scaleBase, .scaleLength, .ofmScale, .opaScale, .opbScale, .dma0Src, .dma0Dst, .dma0Len,
   .dma0Skip0, .dma0Skip1, .ifm2Base0, .ifm2Base1, .ifm2Base2, .ifm2Base3, .ifm2StrideX, .ifm2StrideY,
   .ifm2StrideC, .weight1Base, .weight1Length, .scale1Base, .scale1Length]


inductive OpCode where
  | stop | irq | conv | depthwise | pool | elementwise | dmaStart | dmaWait | kernelWait | pmuMask
deriving DecidableEq, Repr, Inhabited

def OpCode.name : OpCode → String
  | .stop => "NPU_OP_STOP"
  | .irq => "NPU_OP_IRQ"
  | .conv => "NPU_OP_CONV"
  | .depthwise => "NPU_OP_DEPTHWISE"
  | .pool => "NPU_OP_POOL"
  | .elementwise => "NPU_OP_ELEMENTWISE"
  | .dmaStart => "NPU_OP_DMA_START"
  | .dmaWait => "NPU_OP_DMA_WAIT"
  | .kernelWait => "NPU_OP_KERNEL_WAIT"
  | .pmuMask => "NPU_OP_PMU_MASK"

def OpCode.all : List OpCode :=
  [.stop, .irq, .conv, .depthwise, .pool, .elementwise, .dmaStart, .dmaWait,
   .kernelWait, .pmuMask]


/-- value of a name in a regenerated (name, value) table; `none` when the live enum lost the member -/
def lookupName (tbl : List (String × Nat)) (n : String) : Option Nat :=
  (tbl.find? (·.1 == n)).map (·.2)

/-- Opcode number of a cmd0 `NPU_SET_*` register in the live table.  A missing name maps to 0
    (= `NPU_OP_STOP`); `Props.C06.reg0_codes_valid` proves this never happens (every code ≥ 0x100). -/
def Reg0.code (r : Reg0) : Nat := (lookupName Regs.tblCmd0 r.name).getD 0
def Reg1.code (r : Reg1) : Nat := (lookupName Regs.tblCmd1 r.name).getD 1023
def OpCode.code (o : OpCode) : Nat := (lookupName Regs.tblCmd0 o.name).getD 1023

/-- `CommandStreamEmitter.get_reg_machine`: `true` = `reg_machine[1]` (the DMA machine) -/
def Reg0.isDma (r : Reg0) : Bool := EmitTbl.dmaMachineCmd0.contains r.name
def Reg1.isDma (r : Reg1) : Bool := EmitTbl.dmaMachineCmd1.contains r.name
def OpCode.isDma (o : OpCode) : Bool := EmitTbl.dmaMachineCmd0.contains o.name

end VelaVerif.Emit
