import VelaVerif.Model.FpMath
/-!
# Model of the integer look-up-table generators (property C19)

* `convert_lrelu_to_lut`, `convert_hardswish_to_lut`, `optimise_quantize` (int8/int16 → same type)
  of `tflite_graph_optimiser.py`,
* `create_lut_rsqrt_int8_op` of `lut.py` (parametrised by the `RSQRT_LUT` constant table),
* `convert_to_lut8` / `create_lut_8bit_op` parametrised by an abstract, already rounded value
  function `g : Int → Int` (the transcendental part is evaluated with `Float` in the handler only).

The `(multiplier, shift)` pairs are inputs: they are produced by `scaling.quantise_scale` (property C09)
from doubles; the harness captures the pairs the real call computed and feeds them to this model.
Everything is over unbounded `Int`, i.e. it describes what the Python computes when no NumPy
fixed-width scalar sneaks in (the typed-operand streams of `harness/check_C19.py` look for the
places where one does).
-/
namespace VelaVerif.Lut
open VelaVerif.FpMath

/-- `ix = range(256) if dtype == uint8 else range(-128, 128)` -/
def codes (signed : Bool) : List Int :=
  (List.range 256).map fun i => if signed then (Int.ofNat i) - 128 else Int.ofNat i

def qmin (signed : Bool) : Int := if signed then -128 else 0
def qmax (signed : Bool) : Int := if signed then 127 else 255

/-- `min(quantized_max, max(quantized_min, v))` -/
def clamp (lo hi v : Int) : Int := min hi (max lo v)

/-! ## LeakyRelu -/

/-- one iteration of the loop of `convert_lrelu_to_lut` -/
def lreluEntry (signed : Bool) (zpIn zpOut idScale idShift alphaScalar alphaScale alphaShift x : Int) : R := do
  let v ← if x < zpIn then multiplyByQuantizedMultiplier (alphaScalar * (x - zpIn)) alphaScale alphaShift
          else multiplyByQuantizedMultiplier (x - zpIn) idScale idShift
  return clamp (qmin signed) (qmax signed) (zpOut + v)

def lreluLut (signed : Bool) (zpIn zpOut idScale idShift alphaScalar alphaScale alphaShift : Int) :
    Except Err (List Int) :=
  (codes signed).mapM (lreluEntry signed zpIn zpOut idScale idShift alphaScalar alphaScale alphaShift)

/-! ## HardSwish -/

/-- the "relu-ish multiplier" part of the loop body of `convert_hardswish_to_lut`: from
    `relu_value = np.int16(input_value_hires)` to `relu_value = (relu_value + (1 << 15)) >> 1` -/
def hardswishRelu (inputValueHires reluScale16 reluShift : Int) : R := do
  -- relu_value = np.int16(input_value_hires): the value passed the int16 assert of the preceding call
  let relu := inputValueHires
  let relu ← if reluShift < 31 then shiftLeft16 relu (30 - reluShift) else pure relu
  let relu ← saturatingRoundingMul16 relu reluScale16
  let relu ← if reluShift < 31 then shiftLeft16 relu 1 else pure relu
  let relu ← if reluShift > 31 then roundingDivideByPot relu (reluShift - 31) else pure relu
  return (relu + 32768) / 2                             -- (relu_value + (1 << 15)) >> 1

/-- loop body of `convert_hardswish_to_lut` given the two 16-bit multipliers -/
def hardswishEntry (signed : Bool) (zpIn zpOut outScale16 outShift reluScale16 reluShift x : Int) : R := do
  let inputValue := x - zpIn
  let inputValueHires := inputValue * 128
  let inputValuePreshift ← saturatingRoundingMul16 inputValueHires outScale16
  let relu ← hardswishRelu inputValueHires reluScale16 reluShift
  let lutResult ← saturatingMul16 relu inputValuePreshift
  let shift := 31 - outShift
  let shift := if shift < 0 then -shift else 0
  let r ← roundingDivideByPot lutResult shift
  return clamp (qmin signed) (qmax signed) (r + zpOut)

/-- `convert_hardswish_to_lut` from the two `quantise_scale` results -/
def hardswishLut (signed : Bool) (zpIn zpOut outScale outShift reluScale reluShift : Int) :
    Except Err (List Int) := do
  let outScale16 ← downscaleMultiplierInt32ToInt16 outScale
  let reluScale16 ← downscaleMultiplierInt32ToInt16 reluScale
  (codes signed).mapM (hardswishEntry signed zpIn zpOut outScale16 outShift reluScale16 reluShift)

/-! ## constant folding of Quantize -/

/-- loop body of `optimise_quantize`, int8→int8 / int16→int16 branch -/
def quantizeFoldEntry (quantMin quantMax zpIn zpOut mult shift val : Int) : R := do
  let inputVal := val - zpIn
  let ofmVal ← multiplyByQuantizedMultiplier inputVal mult shift
  let ofmVal := ofmVal + zpOut
  return max (min ofmVal quantMax) quantMin

def quantizeFold (quantMin quantMax zpIn zpOut mult shift : Int) (vals : List Int) : Except Err (List Int) :=
  vals.mapM (quantizeFoldEntry quantMin quantMax zpIn zpOut mult shift)

/-! ## Rsqrt (int8) -/

/-- loop body of `create_lut_rsqrt_int8_op` (the current code); `tbl` is `RSQRT_LUT`, `kshift = -20`.
    `if x_real == 0: values.append(quantized_max); continue` was added by /repo commit 18935f5. -/
def rsqrtEntry (tbl : List Int) (zpIn zpOut mult shift x : Int) : R := do
  if x == -128 then return 127
  let xReal := max 0 (x - zpIn)
  if xReal == 0 then return 127
  match tbl[xReal.toNat]? with
  | none => throw .value                                 -- IndexError
  | some v =>
    let r ← multiplyByQuantizedMultiplier v mult (shift - (-20))
    return clamp (-128) 127 (r + zpOut)

/-- the loop body as it was BEFORE /repo commit 18935f5 (only index −128 forced to the maximum; real input 0 looked up as
    `RSQRT_LUT[0] = 0`): kept only so that the finding that led to the fix stays documented
    (`rsqrt_zero_input_witness` in `Props/C19.lean`); not used by the protocol handlers. -/
def rsqrtEntryOld (tbl : List Int) (zpIn zpOut mult shift x : Int) : R := do
  if x == -128 then return 127
  let xReal := max 0 (x - zpIn)
  match tbl[xReal.toNat]? with
  | none => throw .value                                 -- IndexError
  | some v =>
    let r ← multiplyByQuantizedMultiplier v mult (shift - (-20))
    return clamp (-128) 127 (r + zpOut)

def rsqrtLut (tbl : List Int) (zpIn zpOut mult shift : Int) : Except Err (List Int) :=
  (codes true).mapM (rsqrtEntry tbl zpIn zpOut mult shift)

/-! ## generic 8-bit table: `convert_to_lut8` / `create_lut_8bit_op` -/

/-- `g x` is the already rounded, unclamped entry (`round_away_zero(zp_out + f(s_in·(x − zp_in))/s_out)`) -/
def lut8 (signed : Bool) (g : Int → Int) : List Int :=
  (codes signed).map fun x => clamp (qmin signed) (qmax signed) (g x)

end VelaVerif.Lut
