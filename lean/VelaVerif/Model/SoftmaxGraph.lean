import VelaVerif.Gen.SoftmaxGraph
/-!
# Model of `SoftMax.get_graph_8bit` (`ethosu/vela/softmax.py`): the 31-pass decomposition as a straight-line program

`get_graph_8bit(ifm, ofm)` builds a fixed sequence of 31 operations (PASS 0 … PASS 30) whose only parameters are the
quantisation of the SOFTMAX input (zero point, `quant_min`, `quant_max`), the quantisation of its output tensor and the
table of exponentials (`generate_exp_table`, property C19).  `graph8` is the hand transcription: per step exactly what
the graph carries — operation kind, operands (graph input / OFM of an earlier pass / `[1,1,1,1]` int32 constant with its
value and quantisation), OFM quantisation and type, `rounding_mode`, `explicit_scaling`, fused activation.

`Step.row` flattens a step into a list of integers; `harness/tables/softmaxgraph.py` runs the LIVE function on a stub
operation, walks the graph it returns and emits the same rows (`Gen/SoftmaxGraph.lean`); `Props/C01Softmax.graph8_is_live_graph_*`
prove `decide`-equal, so the program the theorems are about is the program the code builds on every run.

`lower` is the model of what `high_level_command_to_npu_op` / `register_command_stream_generator` make of such a step as
far as its VALUE is concerned (rounding mode, OFM_SCALE multiplier / shift, operand zero points, ACTIVATION range): the
operation the hardware model of `Spec/NpuWide.lean` executes (`Spec/SoftmaxExec.lean`).
-/
namespace VelaVerif.SoftmaxGraph

inductive OpKind where
  | maxpool | sub | add | mul | shr | shl | clz | reduceSum
deriving DecidableEq, Repr, Inhabited

def OpKind.code : OpKind → Int
  | .maxpool => 0 | .sub => 1 | .add => 2 | .mul => 3 | .shr => 4 | .shl => 5 | .clz => 6 | .reduceSum => 7

/-- `scale_f32` of a `QuantizationParameters`, as far as this graph distinguishes values: `None`, `1.0`, `2.0`, the
    scale of the SOFTMAX input tensor, the scale of the SOFTMAX output tensor -/
inductive QScale where
  | none | one | two | input | output
deriving DecidableEq, Repr, Inhabited

def QScale.code : QScale → Int
  | .none => 0 | .one => 1 | .two => 2 | .input => 3 | .output => 4

structure Quant where
  scale : QScale
  zp : Int
deriving DecidableEq, Repr, Inhabited

/-- tensor types of the graph: the SOFTMAX input / output type (int8 or uint8) and int32 -/
inductive DType where
  | io8 | int32
deriving DecidableEq, Repr, Inhabited

def DType.code : DType → Int
  | .io8 => 0 | .int32 => 1

inductive Operand where
  | input                              -- the SOFTMAX IFM
  | pass (n : Nat)                     -- OFM of PASS n
  | const (v : Int) (q : Quant)        -- `create_const_tensor(…, [1, 1, 1, 1], DataType.int32, [v], quantization=q)`
deriving DecidableEq, Repr, Inhabited

/-- `op.activation`: none, `ActivationFunction(Op.Clip)` with min / max, or the LUT activation `set_activation_lut`
    installs with the (non-quantised) min / max written afterwards -/
inductive Act where
  | none
  | clip (mn mx : Int)
  | lut (mn mx : Int)
deriving DecidableEq, Repr, Inhabited

structure Step where
  kind : OpKind
  a : Operand
  b : Option Operand
  ofmQ : Quant
  ofmT : DType
  /-- `op.rounding_mode`: `None` (false) or `RoundingMode.HalfUp` (true) -/
  halfUp : Bool
  /-- `ExplicitScaling(False, shift=[s], multiplier=[m])` as `(m, s)` -/
  explicit : Option (Int × Int)
  act : Act
deriving DecidableEq, Repr, Inhabited

/-- parameters of the graph: input zero point, `quant_min` / `quant_max` of the input quantisation (the numeric range of
    the type), output zero point -/
structure Params where
  zpIn : Int
  qmin : Int
  qmax : Int
  zpOut : Int
deriving DecidableEq, Repr, Inhabited

/-- the 31 steps of `get_graph_8bit`, in pass order -/
def graph8 (P : Params) : List Step :=
  let noScale : Quant := ⟨.none, P.zpIn⟩            -- ifm.quantization.clone(); scale_f32 = None
  let oneScale : Quant := ⟨.one, 0⟩                 -- scale_f32 = 1.0, zero_point = 0
  let twoScale : Quant := ⟨.two, 0⟩                 -- scale_f32 = 2.0
  let act : Act := .clip P.qmin P.qmax              -- activation
  let act2 : Act := .clip (2 * P.qmin) (2 * P.qmax) -- activation2
  let one : Operand := .const 1 noScale
  let f2One : Operand := .const (2 ^ 29) noScale
  let four : Operand := .const 4 noScale
  let hd : Operand := .pass 10                      -- half_denominator
  let nr (x : Nat) (p : Nat) : List Step :=         -- one Newton–Raphson iteration: passes p … p+4, `nr_x` = OFM of pass x
    [ ⟨.mul, .pass x, some hd, twoScale, .int32, false, none, act2⟩,
      ⟨.sub, f2One, some (.pass p), oneScale, .int32, false, none, act⟩,
      ⟨.mul, .pass x, some (.pass (p + 1)), twoScale, .int32, false, none, act2⟩,
      ⟨.mul, .pass (p + 2), some four, noScale, .int32, false, none, act⟩,
      ⟨.add, .pass x, some (.pass (p + 3)), oneScale, .int32, false, none, act⟩ ]
  [ /- 0  -/ ⟨.maxpool, .input, none, noScale, .io8, false, none, .none⟩,
    /- 1  -/ ⟨.sub, .input, some (.pass 0), ⟨.one, 127⟩, .int32, false, none, .lut (-128 - 127) (127 - 127)⟩,
    /- 2  -/ ⟨.shr, .pass 1, some (.const 12 noScale), noScale, .int32, true, none, act⟩,
    /- 3  -/ ⟨.reduceSum, .pass 2, none, noScale, .int32, false, none, act⟩,
    /- 4  -/ ⟨.clz, .pass 3, none, noScale, .int32, false, none, act⟩,
    /- 5  -/ ⟨.sub, .const (12 + 31 - 8) noScale, some (.pass 4), noScale, .int32, false, none, act⟩,
    /- 6  -/ ⟨.sub, .pass 4, some one, noScale, .int32, false, none, act⟩,
    /- 7  -/ ⟨.shl, .pass 3, some (.pass 6), noScale, .int32, false, none, act⟩,
    /- 8  -/ ⟨.sub, .pass 7, some (.const (2 ^ 30) noScale), noScale, .int32, false, none, act⟩,
    /- 9  -/ ⟨.shl, .pass 8, some one, noScale, .int32, false, none, act⟩,
    /- 10 -/ ⟨.add, .pass 9, some (.const (2 ^ 31 - 1) noScale), oneScale, .int32, false, some (1, 1), act⟩,
    /- 11 -/ ⟨.mul, .pass 10, some (.const (-1010580540) oneScale), twoScale, .int32, false, none, act2⟩,
    /- 12 -/ ⟨.add, .pass 11, some (.const 1515870810 noScale), oneScale, .int32, false, none, act⟩ ]
  ++ nr 12 13 ++ nr 17 18 ++ nr 22 23 ++
  [ /- 28 -/ ⟨.mul, .pass 27, some (.const 2 noScale), oneScale, .int32, false, none, act⟩,
    /- 29 -/ ⟨.mul, .pass 1, some (.pass 28), twoScale, .int32, false, none, act2⟩,
    /- 30 -/ ⟨.shr, .pass 29, some (.pass 5), ⟨.output, P.zpOut⟩, .io8, true, none, .none⟩ ]

/-! ## Flattening into integer rows (the format of `Gen/SoftmaxGraph.lean`) -/

def Operand.row : Option Operand → List Int
  | none => [3, 0, 0, 0]
  | some .input => [0, 0, 0, 0]
  | some (.pass n) => [1, n, 0, 0]
  | some (.const v q) => [2, v, q.scale.code, q.zp]

def Act.row : Act → List Int
  | .none => [0, 0, 0]
  | .clip a b => [1, a, b]
  | .lut a b => [2, a, b]

/-- `[kind, a(4), b(4), ofm scale, ofm zero point, ofm type, HalfUp, explicit?(3), activation(3)]` -/
def Step.row (s : Step) : List Int :=
  [s.kind.code] ++ Operand.row (some s.a) ++ Operand.row s.b ++ [s.ofmQ.scale.code, s.ofmQ.zp, s.ofmT.code,
    if s.halfUp then 1 else 0] ++
    (match s.explicit with | none => [0, 0, 0] | some (m, sh) => [1, m, sh]) ++ s.act.row

/-! ## Lowering: what the command generators make of a step (value-relevant part) -/

inductive NRound where
  | tfl | truncate | natural
deriving DecidableEq, Repr, Inhabited

/-- the NPU operation of a step: rounding mode, OFM_SCALE (multiplier, shift), zero points the hardware subtracts from
    the operands / adds to the result, operand widths, output stage -/
structure NStep where
  kind : OpKind
  a : Operand
  b : Option Operand
  rounding : NRound
  mult : Nat
  shift : Nat
  aZp : Int
  bZp : Int
  /-- one of the operands is a 32-bit tensor -/
  in32 : Bool
  ofm32 : Bool
  ozp : Int
  /-- TABLE_LOOKUP output stage: lowest index value and index bits (`lutDomain`) -/
  lut : Option (Int × Nat)
  actMin : Int
  actMax : Int
deriving DecidableEq, Repr, Inhabited

def operandQuant (P : Params) (prog : List Step) : Operand → Option (Quant × DType)
  | .input => some (⟨.input, P.zpIn⟩, .io8)
  | .pass n => (prog[n]?).map fun s => (s.ofmQ, s.ofmT)
  | .const _ q => some (q, .int32)

/-- `scaling.elementwise_mul_scale(input_scale, input2_scale, output_scale)` for scales in {1.0, 2.0}: looked up in the
    table the plug-in computes with the live function (`Gen.softmaxMulScales`) -/
def mulScale (sa sb so : QScale) : Option (Nat × Nat) :=
  match Gen.softmaxMulScales.find? fun r => r.1 == (sa.code, sb.code, so.code) with
  | some r => some (r.2.1.toNat, r.2.2.toNat)
  | none => none

/-- `get_ifm_or_ifm2_quantization` / `use_zero_point_0`: the zero point of an int32 IFM is forced to 0 -/
def ifmZp (q : Quant) (t : DType) : Int := if t == .int32 then 0 else q.zp

/-- `generate_scaling_for_elementwise` (MUL / ADD / SUB branches), `generate_ofm_scaling_for_pooling` (last branch) for the
    steps of this graph; `none` = a combination this model does not cover (no such step in the graph) -/
def ofmScale (s : Step) (qa qb : Option Quant) : Option (Nat × Nat) :=
  match s.kind with
  | .mul =>
    match s.explicit, qa, qb with
    | some (m, sh), _, _ => if m < 0 ∨ sh < 0 then none else some (m.toNat, sh.toNat)
    | none, some qa, some qb =>
      if qa.scale == .none || qb.scale == .none || s.ofmQ.scale == .none then some (1, 0)
      else mulScale qa.scale qb.scale s.ofmQ.scale
    | _, _, _ => none
  | .add | .sub =>
    match s.explicit, qa, qb with
    | some (m, sh), _, _ => if m < 0 ∨ sh < 0 then none else some (m.toNat, sh.toNat)
    | none, some qa, some qb =>
      if qa.scale == .none || qb.scale == .none || s.ofmQ.scale == .none then some (1, 0) else none
    | _, _, _ => none
  | .reduceSum => if s.ofmQ.scale == .none then some (1, 0) else none
  | .shr | .shl | .clz | .maxpool => some (1, 0)

/-- numeric range of a tensor type (`data_type.min_value()` / `max_value()`) -/
def typeRange (P : Params) : DType → Int × Int
  | .io8 => (P.qmin, P.qmax)
  | .int32 => (-2147483648, 2147483647)

def lowerStep (P : Params) (prog : List Step) (s : Step) : Option NStep := do
  let (qa, ta) ← operandQuant P prog s.a
  let qtb ← match s.b with
    | none => pure none
    | some b => (operandQuant P prog b).map some
  let (mult, shift) ← ofmScale s (some qa) (qtb.map (·.1))
  let in32 := ta == .int32 || (match qtb with | some (_, t) => t == .int32 | none => false)
  -- `generate_activation`: ACTIVATION_MIN/MAX = quantise(min / max) (scale 1.0 for the LUT step) limited to the int16
  -- and the OFM type range; for a TABLE_LOOKUP into an int32 OFM the int8 range is forced
  let (tlo, thi) := typeRange P s.ofmT
  let (lut, amin, amax) ← match s.act with
    | .lut mn mx =>
      if s.ofmT == .int32 ∧ s.ofmQ.scale == .one then
        some (some ((-128 : Int), 8), max (-128) (max (mn + s.ofmQ.zp) (-32768)), min 127 (min (mx + s.ofmQ.zp) 32767))
      else none
    | _ => some (none, max tlo (-32768), min thi 32767)
  pure { kind := s.kind, a := s.a, b := s.b,
         rounding := if s.halfUp then .natural else .tfl,
         mult := mult, shift := shift,
         aZp := ifmZp qa ta,
         bZp := match qtb with | some (q, t) => ifmZp q t | none => 0,
         in32 := in32, ofm32 := s.ofmT == .int32, ozp := s.ofmQ.zp, lut := lut, actMin := amin, actMax := amax }

def lower (P : Params) (prog : List Step) : Option (List NStep) := prog.mapM (lowerStep P prog)

end VelaVerif.SoftmaxGraph
