import VelaVerif.Gen.AllocConst
/-!
# Model of the three tensor allocators (property C05)

Hand transcription of
* `ethosu/vela/greedy_allocation.py`        → `greedy`
* `tensor_allocation.linear_allocate_live_ranges` → `linear`
* `ethosu/vela/hillclimb_allocation.py` + `tensor_allocation.hillclimb_allocate_live_ranges` → `hcAllocate`, `hcTotal`
* `tensor_allocation.verify_allocation` / `verify_alignment` → `verifyAllocation`
* `numeric_util.round_up` → `roundUp`

Python objects become records, `self.` mutation becomes returned values, `random.randint`
consumes an explicit oracle list `draws`.  Exceptions are `Err` values; the model rejects what
the code rejects.  `end_` is inclusive (as `is_neighbour`, `verify_allocation` treat it).
-/
namespace VelaVerif.Alloc
open VelaVerif.Gen.AllocConst

inductive Err where
  | zerodiv   -- ZeroDivisionError: `round_up(_, 0)` / `% 0`
  | value     -- ValueError: `random.randint` on an empty range, `max()` of an empty sequence
  | index     -- IndexError
  | assert_   -- AssertionError
  | alloc     -- AllocationError (verify_alignment / verify_allocation)
  | unalloc   -- an address is still NOT_ALLOCATED (-1) in the result (sizes ≥ 2^63 only)
  | draws     -- the oracle list is exhausted (not a Python outcome)
  | fuel      -- search-loop fuel exhausted (not a Python outcome; proved unreachable)
  | lrfuel    -- `allocate_lr` loop fuel exhausted (not a Python outcome; proved unreachable)
  | chain     -- predecessor walk longer than the number of ranges (would loop forever in Python)
deriving Repr, DecidableEq

/-- `numeric_util.round_up(a, b)`; callers guard `b = 0` (ZeroDivisionError in Python). -/
def roundUp (a b : Nat) : Nat := ((a + b - 1) / b) * b

/-- A live range as the allocators see it. `name` is the rank of `LiveRange.name` among the
    names (only used where `LiveRange.__lt__` is: equal addresses in `sorted(current_allocs)`), `id` the position in
    `live_ranges.lrs`. -/
structure LR where
  start : Nat
  end_ : Nat
  size : Nat
  align : Nat
  name : Nat
  id : Nat
deriving Repr, DecidableEq, Inhabited

/-- stable insertion sort (Python's `sorted` for a total preorder `le`); structural, so that it
    also evaluates inside the kernel for the concrete witnesses -/
def insertBy {α : Type} (le : α → α → Bool) (x : α) : List α → List α
  | [] => [x]
  | y :: ys => if le x y then x :: y :: ys else y :: insertBy le x ys

def isort {α : Type} (le : α → α → Bool) : List α → List α
  | [] => []
  | x :: xs => insertBy le x (isort le xs)

/-! ## Greedy (`greedy_allocation.py`) -/

/-- `LiveRange.__lt__` -/
def lrLt (a b : LR) : Bool :=
  if a.start != b.start then decide (a.start < b.start)
  else if a.end_ != b.end_ then decide (a.end_ < b.end_)
  else if a.size != b.size then decide (a.size < b.size)
  else decide (a.name < b.name)

/-- order of `sorted((lr.start_time, -lr.end_time, idx, lr) for idx, lr in enumerate(lrs))`: the
    creation index `idx` (= `id`, the position in `live_ranges.lrs`) breaks every tie, so the
    live ranges themselves are never compared -/
def greedyLe (a b : LR) : Bool :=
  if a.start != b.start then decide (a.start < b.start)
  else if a.end_ != b.end_ then decide (b.end_ < a.end_)
  else decide (a.id ≤ b.id)

/-- `(start_addr, lr) < (start_addr', lr')` for Python tuples -/
def allocLt (x y : Nat × LR) : Bool := decide (x.1 < y.1) || (x.1 == y.1 && lrLt x.2 y.2)

/-- `current_allocs.append(x); current_allocs = sorted(current_allocs)` on a sorted list -/
def insertAlloc (x : Nat × LR) : List (Nat × LR) → List (Nat × LR)
  | [] => [x]
  | y :: ys => if allocLt x y then x :: y :: ys else y :: insertAlloc x ys

structure Scan where
  cur : Nat     -- current_offset
  best : Nat    -- best_offset
  fit : Nat     -- best_offset_fit
deriving Repr

/-- body of the gap scan `for start_addr, lr in self.current_allocs` -/
def greedyScanStep (align asz : Nat) (s : Scan) (e : Nat × LR) : Scan :=
  let aco := roundUp s.cur align
  let s' : Scan :=
    if aco + asz ≤ e.1 ∧ e.1 - aco < s.fit then { s with best := aco, fit := e.1 - aco } else s
  { s' with cur := e.1 + e.2.size }

def currentTop (cur : List (Nat × LR)) : Nat := cur.foldl (fun m e => max m (e.1 + e.2.size)) 0

/-- `GreedyAllocator.alloc`: chosen address, new `current_allocs`, new `memory_required` -/
def greedyAlloc (cur : List (Nat × LR)) (mem : Nat) (lr : LR) : Nat × List (Nat × LR) × Nat :=
  let asz := roundUp lr.size lr.align
  let s := cur.foldl (greedyScanStep lr.align asz) ⟨0, roundUp (currentTop cur) lr.align, 2 ^ 64 - 1⟩
  (s.best, insertAlloc (s.best, lr) cur, max mem (s.best + asz))

/-- the `dealloc` loop at time `t`: keep the allocations that have not ended before `t` -/
def greedyExpire (cur : List (Nat × LR)) (t : Nat) : List (Nat × LR) :=
  cur.filter (fun e => !decide (e.2.end_ < t))

/-- main loop over the sorted ranges: placements in processing order and `memory_required` -/
def greedyLoop : List LR → List (Nat × LR) → Nat → List (LR × Nat) × Nat
  | [], _, mem => ([], mem)
  | lr :: rest, cur, mem =>
    let r := greedyAlloc (greedyExpire cur lr.start) mem lr
    let t := greedyLoop rest r.2.1 r.2.2
    ((lr, r.1) :: t.1, t.2)

/-- `greedy_allocation.allocate_live_ranges`: every range with its address, and the total -/
def greedy (lrs : List LR) : Except Err (List (LR × Nat) × Nat) :=
  if lrs.any (fun lr => lr.align == 0) then .error .zerodiv
  else .ok (greedyLoop (isort greedyLe lrs) [] 0)

/-! ## LinearAlloc (`tensor_allocation.linear_allocate_live_ranges`) -/

/-- one entry of `live_ranges.ranges` (tensor → range), in dict order -/
structure LTens where
  lr : Nat        -- index of its LiveRange in `lrSizes`
  wcc : Nat       -- weight_compression_config identity, 0 = None
  scc : Nat       -- scale_compression_config identity
  lut : Bool      -- purpose == TensorPurpose.LUT
  eqv : Nat       -- equivalence_id
deriving Repr, DecidableEq

structure LinState where
  total : Nat
  allocated : List (LTens × Nat)     -- allocated_tensors with their address, in append order
  addrs : List (Nat × Nat)           -- (range index, address) in allocation order
deriving Repr

/-- the `weight_compression_config` clause: address of the first allocated tensor with an equal
    config (asserting equal scale configs), else the running total -/
def linWccAddr (st : LinState) (t : LTens) : Except Err Nat :=
  if t.wcc != 0 then
    match st.allocated.find? (fun p => p.1.wcc == t.wcc) with
    | some p => if p.1.scc == t.scc then .ok p.2 else .error .assert_
    | none => .ok st.total
  else .ok st.total

/-- the LUT clause: address of the first allocated equivalent tensor, else unchanged -/
def linLutAddr (st : LinState) (t : LTens) (a1 : Nat) : Nat :=
  if t.lut then
    match st.allocated.find? (fun p => p.1.eqv == t.eqv) with
    | some p => p.2
    | none => a1
  else a1

def linearStep (lrSizes : List Nat) (tensOf : Nat → List LTens) (gran : Nat) (st : LinState) (t : LTens) :
    Except Err LinState :=
  if st.addrs.any (fun p => p.1 == t.lr) then .ok st else    -- `tens in allocated_tensors`
  match lrSizes[t.lr]? with
  | none => .error .index
  | some size =>
    match linWccAddr st t with
    | .error e => .error e
    | .ok a1 =>
      let a2 := linLutAddr st t a1
      let allocated' := st.allocated ++ (tensOf t.lr).map (fun x => (x, a2))
      if a2 == st.total then
        if gran == 0 then .error .zerodiv
        else .ok ⟨st.total + roundUp size gran, allocated', st.addrs ++ [(t.lr, a2)]⟩
      else .ok ⟨st.total, allocated', st.addrs ++ [(t.lr, a2)]⟩

def linearLoop (lrSizes : List Nat) (tensOf : Nat → List LTens) (gran : Nat) :
    List LTens → LinState → Except Err LinState
  | [], st => .ok st
  | t :: ts, st =>
    match linearStep lrSizes tensOf gran st t with
    | .error e => .error e
    | .ok st' => linearLoop lrSizes tensOf gran ts st'

/-- `linear_allocate_live_ranges` without the final `verify_alignment`:
    (range index, address) in allocation order and the total. -/
def linear (lrSizes : List Nat) (tens : List LTens) (gran : Nat) : Except Err (List (Nat × Nat) × Nat) :=
  match linearLoop lrSizes (fun i => tens.filter (fun t => t.lr == i)) gran tens ⟨0, [], []⟩ with
  | .error e => .error e
  | .ok st => .ok (st.addrs, st.total)

/-! ## `verify_alignment` / `verify_allocation` -/

structure VTens where
  addr : Nat
  eqv : Nat       -- equivalence_id
  cpu : Bool      -- `not all(op and op.run_on_npu for op in tens.ops + tens.consumer_list)`
deriving Repr, DecidableEq

structure VLr where
  start : Nat
  end_ : Nat
  size : Nat
  tens : List VTens
deriving Repr, DecidableEq

def verifyAlignment (lrs : List VLr) (alignment : Nat) : Except Err Unit :=
  if alignment == 0 then
    if lrs.any (fun lr => lr.tens.any (·.cpu)) then .error .zerodiv else .ok ()
  else if lrs.all (fun lr => lr.tens.all (fun t => !t.cpu || t.addr % alignment == 0)) then .ok ()
  else .error .alloc

/-- `n.overlaps_address(m)`: the first pair of tensors with overlapping byte ranges -/
def overlapsAddress (n m : VLr) : Option (VTens × VTens) :=
  (n.tens.flatMap (fun tn => m.tens.map (fun tm => (tn, tm)))).find? (fun p =>
    decide (max p.1.addr p.2.addr < min (p.1.addr + n.size) (p.2.addr + m.size)))

def vLiveAt (lr : VLr) (t : Nat) : Bool := decide (lr.start ≤ t) && decide (t ≤ lr.end_)

/-- the pair test in the innermost loop of `verify_allocation` (true = no error raised) -/
def verifyPair (n m : VLr) : Bool :=
  match overlapsAddress n m with
  | some (tn, tm) => tn.eqv == tm.eqv && tn.addr == tm.addr
  | none => true

def verifyAllocation (lrs : List VLr) (alignment : Nat) : Except Err Unit :=
  match verifyAlignment lrs alignment with
  | .error e => .error e
  | .ok () =>
    if lrs.isEmpty then .error .value else    -- max() of an empty sequence
    let nr := 1 + lrs.foldl (fun m lr => max m lr.end_) 0
    if (List.range nr).all (fun t =>
        let at_ := lrs.filter (fun lr => vLiveAt lr t)
        let new := at_.filter (fun lr => t == 0 || !vLiveAt lr (t - 1))
        new.all (fun m => at_.all (fun n => verifyPair n m)))
    then .ok () else .error .alloc

/-! ## HillClimb (`hillclimb_allocation.py`) -/

/-- mutable part of `LiveRangeInfo` (`address = none` is NOT_ALLOCATED, `pred = none` NO_PREDECESSOR) -/
structure Dyn where
  addr : Option Nat
  endAddr : Nat
  pred : Option Nat
  turn : Nat
deriving Repr, DecidableEq

instance : Inhabited Dyn := ⟨⟨none, 0, none, 0⟩⟩

/-- static part of `LiveRangeInfo` -/
structure Info where
  lr : LR
  urgency : Nat
  nbrs : List Nat
deriving Repr

instance : Inhabited Info := ⟨⟨default, 0, []⟩⟩

def timeOverlap (a b : LR) : Bool := decide (max a.start b.start ≤ min a.end_ b.end_)

def liveAtB (lr : LR) (t : Nat) : Bool := decide (lr.start ≤ t) && decide (t ≤ lr.end_)

/-- `size_at_time[t]` -/
def sizeAt (lrs : List LR) (t : Nat) : Nat := ((lrs.filter (liveAtB · t)).map (·.size)).sum

def nrTimeSlots (lrs : List LR) : Nat := 1 + lrs.foldl (fun m lr => max m lr.end_) 0

/-- `min_required_size` -/
def minRequired (lrs : List LR) : Nat :=
  (List.range (nrTimeSlots lrs)).foldl (fun m t => max m (sizeAt lrs t)) 0

/-- `lr.urgency`: the largest `size_at_time[t]` over the range's own time steps -/
def urgencyOf (sizes : Array Nat) (lr : LR) : Nat :=
  (List.range (lr.end_ + 1 - lr.start)).foldl (fun m k => max m (sizes.getD (lr.start + k) 0)) 0

/-- `lr.neighbours` as ids.  Python appends, for `t` ascending over the range's own time steps,
    the not-yet-seen ranges alive at `t` in id order; a neighbour is first seen at
    `max(lr.start, lr2.start)`, so this is the stable sort of the overlapping ranges by that key. -/
def neighboursOf (lrs : List LR) (lr : LR) : List Nat :=
  (isort (fun a b => decide (max lr.start a.start ≤ max lr.start b.start))
    (lrs.filter (fun lr2 => lr2.id != lr.id && timeOverlap lr lr2))).map (·.id)

def mkInfos (lrs : List LR) : Array Info :=
  let sizes := ((List.range (nrTimeSlots lrs)).map (sizeAt lrs)).toArray
  (lrs.map (fun lr => { lr := lr, urgency := urgencyOf sizes lr, nbrs := neighboursOf lrs lr : Info })).toArray

/-- `LiveRangeInfo.__lt__` as a total preorder (ids are distinct) -/
def infoLe (a b : Info) : Bool :=
  if a.urgency != b.urgency then decide (a.urgency > b.urgency)
  else
    let d1 : Int := (a.lr.end_ : Int) - a.lr.start
    let d2 : Int := (b.lr.end_ : Int) - b.lr.start
    if d1 != d2 then decide (d1 > d2)
    else if a.lr.start != b.lr.start then decide (a.lr.start < b.lr.start)
    else if a.lr.size != b.lr.size then decide (a.lr.size > b.lr.size)
    else decide (a.lr.id ≤ b.lr.id)

def getDyn (dyn : Array Dyn) (i : Nat) : Dyn := dyn.getD i default
def getInfo (infos : Array Info) (i : Nat) : Info := infos.getD i default

/-- one sweep `for lr2 in lr.neighbours` of `allocate_lr`; state = (address, predecessor, fits) -/
def lrPass (dyn : Array Dyn) (size align : Nat) (nbrs : List Nat) (st : Nat × Option Nat × Bool) :
    Nat × Option Nat × Bool :=
  nbrs.foldl (fun (s : Nat × Option Nat × Bool) j =>
    let d := getDyn dyn j
    match d.addr with
    | none => s
    | some a2 =>
      if d.endAddr ≤ s.1 then s
      else if a2 < s.1 + size ∧ s.1 < d.endAddr then (roundUp d.endAddr align, some j, false)
      else s) st

/-- `while not fits` of `allocate_lr` -/
def lrLoop (dyn : Array Dyn) (size align : Nat) (nbrs : List Nat) :
    Nat → Nat → Option Nat → Except Err (Nat × Option Nat)
  | fuel, address, pred =>
    let r := lrPass dyn size align nbrs (address, pred, true)
    if r.2.2 then .ok (r.1, r.2.1)
    else if align == 0 then .error .zerodiv
    else match fuel with
      | 0 => .error .lrfuel
      | f + 1 => lrLoop dyn size align nbrs f r.1 r.2.1

/-- `allocate_lr`: (address, predecessor) -/
def hcAllocateLr (infos : Array Info) (dyn : Array Dyn) (id : Nat) : Except Err (Nat × Option Nat) :=
  let info := getInfo infos id
  lrLoop dyn info.lr.size info.lr.align info.nbrs (info.nbrs.length + 1) 0 none

def hcAllocGo (infos : Array Info) (best : Nat) :
    List Nat → Nat → Array Dyn → Nat → Except Err (Array Dyn × Nat)
  | [], _, dyn, size => .ok (dyn, size)
  | ix :: rest, turn, dyn, size =>
    if ix < infos.size then
      match hcAllocateLr infos dyn ix with
      | .error e => .error e
      | .ok (a, p) =>
        let sz := (getInfo infos ix).lr.size
        let dyn' := dyn.setIfInBounds ix ⟨some a, a + sz, p, turn⟩
        let size' := max size (a + sz)
        if size' > best then .ok (dyn', size') else hcAllocGo infos best rest (turn + 1) dyn' size'
    else .error .index

/-- `allocate_indices` (with the early `break` when the size exceeds `best_size`) -/
def hcAllocateIndices (infos : Array Info) (dyn : Array Dyn) (indices : List Nat) (best : Nat) :
    Except Err (Array Dyn × Nat) :=
  hcAllocGo infos best indices 0 (dyn.map (fun d => { d with addr := none })) 0

def pushNew (tl : Array Nat) (t : Nat) : Array Nat := if tl.contains t then tl else tl.push t

def predChain (dyn : Array Dyn) : Nat → Nat → Array Nat → Except Err (Array Nat)
  | fuel, id, tl =>
    match (getDyn dyn id).pred with
    | none => .ok tl
    | some p =>
      match fuel with
      | 0 => .error .chain
      | f + 1 => predChain dyn f p (pushNew tl (getDyn dyn p).turn)

/-- `add_predecessor_turns` (the set and the list always hold the same turns) -/
def addPredTurns (dyn : Array Dyn) (tl : Array Nat) (id : Nat) : Except Err (Array Nat) :=
  predChain dyn dyn.size id (pushNew tl (getDyn dyn id).turn)

/-- `random.randint(0, hi)` where `hi = n - k` is given as `n`, `k` (so an empty range is visible) -/
def randint (draws : List Nat) (n k : Nat) : Except Err (Nat × List Nat) :=
  if n < k then .error .value
  else match draws with
    | [] => .error .draws
    | d :: ds => .ok (d % (n - k + 1), ds)

def swapIdx (l : List Nat) (i j : Nat) : Except Err (List Nat) :=
  match l[i]?, l[j]? with
  | some a, some b => .ok ((l.set i b).set j a)
  | _, _ => .error .index

/-- the bottleneck: first range (by id) with the highest `end_address` -/
def bottleneck (dyn : Array Dyn) : Nat :=
  ((List.range dyn.size).foldl (fun (m : Nat × Nat) i =>
    if (getDyn dyn i).endAddr > m.2 then (i, (getDyn dyn i).endAddr) else m) (0, (getDyn dyn 0).endAddr)).1

def foldAddPred (dyn : Array Dyn) : List Nat → Array Nat → Except Err (Array Nat)
  | [], tl => .ok tl
  | j :: js, tl =>
    match addPredTurns dyn tl j with
    | .error e => .error e
    | .ok tl' => foldAddPred dyn js tl'

/-- `attempt_bottleneck_fix`: the reordered indices and the remaining draws -/
def hcFix (infos : Array Info) (dyn : Array Dyn) (indices : List Nat) (stuck : Nat) (draws : List Nat) :
    Except Err (List Nat × List Nat) := do
  let mx := bottleneck dyn
  let mxLr := (getInfo infos mx).lr
  let tl0 ← addPredTurns dyn #[] mx
  let tl ← foldAddPred dyn (getInfo infos mx).nbrs tl0
  -- `indices[turn]` for every turn in turn_list
  let lrAt ← tl.toList.mapM (fun turn => match indices[turn]? with
    | some ix => if ix < infos.size then Except.ok (turn, ix) else Except.error Err.index
    | none => Except.error Err.index)
  let isNb (lr : LR) : Bool := decide (mxLr.start ≤ lr.end_) && decide (lr.start ≤ mxLr.end_)
  let nonNb := (lrAt.filter (fun p => !isNb (getInfo infos p.2).lr)).map (·.1)
  -- fewer than two distinct turns: nothing to swap, the order is left unchanged (no draw is consumed)
  if tl.size < 2 then pure (indices, draws) else
  let (d0, draws) ← randint draws 100 0
  let (ix1, draws) ←
    if d0 < 30 ∧ !nonNb.isEmpty then do
      let (k, draws) ← randint draws nonNb.length 1
      pure (nonNb.getD k 0, draws)
    else do
      let (k, draws) ← randint draws tl.size 1
      pure (tl.getD k 0, draws)
  let (k2, draws) ← randint draws tl.size 2
  let ix2 := if ix1 == tl.getD k2 0 then tl.getD (tl.size - 1) 0 else tl.getD k2 0
  let indices ← swapIdx indices ix1 ix2
  if stuck > hcMaxIterationsStuck then
    -- add the neighbours of the non-neighbour ranges (looked up in the *swapped* indices)
    let nbTurns ← nonNb.mapM (fun turn => match indices[turn]? with
      | some ix => if ix < infos.size then
          Except.ok ((getInfo infos ix).nbrs.map (fun j => (getDyn dyn j).turn)) else Except.error Err.index
      | none => Except.error Err.index)
    let tl2 := nbTurns.flatten.foldl pushNew tl
    let (k1, draws) ← randint draws tl2.size 1
    let (k2, draws) ← randint draws tl2.size 1
    let indices ← swapIdx indices (tl2.getD k1 0) (tl2.getD k2 0)
    pure (indices, draws)
  else pure (indices, draws)

structure SearchResult where
  alloc : Array (Option Nat)    -- allocated_addresses
  iters : Nat                   -- number of loop bodies executed (calls of attempt_bottleneck_fix)
  drawsLeft : List Nat
  best : Nat

def snapshot (dyn : Array Dyn) : Array (Option Nat) := dyn.map (·.addr)

/-- `search`: the `while` loop; `fuel` bounds the number of iterations, `.ok none` = fuel exhausted
    (proved impossible for `searchFuel`, see `hc_search_terminates`) -/
def hcSearch (infos : Array Info) (minReq memLimit maxIter : Nat) :
    Nat → Array Dyn → List Nat → List Nat → Nat → Nat → Nat → Array (Option Nat) → List Nat →
    Except Err (Option SearchResult)
  | fuel, dyn, indices, bestIndices, best, last, i, alloc, draws =>
    if (best > memLimit ∧ i < maxIter) ∨ i - last < hcMinIterationsImprove then
      match fuel with
      | 0 => .ok none
      | f + 1 =>
        match hcFix infos dyn indices (i - last) draws with
        | .error e => .error e
        | .ok (indices', draws') =>
          match hcAllocateIndices infos dyn indices' best with
          | .error e => .error e
          | .ok (dyn', newSize) =>
            if newSize ≤ best then
              let last' := if newSize < best then i else last
              if newSize ≤ minReq then .ok (some ⟨snapshot dyn', i + 1, draws', newSize⟩)
              else hcSearch infos minReq memLimit maxIter f dyn' indices' indices' newSize last' (i + 1)
                     (snapshot dyn') draws'
            else hcSearch infos minReq memLimit maxIter f dyn' bestIndices bestIndices best last (i + 1)
                   alloc draws'
    else .ok (some ⟨alloc, i, draws, best⟩)

/-- enough fuel for `hcSearch` (see `hc_terminates`) -/
def searchFuel (maxIter best : Nat) : Nat :=
  max maxIter hcMinIterationsImprove + hcMinIterationsImprove * best + 1

structure HcResult where
  addrs : List Nat
  iters : Nat
  drawsLeft : List Nat
deriving Repr

/-- `hillclimb_allocation.allocate_live_ranges(lrs, max_iterations, memory_limit)` for a non-empty
    list; `maxIter = none` is Python's `None`. -/
def hcAllocate (lrs : List LR) (maxIter : Option Nat) (memLimit : Nat) (draws : List Nat) :
    Except Err HcResult :=
  let infos := mkInfos lrs
  let minReq := minRequired lrs
  let maxIt := maxIter.getD hcMaxIterations
  let dyn0 : Array Dyn := (lrs.map (fun _ => (⟨some 0, 0, some 0, 0⟩ : Dyn))).toArray
  let indices := (isort infoLe infos.toList).map (·.lr.id)
  match hcAllocateIndices infos dyn0 indices (2 ^ 63) with
  | .error e => .error e
  | .ok (dyn1, best) =>
    let fin (r : SearchResult) : Except Err HcResult :=
      match r.alloc.toList.mapM id with
      | some addrs => .ok ⟨addrs, r.iters, r.drawsLeft⟩
      | none => .error .unalloc
    if best > minReq then
      match hcSearch infos minReq memLimit maxIt (searchFuel maxIt best) dyn1 indices indices best 0 0
          (snapshot dyn1) draws with
      | .error e => .error e
      | .ok none => .error .fuel
      | .ok (some r) => fin r
    else fin ⟨snapshot dyn1, 0, draws, best⟩

/-- `total_sz` of `tensor_allocation.hillclimb_allocate_live_ranges` -/
def hcTotal (lrs : List LR) (addrs : List Nat) : Nat :=
  (lrs.zip addrs).foldl (fun m p => max m (p.2 + p.1.size)) 0

end VelaVerif.Alloc
