import VelaVerif.Model.NpuOp
import VelaVerif.Model.TensorAddr
import VelaVerif.Model.WeightLayout
/-!
# Model of `ethosu/vela/high_level_command_to_npu_op.py` (scheduled operation → `NpuOperation`)

The link between the scheduler's high-level commands (`NpuStripe`, `DMA`) and the register generator.
Hand transcription, function by function, of

* `get_region`, `get_mem_limits_for_regions`            → `getRegion`, `memLimits`
* `ifm_ifm2_correct_order`                              → `correctOrder`
* `get_rounding_mode`                                   → `getRoundingMode`
* `create_padding`, `modify_tile_addresses_for_padding` → `createPadding`, `modifyTiles`
* `get_ifm_depth`                                       → `getIfmDepth`
* `use_zero_point_0`                                    → `useZeroPoint0`
* `get_ifm_or_ifm2_quantization`, `get_ofm_quantization`→ `getIfmQuant`, `getOfmQuant`
* `create_feature_map`                                  → `createFm` (on top of `Model/TensorAddr.createFeatureMap`)
* `create_weights`                                      → `createWeights` (on top of `Model/WeightLayout.createWeights`)
* `create_npu_activation`                               → `createNpuActivation`
* `set_common_op_fields`                                → `setCommon`
* `create_npu_conv2d_op` / `…_conv_depthwise_op` / `…_pool_op` / `…_elementwise_op` → `createConv2d`, `createDepthwise`, `createPool`, `createElementwise`
* `create_dma_op`                                       → `createDmaOp`
* `convert_command_to_npu_op`                           → `convert`

over a plain descriptor of the command (`StripeD`, `DmaD`): everything the Python code reads from `cmd`, `cmd.ps`,
`cmd.ps.primary_op`, the tensors and `arch`.  Mutation (the IFM/IFM2 swap writes `cmd.*` and `ps.ifm_shapes`) is a returned
value (`swapOperands`).  The model rejects what the code rejects (`Except Err`), it never defaults.

**Floats.**  Scales and clamp bounds are Python floats / `numpy.float32`.  They travel as bit patterns (`Fl`); the four
float operations the file performs (`quantise_float32`, `scale * int`, `scale / scale`, `1 / 0x3000`, `!=`) are the parameter
`FloatOps` — the model makes the *selection and the order of the operations*, exactly like `Model/WeightLayout.lean` is
parametric in the encoder.  `Handlers/NpuOpBuild.lean` instantiates them with exact IEEE arithmetic.

**Output.**  `Built.op` is the C06 operation record (`Model/NpuOp.lean`), so `convert` composes with `Model/Emit.lean`;
what that record does not carry (scale of each feature map, unquantised clamp bounds, scalar, rescale values) is kept
beside it (`Built.ifmScale` …).  The record holds *quantised* clamp bounds and scalar — the quantisation
(`register_command_stream_util.quantise`) is applied by `toRecord`.  The values C06 takes from other mechanisms
(`NpuOp.Oracle`) are an argument that is handed through unchanged.
-/
namespace VelaVerif.NpuOpBuild
open VelaVerif.NpuOp

inductive Err where
  | assert | key | type | index | unsupported | unbound | value | zerodiv | rank
deriving Repr, DecidableEq, Inhabited

def Err.str : Err → String
  | .assert => "err:assert" | .key => "err:key" | .type => "err:type" | .index => "err:index"
  | .unsupported => "err:unsupported" | .unbound => "err:unbound" | .value => "err:value"
  | .zerodiv => "err:zerodiv" | .rank => "err:rank"

def ofTA : TensorAddr.Err → Err
  | .assert => .assert | .zerodiv => .zerodiv | .unsupported => .unsupported | .type => .type | .rank => .rank

/-! ## vocabulary -/

/-- a Python float / `numpy.float32` / `numpy.float64`: the IEEE double bit pattern of `float(x)` and the kind of the
    object (0 Python float or int — "weak" in NumPy's promotion rules —, 1 `numpy.float32`, 2 `numpy.float64`) -/
structure Fl where
  bits : Nat
  kind : Nat
deriving Repr, DecidableEq, Inhabited

/-- the float operations the file performs (see the header) -/
structure FloatOps where
  /-- `int(round_away_zero(np.float32(f) / np.float32(scale)))`; `none`: the conversion raises (scale 0, nan) -/
  qdiv : Fl → Fl → Option Int
  /-- `scale * q` for an integer `q` of kind `ik` (0 Python int, 1 NumPy integer of at most 16 bits, 2 a wider NumPy
      integer: NumPy promotes float32 × int32/int64 to float64) -/
  mulInt : Fl → Nat → Int → Fl
  /-- `a / b`; `none`: ZeroDivisionError -/
  div : Fl → Fl → Option Fl
  /-- the Python int `1` used as a scale (`1 if quant.scale_f32 is None`) -/
  one : Fl
  /-- `1 / 0x3000` -/
  inv3000 : Fl
  /-- `a == b` (NumPy converts a weak Python float to float32 when the other side is a float32) -/
  eq : Fl → Fl → Bool

inductive DT where
  | uint8 | int8 | uint16 | int16 | int32 | int64 | other
deriving Repr, DecidableEq, Inhabited

/-- `dtype_map[tens.dtype]` (KeyError outside the five types) -/
def dtypeMap : DT → Except Err DType
  | .uint8 => .ok ⟨8, false⟩ | .int8 => .ok ⟨8, true⟩ | .uint16 => .ok ⟨16, false⟩ | .int16 => .ok ⟨16, true⟩
  | .int32 => .ok ⟨32, true⟩ | _ => .error .key

inductive MemT where
  | unknown | permanentNpu | permanentCpu | scratch | scratchFast
deriving Repr, DecidableEq, Inhabited

inductive BlockT where
  | default | convMxN | vectorProduct | pooling | convDepthWise | elementWise | reduceSum | dma
deriving Repr, DecidableEq, Inhabited

/-- the `Op` members the file distinguishes; every other member travels as `other <its npu_block_type>` -/
inductive OpT where
  | avgPool | quantizedAvgPool | maxPool | quantizedMaxPool | reduceSum
  | resizeBilinear | resizeNearest
  | conv2DBias | depthwiseConv2DBias
  | mul | add | sub | minimum | maximum | leakyRelu | abs | clz | shr | shl
  | quantize | transpose
  | other (bt : BlockT)
deriving Repr, DecidableEq, Inhabited

/-- `op_type.npu_block_type` (`operation.py`, the `Op` table) -/
def OpT.blockType : OpT → BlockT
  | .avgPool | .quantizedAvgPool | .maxPool | .quantizedMaxPool => .pooling
  | .reduceSum => .reduceSum
  | .resizeBilinear | .resizeNearest => .pooling
  | .conv2DBias => .convMxN
  | .depthwiseConv2DBias => .convDepthWise
  | .mul | .add | .sub | .minimum | .maximum | .leakyRelu | .abs | .clz | .shr | .shl => .elementWise
  | .quantize | .transpose => .default
  | .other bt => bt

def OpT.isResize (o : OpT) : Bool := o == .resizeBilinear || o == .resizeNearest
def OpT.isAvgPool (o : OpT) : Bool := o == .quantizedAvgPool || o == .avgPool
def OpT.isMaxPool (o : OpT) : Bool := o == .maxPool || o == .quantizedMaxPool
def OpT.isElementwise (o : OpT) : Bool := o.blockType == .elementWise

/-- `elementwise_op_map`: ordinal in `api.NpuElementWiseOp` (ADD, SUB, MUL, ABS, MIN, MAX, LRELU, CLZ, SHR, SHL) -/
def elementwiseOpMap : OpT → Option Nat
  | .add => some 0 | .sub => some 1 | .mul => some 2 | .abs => some 3 | .minimum => some 4 | .maximum => some 5
  | .leakyRelu => some 6 | .clz => some 7 | .shr => some 8 | .shl => some 9 | _ => none

/-- `UNARY_ELEMWISE_OPS` = (ABS, LRELU, CLZ) -/
def isUnaryEw (sub : Nat) : Bool := sub = 3 || sub = 6 || sub = 7

inductive OpRounding where
  | tflite | toZero | halfUp | awayZero
deriving Repr, DecidableEq, Inhabited

/-- `rounding_mode_map`: ordinal in `api.NpuRoundingMode` (TFL, TRUNCATE, NATURAL) -/
def roundingModeMap : OpRounding → Nat
  | .tflite => 0 | .toZero => 1 | .halfUp => 2 | .awayZero => 2

inductive PadAttr where
  | same | valid | explicit | tile
deriving Repr, DecidableEq, Inhabited

/-- `QuantizationParameters` as far as it is read: `scale_f32` (`None` possible) and `zero_point` -/
structure Quant where
  scale : Option Fl
  zeroPoint : Int
  /-- kind of the `zero_point` object (see `FloatOps.mulInt`): it decides the float type of `scale * (zero_point + …)` -/
  zpKind : Nat := 0
deriving Repr, DecidableEq, Inhabited

/-- `NpuQuantization(scale_f32, zero_point)` -/
structure NpuQuant where
  scale : Option Fl
  zeroPoint : Int
deriving Repr, DecidableEq, Inhabited

inductive Faf where
  | relu | relu6 | reluN1To1 | reluN | clip | clamp | tanh | sigmoid | lut | other
deriving Repr, DecidableEq, Inhabited

def Faf.isRelu : Faf → Bool
  | .relu | .relu6 | .reluN1To1 | .reluN | .clip | .clamp => true
  | _ => false

/-- `op.activation` (`ActivationFunction`) -/
structure ActD where
  faf : Faf
  min : Option Fl
  max : Option Fl
  lutIndex : Int
deriving Repr, DecidableEq, Inhabited

/-- `op.explicit_scaling` -/
structure ExplD where
  perChannel : Bool
  multiplier : List Int
  shift : List Int
deriving Repr, DecidableEq, Inhabited

/-- a feature-map tensor as the file reads it -/
structure TensD where
  t : TensorAddr.Tens
  dtype : DT
  memType : MemT
  quant : Option Quant
  /-- `get_scalar()` (dequantised); `none`: the call would fail (`values` is not a single element) -/
  scalar : Option Fl
  /-- `tens.ops`: `none` = empty list (IndexError on `ops[0]`), `some none` = `ops[0] is None`,
      `some (some o)` = `ops[0].original_type` -/
  producer : Option (Option OpT)
deriving Repr, DecidableEq, Inhabited

def TensD.isScalar (d : TensD) : Bool := d.t.shape == []

/-- a box: `start_coord`, `end_coord` (lists of equal length) -/
structure BoxD where
  start : List Nat
  stop : List Nat
deriving Repr, DecidableEq, Inhabited

/-- the weight tensor of the command -/
structure WTensD where
  memType : MemT
  /-- `weight_tensor.address` (the buffer when `buffered`) -/
  address : Nat
  /-- `weight_tensor.src_tensor` is set (the command reads a buffered copy) -/
  buffered : Bool
  /-- `encoded_ranges` of `src_tensor` if set, of the tensor itself otherwise -/
  ranges : List WeightLayout.Range
  /-- `hw_traversal == PART_KERNEL_FIRST` of `src_tensor` if set, of the tensor itself otherwise -/
  partKernelFirst : Bool
deriving Repr, DecidableEq, Inhabited

structure STensD where
  memType : MemT
  address : Nat
  hasSrc : Bool
  ranges : List WeightLayout.Range
deriving Repr, DecidableEq

/-- `cmd.ps.primary_op` -/
structure OpD where
  type : OpT
  origType : OpT
  /-- `op.ifm.dtype` (the operator's first input, not the command's IFM) -/
  ifmDtype : DT
  /-- `op.bias.dtype` -/
  bias : Option DT
  memFnConcatSliceWrite : Bool
  kernel : Kernel
  roundingMode : Option OpRounding
  /-- `attrs["explicit_padding"]` (top, left, bottom, right) -/
  explicitPadding : Option (Int × Int × Int × Int)
  /-- `attrs.get("padding")` -/
  paddingAttr : Option PadAttr
  /-- `attrs["alpha"]` -/
  alpha : Option Fl
  /-- `read_offsets[0]`: `none` = None, `some l` = its coordinate list -/
  readOffset0 : Option (List Int)
  /-- `read_shapes[0]` -/
  readShape0 : Option (List Int)
  forcedInputQuant : Option Quant
  forcedOutputQuant : Option Quant
  /-- `op.ofm.quantization` -/
  ofmQuant : Option Quant
  activation : Option ActD
  explicitScaling : Option ExplD
  tileOffsIfm0 : List Nat
  tileOffsIfm1 : List Nat
  tileOffsOfm : List Nat
  /-- `ofm_stride_multiplier` (C, H, W); `none` = None or an empty list -/
  ofmStrideMult : Option (Nat × Nat × Nat)
  /-- `ifm_resampling_mode`: 0 NONE, 1 NEAREST, 2 TRANSPOSE (anything else: KeyError of `resampling_mode_inv_map`) -/
  resampling : Nat
deriving Repr, DecidableEq

/-- an `NpuStripe` command with its pass -/
structure StripeD where
  op : OpD
  /-- `(op.type, op.original_type)` for every op of `ps.ops` -/
  psOps : List (OpT × OpT)
  ifmShape0 : TensorAddr.S4
  ifmShape1 : Option TensorAddr.S4
  ofmShape0 : TensorAddr.S4
  /-- `ps.block_config` (height, width, ifm depth, ofm depth) -/
  blockConfig : Int × Int × Int × Int
  isFirstH : Bool
  isLastH : Bool
  padTop : Int
  padBottom : Int
  ifm : TensD
  ifmBox : BoxD
  ifm2 : Option TensD
  ifm2Box : Option BoxD
  ofm : TensD
  ofmBox : BoxD
  weight : Option WTensD
  /-- `weight_box.start_coord[-1]` -/
  weightDepth : Option Nat
  scale : Option STensD
  reversedOperands : Bool
deriving Repr, DecidableEq

inductive PurposeD where
  | weights | lut | featureMap | other
deriving Repr, DecidableEq, Inhabited

/-- a tensor of a `DMA` command -/
structure DmaTensD where
  memType : MemT
  purpose : PurposeD
  address : Nat
  ranges : List WeightLayout.Range
  /-- for `address_for_coordinate` (non-weight transfers) -/
  t : TensorAddr.Tens
deriving Repr, DecidableEq

structure DmaD where
  src : DmaTensD
  dst : DmaTensD
  box : BoxD
deriving Repr, DecidableEq

structure ArchD where
  ncores : Nat
  spilling : Bool
  /-- `arch.max_address_offset`, `arch.arena_cache_size`, `arch.shram_size_bytes` -/
  maxAddressOffset : Nat
  arenaCacheSize : Nat
  shramSizeBytes : Nat
deriving Repr, DecidableEq, Inhabited

/-! ## `get_region`, `get_mem_limits_for_regions` -/

/-- `BASE_PTR_INDEX_MEM2MEM = (1 << 8) | 3` -/
def regionMem2Mem : Int := 0x103

def getRegion (m : MemT) (arch : ArchD) : Except Err Int :=
  match m with
  | .permanentNpu => .ok 0
  | .permanentCpu => .ok 0
  | .scratch => .ok 1
  | .scratchFast => .ok (if arch.spilling then 2 else 1)
  | .unknown => .error .key

/-- `arch.mem_type_size(mem_type)` -/
def memTypeSize (m : MemT) (arch : ArchD) : Nat :=
  if m == .scratchFast && arch.spilling then arch.arenaCacheSize else arch.maxAddressOffset

/-- dictionary update in the order of `MemType.all()`, then the SHRAM entry: the last writer of a region wins -/
def memLimits (arch : ArchD) : List (Int × Nat) :=
  let step (acc : List (Int × Nat)) (m : MemT) : List (Int × Nat) :=
    match getRegion m arch with
    | .ok r => (acc.filter (·.1 ≠ r)) ++ [(r, memTypeSize m arch)]
    | .error _ => acc
  let l := [MemT.permanentNpu, .permanentCpu, .scratch, .scratchFast].foldl step []
  (l.filter (·.1 ≠ regionMem2Mem)) ++ [(regionMem2Mem, arch.shramSizeBytes)]

/-! ## `ifm_ifm2_correct_order` -/

/-- the `zip` loop: a dimension of IFM that is 1 where IFM2's is not ⇒ wrong order -/
def orderLoop : List Nat → List Nat → Bool
  | a :: as, b :: bs => if a ≠ b ∧ a = 1 then false else orderLoop as bs
  | _, _ => true

def correctOrder (ifmShape ifm2Shape : Option TensorAddr.S4) : Bool :=
  match ifmShape, ifm2Shape with
  | none, _ => false
  | some _, none => true
  | some a, some b => orderLoop a.toList b.toList

/-! ## `get_rounding_mode` -/

def getRoundingMode (op : OpD) (fusedQuantize : Bool) : Nat :=
  let r : Nat :=
    if op.type.isResize then 2
    else if (op.origType.blockType == .convMxN || op.origType.blockType == .convDepthWise) && op.ifmDtype == .int16 then 2
    else if op.origType.blockType == .vectorProduct && op.ifmDtype == .int16 && op.bias == some .int64 then 2
    else if !fusedQuantize && op.type.isAvgPool && op.memFnConcatSliceWrite && op.kernel.width * op.kernel.height == 1 then 2
    else 0
  match op.roundingMode with
  | some m => roundingModeMap m
  | none => r

/-! ## `get_ifm_depth` -/

/-- `Box.get_block()`: `Block.from_shape(get_size_shape())` = (height, width, depth) read from the end of the size list
    padded to three entries with 1 -/
def blockOf (b : BoxD) : Shape3 :=
  let sz : List Int := (b.stop.zip b.start).map fun (e, s) => (e : Int) - (s : Int)
  let sz := (List.replicate (3 - sz.length) (1 : Int)) ++ sz
  let r := sz.reverse
  ⟨r.getD 2 1, r.getD 1 1, r.getD 0 1⟩

def getIfmDepth (bt : BlockT) (ifmBox ofmBox : BoxD) : Int :=
  if bt == .convMxN || bt == .vectorProduct || bt == .reduceSum then (blockOf ifmBox).depth else (blockOf ofmBox).depth

/-! ## `use_zero_point_0` -/

def fusedQuantizeOf (psOps : List (OpT × OpT)) : Bool := psOps.any fun (t, o) => t == .quantize || o == .quantize

def useZeroPoint0 (c : StripeD) (tensDtype : DT) (isIfm : Bool) : Bool :=
  let op := c.op
  if tensDtype == .int32 && isIfm then true else
  let padIn (l : List PadAttr) : Bool := match op.paddingAttr with | some p => l.contains p | none => false
  let away : Bool := op.roundingMode == some .awayZero &&
    ((op.origType == .avgPool && op.type == .conv2DBias && padIn [.explicit, .valid]) ||
     (op.origType == .resizeBilinear && op.type == .depthwiseConv2DBias) ||
     (!isIfm && op.origType == .avgPool && padIn [.explicit] && op.type == .depthwiseConv2DBias))
  if away then true else
  if !(op.type == .avgPool || op.type == .clz || op.type == .shl) && !op.type.isResize then false else
  if op.type == .avgPool && op.explicitScaling.isSome then false else
  let actOk : Bool := match op.activation with
    | none => true
    | some a => op.forcedOutputQuant.isSome || (op.type.isAvgPool && a.faf.isRelu)
  actOk && !op.memFnConcatSliceWrite && !fusedQuantizeOf c.psOps

/-! ## `get_ifm_or_ifm2_quantization`, `get_ofm_quantization` -/

def getIfmQuant (c : StripeD) (tens : TensD) : Option NpuQuant :=
  match (match c.op.forcedInputQuant with | some q => some q | none => tens.quant) with
  | none => none
  | some q => some ⟨q.scale, if useZeroPoint0 c tens.dtype true then 0 else q.zeroPoint⟩

def getOfmQuant (c : StripeD) (tens : TensD) : Option NpuQuant :=
  match (match c.op.forcedOutputQuant with | some q => some q | none => tens.quant) with
  | none => none
  | some q => some ⟨q.scale, if useZeroPoint0 c tens.dtype false then 0 else q.zeroPoint⟩

/-! ## `create_feature_map` -/

/-- a feature map under construction: the C06 record plus the scale of its quantisation -/
structure FmB where
  fm : FM
  scale : Option Fl
deriving Repr, DecidableEq, Inhabited

def s4OfBox (l : List Nat) : Except Err TensorAddr.S4 :=
  match l with
  | [n, h, w, c] => .ok ⟨n, h, w, c⟩
  | _ => .error .rank

/-- `is_ofm and tens.ops[0] is not None and tens.ops[0].original_type == Op.Transpose` -/
def fmTransposed (tens : TensD) (isOfm : Bool) : Except Err Bool :=
  if isOfm then
    match tens.producer with
    | none => .error .index
    | some none => .ok false
    | some (some o) => .ok (o == .transpose)
  else .ok false

def createFm (tens : TensD) (box : BoxD) (arch : ArchD) (opShape : TensorAddr.S4) (offs : List Nat)
    (mult : Option (Nat × Nat × Nat)) (isOfm : Bool) : Except Err FM :=
  match getRegion tens.memType arch with
  | .error e => .error e
  | .ok region =>
    match dtypeMap tens.dtype with
    | .error e => .error e
    | .ok dtype =>
      if tens.t.fmt == .other then .error .assert else
      match fmTransposed tens isOfm with
      | .error e => .error e
      | .ok transposed =>
        match s4OfBox box.start, s4OfBox box.stop with
        | .error e, _ => .error e
        | .ok _, .error e => .error e
        | .ok s, .ok e =>
          match TensorAddr.createFeatureMap tens.t s e opShape offs mult transposed with
          | .error er => .error (ofTA er)
          | .ok r =>
            .ok { dtype := dtype, region := region, shape := ⟨0, 0, 0⟩,
                  height0 := r.tiles.height0, height1 := r.tiles.height1, width0 := r.tiles.width0,
                  addresses := [(r.tiles.a0 : Int), r.tiles.a1, r.tiles.a2, r.tiles.a3],
                  hasQuant := false, zeroPoint := 0, nhcwb16 := tens.t.fmt == .nhcwb16,
                  strides := some ⟨r.strideH, r.strideW, r.strideD⟩, scaled := false }

def withQuant (fm : FM) (q : Option NpuQuant) : FmB :=
  match q with
  | none => ⟨{ fm with hasQuant := false, zeroPoint := 0, scaled := false }, none⟩
  | some q => ⟨{ fm with hasQuant := true, zeroPoint := q.zeroPoint, scaled := q.scale.isSome }, q.scale⟩

/-! ## `create_weights` -/

def toRange (region : Int) (r : WeightLayout.AddrRange) : AddrRange := ⟨region, r.address, r.length⟩

/-- `assert scale_tensor.src_tensor is None`: reached for the first core that has a range -/
def scaleSrcAssert (w : WTensD) (depth : Nat) (sc : Option STensD) (arch : ArchD) : Bool :=
  ((List.range arch.ncores).any fun core => (WeightLayout.findRange w.ranges core depth).isSome) &&
  (match sc with | some s => s.hasSrc | none => false)

def scaleRegionOf (sc : Option STensD) (arch : ArchD) : Except Err Int :=
  match sc with
  | some s => getRegion s.memType arch
  | none => .ok 0

def createWeights (w : WTensD) (depth : Nat) (sc : Option STensD) (arch : ArchD) :
    Except Err (List AddrRange × List AddrRange) :=
  match getRegion w.memType arch with
  | .error e => .error e
  | .ok shared =>
    match scaleRegionOf sc arch with
    | .error e => .error e
    | .ok scaleRegion =>
      if scaleSrcAssert w depth sc arch then .error .assert else
      match WeightLayout.createWeights arch.ncores w.ranges w.address (if w.buffered then some w.address else none)
              (sc.map fun s => (s.address, s.ranges)) depth with
      | none => .error .key
      | some (ws, bs) => .ok (ws.map (toRange shared), bs.map (toRange (if sc.isSome then scaleRegion else shared)))

/-! ## `create_npu_activation` -/

/-- `NpuActivation` before the clamp bounds are quantised -/
structure ActB where
  opType : Nat
  min : Option Fl
  max : Option Fl
  lutIndex : Int
deriving Repr, DecidableEq, Inhabited

/-- `zero_point + int(round_away_zero(np.float32(f) / np.float32(scale)))` -/
def quantiseF32 (fo : FloatOps) (f scale : Fl) (zp : Int) : Except Err Int :=
  match fo.qdiv f scale with
  | some q => .ok (zp + q)
  | none => .error .value

/-- `NpuActivationOp` of a fused activation function (ordinal in `api.NpuActivationOp`); anything that is neither TANH,
    SIGMOID, LUT nor of the RELU family raises `UnsupportedFeatureError` -/
def actOpOf (f : Faf) : Except Err Nat :=
  match f with
  | .tanh => .ok 1
  | .sigmoid => .ok 2
  | .lut => .ok 3
  | f => if f.isRelu then .ok 0 else .error .unsupported

/-- a clamp bound with the zero point of the OFM tensor added beforehand:
    `scale_f32 * quantise_float32(v, scale_f32, zero_point)` -/
def preAddBound (fo : FloatOps) (s : Fl) (zk : Nat) (z : Int) (v : Option Fl) : Except Err (Option Fl) :=
  match v with
  | none => .ok none
  | some x => match quantiseF32 fo x s z with
    | .ok q => .ok (some (fo.mulInt s zk q))
    | .error e => .error e

def createNpuActivation (fo : FloatOps) (op : OpD) (ofmZeroPointIs0 : Bool) : Except Err ActB :=
  match op.activation with
  | none => .ok ⟨0, none, none, 0⟩
  | some a =>
    match actOpOf a.faf with
    | .error e => .error e
    | .ok actOp =>
      if actOp = 0 && ofmZeroPointIs0 then
        match op.ofmQuant with
        | none => .ok ⟨actOp, a.min, a.max, a.lutIndex⟩
        | some q =>
          if q.zeroPoint ≠ 0 then
            match preAddBound fo (q.scale.getD fo.one) q.zpKind q.zeroPoint a.min,
                  preAddBound fo (q.scale.getD fo.one) q.zpKind q.zeroPoint a.max with
            | .ok mn, .ok mx => .ok ⟨actOp, mn, mx, a.lutIndex⟩
            | .error e, _ => .error e
            | _, .error e => .error e
          else .ok ⟨actOp, a.min, a.max, a.lutIndex⟩
      else .ok ⟨actOp, a.min, a.max, a.lutIndex⟩

/-! ## `create_padding`, `modify_tile_addresses_for_padding` -/

/-- Python `l[-2]` -/
def penult {α : Type} (l : List α) : Option α := if l.length ≥ 2 then l[l.length - 2]? else none

def modifyTiles (fm : FM) (dir : Int × Int × Int × Int) (channels : Nat) (isInt16 : Bool) : Except Err FM :=
  let elem : Int := if isInt16 then 2 else 1
  let a0 := fm.addresses.getD 0 0
  let tr : Int := (fm.width0 - 1) * 16 * elem
  let bl : Int := fm.width0 * (fm.height0 - 1) * 16 * ((((channels + 15) / 16 * 16 : Nat) : Int) / 16) * elem
  let br := tr + bl
  if dir = (1, 1, 0, 0) then .ok { fm with addresses := [a0, a0, a0, a0], height0 := 1, height1 := 1, width0 := 1 }
  else if dir = (1, 0, 0, 1) then .ok { fm with addresses := [a0, a0 + tr, a0, a0 + tr], height0 := 1, height1 := 1 }
  else if dir = (0, 1, 1, 0) then .ok { fm with addresses := [a0, a0, a0 + bl, a0 + bl], width0 := 1 }
  else if dir = (0, 0, 1, 1) then .ok { fm with addresses := [a0, a0 + tr, a0 + bl, a0 + br] }
  else .error .assert

/-- `box_start_coord_min`, `box_end_coord_max`: the whole IFM width, or the slice the operator was fused with -/
def padBoxLimits (c : StripeD) : Except Err (Int × Int) :=
  let useWhole := match c.op.readOffset0 with | none => true | some l => l.length < 2
  if useWhole then .ok ((0 : Int), (c.ifmShape0.w : Int))
  else
    match c.op.readOffset0.bind penult, c.op.readShape0 with
    | some o, some shp => match penult shp with
      | some s => .ok (o, s)
      | none => .error .index
    | _, _ => .error .type

/-- top / bottom from the command when the operation is striped in height, left / right dropped when the IFM box does not
    touch the respective edge -/
def padValues (c : StripeD) (p0 : Int × Int × Int × Int) (lim : Int × Int) : Padding :=
  let (top0, left0, bottom0, right0) := p0
  let (top, bottom) := if !(c.isFirstH && c.isLastH) then (c.padTop, c.padBottom) else (top0, bottom0)
  let left := match penult c.ifmBox.start with
    | some x => if (x : Int) > lim.1 then 0 else left0
    | none => left0
  let right := match penult c.ifmBox.stop with
    | some x => if (x : Int) < lim.2 then 0 else right0
    | none => right0
  ⟨top, left, bottom, right⟩

/-- returns the padding and the (possibly re-pointed) IFM -/
def createPadding (c : StripeD) (isDepthwiseOp : Bool) (ifm : FM) : Except Err (Padding × FM) :=
  if c.op.type.blockType == .vectorProduct then .ok (⟨0, 0, 0, 0⟩, ifm) else
  match c.op.explicitPadding with
  | none => .error .key
  | some p0 =>
    match padBoxLimits c with
    | .error e => .error e
    | .ok lim =>
      if c.op.paddingAttr == some .tile then
        if c.ifm.t.fmt ≠ .nhcwb16 then .error .assert
        else if !isDepthwiseOp then .error .assert
        else match modifyTiles ifm p0 c.ifmShape0.c (c.ifm.dtype == .int16) with
          | .error e => .error e
          | .ok fm1 =>
            .ok (⟨0, 0, 0, 0⟩, { fm1 with shape := ⟨fm1.shape.height + p0.1 + p0.2.2.1, fm1.shape.width + p0.2.1 + p0.2.2.2,
                                                      fm1.shape.depth⟩ })
      else .ok (padValues c p0 lim, ifm)

/-! ## `set_common_op_fields` -/

/-- the operation under construction -/
structure Built where
  op : Op
  ifmScale : Option Fl := none
  ifm2Scale : Option Fl := none
  ofmScale : Option Fl := none
  /-- clamp bounds as the builder leaves them (the record holds them quantised) -/
  actMin : Option Fl := none
  actMax : Option Fl := none
  /-- `ifm2_scalar` (the record holds it quantised) -/
  scalar : Option Fl := none
  /-- `rescale`: the (multiplier, shift) lists of an `ExplicitScaling`, or the pair of an elementwise operation -/
  rescale : Option (List Int × List Int) := none
deriving Repr, DecidableEq

/-- fields of a block operation before quantisation of the clamp / scalar -/
structure BlockB where
  kind : Kind
  subOp : Nat := 0
  ifm : FmB
  ifm2 : Option FmB := none
  scalar : Option Fl := none
  ofm : FmB
  kernel : Option Kernel := none
  padding : Option Padding := none
  weights : List AddrRange := []
  biases : List AddrRange := []
  act : ActB
  blockConfig : Shape3
  rounding : Nat
  upscale : Nat
  partKernelFirst : Bool := false
  reversed : Bool := false
  rescaleKind : Nat := 0
  rescale : Option (List Int × List Int) := none
  fusedQuantize : Bool
deriving Repr, DecidableEq

/-- `npu_op.ifm`: feature map of the command's IFM, extent of the IFM box (depth by block type), IFM quantisation -/
def commonIfm (c : StripeD) (arch : ArchD) : Except Err FmB :=
  match createFm c.ifm c.ifmBox arch c.ifmShape0 c.op.tileOffsIfm0 none false with
  | .error e => .error e
  | .ok ifm0 =>
    let blk := blockOf c.ifmBox
    .ok (withQuant { ifm0 with shape := ⟨blk.height, blk.width, getIfmDepth c.op.type.blockType c.ifmBox c.ofmBox⟩ } (getIfmQuant c c.ifm))

/-- `npu_op.ofm` -/
def commonOfm (c : StripeD) (arch : ArchD) : Except Err FmB :=
  match createFm c.ofm c.ofmBox arch c.ofmShape0 c.op.tileOffsOfm c.op.ofmStrideMult true with
  | .error e => .error e
  | .ok ofm0 => .ok (withQuant { ofm0 with shape := blockOf c.ofmBox } (getOfmQuant c c.ofm))

/-- `npu_op.weights, npu_op.biases` -/
def commonWeights (c : StripeD) (arch : ArchD) : Except Err (List AddrRange × List AddrRange) :=
  match c.weight with
  | none => .ok ([], [])
  | some w => match c.weightDepth with
    | none => .error .type
    | some d => createWeights w d c.scale arch

/-- padding, (possibly re-pointed) IFM and kernel: only for non-elementwise operations -/
def commonPadding (c : StripeD) (kind : Kind) (ifm : FmB) : Except Err (Option Padding × FmB × Option Kernel) :=
  if c.op.type.isElementwise then .ok (none, ifm, none)
  else match createPadding c (kind == .depthwise) ifm.fm with
    | .error e => .error e
    | .ok (p, f) => .ok (some p, { ifm with fm := f }, some c.op.kernel)

/-- what `set_common_op_fields` assigns (the kind-specific fields are filled by the callers) -/
def setCommon (fo : FloatOps) (c : StripeD) (arch : ArchD) (kind : Kind) : Except Err BlockB :=
  match commonIfm c arch with
  | .error e => .error e
  | .ok ifmB =>
    match commonOfm c arch with
    | .error e => .error e
    | .ok ofmB =>
      match commonWeights c arch with
      | .error e => .error e
      | .ok (ws, bs) =>
        match createNpuActivation fo c.op (useZeroPoint0 c c.ofm.dtype false) with
        | .error e => .error e
        | .ok act =>
          match commonPadding c kind ifmB with
          | .error e => .error e
          | .ok (padding, ifmFinal, kernel) =>
            if c.op.resampling > 2 then .error .key else
            .ok { kind := kind, ifm := ifmFinal, ofm := ofmB, kernel := kernel, padding := padding,
                  weights := ws, biases := bs, act := act,
                  blockConfig := ⟨c.blockConfig.1, c.blockConfig.2.1, c.blockConfig.2.2.2⟩,
                  rounding := getRoundingMode c.op (fusedQuantizeOf c.psOps), upscale := c.op.resampling,
                  fusedQuantize := fusedQuantizeOf c.psOps }

/-! ## the four block operations -/

def createConv2d (fo : FloatOps) (c : StripeD) (arch : ArchD) : Except Err BlockB :=
  match setCommon fo c arch .conv with
  | .error e => .error e
  | .ok b =>
    if c.op.type.blockType == .vectorProduct then .ok { b with partKernelFirst := false }
    else match c.weight with
      | none => .error .type      -- `None.src_tensor`
      | some w => .ok { b with partKernelFirst := w.partKernelFirst }

def createDepthwise (fo : FloatOps) (c : StripeD) (arch : ArchD) : Except Err BlockB :=
  setCommon fo c arch .depthwise

/-- `pool_op` of `create_npu_pool_op`: ordinal in `api.NpuPoolingOp` (MAX, AVERAGE, REDUCE_SUM) -/
def poolSubOp (t : OpT) : Except Err Nat :=
  if t.isMaxPool then .ok 0
  else if t.isAvgPool || t.isResize then .ok 1
  else if t == .reduceSum then .ok 2
  else .error .assert

def createPool (fo : FloatOps) (c : StripeD) (arch : ArchD) : Except Err BlockB :=
  match poolSubOp c.op.type with
  | .error e => .error e
  | .ok sub =>
    match setCommon fo c arch .pool with
    | .error e => .error e
    | .ok b =>
      match c.op.explicitScaling with
      | some e => .ok { b with subOp := sub, rescaleKind := if e.perChannel then 3 else 2, rescale := some (e.multiplier, e.shift) }
      | none => .ok { b with subOp := sub }

/-- the mutation of `cmd` and `ps.ifm_shapes` in the swap branch -/
def swapOperands (c : StripeD) : Except Err StripeD :=
  match c.ifm2, c.ifm2Box, c.ifmShape1 with
  | some t2, some b2, some s1 =>
    .ok { c with ifm := t2, ifm2 := some c.ifm, ifmBox := b2, ifm2Box := some c.ifmBox, ifmShape0 := s1, ifmShape1 := some c.ifmShape0 }
  | _, _, _ => .error .type

/-- `ifm_shape` / `ifm2_shape` of `create_npu_elementwise_op`: `None` for a scalar tensor -/
def ewIfmShape (c : StripeD) : Option TensorAddr.S4 := if c.ifm.isScalar then none else some c.ifmShape0

def ewIfm2Shape (c : StripeD) (t2 : TensD) : Except Err (Option TensorAddr.S4) :=
  if t2.isScalar then .ok none else
  match c.ifmShape1 with
  | some s => .ok (some s)
  | none => .error .index

/-- the operand order: the command after the (possible) swap and `npu_op.reversed_operands` -/
def ewOrder (c0 : StripeD) : Except Err (StripeD × Bool) :=
  match c0.ifm2 with
  | none => .error .type
  | some t2 =>
    match ewIfm2Shape c0 t2 with
    | .error e => .error e
    | .ok ifm2Shape =>
      if c0.reversedOperands then
        if correctOrder (ewIfmShape c0) ifm2Shape then .ok (c0, true) else .error .assert
      else if correctOrder (ewIfmShape c0) ifm2Shape then .ok (c0, false)
      else match swapOperands c0 with
        | .ok c => .ok (c, true)
        | .error e => .error e

/-- `npu_op.ifm2` (with its quantisation and extent) and `npu_op.ifm2_scalar`, from the command after `ewOrder` -/
def ewIfm2 (c : StripeD) (arch : ArchD) : Except Err (FmB × Option Fl) :=
  match c.ifm2, c.ifm2Box, c.ifmShape1 with
  | some t2, some b2, some s1 =>
    match createFm t2 b2 arch s1 c.op.tileOffsIfm1 none false with
    | .error e => .error e
    | .ok fm2 =>
      let f := withQuant fm2 (getIfmQuant c t2)
      if t2.isScalar then
        match t2.scalar with
        | some v => .ok ({ f with fm := { f.fm with shape := ⟨0, 0, 0⟩ } }, some v)
        | none => .error .assert
      else .ok ({ f with fm := { f.fm with shape := blockOf b2 } }, none)
  | none, _, _ => .error .type
  | some _, none, _ => .error .type
  | some _, some _, none => .error .index

/-- what the "output scale needs to be overridden" part of `create_npu_elementwise_op` changes -/
structure EwUpd where
  rescaleKind : Nat
  rescale : Option (List Int × List Int)
  act : ActB
  ofm : FmB
deriving Repr, DecidableEq

/-- `output_scale`: outer `none` = the explicit-scaling branch (no `output_scale` at all), `some none` = `None` -/
def ewOutputScale (fo : FloatOps) (op : OpD) (b : BlockB) : Except Err (Option (Option Fl)) :=
  let isAMS := op.type == .add || op.type == .mul || op.type == .sub
  match op.explicitScaling with
  | some e =>
    if e.perChannel then .error .assert
    else if !isAMS then .error .assert
    else .ok none
  | none =>
    if op.type == .add && op.origType.isResize then
      match b.ifm2 with
      | some f2 => if f2.fm.hasQuant then .ok (some f2.scale) else .error .type
      | none => .error .type
    else if op.type == .abs then
      if !(b.ifm.fm.hasQuant && b.ofm.fm.hasQuant) then .error .type else
      match b.ifm.scale, b.ofm.scale with
      | some a, some o => match fo.div a o with
        | some r => .ok (some (some r))
        | none => .error .zerodiv
      | _, _ => .error .type
    else if op.type == .leakyRelu then
      match op.alpha with
      | some a => .ok (some (some a))
      | none => .error .key
    else if isAMS then
      match op.activation with
      | some a => if a.faf == .sigmoid || a.faf == .tanh then .ok (some (some fo.inv3000)) else .ok (some none)
      | none => .ok (some none)
    else .ok (some none)

/-- a clamp bound re-expressed in the overriding scale: `output_scale * (quantise_float32(v, ofm scale, zp) - zp)` -/
def rescaleBound (fo : FloatOps) (os s : Fl) (zp : Int) (v : Option Fl) : Except Err (Option Fl) :=
  match v with
  | none => .ok none
  | some x => match quantiseF32 fo x s zp with
    | .ok q => .ok (some (fo.mulInt os 0 (q - zp)))
    | .error e => .error e

def ewFinish (fo : FloatOps) (op : OpD) (b : BlockB) : Except Err EwUpd :=
  match ewOutputScale fo op b with
  | .error e => .error e
  | .ok none =>
    match op.explicitScaling with
    | some e => match e.multiplier, e.shift with
      | m :: _, s :: _ => .ok ⟨1, some ([m], [s]), b.act, b.ofm⟩
      | _, _ => .error .index
    | none => .error .assert      -- unreachable: `ewOutputScale` answers `none` only for explicit scaling
  | .ok (some none) => .ok ⟨b.rescaleKind, b.rescale, b.act, b.ofm⟩          -- `if output_scale is not None`
  | .ok (some (some os)) =>
    if !b.ofm.fm.hasQuant then .error .type else          -- `ofm_quant.scale_f32` of None
    let zp := b.ofm.fm.zeroPoint
    let newOfm : FmB := ⟨{ b.ofm.fm with hasQuant := true, zeroPoint := zp, scaled := true }, some os⟩
    match b.ofm.scale with
    | some s =>
      if b.act.opType = 0 && !fo.eq os s then
        match rescaleBound fo os s zp b.act.min, rescaleBound fo os s zp b.act.max with
        | .ok mn, .ok mx => .ok ⟨b.rescaleKind, b.rescale, { b.act with min := mn, max := mx }, newOfm⟩
        | .error e, _ => .error e
        | _, .error e => .error e
      else .ok ⟨b.rescaleKind, b.rescale, b.act, newOfm⟩
    | none => .ok ⟨b.rescaleKind, b.rescale, b.act, newOfm⟩

def applyUpd (b : BlockB) (u : EwUpd) : BlockB :=
  { b with rescaleKind := u.rescaleKind, rescale := u.rescale, act := u.act, ofm := u.ofm }

def createElementwise (fo : FloatOps) (c0 : StripeD) (arch : ArchD) : Except Err BlockB :=
  match elementwiseOpMap c0.op.type with
  | none => .error .assert
  | some sub =>
    if isUnaryEw sub then
      match setCommon fo c0 arch .elementwise with
      | .error e => .error e
      | .ok b0 =>
        let b := { b0 with subOp := sub }
        match ewFinish fo c0.op b with
        | .error e => .error e
        | .ok u => .ok (applyUpd b u)
    else
      match ewOrder c0 with
      | .error e => .error e
      | .ok (c, rev) =>
        match ewIfm2 c arch with
        | .error e => .error e
        | .ok (f2, sc) =>
          match setCommon fo c arch .elementwise with
          | .error e => .error e
          | .ok b0 =>
            let b := { b0 with subOp := sub, ifm2 := some f2, scalar := sc, reversed := rev }
            match ewFinish fo c0.op b with
            | .error e => .error e
            | .ok u => .ok (applyUpd b u)

/-! ## `create_dma_op` -/

def coordInts (l : List Nat) : List Int := l.map Int.ofNat

def dmaDstRegion (d : DmaD) (arch : ArchD) : Except Err Int :=
  if d.dst.purpose == .lut then .ok regionMem2Mem else getRegion d.dst.memType arch

/-- the non-weight branch: `address_for_coordinate` of the box start in both tensors, size up to the box end rounded to 16 -/
def dmaPlain (d : DmaD) : Except Err (Nat × Nat × Int) :=
  match TensorAddr.addressForCoordinate d.src.t (coordInts d.box.start) none none false with
  | .error e => .error (ofTA e)
  | .ok a =>
    match TensorAddr.addressForCoordinate d.dst.t (coordInts d.box.start) none none false with
    | .error e => .error (ofTA e)
    | .ok b =>
      match TensorAddr.addressForCoordinate d.src.t (coordInts d.box.stop) none none true with
      | .error e => .error (ofTA e)
      | .ok e => .ok (a, b, (((e : Int) - (a : Int)) + 15) / 16 * 16)

def createDmaOp (d : DmaD) (arch : ArchD) : Except Err (AddrRange × AddrRange) :=
  match getRegion d.src.memType arch with
  | .error e => .error e
  | .ok srcRegion =>
    match dmaDstRegion d arch with
    | .error e => .error e
    | .ok dstRegion =>
      if d.src.purpose == .weights then
        match d.box.start.getLast? with
        | none => .error .index
        | some depth =>
          match WeightLayout.createDmaOp arch.ncores d.src.ranges d.src.address d.dst.address depth with
          | none => .error .unbound
          | some (s, t) => .ok (⟨srcRegion, s.address, s.length⟩, ⟨dstRegion, t.address, t.length⟩)
      else
        match dmaPlain d with
        | .error e => .error e
        | .ok (a, b, sz) => .ok (⟨srcRegion, a, sz⟩, ⟨dstRegion, b, sz⟩)

/-! ## `convert_command_to_npu_op` -/

inductive Cmd where
  | stripe (c : StripeD)
  | dma (d : DmaD)
deriving Repr, DecidableEq

/-- `register_command_stream_util.quantise(value, quant)` -/
def quantise (fo : FloatOps) (v : Fl) (hasQuant : Bool) (scale : Option Fl) (zp : Int) : Except Err Int :=
  quantiseF32 fo v (if hasQuant then scale.getD fo.one else fo.one) (if hasQuant then zp else 0)

def quantiseOpt (fo : FloatOps) (v : Option Fl) (hasQuant : Bool) (scale : Option Fl) (zp : Int) : Except Err (Option Int) :=
  match v with
  | none => .ok none
  | some x => match quantise fo x hasQuant scale zp with
    | .ok q => .ok (some q)
    | .error e => .error e

def quantiseScalar (fo : FloatOps) (b : BlockB) : Except Err (Option Int) :=
  match b.scalar, b.ifm2 with
  | some v, some f2 => quantiseOpt fo (some v) f2.fm.hasQuant f2.scale f2.fm.zeroPoint
  | some _, none => .error .type
  | none, _ => .ok none

/-- the C06 record of a built block operation: clamp bounds and scalar quantised the way the register generator does -/
def toRecord (fo : FloatOps) (b : BlockB) (o : Oracle) : Except Err Built :=
  match quantiseOpt fo b.act.min b.ofm.fm.hasQuant b.ofm.scale b.ofm.fm.zeroPoint with
  | .error e => .error e
  | .ok qmin =>
    match quantiseOpt fo b.act.max b.ofm.fm.hasQuant b.ofm.scale b.ofm.fm.zeroPoint with
    | .error e => .error e
    | .ok qmax =>
      match quantiseScalar fo b with
      | .error e => .error e
      | .ok qs =>
        .ok { op := .block { kind := b.kind, subOp := b.subOp, ifm := b.ifm.fm, ifm2 := b.ifm2.map (·.fm), ifm2Scalar := qs,
                             ofm := b.ofm.fm, kernel := b.kernel, padding := b.padding, weights := b.weights, biases := b.biases,
                             activation := some ⟨b.act.opType, qmin, qmax, b.act.lutIndex⟩, blockConfig := b.blockConfig,
                             rounding := b.rounding, upscale := b.upscale, partKernelFirst := b.partKernelFirst,
                             reversedOperands := b.reversed, rescaleKind := b.rescaleKind, fusedQuantize := b.fusedQuantize,
                             oracle := o },
              ifmScale := b.ifm.scale, ifm2Scale := b.ifm2.bind (·.scale), ofmScale := b.ofm.scale,
              actMin := b.act.min, actMax := b.act.max, scalar := b.scalar, rescale := b.rescale }

def buildBlock (fo : FloatOps) (c : StripeD) (arch : ArchD) : Except Err BlockB :=
  match c.op.type.blockType with
  | .convMxN | .vectorProduct => createConv2d fo c arch
  | .convDepthWise => createDepthwise fo c arch
  | .pooling | .reduceSum => createPool fo c arch
  | .elementWise => createElementwise fo c arch
  | _ => .error .assert

def convert (fo : FloatOps) (cmd : Cmd) (arch : ArchD) (o : Oracle) : Except Err Built :=
  match cmd with
  | .dma d =>
    match createDmaOp d arch with
    | .error e => .error e
    | .ok (s, t) => .ok { op := .dma { src := s, dst := t, channel := 0, mode := 0, kernelWait := o.kernelWait, dmaWait := o.dmaWait } }
  | .stripe c =>
    match buildBlock fo c arch with
    | .error e => .error e
    | .ok b => toRecord fo b o

end VelaVerif.NpuOpBuild
