/-!
# Model of `ethosu/vela/scaling.py` (+ `numeric_util.round_away_zero`)  (property C09)

Hand transcription.  A floating-point value travels as exact integers (`Dbl`): a finite non-zero
value is `(-1)^neg · m · 2^e` with `0 < m < 2^53` (every float32 and every double, normal or
subnormal, has such a form; `frexpNorm` brings it to `2^52 ≤ m < 2^53`, which is what
`math.frexp` does).  Integers are Python ints (`Int`).

The only operations of `scaling.py` that *round* are the float multiplications / divisions of the
elementwise helpers.  They enter the model through an oracle (`Arith`), which the protocol
handler instantiates with IEEE `Float` / `Float32`; every theorem about the elementwise helpers
holds for an arbitrary oracle.  Comparisons, `max`, `min`, `frexp`, the scaling by `1 << 31`,
the `+ 0.5`, `np.trunc` and `int()` are modelled exactly.

The model rejects what the code rejects (`Err`), it never defaults.
-/
namespace VelaVerif.Scaling

inductive Err where
  | overflow    -- OverflowError: int(inf)
  | value       -- ValueError: int(nan) / negative shift count
  | zerodiv     -- ZeroDivisionError
  | assert      -- AssertionError
  | unmodelled  -- input outside what the model transcribes (not a 53-bit significand, |n| ≥ 2^53)
deriving Repr, DecidableEq

instance {α : Type} [DecidableEq α] : DecidableEq (Except Err α)
  | .ok a, .ok b => if h : a = b then isTrue (by rw [h]) else isFalse (fun h' => h (by cases h'; rfl))
  | .error a, .error b => if h : a = b then isTrue (by rw [h]) else isFalse (fun h' => h (by cases h'; rfl))
  | .ok _, .error _ => isFalse (fun h => by cases h)
  | .error _, .ok _ => isFalse (fun h => by cases h)

/-- An IEEE-754 value as exact integers. -/
inductive Dbl where
  | zero (neg : Bool)
  | fin (neg : Bool) (m : Nat) (e : Int)     -- (-1)^neg · m · 2^e, 0 < m < 2^53
  | inf (neg : Bool)
  | nan
deriving Repr, DecidableEq

/-! ### `math.frexp` -/

/-- number of left shifts that bring `0 < m < 2^53` to `2^52 ≤ m' < 2^53` -/
def normShift (m : Nat) : Nat := 52 - Nat.log2 m

/-- `math.frexp(x)` for `x = m·2^e`: significand `m'/2^53 ∈ [0.5, 1)`, exponent `e' + 53` -/
def frexpNorm (m : Nat) (e : Int) : Nat × Int := (m * 2 ^ normShift m, e - (normShift m : Nat))

/-! ### `round_away_zero(significand * (1 << 31))` -/

/-- IEEE round-to-nearest-even of the exact value `n · 2^-22`, `n < 2^54`, to a double;
    the result is again in units of `2^-22`.  (Below `2^53` units the value is representable.) -/
def rne53 (n : Nat) : Nat :=
  if n < 2 ^ 53 then n
  else
    let q := n / 2
    if n % 2 = 1 ∧ q % 2 = 1 then 2 * (q + 1) else 2 * q

/-- `int(np.trunc(significand * (1 << 31) + 0.5))` for significand `m / 2^53`:
    the product is `m · 2^-22` exactly, `0.5` is `2^21` units, the sum is rounded by the FPU. -/
def sigQ31 (m : Nat) : Nat := rne53 (m + 2 ^ 21) / 2 ^ 22

/-- `quantise_scale` on a positive value already in `frexp` form (`2^52 ≤ m < 2^53`). -/
def quantiseNorm (m : Nat) (e : Int) : Int × Int :=
  let exponent := e + 53
  let exponentQ31 := exponent - 31
  let shift := exponentQ31 * -1
  if 0 ≤ shift ∧ shift < 64 then ((sigQ31 m : Nat), shift) else (0, 16)

/-- `quantise_scale(scale)` -/
def quantiseScale : Dbl → Except Err (Int × Int)
  | .nan => .error .value
  | .inf _ => .error .overflow
  | .zero _ => .ok (0, 31)               -- frexp(0) = (0.0, 0): shift = 31 passes the guard
  | .fin neg m e =>
    if m = 0 ∨ m ≥ 2 ^ 53 then .error .unmodelled else
    let p := frexpNorm m e
    let r := quantiseNorm p.1 p.2
    .ok (if neg then -r.1 else r.1, r.2)

/-- `reduced_quantise_scale(scale)` — note that the guard tests `shift`, not `reduced_shift` -/
def reducedQuantiseScale (x : Dbl) : Except Err (Int × Int) :=
  match quantiseScale x with
  | .error e => .error e
  | .ok (multiplier, shift) =>
    let reduced : Int := if multiplier < 32767 <<< 16 then (multiplier + 2 ^ 15) >>> 16 else 32767
    let reducedShift := shift - 16
    if ¬ (0 ≤ shift ∧ shift < 64) then .ok (0, 16) else .ok (reduced, reducedShift)

/-! ### `quantise_pooling_scale` -/

/-- second component of `math.frexp(x)` for an integer `|x| < 2^53` -/
def bitLength (x : Nat) : Nat := if x = 0 then 0 else Nat.log2 x + 1

/-- `quantise_pooling_scale(nr_kernel_elements, rescale_bits)` -/
def quantisePoolingScale (n : Int) (rescaleBits : Int) : Except Err (Int × Int) :=
  let x := (n - 1).natAbs
  if x ≥ 2 ^ 53 then .error .unmodelled else
  let k : Int := (bitLength x : Nat)
  let N : Int := 31 - rescaleBits
  if N + k < 0 then .error .value else          -- 1 << negative
  if n = 0 then .error .zerodiv else
  let scale := Int.fdiv (2 ^ (N + k).toNat + 2 ^ k.toNat) n
  let shift := N + k
  if ¬ shift < 64 then .error .assert else .ok (scale, shift)

/-! ### hardware application of a (scale, shift) pair and the value it denotes -/

/-- the NPU's output scaling: multiply, add half, arithmetic shift right (assumption named in the
    trusted base: rounding mode "natural" `(x + 2^(sh-1)) >> sh`) -/
def hwScale (a scale : Int) (shift : Nat) : Int :=
  if shift = 0 then a * scale else (a * scale + 2 ^ (shift - 1)) >>> shift

/-! ### elementwise helpers: float arithmetic through an oracle -/

/-- how the scalar arrived: Python `float`, `np.float32`, `np.float64` -/
inductive FKind where
  | py | f32 | f64
deriving Repr, DecidableEq

/-- NumPy ≥ 2 (NEP 50) result type of a binary operation; Python scalars are weak -/
def promote : FKind → FKind → FKind
  | .f64, _ => .f64
  | _, .f64 => .f64
  | .f32, _ => .f32
  | _, .f32 => .f32
  | .py, .py => .py

structure FVal where
  kind : FKind
  val : Dbl
deriving Repr, DecidableEq

/-- rounding multiplication / division in the precision of the result kind, and the conversion of
    a value to a kind (only `py → f32` can round: NumPy ≥ 2 treats a Python float as a weak scalar
    and converts it to float32 before operating with / comparing against an `np.float32`) -/
structure Arith where
  mul : FKind → Dbl → Dbl → Dbl
  div : FKind → Dbl → Dbl → Dbl
  cast : FKind → Dbl → Dbl

def Dbl.isZero : Dbl → Bool
  | .zero _ => true
  | _ => false

/-- exact `m1·2^e1 < m2·2^e2` -/
def magLt (m1 : Nat) (e1 : Int) (m2 : Nat) (e2 : Int) : Bool :=
  let emin := min e1 e2
  m1 * 2 ^ (e1 - emin).toNat < m2 * 2 ^ (e2 - emin).toNat

/-- IEEE `<` (exact; false when either side is NaN; `-0.0 < 0.0` is false) -/
def Dbl.lt : Dbl → Dbl → Bool
  | .nan, _ => false
  | _, .nan => false
  | .inf n1, .inf n2 => n1 && !n2
  | .inf n1, _ => n1
  | _, .inf n2 => !n2
  | .zero _, .zero _ => false
  | .zero _, .fin n2 _ _ => !n2
  | .fin n1 _ _, .zero _ => n1
  | .fin n1 m1 e1, .fin n2 m2 e2 =>
    match n1, n2 with
    | true, false => true
    | false, true => false
    | false, false => magLt m1 e1 m2 e2
    | true, true => magLt m2 e2 m1 e1

/-- `a < b` as Python / NumPy evaluate it: in the promoted kind (exact, except that a Python float
    facing an `np.float32` is first rounded to float32) -/
def cmpLt (A : Arith) (a b : FVal) : Bool :=
  let k := promote a.kind b.kind
  Dbl.lt (A.cast k a.val) (A.cast k b.val)

/-- Python `max(a, b)`: `b` only when `b > a` -/
def pyMax (A : Arith) (a b : FVal) : FVal := if cmpLt A a b then b else a
/-- Python `min(a, b)`: `b` only when `b < a` -/
def pyMin (A : Arith) (a b : FVal) : FVal := if cmpLt A b a then b else a

def fmul (A : Arith) (a b : FVal) : FVal :=
  let k := promote a.kind b.kind
  ⟨k, A.mul k a.val b.val⟩

/-- `x * c` / `c * x` for a Python int `c` (weak scalar: the kind of `x` is kept) -/
def fmulInt (A : Arith) (a : FVal) (c : Nat) : FVal :=
  ⟨a.kind, A.mul a.kind a.val (.fin false c 0)⟩

/-- `a / b`; Python floats raise on a zero divisor, NumPy scalars give inf/nan -/
def fdiv (A : Arith) (a b : FVal) : Except Err FVal :=
  let k := promote a.kind b.kind
  if k = .py ∧ b.val.isZero then .error .zerodiv else .ok ⟨k, A.div k a.val b.val⟩

/-- `elementwise_mul_scale(input_scale, input2_scale, output_scale)` -/
def elementwiseMulScale (A : Arith) (s1 s2 so : FVal) : Except Err (Int × Int) :=
  match fdiv A (fmul A s1 s2) so with
  | .error e => .error e
  | .ok r => quantiseScale r.val

structure SimplifiedResult where
  input1Rescale : FVal
  input2Rescale : FVal
  outScale : Int
  outShift : Int
deriving Repr, DecidableEq

/-- `simplified_elementwise_add_sub_scale(input1_scale, input2_scale, output_scale, input_shift)` -/
def simplifiedAddSub (A : Arith) (s1 s2 so : FVal) (inputShift : Nat) : Except Err SimplifiedResult :=
  let mx := pyMax A s1 s2
  let twoMx := fmulInt A mx 2
  match fdiv A (fmulInt A s1 (2 ^ inputShift)) twoMx with
  | .error e => .error e
  | .ok in1 =>
  match fdiv A (fmulInt A s2 (2 ^ inputShift)) twoMx with
  | .error e => .error e
  | .ok in2 =>
  match fdiv A twoMx (fmulInt A so (2 ^ inputShift)) with
  | .error e => .error e
  | .ok outRescale =>
  match quantiseScale outRescale.val with
  | .error e => .error e
  | .ok (q, s) => .ok ⟨in1, in2, q, s⟩

inductive OperandToScale where
  | opa | opb
deriving Repr, DecidableEq

structure AdvancedResult where
  inScale : Int
  inShift : Int
  outScale : Int
  outShift : Int
  opToScale : OperandToScale
deriving Repr, DecidableEq

/-- `advanced_elementwise_add_sub_scale(input1_scale, input2_scale, output_scale, bitdepth)` -/
def advancedAddSub (A : Arith) (s1 s2 so : FVal) (bitdepth : Int) : Except Err AdvancedResult :=
  let mx := pyMax A s1 s2
  let mn := pyMin A s1 s2
  let inputShift := if bitdepth = 8 then 20 else 15
  let op := if cmpLt A s1 s2 then OperandToScale.opa else OperandToScale.opb
  match simplifiedAddSub A mn mx so inputShift with
  | .error e => .error e
  | .ok r =>
  match quantiseScale r.input1Rescale.val with
  | .error e => .error e
  | .ok (iq, ish) => .ok ⟨iq, ish, r.outScale, r.outShift, op⟩

/-! ### call sites in `register_command_stream_generator.py` (what reaches the registers) -/

def Dbl.isNan : Dbl → Bool
  | .nan => true
  | _ => false

/-- `a == b` as Python / NumPy evaluate it (in the promoted kind) -/
def cmpEq (A : Arith) (a b : FVal) : Bool :=
  let k := promote a.kind b.kind
  let x := A.cast k a.val
  let y := A.cast k b.val
  !x.isNan && !y.isNan && !Dbl.lt x y && !Dbl.lt y x

/-- `int(x)`: truncation toward zero -/
def Dbl.truncInt : Dbl → Except Err Int
  | .nan => .error .value
  | .inf _ => .error .overflow
  | .zero _ => .ok 0
  | .fin neg m e =>
    let mag : Nat := if e ≥ 0 then m * 2 ^ e.toNat else m / 2 ^ (-e).toNat
    .ok (if neg then -(mag : Int) else mag)

/-- `int(x // 2)` for a finite float (`x / 2` and its floor are exactly representable) -/
def Dbl.floorDiv2Int : Dbl → Except Err Int
  | .nan => .error .value
  | .inf _ => .error .value        -- inf // 2 is nan
  | .zero _ => .ok 0
  | .fin neg m e =>
    -- floor(± m · 2^(e-1))
    let e' := e - 1
    if e' ≥ 0 then .ok ((if neg then -1 else 1) * ((m * 2 ^ e'.toNat : Nat) : Int))
    else
      let d : Nat := 2 ^ (-e').toNat
      if neg then .ok (-(((m + d - 1) / d : Nat) : Int)) else .ok ((m / d : Nat) : Int)

/-- `cmd1_with_offset(cmd, offset, param)`: `int(offset) & 0xFFFFFFFF`, `int(param) & 0xFFFF`
    (Python `&` on a negative int is the two's-complement residue) -/
def regOffset (x : Int) : Int := x % 2 ^ 32
def regParam (x : Int) : Int := x % 2 ^ 16

/-- registers written by `generate_scaling_for_elementwise` for ADD / SUB / MUL -/
structure EwRegs where
  opa : Option (Int × Int)      -- NPU_SET_OPA_SCALE (offset, param); not written for MUL
  opb : Option Int              -- NPU_SET_OPB_SCALE offset
  ofmScale : Int                -- NPU_SET_OFM_SCALE offset
  ofmShift : Int                -- NPU_SET_OFM_SCALE param
  opToScale : Nat               -- return value (0, OPa = 1, OPb = 2)
deriving Repr, DecidableEq

/-- `output_scale = 1 / 0x3000` (fused sigmoid / tanh) -/
def oneOver0x3000 : FVal := ⟨.py, .fin false 6004799503160661 (-66)⟩

/-- `generate_scaling_for_elementwise` for MUL (no explicit rescale, all scales present) -/
def ewRegistersMul (A : Arith) (s1 s2 so : FVal) : Except Err EwRegs :=
  match elementwiseMulScale A s1 s2 so with
  | .error e => .error e
  | .ok (q, s) => .ok ⟨none, none, regOffset q, regParam s, 0⟩

/-- `generate_scaling_for_elementwise` for ADD / SUB (no explicit rescale, all scales present) -/
def ewRegistersAddSub (A : Arith) (bitdepth : Int) (s1 s2 so : FVal) (reversed : Bool) :
    Except Err EwRegs :=
  let advanced : Except Err EwRegs :=
    match advancedAddSub A s1 s2 so bitdepth with
    | .error e => .error e
    | .ok r =>
      let op : Nat := if r.opToScale = .opa then 1 else 2
      let op := if reversed then (if op = 1 then 2 else 1) else op
      .ok ⟨some (regOffset r.inScale, regParam r.inShift), some 0, regOffset r.outScale, regParam r.outShift, op⟩
  if cmpEq A s1 s2 ∧ bitdepth = 16 then
    match simplifiedAddSub A s1 s2 so 16 with
    | .error e => .error e
    | .ok r =>
      match r.input1Rescale.val.floorDiv2Int, r.input2Rescale.val.floorDiv2Int with
      | .ok a, .ok b => .ok ⟨some (regOffset a, 0), some (regOffset b), regOffset r.outScale, regParam (r.outShift - 1), 0⟩
      | .error e, _ => .error e
      | _, .error e => .error e
  else if cmpEq A s1 s2 then
    match simplifiedAddSub A s1 s2 so 16 with
    | .error e => .error e
    | .ok r =>
      if r.outScale % 4096 ≠ 0 then advanced       -- int(ofm_scale) & 0xFFF != 0
      else
        match r.input1Rescale.val.truncInt, r.input2Rescale.val.truncInt with
        | .ok a, .ok b => .ok ⟨some (regOffset a, 0), some (regOffset b), regOffset r.outScale, regParam r.outShift, 0⟩
        | .error e, _ => .error e
        | _, .error e => .error e
  else advanced

/-- `generate_ofm_scaling_for_pooling`, last branch (plain average pool, no fused activation /
    quantize / explicit rescale), for **equal** IFM and OFM scales (`rescale = 1.0` in kind `k`):
    `scale = int(round_away_zero(scale * rescale))` converts the Python int to kind `k` first. -/
def poolRegistersEqualScales (A : Arith) (k : FKind) (n : Int) : Except Err (Int × Int) :=
  match quantisePoolingScale n 0 with
  | .error e => .error e
  | .ok (S, sh) =>
    if S < 0 ∨ S ≥ 2 ^ 53 then .error .unmodelled else
    match (A.mul k (A.cast k (.fin false S.toNat 0)) (.fin false 1 0)).truncInt with
    | .error e => .error e
    | .ok S' => .ok (regOffset S', regParam sh)

/-- round-to-nearest-even of a natural number to `bits` significant bits (what the conversion of a
    Python int to float32 does for `bits = 24`) -/
def rneNat (bits : Nat) (n : Nat) : Nat :=
  let len := bitLength n
  if len ≤ bits then n else
  let sh := len - bits
  let q := n / 2 ^ sh
  let r := n % 2 ^ sh
  let half := 2 ^ (sh - 1)
  if r > half ∨ (r = half ∧ q % 2 = 1) then (q + 1) * 2 ^ sh else q * 2 ^ sh

end VelaVerif.Scaling
