import VelaVerif.Model.Scaling
/-!
# Model of `QuantizationParameters.is_scaling_equal` / `check_quantized_tens_scaling_equal`
(`ethosu/vela/tensor.py`; property C09)

The predicate decides whether a requantising multiplier has to be derived at all
(`fixup_relus_with_differing_ifm_ofm_scaling`, LeakyRelu, MEAN → memcpy, PAD, the matching-quantisation
constraints, …): when it answers "equal" no `(multiplier, shift)` pair for `s_in / s_out` is emitted.

Hand transcription.  `scale_f32` / `zero_point` are `None`, a scalar (Python `float`/`int`, `np.float32`,
`np.float64`, `np.int64`, …) or, for per-axis quantisation, an array.  The code first applies
`np.asarray` to both sides: a scalar becomes a 0-d **array** of its own dtype, so the comparison `a == b`
is an array/array comparison whose common type is found from the two *dtypes* (a 0-d array is not a weak
scalar under NEP 50): float32 against float64 is compared in float64, an integer against a float in
float64 — both exact for every float32/float64 value and every integer below 2^53.  The scalar kind
therefore does not enter the model; each element travels as the exact value it denotes (`Scaling.Dbl`),
and the comparison is IEEE `==` on exact values (`NaN` equals nothing, `-0.0 == 0.0`).
-/
namespace VelaVerif.ScalingEqual
open VelaVerif.Scaling

/-- exact `m1·2^e1 = m2·2^e2` -/
def magEq (m1 : Nat) (e1 : Int) (m2 : Nat) (e2 : Int) : Bool :=
  let emin := min e1 e2
  m1 * 2 ^ (e1 - emin).toNat == m2 * 2 ^ (e2 - emin).toNat

/-- IEEE `==` on exact values -/
def dblEq : Dbl → Dbl → Bool
  | .nan, _ => false
  | _, .nan => false
  | .inf n1, .inf n2 => n1 == n2
  | .zero _, .zero _ => true
  | .fin n1 m1 e1, .fin n2 m2 e2 => n1 == n2 && magEq m1 e1 m2 e2
  | _, _ => false

/-- `np.asarray(x)` of a numeric attribute: its shape (`[]` for a scalar) and its elements in C order -/
structure NArr where
  shape : List Nat
  vals : List Dbl
deriving Repr, DecidableEq

/-- `ndarray.size` -/
def NArr.size (a : NArr) : Nat := a.shape.foldl (· * ·) 1

/-- the array really has `size` elements (what `np.asarray` guarantees) -/
def NArr.WF (a : NArr) : Prop := a.vals.length = a.size

instance (a : NArr) : Decidable a.WF := by unfold NArr.WF; infer_instance

/-- value of the attribute `scale_f32` / `zero_point` -/
inductive QVal where
  | none                -- Python `None`: `np.asarray(None)` is a 0-d object array
  | arr (a : NArr)
deriving Repr, DecidableEq

def QVal.WF : QVal → Prop
  | .none => True
  | .arr a => a.WF

instance (v : QVal) : Decidable v.WF := by cases v <;> unfold QVal.WF <;> infer_instance

/-- `np.all(a == b)` for two arrays of the same shape -/
def allEq : List Dbl → List Dbl → Bool
  | [], [] => true
  | x :: xs, y :: ys => dblEq x y && allEq xs ys
  | _, _ => false

/-- the nested function `equal(a, b)`:
    ```
    a, b = np.asarray(a), np.asarray(b)
    if a.size == 1 and b.size == 1:
        return bool(a.reshape(()) == b.reshape(()))
    return a.shape == b.shape and bool(np.all(a == b))
    ```
    `None == None` is `True`, `None == <number>` is `False` (object comparison); an object array has
    shape `()`, so against an array of another size the shapes differ. -/
def equalVal : QVal → QVal → Bool
  | .none, .none => true
  | .none, .arr _ => false
  | .arr _, .none => false
  | .arr a, .arr b =>
    if a.size = 1 ∧ b.size = 1 then
      match a.vals, b.vals with
      | [x], [y] => dblEq x y
      | _, _ => false                      -- not well-formed
    else a.shape == b.shape && allEq a.vals b.vals

/-- the two attributes of `QuantizationParameters` the predicate reads -/
structure Quant where
  scale : QVal
  zeroPoint : QVal
deriving Repr, DecidableEq

def Quant.WF (q : Quant) : Prop := q.scale.WF ∧ q.zeroPoint.WF

instance (q : Quant) : Decidable q.WF := by unfold Quant.WF; infer_instance

/-- `QuantizationParameters.is_scaling_equal(self, other)`; `other = none` stands for `None` and for
    any object that is not a `QuantizationParameters` -/
def isScalingEqual (self : Quant) : Option Quant → Bool
  | .none => false
  | .some other => equalVal self.scale other.scale && equalVal self.zeroPoint other.zeroPoint

/-- `QuantizationParameters.is_valid` -/
def Quant.isValid (q : Quant) : Bool :=
  (match q.scale with | .none => false | _ => true) && (match q.zeroPoint with | .none => false | _ => true)

/-- what `Tensor.is_quantized` reads: `(dtype.type & BaseType.Int) != 0` and the quantisation -/
structure Tens where
  isInt : Bool
  quant : Option Quant
deriving Repr, DecidableEq

/-- `(self.dtype.type & BaseType.Int) != 0` as Python evaluates it: `BaseType` is an `enum.Flag`, not an
    `IntFlag`; a `Flag` value — also the empty `BaseType(0)` that the `&` yields for a float or bool type —
    never compares equal to the `int` 0, so the test holds for **every** data type (found by the correspondence
    run: a float32 tensor that carries a scale and a zero point "is quantized"; observation recorded in
    design.d/C09.md, outside C09's statement). -/
def intTypeTest (_isInt : Bool) : Bool := true

/-- `Tensor.is_quantized` -/
def Tens.isQuantized (t : Tens) : Bool :=
  match t.quant with
  | .none => false
  | .some q => intTypeTest t.isInt && q.isValid

/-- `check_quantized_tens_scaling_equal(tens_a, tens_b)` -/
def checkQuantizedTensScalingEqual (a b : Tens) : Bool :=
  a.isQuantized && b.isQuantized &&
    (match a.quant with
     | .some qa => isScalingEqual qa b.quant
     | .none => false)

end VelaVerif.ScalingEqual
