import VelaVerif.Gen.Shram
/-!
# Model of `ethosu/vela/architecture_allocator.py` and of the two callers that derive its arguments
(`api.npu_find_block_configs`, `register_command_stream_generator.get_arch_block_config`) — property C15

Hand transcription.  Conventions:

* `Blk` is `architecture_features.Block` = ⟨width, height, depth⟩; an IFM/OFM *block* `Shape4D(1,h,w,d)` is
  carried as a `Blk` as well.  `Shape` is `Shape4D` (batch, height, width, depth).
* sizes are `Nat` (the model's domain is non-negative sizes, kernels of at least 1×1; anything else is
  answered `Err.domain`, never defaulted), SHRAM bank positions are `Int` exactly as Python computes them
  (`lut_start - acc_banks` may be negative and then the layout is rejected).
* `(ifm_block.depth * ifm_bits) / 8` is a float in Python; the function asserts `ifm_bits % 8 == 0`, so the
  quotient is an exact integer and so are `ifm_bytes`, `ifm_banks` (they are integer-valued floats in the
  layout the real code returns; the harness compares them after checking that they are integral).
* the WHC search compares float costs.  `findBlockConfig` is generic in the cost arithmetic (`CostOps`):
  the theorems hold for *every* arithmetic; the driver instantiates it with IEEE doubles (`Float`), in
  exactly Python's evaluation order, and with exact rationals.
* `arch` is a row of the regenerated table `Gen.Shram.rows`.
-/
namespace VelaVerif.Shram
open VelaVerif.Gen VelaVerif.Gen.Shram

inductive Err where
  | assert    -- AssertionError
  | key       -- KeyError: ifm_bits not in {8,16,32}
  | domain    -- outside the model's domain (zero-sized kernel/shape where Python would divide by zero or go negative)
  | fuel      -- the depth loop did not terminate within its fuel (impossible when ofm_ublock.depth > 0)
deriving Repr, DecidableEq

/-- `NpuBlockType` (without `Dma`) -/
inductive BlockType where
  | default | convMxN | vectorProduct | pooling | depthwise | elementwise | reduceSum
deriving Repr, DecidableEq

/-- `ElementwiseUsage` -/
inductive EwUsage where
  | no | full | scalar
deriving Repr, DecidableEq

/-- the members of `SHRAMElements` used as accumulator types -/
inductive AccType where
  | acc16 | acc32 | acc40
deriving Repr, DecidableEq

/-- `resampling_mode` -/
inductive Resampling where
  | none | nearest | transpose
deriving Repr, DecidableEq

/-- `operation.Kernel` -/
structure Kernel where
  width : Nat
  height : Nat
  strideX : Nat
  strideY : Nat
  dilX : Nat
  dilY : Nat
deriving Repr, DecidableEq

/-- `Shape4D` -/
structure Shape where
  batch : Nat
  height : Nat
  width : Nat
  depth : Nat
deriving Repr, DecidableEq

def Shape.elements (s : Shape) : Nat := s.batch * s.width * s.height * s.depth
def Shape.elementsWh (s : Shape) : Nat := s.width * s.height
def blkElements (b : Blk) : Nat := b.width * b.height * b.depth
def blkElementsWh (b : Blk) : Nat := b.width * b.height

/-- `SHRAMLayout` -/
structure Layout where
  ibStart : Int
  ibEnd : Int
  ibStart2 : Int
  abStart : Int
  lutStart : Int
deriving Repr, DecidableEq

/-- `ArchitectureBlockConfig` -/
structure Config where
  layout : Layout
  ifmBlock : Blk
  ofmBlock : Blk
  accType : AccType
  isPartKernel : Bool
  bankSize : Nat
deriving Repr, DecidableEq

/-- `numeric_util.round_up` (callers guarantee `b > 0`) -/
def roundUp (a b : Nat) : Nat := (a + b - 1) / b * b
/-- `numeric_util.round_up_divide` -/
def roundUpDivide (a b : Nat) : Nat := (a + b - 1) / b

/-- `ifm_bytes` of `_try_block_config` -/
def ifmBytes (ifmBlock : Blk) (ifmBits : Nat) : Nat :=
  blkElementsWh ifmBlock * roundUp (ifmBlock.depth * ifmBits / 8) 8

/-- `acc_bytes` of `_try_block_config` -/
def accBytes (ofmBlock : Blk) (accBits : Nat) : Nat :=
  blkElementsWh ofmBlock * roundUp ofmBlock.depth 8 * accBits / 8

/-- `round_up(round_up_divide(bytes, bank_size) * 2, granule)` -/
def bankNeed (bytes bankSize granule : Nat) : Nat :=
  roundUp (roundUpDivide bytes bankSize * 2) granule

/-- `_try_block_config(shram, ew_usage, ofm_block, ifm_block, ifm_bits, ifm_granule, acc_bits, acc_granule,
    lut_banks)`; `shram = (reserved, bankSize, total, _)`. -/
def tryCore (reserved bankSize total : Nat) (ew : EwUsage) (ofmBlock ifmBlock : Blk)
    (ifmBits ifmGranule accBits accGranule : Nat) (lutBanks : Int) : Except Err (Option Layout) :=
  if ¬ (accBits > 0 ∧ accGranule > 0) then .error .assert
  else if ¬ (ifmBits ≥ 8 ∧ ifmBits % 8 = 0 ∧ ifmGranule > 0) then .error .assert
  else if bankSize = 0 then .error .domain
  else
    let ifmBanks := bankNeed (ifmBytes ifmBlock ifmBits) bankSize ifmGranule
    let lutStart : Int := (total : Int) - lutBanks
    let ifmEnd : Int := (reserved : Int) + ifmBanks
    let ifm2Start : Int := ifmEnd
    match ew with
    | .no =>
      let accBanks := bankNeed (accBytes ofmBlock accBits) bankSize accGranule
      let accStart : Int := lutStart - accBanks
      if ifmEnd > accStart then .ok none
      else .ok (some ⟨reserved, ifmEnd, ifm2Start, accStart, lutStart⟩)
    | .full =>
      let accStart : Int := lutStart
      if ifm2Start + ifmBanks > accStart then .ok none
      else .ok (some ⟨reserved, accStart, ifm2Start, accStart, lutStart⟩)
    | .scalar =>
      let accStart : Int := lutStart
      if ifm2Start + 0 > accStart then .ok none
      else .ok (some ⟨reserved, accStart, ifm2Start, accStart, lutStart⟩)

/-! ## kernel and block geometry -/

def Kernel.elementsWh (k : Kernel) : Nat := k.width * k.height
/-- `Kernel.area_width` (domain: width ≥ 1) -/
def Kernel.areaWidth (k : Kernel) : Nat := (k.width - 1) * k.dilX + 1
def Kernel.areaHeight (k : Kernel) : Nat := (k.height - 1) * k.dilY + 1
/-- the asserts of `Kernel.__init__` -/
def Kernel.assertOk (k : Kernel) : Bool := k.strideX > 0 && k.strideY > 0 && k.dilX > 0 && k.dilY > 0
/-- the model's domain -/
def Kernel.inDomain (k : Kernel) : Bool := k.width ≥ 1 && k.height ≥ 1

def toUpscale : Resampling → Nat
  | .none => 1
  | _ => 2
def isNearest (r : Resampling) : Bool := r == .nearest

/-- `_required_size(value, stride, border, upscale, nearest)` = `ceil(((value-1)*stride + border + nearest)/upscale)`
    (domain: value ≥ 1) -/
def requiredSize (value stride border upscale : Nat) (nearest : Bool) : Nat :=
  ((value - 1) * stride + border + (if nearest then 1 else 0) + upscale - 1) / upscale

/-- `get_ifm_area_required(ofm_shape, kernel, resampling_mode)` → (w1, h1) -/
def getIfmAreaRequired (ofm : Blk) (k : Kernel) (r : Resampling) : Nat × Nat :=
  (requiredSize ofm.width k.strideX k.areaWidth (toUpscale r) (isNearest r),
   requiredSize ofm.height k.strideY k.areaHeight (toUpscale r) (isNearest r))

/-- `_get_ifm_blocksize(ofm_block, kernel, ublock, subkernel_limit, upscale, nearest)` -/
def getIfmBlocksize (ofmBlock : Blk) (k : Kernel) (ublock subk : Blk) (upscale : Nat) (nearest : Bool) : Blk :=
  let h1 := requiredSize ofmBlock.height k.strideY (min k.areaHeight subk.height) upscale nearest
  let w1 := requiredSize ofmBlock.width k.strideX (min k.areaWidth subk.width) upscale nearest
  ⟨roundUp w1 ublock.width, roundUp h1 ublock.height, ofmBlock.depth⟩

/-- `_ifm_blockdepth(arch, ifm_shape, ifm_bits, is_partkernel)` -/
def ifmBlockDepth (row : Row) (ifmDepth ifmBits : Nat) (isPartKernel : Bool) : Nat :=
  if ifmBits = 16 then roundUp (min ifmDepth 16) 4
  else roundUp (min ifmDepth (if isPartKernel then 16 else 32)) row.ifmUblock.depth

/-- `fit_block_for_ofm(arch, ofm_shape, kernel, block)` -/
def fitBlockForOfm (row : Row) (ofmHeight : Nat) (k : Kernel) (block : Blk) : Blk :=
  if ofmHeight = 1 ∧ k.height = 1 ∧ row.ofmUblock.height = 2 then
    ⟨block.width, min block.height ofmHeight, block.depth⟩
  else block

/-- `_ew_usage` -/
def ewUsage (bt : BlockType) (usesScalar : Bool) : EwUsage :=
  if bt = .elementwise then (if usesScalar then .scalar else .full) else .no

/-- `_acc_type` -/
def accType (bt : BlockType) (ifmBits : Nat) (scaled : Bool) : AccType :=
  if ifmBits = 16 ∧ bt ≠ .pooling ∧ scaled = true then .acc40 else .acc32

def accGranule (row : Row) : AccType → Nat
  | .acc16 => row.accGranule16
  | .acc32 => row.accGranule32
  | .acc40 => row.accGranule40

def accBitsOf : AccType → Nat
  | .acc16 => accBits16
  | .acc32 => accBits32
  | .acc40 => accBits40

/-- `arch.ifm_ew_bank_granules[ifm_bits]` / `arch.ifm_bank_granules[ifm_bits]` (a `KeyError` otherwise) -/
def ifmGranule (row : Row) (ew : EwUsage) (ifmBits : Nat) : Option Nat :=
  if ew ≠ .no then
    (if ifmBits = 8 then some row.ifmEwGranule8 else if ifmBits = 16 then some row.ifmEwGranule16
     else if ifmBits = 32 then some row.ifmEwGranule32 else none)
  else
    (if ifmBits = 8 then some row.ifmGranule8 else if ifmBits = 16 then some row.ifmGranule16
     else if ifmBits = 32 then some row.ifmGranule32 else none)

/-- What `find_block_config` and `try_block_config` both compute before they look at a block. -/
structure Ctx where
  row : Row
  ew : EwUsage
  equalDepth : Bool
  ifmBits : Nat
  ifmGranule : Nat
  acc : AccType
  lutBanks : Int
  upscale : Nat
  nearest : Bool
  ifmBlockDepth : Nat
  kernel : Kernel
  ofmHeight : Nat
deriving Repr

def isEqualDepthOp (bt : BlockType) (ew : EwUsage) : Bool :=
  ew ≠ .no || bt = .pooling || bt = .depthwise

/-- the "Elementwise larger-volume correction": which IFM depth is used -/
def effIfmDepth (ifmElements ifmDepth : Nat) (ifm2 : Option (Nat × Nat)) : Nat :=
  match ifm2 with
  | some (e2, d2) => if e2 > ifmElements then d2 else ifmDepth
  | none => ifmDepth

def mkCtx (row : Row) (bt : BlockType) (ofmHeight : Nat) (ifmDepthEff : Nat) (usesScalar : Bool)
    (ifmBits : Nat) (isPartKernel : Bool) (k : Kernel) (lutBanks : Int) (scaled : Bool) (r : Resampling) :
    Except Err Ctx :=
  let ew := ewUsage bt usesScalar
  let acc := accType bt ifmBits scaled
  match ifmGranule row ew ifmBits with
  | none => .error .key
  | some g =>
    .ok { row := row, ew := ew, equalDepth := isEqualDepthOp bt ew, ifmBits := ifmBits, ifmGranule := g,
          acc := acc, lutBanks := max lutBanks (row.reservedEndBanks : Int), upscale := toUpscale r,
          nearest := isNearest r, ifmBlockDepth := ifmBlockDepth row ifmDepthEff ifmBits isPartKernel,
          kernel := k, ofmHeight := ofmHeight }

/-- IFM block that feeds OFM block `blk` (shared by the search and by `try_block_config`) -/
def Ctx.ifmBlockFor (c : Ctx) (blk : Blk) : Blk :=
  let b := getIfmBlocksize blk c.kernel c.row.ofmUblock subKernelLimit c.upscale c.nearest
  if c.equalDepth then b else ⟨b.width, b.height, c.ifmBlockDepth⟩

/-- the `_try_block_config` call both functions make for OFM block `blk` -/
def Ctx.layoutFor (c : Ctx) (blk : Blk) : Except Err (Option Layout) :=
  tryCore c.row.reservedOutputBanks c.row.bankSizeBytes c.row.totalBanks c.ew
    (fitBlockForOfm c.row c.ofmHeight c.kernel blk) (c.ifmBlockFor blk)
    c.ifmBits c.ifmGranule (accBitsOf c.acc) (accGranule c.row c.acc) c.lutBanks

/-- the validity test at the top of `try_block_config` (order h, w, d as `as_list()`) -/
def blockValid (row : Row) (blk : Blk) : Bool :=
  (blk.height > 0 && blk.height ≤ row.ofmBlockMax.height && blk.height % row.ofmUblock.height == 0) &&
  (blk.width > 0 && blk.width ≤ row.ofmBlockMax.width && blk.width % row.ofmUblock.width == 0) &&
  (blk.depth > 0 && blk.depth ≤ row.ofmBlockMax.depth && blk.depth % row.ofmUblock.depth == 0)

/-- arguments of `try_block_config` after `arch` and `block_config`; shapes are Blocks -/
structure TryArgs where
  bt : BlockType
  ofm : Blk
  ifm : Blk
  ifm2 : Option Blk
  usesScalar : Bool
  ifmBits : Nat
  isPartKernel : Bool
  kernel : Kernel
  lutBanks : Int
  scaled : Bool
  resampling : Resampling
deriving Repr, DecidableEq

def TryArgs.ctx (row : Row) (a : TryArgs) : Except Err Ctx :=
  mkCtx row a.bt a.ofm.height
    (effIfmDepth (blkElements a.ifm) a.ifm.depth (a.ifm2.map fun b => (blkElements b, b.depth)))
    a.usesScalar a.ifmBits a.isPartKernel a.kernel a.lutBanks a.scaled a.resampling

/-- `try_block_config(block_config, arch, …)` -/
def tryBlockConfig (row : Row) (blk : Blk) (a : TryArgs) : Except Err (Option Config) :=
  if row.ofmUblock.width = 0 ∨ row.ofmUblock.height = 0 ∨ row.ofmUblock.depth = 0 then .error .domain
  else if ¬ blockValid row blk then .ok none
  else if ¬ a.kernel.inDomain then .error .domain
  else
    match a.ctx row with
    | .error e => .error e
    | .ok c =>
      match c.layoutFor blk with
      | .error e => .error e
      | .ok none => .ok none
      | .ok (some l) =>
        .ok (some { layout := l, ifmBlock := c.ifmBlockFor blk, ofmBlock := blk, accType := c.acc,
                    isPartKernel := a.isPartKernel, bankSize := row.configBankSize })

/-! ## the WHC search of `find_block_config` -/

/-- The arithmetic in which the costs are computed and compared (Python: `float`). -/
structure CostOps (α : Type) where
  ofNat : Nat → α
  add : α → α → α
  mul : α → α → α
  div : α → α → α
  le : α → α → Bool
  eq : α → α → Bool

/-- `_choose_kernel_method(ifm_shape, ifm_bits, kernel)` -/
def chooseKernelMethod {α} (ops : CostOps α) (ifmDepth ifmBits : Nat) (k : Kernel) : Bool :=
  if ifmDepth ≤ 8 then true
  else
    let ke := k.elementsWh
    let depthUtil := ops.div (ops.ofNat ifmDepth) (ops.ofNat (roundUp ifmDepth (if ifmBits = 8 then 32 else 16)))
    let partUtil := ops.div (ops.ofNat (ifmDepth * ke))
      (ops.ofNat (roundUp ifmDepth 8 * roundUp ke (if ifmBits = 8 then 4 else 2)))
    -- part_utilisation > depth_utilisation
    ! ops.le partUtil depthUtil

/-- inputs of the search that do not change inside the loops -/
structure SearchEnv where
  bt : BlockType
  ofm : Shape
  ifm : Shape         -- after the larger-volume correction
  ifmRepeats : Nat
  weightFetchWh : Nat
deriving Repr

/-- `relative_cost` for OFM block (h, w, d); `fit` = the block after `fit_block_for_ofm`, `ifmB` the IFM block -/
def relativeCost {α} (ops : CostOps α) (e : SearchEnv) (equalDepth : Bool) (h w d : Nat) (fit ifmB : Blk) : α :=
  let isDepthwise := e.bt = .depthwise
  -- full_blocks = Shape4D.div_round_up(ofm_shape, ofm_block); blocks = ofm_shape / ofm_block
  let fullW := roundUpDivide e.ofm.width fit.width
  let fullH := roundUpDivide e.ofm.height fit.height
  let fullD := roundUpDivide e.ofm.depth fit.depth
  let blocksW := ops.div (ops.ofNat e.ofm.width) (ops.ofNat fit.width)
  let blocksH := ops.div (ops.ofNat e.ofm.height) (ops.ofNat fit.height)
  let blocksD := ops.div (ops.ofNat e.ofm.depth) (ops.ofNat fit.depth)
  let wf0 : Nat := e.weightFetchWh * e.ifm.depth * (fullW * fullH)
  let weightFetch : α :=
    if isDepthwise then ops.ofNat wf0
    else ops.mul (ops.ofNat wf0) (ops.mul (ops.ofNat fit.depth) blocksD)
  let ifmFetch0 : α := ops.mul (ops.ofNat (blkElementsWh ifmB * e.ifm.depth * e.ifmRepeats)) (ops.mul blocksW blocksH)
  let ifmFetch : α := if equalDepth then ifmFetch0 else ops.mul ifmFetch0 (ops.ofNat fullD)
  let rel : α :=
    if e.bt = .elementwise then
      let x := ops.div (ops.ofNat e.ofm.elements) (ops.ofNat (h * w * d))
      -- max(x, 1)
      if ops.le (ops.ofNat 1) x then x else ops.ofNat 1
    else ops.div (ops.add ifmFetch weightFetch) (ops.ofNat e.ofm.elements)
  if e.ifm.elements < blkElements ifmB * 2 then ops.div rel (ops.ofNat 2) else rel

/-- what the search remembers about the best candidate -/
structure Found where
  ofmBlock : Blk
  ifmBlock : Blk
  layout : Layout
deriving Repr, DecidableEq

structure SearchState (α : Type) where
  /-- `best_cost` together with the chosen config; `none` = `math.inf` -/
  best : Option (α × Found)
  /-- `best_coverage`; `none` = `math.inf` -/
  bestCoverage : Option α
  /-- `wont_fit`, a bitmap over (first key, second key) -/
  wontFit : Array Bool
  /-- row length of the bitmap -/
  wfDim : Nat

def wfGet {α} (s : SearchState α) (a b : Nat) : Bool := s.wontFit.getD (a * s.wfDim + b) false
def wfSet {α} (s : SearchState α) (a b : Nat) : SearchState α :=
  { s with wontFit := s.wontFit.setIfInBounds (a * s.wfDim + b) true }

/-- body of the two inner loops for one (height, width) at depth `d` -/
def searchStep {α} (ops : CostOps α) (c : Ctx) (e : SearchEnv) (d : Nat) (s : SearchState α) (hw : Nat × Nat) :
    Except Err (SearchState α) :=
  let h := hw.1
  let w := hw.2
  if wfGet s h w then .ok s
  else
    let blk : Blk := ⟨w, h, d⟩
    match c.layoutFor blk with
    | .error er => .error er
    | .ok none => .ok (wfSet s w h)
    | .ok (some layout) =>
      let ifmB := c.ifmBlockFor blk
      let fit := fitBlockForOfm c.row c.ofmHeight c.kernel blk
      let rel := relativeCost ops e c.equalDepth h w d fit ifmB
      let found : Found := ⟨blk, ifmB, layout⟩
      match s.best with
      | none => .ok { s with best := some (rel, found), bestCoverage := none }
      | some (bestCost, _) =>
        if ops.le rel bestCost then
          if ops.eq rel bestCost then
            let covW := min e.ifm.width ifmB.width
            let covH := min e.ifm.height ifmB.height
            let coverage := ops.div (ops.ofNat e.ifm.elementsWh) (ops.ofNat (covW * covH))
            let covOk := match s.bestCoverage with
              | none => true
              | some bc => ops.le coverage bc
            if covOk && (h ≤ 4 && w ≤ 4) then
              .ok { s with best := some (rel, found), bestCoverage := some coverage }
            else .ok s
          else .ok { s with best := some (rel, found), bestCoverage := none }
        else .ok s

/-- fold with early exit on error -/
def foldE {σ β ε} (f : σ → β → Except ε σ) : σ → List β → Except ε σ
  | s, [] => .ok s
  | s, b :: bs =>
    match f s b with
    | .ok s' => foldE f s' bs
    | .error e => .error e

/-- `range(step, stop + 1, step)` for `step > 0` -/
def multiplesUpTo (step stop : Nat) : List Nat := (List.range (stop / step)).map fun i => (i + 1) * step

/-- all (height, width) pairs in loop order -/
def hwPairs (ub : Blk) (searchH searchW : Nat) : List (Nat × Nat) :=
  (multiplesUpTo ub.height searchH).flatMap fun h => (multiplesUpTo ub.width searchW).map fun w => (h, w)

/-- the `while depth <= search_space.depth` loop -/
def depthLoop {α} (ops : CostOps α) (c : Ctx) (e : SearchEnv) (searchH searchW searchD : Nat) :
    Nat → Nat → SearchState α → Except Err (SearchState α)
  | 0, depth, s => if depth ≤ searchD then .error .fuel else .ok s
  | fuel + 1, depth, s =>
    if depth ≤ searchD then
      let s0 : SearchState α := { s with wontFit := Array.replicate (s.wfDim * s.wfDim) false }
      match foldE (searchStep ops c e depth) s0 (hwPairs c.row.ofmUblock searchH searchW) with
      | .error er => .error er
      | .ok s1 =>
        let d1 := depth + c.row.ofmUblock.depth
        let d2 := if d1 < e.ofm.depth then roundUp d1 splitDepth else d1
        depthLoop ops c e searchH searchW searchD fuel d2 s1
    else .ok s

/-- arguments of `find_block_config` after `arch` -/
structure FindArgs where
  bt : BlockType
  ofm : Shape
  ifm : Shape
  ifm2 : Option Shape
  usesScalar : Bool
  ifmBits : Nat
  kernel : Kernel
  lutBanks : Int
  scaled : Bool
  resampling : Resampling
deriving Repr, DecidableEq

def Shape.inDomain (s : Shape) : Bool := s.batch ≥ 1 && s.height ≥ 1 && s.width ≥ 1 && s.depth ≥ 1

/-- the IFM shape after the larger-volume correction -/
def FindArgs.ifmEff (a : FindArgs) : Shape :=
  match a.ifm2 with
  | some s2 => if s2.elements > a.ifm.elements then s2 else a.ifm
  | none => a.ifm

def FindArgs.isConvolution (a : FindArgs) : Bool := a.bt = .convMxN || a.bt = .depthwise

def FindArgs.isPartKernel {α} (ops : CostOps α) (a : FindArgs) : Bool :=
  a.isConvolution && chooseKernelMethod ops a.ifmEff.depth a.ifmBits a.kernel

def FindArgs.ctx {α} (ops : CostOps α) (row : Row) (a : FindArgs) : Except Err Ctx :=
  mkCtx row a.bt a.ofm.height a.ifmEff.depth a.usesScalar a.ifmBits (a.isPartKernel ops) a.kernel a.lutBanks
    a.scaled a.resampling

/-- `search_space` (height, width, depth) -/
def searchSpace (row : Row) (ofm : Shape) : Nat × Nat × Nat :=
  (roundUp (min ofm.height row.ofmBlockMax.height) row.ofmUblock.height,
   roundUp (min ofm.width row.ofmBlockMax.width) row.ofmUblock.width,
   roundUp (min ofm.depth row.ofmBlockMax.depth) row.ofmUblock.depth)

/-- the first value of `depth` -/
def startDepth (row : Row) (ofmDepth searchD : Nat) : Nat :=
  let d := max row.ofmUblock.depth (min searchD splitDepth)
  if d < ofmDepth then roundUp d splitDepth else d

/-- `find_block_config(arch, …)` -/
def findBlockConfig {α} (ops : CostOps α) (row : Row) (a : FindArgs) : Except Err (Option Config) :=
  if row.ofmUblock.width = 0 ∨ row.ofmUblock.height = 0 ∨ row.ofmUblock.depth = 0 then .error .domain
  else if ¬ (a.kernel.inDomain ∧ a.ofm.inDomain ∧ a.ifm.inDomain ∧ (a.ifm2.all Shape.inDomain)) then .error .domain
  else
    match a.ctx ops row with
    | .error e => .error e
    | .ok c =>
      let k := a.kernel
      let env : SearchEnv :=
        { bt := a.bt, ofm := a.ofm, ifm := a.ifmEff,
          ifmRepeats := roundUpDivide k.areaWidth subKernelLimit.width * roundUpDivide k.areaHeight subKernelLimit.height,
          weightFetchWh := if a.isConvolution then k.areaWidth * k.areaHeight else 0 }
      let (sh, sw, sd) := searchSpace row a.ofm
      let dim := max sh sw + 1
      let s0 : SearchState α := { best := none, bestCoverage := none, wontFit := #[], wfDim := dim }
      match depthLoop ops c env sh sw sd (sd + 1) (startDepth row a.ofm.depth sd) s0 with
      | .error e => .error e
      | .ok s =>
        match s.best with
        | none => .ok none
        | some (_, f) =>
          .ok (some { layout := f.layout, ifmBlock := f.ifmBlock, ofmBlock := f.ofmBlock, accType := c.acc,
                      isPartKernel := a.isPartKernel ops, bankSize := row.configBankSize })

/-! ## the two public callers -/

inductive ApiKind where
  | conv2d | depthwise | pooling | reduceSum | elementwise
deriving Repr, DecidableEq

def ApiKind.blockType : ApiKind → BlockType
  | .conv2d => .convMxN
  | .depthwise => .depthwise
  | .pooling => .pooling
  | .reduceSum => .reduceSum
  | .elementwise => .elementwise

/-- what the two callers read of an `NpuFeatureMap`: shape, `quantization is not None`,
    `quantization.scale_f32 is not None` -/
structure Fm where
  shape : Blk
  hasQuant : Bool
  hasScale : Bool
deriving Repr, DecidableEq

/-- what the two callers read of an `NpuBlockOperation` -/
structure ApiOp where
  kind : ApiKind
  /-- `npu_op.block_traversal == PART_KERNEL_FIRST` (conv2d only) -/
  partKernelFirst : Bool
  ifm : Fm
  ifm2 : Option Fm
  /-- `npu_op.ifm2_scalar is not None` -/
  ifm2Scalar : Bool
  ofm : Fm
  upscale : Resampling
  ifmBits : Nat
  /-- `None` → `Kernel(1, 1)` -/
  kernel : Option Kernel
  /-- activation is TABLE_LOOKUP -/
  lut : Bool
deriving Repr, DecidableEq

def toKernel : Option Kernel → Kernel
  | none => ⟨1, 1, 1, 1, 1, 1⟩
  | some k => k

/-- `has_scaling` of `api.npu_find_block_configs`; `crit` is the observed criterion -/
def apiScaled (crit : ScaledCrit) (op : ApiOp) : Bool :=
  let bad (f : Fm) : Bool := match crit with
    | .quantOnly => !f.hasQuant
    | .quantAndScale => !f.hasQuant || !f.hasScale
  !(bad op.ifm || (match op.ifm2 with | some f => bad f | none => false) || bad op.ofm)

/-- `all_fms_have_quant` of `get_arch_block_config` -/
def genScaled (op : ApiOp) : Bool :=
  let bad (f : Fm) : Bool := !f.hasQuant || !f.hasScale
  !(bad op.ifm || bad op.ofm || (match op.ifm2 with | some f => bad f | none => false))

/-- api.py: `if npu_op.ifm2:` -/
def apiIfm2 (op : ApiOp) : Option Blk := op.ifm2.map (·.shape)
/-- generator: `if has_ifm2(npu_op)` (IFM2 present and not a scalar) -/
def genIfm2 (op : ApiOp) : Option Blk := if op.ifm2Scalar then none else op.ifm2.map (·.shape)

def lutBanksOf (op : ApiOp) : Int := if op.lut then 2 else 0

/-- arguments `npu_find_block_configs` passes to `try_block_config` -/
def apiArgs (crit : ScaledCrit) (op : ApiOp) : TryArgs :=
  { bt := op.kind.blockType, ofm := op.ofm.shape, ifm := op.ifm.shape, ifm2 := apiIfm2 op,
    usesScalar := op.ifm2Scalar, ifmBits := op.ifmBits,
    isPartKernel := op.kind = .conv2d && op.partKernelFirst,
    kernel := toKernel op.kernel, lutBanks := lutBanksOf op, scaled := apiScaled crit op, resampling := op.upscale }

/-- arguments `get_arch_block_config` passes to `try_block_config` (the generator passes
    `npu_op.block_traversal` for conv2d and DEPTH_FIRST for everything else) -/
def genArgs (op : ApiOp) : TryArgs :=
  { bt := op.kind.blockType, ofm := op.ofm.shape, ifm := op.ifm.shape, ifm2 := genIfm2 op,
    usesScalar := op.ifm2Scalar, ifmBits := op.ifmBits,
    isPartKernel := op.kind = .conv2d && op.partKernelFirst,
    kernel := toKernel op.kernel, lutBanks := lutBanksOf op, scaled := genScaled op, resampling := op.upscale }

/-- `range(step, stop + step, step)` for `step > 0`: step, 2·step, … while < stop + step -/
def apiRange (step stop : Nat) : List Nat := (List.range ((stop + step - 1) / step)).map fun i => (i + 1) * step

/-- the (w, h, c) triples `npu_find_block_configs` tries, in loop order.  `min_block_height/width` is
    `max(ublock, 2)` for *every* resampling mode: the code compares a `resampling_mode` member with
    `NpuResamplingMode.NONE`, members of different enums, so `!=` is always true. -/
def apiCandidates (row : Row) (ofm : Blk) : List Blk :=
  let maxW := min row.ofmBlockMax.width ofm.width
  let maxH := min row.ofmBlockMax.height ofm.height
  let maxD := min row.ofmBlockMax.depth ofm.depth
  let minH := max row.ofmUblock.height 2
  let minW := max row.ofmUblock.width 2
  (apiRange minW maxW).flatMap fun w =>
    (apiRange minH maxH).flatMap fun h =>
      ((apiRange row.ofmUblock.depth maxD).filter fun c => c ≥ maxD || c % splitDepth == 0).map fun c => ⟨w, h, c⟩

/-- keep the candidates `try_block_config` accepts; the first error aborts -/
def filterAccepted (row : Row) (a : TryArgs) : List Blk → Except Err (List Blk)
  | [] => .ok []
  | b :: bs =>
    match tryBlockConfig row b a with
    | .error e => .error e
    | .ok r =>
      match filterAccepted row a bs with
      | .error e => .error e
      | .ok rest => .ok (if r.isSome then b :: rest else rest)

/-- `api.npu_find_block_configs(npu_op, accelerator)` -/
def npuFindBlockConfigs (crit : ScaledCrit) (row : Row) (op : ApiOp) : Except Err (List Blk) :=
  if ¬ (toKernel op.kernel).assertOk then .error .assert
  else
    match filterAccepted row (apiArgs crit op) (apiCandidates row op.ofm.shape) with
    | .error e => .error e
    | .ok [] => .error .assert       -- assert len(valid_block_configs) > 0
    | .ok l => .ok l

/-- `get_arch_block_config(npu_op, block_traversal, arch)` with `npu_op.block_config = blk` -/
def getArchBlockConfig (row : Row) (op : ApiOp) (blk : Blk) : Except Err Config :=
  if ¬ (toKernel op.kernel).assertOk then .error .assert
  else
    match tryBlockConfig row blk (genArgs op) with
    | .error e => .error e
    | .ok none => .error .assert     -- assert arch_block_config is not None, "block_config … does not fit"
    | .ok (some c) => .ok c

/-- ACC_FORMAT register value -/
def accFormat : AccType → Nat
  | .acc16 => accFormat16
  | .acc32 => accFormat32
  | .acc40 => accFormat40

end VelaVerif.Shram
