/-!
# Model of `ethosu/vela/range_set.py` (property C04)

Hand transcription of `RangeSet`, `MemoryRangeSet`, `MemoryAccessSet`.
A range is the Python tuple `(start, end)`; `none` results are Python's `AssertionError`.
-/
namespace VelaVerif.RangeSet

abbrev Range := Int × Int

/-- Python tuple order `a < b` -/
def tupleLt (a b : Range) : Bool := decide (a.1 < b.1) || (decide (a.1 = b.1) && decide (a.2 < b.2))

def insertSorted (r : Range) : List Range → List Range
  | [] => [r]
  | x :: xs => if tupleLt r x then r :: x :: xs else x :: insertSorted r xs

/-- `list(sorted(l))` (as a multiset of tuples the result of a stable sort is unique) -/
def sortRanges (l : List Range) : List Range := l.foldr insertSorted []

/-- `RangeSet(start, end)`: one range, or none when `start == end`; `assert start < end` -/
def mk (start end_ : Int) : Option (List Range) :=
  if start = end_ then some [] else if start < end_ then some [(start, end_)] else none

/-- `RangeSet.__or__` / `__ior__` -/
def union (a b : List Range) : List Range := sortRanges (a ++ b)

def overlapB (r s : Range) : Bool := decide (max r.1 s.1 < min r.2 s.2)

/-- `RangeSet.intersects`: the two-pointer sweep. `none` = `assert ar[0] != br[0]` failed. -/
def intersects : List Range → List Range → Option Bool
  | [], _ => some false
  | _ :: _, [] => some false
  | ar :: as, br :: bs =>
    if overlapB ar br then some true
    else if ar.1 < br.1 then intersects as (br :: bs)
    else if ar.1 = br.1 then none
    else intersects (ar :: as) bs
termination_by a b => a.length + b.length

/-! ## MemoryRangeSet: region ↦ RangeSet (association list; Python: dict) -/

abbrev MemRanges := List (Nat × List Range)

def MemRanges.get (m : MemRanges) (region : Nat) : List Range :=
  match m.find? (·.1 = region) with
  | some p => p.2
  | none => []

def MemRanges.keys (m : MemRanges) : List Nat := m.map (·.1)

/-- `MemoryRangeSet(mem_area, start, end)` -/
def MemRanges.single (region : Nat) (start end_ : Int) : Option MemRanges :=
  (mk start end_).map fun rs => [(region, rs)]

/-- `MemoryRangeSet.__or__`: every region of either operand, ranges merged and sorted -/
def MemRanges.union (a b : MemRanges) : MemRanges :=
  let ks := a.keys ++ b.keys.filter (fun k => !a.keys.contains k)
  ks.map fun k => (k, RangeSet.union (a.get k) (b.get k))

def MemRanges.intersectsOn (a b : MemRanges) : List Nat → Option Bool
  | [] => some false
  | k :: ks =>
    match RangeSet.intersects (a.get k) (b.get k) with
    | none => none
    | some true => some true
    | some false => MemRanges.intersectsOn a b ks

/-- `MemoryRangeSet.intersects`: first common region that intersects. -/
def MemRanges.intersects (a b : MemRanges) : Option Bool :=
  MemRanges.intersectsOn a b (a.keys.filter (fun k => b.keys.contains k))

/-! ## MemoryAccessSet -/

structure AccessSet where
  read : MemRanges
  write : MemRanges
deriving Repr, DecidableEq, Inhabited

def AccessSet.empty : AccessSet := ⟨[], []⟩

/-- `MemoryAccessSet.add(memory_range_set, access)` -/
def AccessSet.add (s : AccessSet) (m : MemRanges) (write : Bool) : AccessSet :=
  if write then { s with write := s.write.union m } else { s with read := s.read.union m }

/-- `MemoryAccessSet.conflicts`: write→read, read→write, write→write -/
def AccessSet.conflicts (self other : AccessSet) : Option Bool :=
  match self.write.intersects other.read with
  | none => none
  | some true => some true
  | some false =>
    match self.read.intersects other.write with
    | none => none
    | some true => some true
    | some false => self.write.intersects other.write

end VelaVerif.RangeSet
