import VelaVerif.Gen.Core
/-!
# Model of `ethosu/vela/driver_actions.py` (property C17)

Hand transcription.  Words are `Nat`s (Python ints); the final `struct.pack("<I")` is
`le32`, which *fails* (Python: `struct.error`) for a word ≥ 2^32.
`arch` is a row of the regenerated accelerator table.
-/
namespace VelaVerif.Payload
open VelaVerif.Gen

inductive Err where
  | vela      -- VelaError: stream exceeds driver limit
  | pack      -- struct.error: a word does not fit 32 bits
deriving Repr, DecidableEq

/-- `make_da_tag` -/
def makeDaTag (id reserved param : Nat) : Nat :=
  id ||| (reserved <<< 8) ||| (param <<< 16)

/-- `emit_fourcc(data, "COP1")` : the value appended -/
def fourcc (c0 c1 c2 c3 : Nat) : Nat :=
  c0 ||| (c1 <<< 8) ||| (c2 <<< 16) ||| (c3 <<< 24)

def cop1 : Nat := fourcc 67 79 80 49   -- 'C' 'O' 'P' '1'

/-- ctypes bit-field packing: each value is truncated to its width and placed at the running
    bit offset, least significant field first. -/
def packFields (layout : List (String × Nat)) (val : String → Nat) : Nat :=
  (layout.foldl (fun (acc : Nat × Nat) (f : String × Nat) =>
      (acc.1 ||| ((val f.1 % 2 ^ f.2) <<< acc.2), acc.2 + f.2)) (0, 0)).1

/-- `int(np.log2(x) + 0.5)` for `x ≥ 1`; for the powers of two in the table it is `log2`.
    Modelled as floor(log2 x) plus one when x ≥ sqrt(2)·2^floor, i.e. x² ≥ 2·4^floor. -/
def roundLog2 (x : Nat) : Nat :=
  let f := Nat.log2 x
  if x * x ≥ 2 * 4 ^ f then f + 1 else f

/-- `build_config_word(arch)` -/
def buildConfigWord (a : AccRow) : Nat :=
  let macsCc := a.cores * a.macs
  let shram := a.cores * (a.shramSizeBytes / 1024)
  packFields configRLayout (fun n =>
    if n == "product" then (if a.isU65 then 1 else 0)
    else if n == "shram_size" then shram
    else if n == "cmd_stream_version" then 0
    else if n == "macs_per_cc" then roundLog2 macsCc
    else 0)

/-- `build_id_word()` -/
def buildIdWord : Nat :=
  packFields idRLayout (fun n =>
    if n == "arch_major_rev" then archVer.getD 0 0
    else if n == "arch_minor_rev" then archVer.getD 1 0
    else if n == "arch_patch_rev" then archVer.getD 2 0
    else 0)

/-- `emit_config(data, rel=0, patch=1, arch)` -/
def configWords (a : AccRow) (rel patch : Nat) : List Nat :=
  [makeDaTag daConfig 0 ((patch <<< daConfigPatchShift) ||| rel), buildConfigWord a, buildIdWord]

/-- number of NOPs `emit_cmd_stream_header` inserts when `n` words are already present -/
def numNops (n : Nat) : Nat := 4 - ((n + 1) % 4)

/-- the header tag of `emit_cmd_stream_header` -/
def cmdStreamTag (length : Nat) : Nat :=
  let lengthHigh := (length &&& 0x00FF0000) >>> 16
  let lengthLow := length &&& 0x0000FFFF
  makeDaTag daCmdStream lengthHigh lengthLow

/-- `emit_cmd_stream_header(data, length)` : the words appended -/
def cmdStreamHeader (have_ : Nat) (length : Nat) : List Nat :=
  List.replicate (numNops have_) (makeDaTag daNOP 0 0) ++ [cmdStreamTag length]

/-- the word list `create_driver_payload` builds before packing -/
def payloadWords (a : AccRow) (words : List Nat) : Except Err (List Nat) :=
  let pre := cop1 :: configWords a 0 1
  if words.length ≥ 2 ^ 24 then .error .vela
  else .ok (pre ++ cmdStreamHeader pre.length words.length ++ words)

def le32 (w : Nat) : List Nat := [w % 256, w / 256 % 256, w / 65536 % 256, w / 16777216 % 256]

/-- `struct.pack("<nI", *words)` -/
def packLE (ws : List Nat) : Except Err (List Nat) :=
  if ws.all (· < 2 ^ 32) then .ok (ws.flatMap le32) else .error .pack

/-- `create_driver_payload(register_command_stream, arch)` as bytes -/
def createDriverPayload (a : AccRow) (words : List Nat) : Except Err (List Nat) :=
  match payloadWords a words with
  | .error e => .error e
  | .ok ws => packLE ws

/-! ### Spec-side decoder (what an Ethos-U driver does with the payload; hand-written spec) -/

/-- command-word count declared by a CmdStream action tag -/
def declaredLength (tag : Nat) : Nat := (tag / 256 % 256) * 65536 + tag / 65536 % 65536

def tagId (tag : Nat) : Nat := tag % 256

def fromLE32 : List Nat → List Nat
  | b0 :: b1 :: b2 :: b3 :: rest => (b0 + 256 * b1 + 65536 * b2 + 16777216 * b3) :: fromLE32 rest
  | _ => []

structure Parsed where
  configTag : Nat
  configWord : Nat
  idWord : Nat
  nops : Nat
  declared : Nat
  cmdOffsetBytes : Nat
  cmds : List Nat
deriving Repr, DecidableEq

/-- Skip NOP actions, return (count, rest). -/
def skipNops : List Nat → Nat × List Nat
  | w :: rest => if tagId w = daNOP then let r := skipNops rest; (r.1 + 1, r.2) else (0, w :: rest)
  | [] => (0, [])

/-- Parse a payload's words: fourcc, config action (3 words), NOPs, CmdStream tag, words. -/
def parseWords (ws : List Nat) : Option Parsed :=
  match ws with
  | fcc :: ctag :: cw :: idw :: rest =>
    if fcc ≠ cop1 ∨ tagId ctag ≠ daConfig then none else
    let r := skipNops rest
    match r.2 with
    | tag :: cmds =>
      if tagId tag ≠ daCmdStream then none else
      some { configTag := ctag, configWord := cw, idWord := idw, nops := r.1,
             declared := declaredLength tag, cmdOffsetBytes := 4 * (4 + r.1 + 1), cmds := cmds }
    | [] => none
  | _ => none

def parsePayload (bytes : List Nat) : Option Parsed :=
  if bytes.length % 4 ≠ 0 then none else parseWords (fromLE32 bytes)

/-- Hand-written expectation (Ethos-U driver documentation as quoted in DESIGN.md):
    accelerator name ↦ (product, log2 MACs/cc, SHRAM KiB). -/
def specTable : List (String × Nat × Nat × Nat) :=
  [ ("ethos-u55-32", 0, 5, 16), ("ethos-u55-64", 0, 6, 16), ("ethos-u55-128", 0, 7, 24),
    ("ethos-u55-256", 0, 8, 48), ("ethos-u65-256", 1, 8, 48), ("ethos-u65-512", 1, 9, 96) ]

/-- the config word a driver expects: macs[3:0] | version[7:4]=0 | shram[15:8] | product[31:28] -/
def specConfigWord (product log2macs shramKiB : Nat) : Nat :=
  log2macs + shramKiB * 256 + product * 2 ^ 28

def specConfigWordFor (name : String) : Option Nat :=
  (specTable.find? (·.1 == name)).map fun (_, p, m, s) => specConfigWord p m s

/-- architecture version 1.0.6 in bits [31:28].[27:20].[19:16] (hand-written) -/
def specIdWord : Nat := 1 * 2 ^ 28 + 0 * 2 ^ 20 + 6 * 2 ^ 16

/-- The C17 acceptance predicate on a parsed payload, for accelerator row `a`: judged against the
    hand-written expectation, not against the model's own encoder. -/
def payloadOk (a : AccRow) (p : Parsed) (words : List Nat) : Bool :=
  some p.configWord == specConfigWordFor a.name && p.idWord == specIdWord && p.configTag == 0x00100001 &&
  p.cmdOffsetBytes % 16 == 0 && p.declared == p.cmds.length && p.cmds == words

end VelaVerif.Payload
