import VelaVerif.Model.Rewrites2
/-!
# Graph-optimiser rewrites, third part (model side, import-free)

Hand transcription of the *parameter transformation* of four more rewrites of `ethosu/vela/tflite_graph_optimiser.py`:

* 15. RESIZE of a 1x1 input as a broadcast ADD with a zero constant (`fixup_resize` dispatch, `convert_resize_1x1_to_add`)
* 16. AVERAGE_POOL with a width stride above 3 as a convolution with a diagonal all-ones kernel (`convert_avg_pool_to_conv2d`)
* 17. SHAPE of a statically shaped tensor as a constant (`convert_shape_op_to_constant_tensor`)
* 18. UNPACK as a split of a reshaped output (`rewrite_unpack_output`)

The correspondence stream `harness/c01_rewrites3.py` calls the real functions in-process and compares; the theorems are in
`Props/C01Rewrites3.lean`. `keep` = the code leaves the operator alone.
-/
namespace VelaVerif.Rewrites3
open VelaVerif.Rewrites VelaVerif.Rewrites2

/-! ## 15. RESIZE of a 1x1 input -/

/-- which branch of `fixup_resize` an NPU resize operator takes (4-D operator shapes `[n, h, w, c]`) -/
inductive ResizeRoute where
  | identity          -- IFM shape = OFM shape: the operator is bypassed
  | add1x1            -- IFM height = width = 1: `convert_resize_1x1_to_add`
  | halfPixelDw       -- bilinear with half-pixel centres: depthwise kernels
  | upscaleChain      -- chain of 2x upscalings (`Rewrites2.resizePlan`)
deriving Repr, DecidableEq, Inhabited

def resizeRoute (bilinear halfPixel : Bool) (ifmShape ofmShape : List Nat) : ResizeRoute :=
  if ifmShape = ofmShape then .identity
  else if ifmShape.getD 1 0 = 1 ∧ ifmShape.getD 2 0 = 1 then .add1x1
  else if bilinear ∧ halfPixel then .halfPixelDw
  else .upscaleChain

/-- what `convert_resize_1x1_to_add` leaves behind: an ADD whose first input is a constant of the operator's OFM shape filled
    with `fill` (quantisation scale = float32 bit pattern `scaleBits`, zero point `zp`), whose second input is the IFM, and whose
    operator shapes are `ifmShape0` (constant), `ifmShape1` (the old IFM) and the UNCHANGED OFM shape -/
structure Resize1x1Add where
  constShape : List Nat
  fill : Int
  scaleBits : Nat
  zp : Int
  ifmShape0 : List Nat
  ifmShape1 : List Nat
  ofmShape : List Nat
deriving Repr, DecidableEq, Inhabited

def convertResize1x1ToAdd (ifmShape ofmShape : List Nat) : Resize1x1Add :=
  ⟨ofmShape, 0, 0x3F800000, 0, ofmShape, ifmShape, ofmShape⟩

/-! ## 16. AVERAGE_POOL with a wide stride -/

/-- the convolution `convert_avg_pool_to_conv2d` creates: kernel `[kh, kw, depth, depth]` with `w[ky, kx, ic, oc] = 1` iff
    `ic = oc`, weight scale `1 / (kh * kw)` (a Python double: the stream compares numerator / denominator), weight zero point
    0, strides kept, dilation 1, rounding away from zero, no bias input -/
structure AvgPoolConv where
  kh : Nat
  kw : Nat
  depth : Nat
  scaleDen : Nat          -- weight scale = 1 / scaleDen
  strideY : Nat
  strideX : Nat
deriving Repr, DecidableEq, Inhabited

/-- `none` = operator left alone (not an average pool, or `stride_x ≤ 3`: the test is on the WIDTH stride only) -/
def convertAvgPoolToConv2d (isAvgPool : Bool) (kh kw strideY strideX depth : Nat) : Option AvgPoolConv :=
  if !isAvgPool then none
  else if strideX ≤ 3 then none
  else some ⟨kh, kw, depth, kh * kw, strideY, strideX⟩

/-- the weight of the created kernel -/
def diagWeight (oc : Nat) : Nat → Nat → Nat → Int := fun _ _ ic => if ic = oc then 1 else 0

/-! ## 17. SHAPE of a statically shaped tensor -/

/-- consumer bookkeeping of `convert_shape_op_to_constant_tensor`: `consumers` = the `op_index` of every entry of the IFM's
    consumer list (`none` = the `None` entry a subgraph output carries). The SHAPE operator is disconnected only when it runs
    on the NPU and the rank of the IFM is the length of the OFM vector; then every consumer entry with ITS `op_index` goes, the
    operator has no inputs, type `Const`, and the OFM values are the IFM shape. -/
structure ShapeConst where
  consumers : List (Option Nat)
  values : List Nat
deriving Repr, DecidableEq, Inhabited

def convertShapeOp (isShape runOnNpu : Bool) (opIndex : Nat) (ifmShape : List Nat) (ofmLen : Nat) (consumers : List (Option Nat)) :
    Option ShapeConst :=
  if !(isShape && runOnNpu) then none
  else if ifmShape.length ≠ ofmLen then none
  else some ⟨consumers.filter (fun c => match c with | none => true | some i => i != opIndex), ifmShape⟩

/-! ## 18. UNPACK -/

/-- `rewrite_unpack_output`: a negative axis counts the dimensions of the INPUT; every output gets the operator shape
    `out[:axis] ++ [1] ++ out[axis:]` padded to 4-D from the left and the split axis in 4-D coordinates.
    `none` = operator left alone. `Shape4D(list)` pads to four dimensions from the left and keeps the FIRST four entries of a
    longer list (no error). -/
structure UnpackOut where
  axis4D : Int
  desired : List Nat
  shape4 : List Nat
deriving Repr, DecidableEq, Inhabited

def rewriteUnpackOutput (isUnpack runOnNpu : Bool) (axis : Int) (inRank : Nat) (outShape : List Nat) : Option UnpackOut :=
  if !(isUnpack && runOnNpu) then none else
  let ax : Int := if axis < 0 then (inRank : Int) + axis else axis
  -- Python slicing `tens.shape[:ax]` / `tens.shape[ax:]` with a (still) negative index counts from the end
  let cut : Nat := if ax < 0 then outShape.length - (-ax).toNat else min ax.toNat outShape.length
  let desired := outShape.take cut ++ [1] ++ outShape.drop cut
  some ⟨ax + (4 - (desired.length : Int)), desired, (full4 desired 1).take 4⟩

/-! ## 19. PACK (the `Op.Pack` branch of `rewrite_concat_ops`) -/

/-- every input gets the operator shape `in[:axis] ++ [1] ++ in[axis:]` (4-D as above), a negative axis counts the dimensions of
    the OUTPUT (input rank + 1), input `idx` is written at offset `idx` along the 4-D axis, and the final assertion compares the
    OFM dimension at `axis` with the number of inputs (`none` = AssertionError) -/
structure PackOut where
  axis4D : Int
  shape4 : List Nat
  offsets : List Nat
deriving Repr, DecidableEq, Inhabited

/-- Python list indexing `l[i]`: a negative index counts from the end, out of range is an IndexError (`none`) -/
def pyIndex (l : List Nat) (i : Int) : Option Nat :=
  if i < 0 then (if (-i).toNat ≤ l.length then l[l.length - (-i).toNat]? else none) else l[i.toNat]?

def rewritePack (axis : Int) (inShape : List Nat) (count : Nat) (ofmShape : List Nat) : Option PackOut :=
  let ax : Int := if axis < 0 then (inShape.length : Int) + 1 + axis else axis
  let cut : Nat := if ax < 0 then inShape.length - (-ax).toNat else min ax.toNat inShape.length
  let desired := inShape.take cut ++ [1] ++ inShape.drop cut
  -- `ofm.shape[axis]` with the RAW attribute (Python indexing: negative from the end; out of range = IndexError)
  if pyIndex ofmShape axis ≠ some count then none else
  some ⟨ax + (4 - (desired.length : Int)), (full4 desired 1).take 4, List.range count⟩

end VelaVerif.Rewrites3
