import VelaVerif.Gen.Core
import VelaVerif.Gen.Config
import VelaVerif.Model.ConfigTypes
/-!
# C18 — model of system-configuration / memory-mode resolution

Hand transcription of

* `ArchitectureFeatures._read_config`      → `readConfig`   (recursion on `inherit`, with fuel)
* `ArchitectureFeatures._get_vela_config`  → `getVelaConfig` = `sysStage`, `memStage`, `finalize`
* `_set_default_sys_config` / `_set_default_mem_mode` (and the `Imx93ArchitectureFeatures` override
  in vela.py)                              → `defaultSys`, `imx93Sys`, `defaultMem`
* `ArchitectureFeatures.__init__` up to `_get_vela_config` + `ConfigParser.read` → `archFeatures`
* `vela.main`: argument handling, `_parse_config`, choice of class and of the arguments it hands to
  `ArchitectureFeatures`                   → `parseConfigPath`, `mainArch`

The model rejects what the code rejects; the error constructor says which Python exception.
Typed defaults replace Python's `str(current_value)` round trip (`float(str(1.0)) = 1.0`, …).
No Mathlib, no `import Lean`.
-/
namespace VelaVerif.Config
open VelaVerif

/-- which exception ends the resolution -/
inductive Err where
  | attr             -- AttributeError: unknown accelerator in `__init__` (the raise reads `self.accelerator_config`)
  | cliConfig        -- CliOptionError("--config", None, "Vela config file not specified")
  | cliSystemConfig  -- CliOptionError("--system-config", …, "Section … not found in Vela config file")
  | cliMemoryMode    -- CliOptionError("--memory-mode", …)
  | sectionNotFound  -- ConfigOptionError("section", …) from `_read_config`
  | selfInherit      -- ConfigOptionError("inherit", … "references its own section")
  | recursion        -- RecursionError: an `inherit` cycle of length ≥ 2 never terminates
  | keyError         -- KeyError from `MemArea[...]` / `MemPort[...]`
  | valueError       -- ValueError from `float(...)` / `int(...)`
  | indexError       -- IndexError: `MemArea.Size` used as an array index
  | overflow         -- OverflowError: burst length / latency does not fit the int64 array
  | cfgConst         -- ConfigOptionError("const_mem_area", …)
  | cfgArena         -- ConfigOptionError("arena_mem_area", …)
  | cfgCache         -- ConfigOptionError("cache_mem_area", …)
  | cfgSizeNeg       -- ConfigOptionError("arena_cache_size", …, ">= 0")
  | cfgSizeBig       -- ConfigOptionError("arena_cache_size", "… out of bounds …")
  | inputFile        -- InputFileError from `_parse_config`
  | iniParse         -- configparser.Error while reading a file
  | argparse         -- SystemExit(2) from argparse (type=int, choices)
deriving DecidableEq, Repr, Inhabited

instance {ε α : Type} [DecidableEq ε] [DecidableEq α] : DecidableEq (Except ε α) := fun a b =>
  match a, b with
  | .ok x, .ok y => if h : x = y then isTrue (by rw [h]) else isFalse (fun e => h (by cases e; rfl))
  | .error x, .error y => if h : x = y then isTrue (by rw [h]) else isFalse (fun e => h (by cases e; rfl))
  | .ok _, .error _ => isFalse (fun e => by cases e)
  | .error _, .ok _ => isFalse (fun e => by cases e)

/-- `ArchitectureFeatures.DEFAULT_CONFIG` (regenerated) -/
def defaultName : String := Gen.Cfg.defaultConfigName

/-! ## `_read_config` -/

/-- `_read_config(section, key, current, found)`; `none` = "keep the current value".
    The parent is read first and the child's own option then replaces the result — exactly the
    statement order of the Python. -/
def readConfig (ini : Ini) : Nat → String → String → Except Err (Option String)
  | 0, _, _ => .error .recursion
  | fuel + 1, sec, key =>
    match ini.lookup sec with
    | none => .error .sectionNotFound
    | some opts =>
      let inherited : Except Err (Option String) :=
        match opts.lookup "inherit" with
        | none => .ok none
        | some p => if p == sec then .error .selfInherit else readConfig ini fuel p key
      match inherited with
      | .error e => .error e
      | .ok r =>
        match opts.lookup key with
        | some v => .ok (some v)
        | none => .ok r

/-- enough fuel for every acyclic chain (`Props.C18.readConfig_terminates`) -/
def fuelFor (ini : Ini) : Nat := ini.length + 1

/-! ## `_get_vela_config` -/

def fieldOr {α : Type} (r : Option String) (dflt : α) (parse : String → Option α) (e : Err) : Except Err α :=
  match r with
  | none => .ok dflt
  | some v =>
    match parse v with
    | some x => .ok x
    | none => .error e

/-- an entry of the `int` NumPy arrays: `int(str)` then the int64 store -/
def intField (r : Option String) (dflt : Int) : Except Err Int :=
  match fieldOr r dflt parseInt .valueError with
  | .error e => .error e
  | .ok v => if v < -(2 ^ 63 : Int) || v ≥ (2 ^ 63 : Int) then .error .overflow else .ok v

structure SysCfg where
  coreClock : Dy
  axi0 : MemArea
  axi1 : MemArea
  tab : Tab
deriving DecidableEq, Repr, Inhabited

structure MemCfg where
  constPort : MemPort
  arenaPort : MemPort
  cachePort : MemPort
  size : Int
deriving DecidableEq, Repr, Inhabited

abbrev Reader := String → Except Err (Option String)

/-- body of `for mem_area in (self.axi0_port, self.axi1_port)` -/
def readArea (rd : Reader) (t : Tab) (a : MemArea) : Except Err Tab :=
  match t.get? a with
  | none => .error .indexError
  | some row => do
    let sc ← (rd (a.key ++ "_clock_scale")) >>= fun r => fieldOr r row.scale parseFloat .valueError
    let bl ← (rd (a.key ++ "_burst_length")) >>= fun r => intField r row.burst
    let rl ← (rd (a.key ++ "_read_latency")) >>= fun r => intField r row.rlat
    let wl ← (rd (a.key ++ "_write_latency")) >>= fun r => intField r row.wlat
    pure (t.set a ⟨sc, bl, rl, wl⟩)

/-- the `has_section(sys_cfg_section)` branch -/
def sysFromFile (rd : Reader) : Except Err SysCfg := do
  let cc ← (rd "core_clock") >>= fun r => fieldOr r Dy.one parseFloat .valueError
  let a0 ← (rd "axi0_port") >>= fun r => fieldOr r MemArea.sram MemArea.ofName? .keyError
  let a1 ← (rd "axi1_port") >>= fun r => fieldOr r MemArea.sram MemArea.ofName? .keyError
  let t ← readArea rd Tab.init a0
  let t ← readArea rd t a1
  pure ⟨cc, a0, a1, t⟩

/-- the `has_section(mem_mode_section)` branch -/
def memFromFile (rd : Reader) (maxAddr : Nat) : Except Err MemCfg := do
  let c ← (rd "const_mem_area") >>= fun r => fieldOr r MemPort.axi0 MemPort.ofName? .keyError
  let a ← (rd "arena_mem_area") >>= fun r => fieldOr r MemPort.axi0 MemPort.ofName? .keyError
  let k ← (rd "cache_mem_area") >>= fun r => fieldOr r MemPort.axi0 MemPort.ofName? .keyError
  let sz ← (rd "arena_cache_size") >>= fun r => fieldOr r (maxAddr : Int) parseInt .valueError
  pure ⟨c, a, k, sz⟩

def dy1e9 : Dy := ⟨false, 1953125, 9⟩      -- 1e9   = 5^9 · 2^9
def dy500e6 : Dy := ⟨false, 1953125, 8⟩    -- 500e6 = 5^9 · 2^8

/-- `ArchitectureFeatures._set_default_sys_config` -/
def defaultSys (isU65 : Bool) : SysCfg :=
  if isU65 then
    { coreClock := dy1e9, axi0 := .sram, axi1 := .dram,
      tab := (Tab.init.set .sram ⟨Dy.one, 32, 32, 32⟩).set .dram ⟨⟨false, 3, -2⟩, 128, 500, 250⟩ }
  else
    { coreClock := dy500e6, axi0 := .sram, axi1 := .offChipFlash,
      tab := (Tab.init.set .sram ⟨Dy.one, 32, 32, 32⟩).set .offChipFlash ⟨⟨false, 1, -3⟩, 128, 64, 64⟩ }

/-- `vela.Imx93ArchitectureFeatures._set_default_sys_config` (no Ethos-U55 branch) -/
def imx93Sys : SysCfg :=
  { coreClock := dy1e9, axi0 := .sram, axi1 := .dram,
    tab := (Tab.init.set .sram ⟨Dy.one, 32, 32, 32⟩).set .dram ⟨⟨false, 15, -6⟩, 128, 500, 250⟩ }

/-- `_set_default_mem_mode` -/
def defaultMem (isU65 : Bool) (maxAddr : Nat) : MemCfg :=
  if isU65 then ⟨.axi1, .axi1, .axi0, 384 * 1024⟩ else ⟨.axi1, .axi0, .axi0, maxAddr⟩

def sysStage (inp : Input) : Except Err SysCfg :=
  let sec := "System_Config." ++ inp.systemConfig
  let dflt : SysCfg := if inp.imx93 then imx93Sys else defaultSys inp.isU65
  match inp.ini with
  | some ini =>
    if ini.hasSection sec then sysFromFile (readConfig ini (fuelFor ini) sec)
    else if inp.systemConfig == defaultName then .ok dflt
    else .error .cliSystemConfig
  | none =>
    if inp.systemConfig == defaultName then .ok dflt else .error .cliConfig

def memStage (inp : Input) : Except Err MemCfg :=
  let sec := "Memory_Mode." ++ inp.memoryMode
  match inp.ini with
  | some ini =>
    if ini.hasSection sec then memFromFile (readConfig ini (fuelFor ini) sec) inp.maxAddr
    else if inp.memoryMode == defaultName then .ok (defaultMem inp.isU65 inp.maxAddr)
    else .error .cliMemoryMode
  | none =>
    if inp.memoryMode == defaultName then .ok (defaultMem inp.isU65 inp.maxAddr) else .error .cliConfig

/-- "override sram to onchipflash": constants would sit in the SRAM that also holds arena and cache -/
def sramOverride (s : SysCfg) (m : MemCfg) : SysCfg × MemCfg :=
  if portArea s.axi0 s.axi1 m.constPort == .sram && m.constPort == m.arenaPort && m.arenaPort == m.cachePort then
    let tab := s.tab.set .onChipFlash s.tab.sram
    match m.constPort with
    | .axi0 => ({ s with axi1 := .onChipFlash, tab := tab }, { m with constPort := .axi1 })
    | .axi1 => ({ s with axi0 := .onChipFlash, tab := tab }, { m with constPort := .axi0 })
  else (s, m)

def legalConstArea (a : MemArea) : Bool := a == .dram || a == .onChipFlash || a == .offChipFlash
def legalArenaArea (a : MemArea) : Bool := a == .sram || a == .dram
def legalCacheArea (a : MemArea) : Bool := a == .sram

/-- "override sram usage": a command-line size replaces whatever the memory mode gave -/
def chosenSize (cli : Option Int) (fileSize : Int) : Int :=
  match cli with
  | some v => v
  | none => fileSize

/-- "check configuration" and "assign existing memory areas" -/
def checkArch (maxAddr : Nat) (s : SysCfg) (m : MemCfg) (size : Int) : Except Err Arch :=
  let ca := portArea s.axi0 s.axi1 m.constPort
  let aa := portArea s.axi0 s.axi1 m.arenaPort
  let ka := portArea s.axi0 s.axi1 m.cachePort
  if legalConstArea ca then
    if legalArenaArea aa then
      if legalCacheArea ka then
        if size < 0 then .error .cfgSizeNeg
        else if size > (maxAddr : Int) then .error .cfgSizeBig
        else .ok { coreClock := s.coreClock, axi0 := s.axi0, axi1 := s.axi1, tab := s.tab,
                   constPort := m.constPort, arenaPort := m.arenaPort, cachePort := m.cachePort,
                   arenaCacheSize := size, permanent := ca, featureMap := aa, fast := ka }
      else .error .cfgCache
    else .error .cfgArena
  else .error .cfgConst

/-- everything of `_get_vela_config` after the two sections have been read -/
def finalize (maxAddr : Nat) (cli : Option Int) (s0 : SysCfg) (m0 : MemCfg) : Except Err Arch :=
  let sm := sramOverride s0 m0
  checkArch maxAddr sm.1 sm.2 (chosenSize cli sm.2.size)

def getVelaConfig (inp : Input) : Except Err Arch := do
  let s ← sysStage inp
  let m ← memStage inp
  finalize inp.maxAddr inp.cli s m

/-! ## `ArchitectureFeatures(...)` -/

def lowerStr (s : String) : String := String.ofList (s.toList.map Char.toLower)

/-- `ConfigParser().read(files)`: unreadable files are skipped, later files shadow earlier ones -/
def loadFiles (env : Env) : List String → Ini → Except Err Ini
  | [], acc => .ok acc
  | p :: ps, acc =>
    match env.files.lookup (absPath env.cwd p) with
    | none => loadFiles env ps acc
    | some none => .error .iniParse
    | some (some ini) => loadFiles env ps (mergeIni acc ini)

/-- `imxMode`: 0 = `ArchitectureFeatures`; 1 = `Imx93ArchitectureFeatures` as written (its default
    system configuration for every accelerator); 2 = the same with an Ethos-U55 fallback to the base class -/
def archFeatures (env : Env) (files : Option (List String)) (imxMode : Nat) (acc sys mem : String)
    (cli : Option Int) : Except Err Arch :=
  match Gen.accelerators.find? (fun r => r.name == lowerStr acc) with
  | none => .error .attr
  | some row =>
    let ini? : Except Err (Option Ini) := match files with
      | none => .ok none
      | some fs => (loadFiles env fs []).map some
    match ini? with
    | .error e => .error e
    | .ok ini =>
      getVelaConfig { ini := ini, isU65 := row.isU65, maxAddr := row.maxAddressOffset, systemConfig := sys,
                      memoryMode := mem, cli := cli, imx93 := imxMode == 1 || (imxMode == 2 && row.isU65) }

/-! ## `vela.main` -/

/-- degrees of freedom between the code as written and the documented behaviour -/
structure Variant where
  /-- `vela_config_files=config_files` (resolved paths) instead of `args.config` -/
  passResolved : Bool
  /-- parser default of `--arena-cache-size` -/
  cliDefault : Option Int
  /-- see `archFeatures`; applies when no `--config` is given and both selections are `internal-default` -/
  imxMode : Nat
  /-- parser default of `--accelerator-config` -/
  accDefault : String
deriving Repr

/-- the code as it stands (the parser defaults are regenerated from the live parser) -/
def Variant.asWritten : Variant := ⟨false, Gen.Cfg.cliArenaCacheSize, 1, Gen.Cfg.cliAccelerator⟩

/-- `len(config.split(os.path.sep)) == 2 and not config.startswith(os.path.sep) and not
    config.startswith(".") and not config.startswith("~")` on the normalised path -/
def twoComponents (cs : List Char) : Bool :=
  (splitOnChar '/' cs).length == 2 && cs.head? != some '/' && cs.head? != some '.' && cs.head? != some '~'

/-- `config_path` of `_parse_config`: under the bundled directory for `Dir/file.ini`, else as given -/
def configTarget (env : Env) (config : String) : String :=
  if twoComponents (normpath config).toList then pathJoin env.bundled (normpath config) else normpath config

/-- `_parse_config` of `main()` -/
def parseConfigPath (env : Env) (config : String) : Except Err String :=
  if hasIniExt config then
    if (env.files.lookup (absPath env.cwd (configTarget env config))).isSome then .ok (configTarget env config)
    else .error .inputFile
  else .error .inputFile

def mapPaths (env : Env) : List String → Except Err (List String)
  | [] => .ok []
  | c :: cs =>
    match parseConfigPath env c with
    | .error e => .error e
    | .ok p =>
      match mapPaths env cs with
      | .error e => .error e
      | .ok ps => .ok (p :: ps)

/-- `main()` from the parsed arguments to the `ArchitectureFeatures` object -/
def mainArch (v : Variant) (env : Env) (a : MainArgs) : Except Err Arch :=
  let cli? : Except Err (Option Int) := match a.arenaCacheSize with
    | none => .ok v.cliDefault
    | some tok =>
      match parseInt tok with
      | some n => .ok (some n)
      | none => .error .argparse
  match cli? with
  | .error e => .error e
  | .ok cli =>
    let acc := a.accelerator.getD v.accDefault
    if !(Gen.accelerators.any fun r => r.name == acc) then .error .argparse else
    match mapPaths env a.configs with
    | .error e => .error e
    | .ok resolved =>
      let sys := a.systemConfig.getD Gen.Cfg.cliSystemConfig
      let mem := a.memoryMode.getD Gen.Cfg.cliMemoryMode
      if a.configs.isEmpty && sys == defaultName && mem == defaultName then
        archFeatures env none v.imxMode acc defaultName defaultName cli
      else
        let files := if a.configs.isEmpty then none else some (if v.passResolved then resolved else a.configs)
        archFeatures env files 0 acc sys mem cli

end VelaVerif.Config
