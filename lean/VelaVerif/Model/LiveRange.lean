/-!
# Model of Vela's live-range extraction (`ethosu/vela/live_range.py`)

Hand transcription of

* `LiveRange.__init__ / add_tensor / mark_usage / set_buffer_size`      → `LR.new`, `LR.addTensor`, `LR.markUsage`
* `LiveRangeGraph.get_or_create_range / fuse_ranges`                     → `Graph.getOrCreate`, `Graph.apply (.fuse ..)`
* `tensor_should_be_ignored`                                             → `shouldIgnore`
* `_get_ifm_to_fuse` / `merge_elementwise_op_ranges`                     → `ifmToFuse`, `fuseEvents`
* `extract_live_ranges_from_schedule`                                    → `npuLoop`, `npuEvents`, `extractNpu`
* `extract_live_ranges_from_cascaded_passes`                             → `cpuLoop`, `cpuEvents`, `extractCpu`

The Python functions walk a schedule and mutate one `LiveRangeGraph`.  The model splits that in two
(the composition is the transcription):

1. the walk is turned into the flat list of graph operations it performs, in the order in which Python
   performs them (`Ev`: `fuse_ranges`, `get_or_create_range(..).mark_usage(..)`, the rolling-buffer variant with
   `set_buffer_size`, the final sweep over variable tensors), together with the time bookkeeping
   (`lr_graph.current_time`, the local dict `time_for_cascade`, `op_info.time_index`);
2. `Graph.run` applies the operations to the graph (`lrs` = list of ranges in creation order,
   `ranges` = the insertion-ordered dict `tens -> range` as an association list `tensor ↦ index into lrs`;
   two tensors fused into one `LiveRange` *object* map to the same index).

What is abstracted: a tensor is the record of exactly those attributes the extraction reads (`Tensor`); the
membership tests `mem_area == target_mem_area and mem_type in target_mem_type_set` are evaluated by the
harness for the target of the call and arrive as `inTarget` (so one abstract schedule = one call).
`target_mem_area`/`target_mem_type_set` are never `None` on the extraction paths (they are only `None` for
`ofm_can_reuse_ifm` called from the scheduler), so that branch of `tensor_should_be_ignored` is not modelled.
Not modelled: alignment (`Model/LiveRangeAlign.lean`, C05), `processed_subgraphs` (fresh graphs only), CPU
operators that carry a *list* of subgraphs (While); `progress_print`.

Time.  `current_time` advances by 2 per scheduled operation that is not a later member of a cascade, and by 2
per CPU pass.  `mark_usage(t)` covers the two ticks `[t, t+1]` (end inclusive, as `verify_allocation`,
the allocators and `Model/Alloc.lean` read it): tick `t` is the body of the operation, tick `t+1` its tail, the
tick at which the *next* operation's pre-buffered weights are fetched (`start_time -= 1`).  All operations of
one cascade share one time index.
-/
namespace VelaVerif.LiveRange

inductive Err where
  | assert_     -- AssertionError (`add_tensor` size check, `assert out_tens not in self.ranges`)
  | attribute   -- AttributeError: a Memcpy operation without IFM (`ifm.purpose` on None)
  | internal    -- not a Python outcome: index out of `lrs` (proved unreachable for well-formed graphs)
deriving Repr, DecidableEq

/-- the values of `TensorPurpose` the extraction distinguishes -/
inductive Purpose where
  | weights | fsBias | virtual_ | other
deriving Repr, DecidableEq, Inhabited

/-- The attributes of a `Tensor` object the extraction reads.  `id` is the object identity (dict key of
    `LiveRangeGraph.ranges`, `tens == ps.ifm_tensor`), `eqId` the `equivalence_id` (`Tensor.equivalent`). -/
structure Tensor where
  id : Nat
  eqId : Nat
  purpose : Purpose
  /-- `tens.mem_area == target_mem_area and tens.mem_type in target_mem_type_set` -/
  inTarget : Bool
  /-- `storage_size()` -/
  size : Nat
  /-- `shape == []` -/
  shapeEmpty : Bool
  /-- `ifm_write_protected` -/
  writeProtected : Bool
  format : Nat
  dtype : Nat
  /-- `len(consumer_list)` -/
  consumers : Nat
  /-- `len(ops)` -/
  producers : Nat
  isVariable : Bool
  /-- `pre_buffer` (buffered weight tensors only) -/
  preBuffer : Bool
deriving Repr, DecidableEq, Inhabited

/-- `tensor_should_be_ignored(tens, target_mem_area, target_mem_type_set)` with both targets given -/
def shouldIgnore (t : Tensor) : Bool := t.purpose == .virtual_ || !t.inTarget

/-! ## `LiveRange` -/

def startInit : Int := 99999999999
def endInit : Int := -1

structure LR where
  start : Int
  end_ : Int
  size : Nat
  /-- ids of `self.tensors`; the range is named after the first -/
  tensors : List Nat
deriving Repr, DecidableEq, Inhabited

/-- `LiveRange.add_tensor` -/
def LR.addTensor (r : LR) (t : Tensor) : Except Err LR :=
  if r.size == 0 then .ok { r with size := t.size, tensors := r.tensors ++ [t.id] }
  else if r.size < t.size then .error .assert_
  else .ok { r with tensors := r.tensors ++ [t.id] }

/-- `LiveRange(tens, alignment)`: `size = 0`, then `add_tensor(tens)` takes its first branch -/
def LR.new (t : Tensor) : LR := { start := startInit, end_ := endInit, size := t.size, tensors := [t.id] }

/-- `LiveRange.mark_usage(op_time, op_length)` -/
def LR.markUsage (r : LR) (opTime opLength : Int) : LR :=
  let s := max opTime 0
  let e := opTime + opLength
  if e < s then r else { r with start := min r.start s, end_ := max r.end_ e }

/-- `LiveRange.set_buffer_size` (the `mem_area = Sram` side effect is not observable here) -/
def LR.setBufferSize (r : LR) (size : Nat) : LR := { r with size := size }

/-! ## `LiveRangeGraph` -/

structure Graph where
  /-- `lrs`: all created ranges, in creation order -/
  lrs : List LR
  /-- `ranges`: dict `tens -> range` in insertion order, the range as its index in `lrs` -/
  ranges : List (Tensor × Nat)
deriving Repr, Inhabited

def Graph.empty : Graph := { lrs := [], ranges := [] }

/-- the loop of `get_or_create_range`: first entry of `ranges` whose key is `equivalent` to `tens` -/
def Graph.lookup (g : Graph) (t : Tensor) : Option Nat :=
  (g.ranges.find? (fun p => p.1.eqId == t.eqId)).map (·.2)

/-- `get_or_create_range` (alignment not modelled) -/
def Graph.getOrCreate (g : Graph) (t : Tensor) : Graph × Nat :=
  match g.lookup t with
  | some i => (g, i)
  | none => ({ lrs := g.lrs ++ [LR.new t], ranges := g.ranges ++ [(t, g.lrs.length)] }, g.lrs.length)

/-- the range the allocator will see for `t`: `get_or_create_range(t)` on a graph that has one -/
def Graph.rangeOf (g : Graph) (t : Tensor) : Option LR :=
  match g.lookup t with
  | some i => g.lrs[i]?
  | none => none

/-- every entry of `ranges` points into `lrs` (holds for the empty graph and is preserved by every operation) -/
def Graph.WF (g : Graph) : Prop := ∀ p ∈ g.ranges, p.2 < g.lrs.length

/-- the range `get_or_create_range(t)` returns contains the ticks `lo … hi` (both inclusive) -/
def Graph.Covers (g : Graph) (t : Tensor) (lo hi : Int) : Prop :=
  ∃ r : LR, g.rangeOf t = some r ∧ r.start ≤ lo ∧ hi ≤ r.end_

/-- One mutation of the graph, as performed by the extraction functions. -/
inductive Ev where
  /-- `lr_graph.fuse_ranges(in_tens, out_tens)` -/
  | fuse (inp out : Tensor)
  /-- `rng = lr_graph.get_or_create_range(tens); rng.mark_usage(time, len)` -/
  | mark (t : Tensor) (time len : Int)
  /-- `rng = get_or_create_range(tens); rng.set_buffer_size(size); rng.mark_usage(time)` -/
  | rolling (t : Tensor) (size : Nat) (time : Int)
  /-- `for tens, rng in lr_graph.ranges.items(): if tens.is_variable: rng.mark_usage(0, len)` -/
  | markVars (len : Int)
  /-- the walk itself raises (Memcpy without IFM) -/
  | fail
deriving Repr

def Graph.apply (g : Graph) : Ev → Except Err Graph
  | .mark t time len =>
    let gi := g.getOrCreate t
    .ok { lrs := gi.1.lrs.modify gi.2 (fun r => r.markUsage time len), ranges := gi.1.ranges }
  | .rolling t size time =>
    let gi := g.getOrCreate t
    .ok { lrs := gi.1.lrs.modify gi.2 (fun r => (r.setBufferSize size).markUsage time 1), ranges := gi.1.ranges }
  | .fuse inp out =>
    let gi := g.getOrCreate inp
    if gi.1.ranges.any (fun p => p.1.id == out.id) then .error .assert_
    else match gi.1.lrs[gi.2]? with
      | none => .error .internal
      | some r =>
        match r.addTensor out with
        | .error e => .error e
        | .ok r' => .ok { lrs := gi.1.lrs.set gi.2 r', ranges := gi.1.ranges ++ [(out, gi.2)] }
  | .markVars len =>
    .ok { lrs := g.ranges.foldl
            (fun lrs p => if p.1.isVariable then lrs.modify p.2 (fun r => r.markUsage 0 len) else lrs) g.lrs,
          ranges := g.ranges }
  | .fail => .error .attribute

def Graph.run (g : Graph) : List Ev → Except Err Graph
  | [] => .ok g
  | e :: es =>
    match g.apply e with
    | .ok g1 => g1.run es
    | .error err => .error err

/-- the ticks `[lo, hi]` a graph operation adds to range `i`; the target is judged in a later graph `g`
    (an entry of `ranges` never changes, `Graph.Le`) -/
def Ev.Hits (g : Graph) (i : Nat) (lo hi : Int) : Ev → Prop
  | .mark t a b => g.lookup t = some i ∧ max a 0 ≤ a + b ∧ lo = max a 0 ∧ hi = a + b
  | .rolling t _ a => g.lookup t = some i ∧ max a 0 ≤ a + 1 ∧ lo = max a 0 ∧ hi = a + 1
  | .markVars len => (∃ t : Tensor, (t, i) ∈ g.ranges ∧ t.isVariable = true) ∧ 0 ≤ len ∧ lo = 0 ∧ hi = len
  | .fuse _ _ => False
  | .fail => False


/-! ## `_get_ifm_to_fuse` -/

/-- what `_get_ifm_to_fuse` reads from `sched_op` / `sched_op.parent_op` -/
structure FuseInfo where
  /-- `sched_op.op_type.is_elementwise_op()` -/
  elementwise : Bool
  /-- `elem_op.memory_function is Op.VariableTensorWrite` -/
  varWrite : Bool
  /-- `sched_op.op_type == Op.Memcpy` -/
  memcpy : Bool
  /-- `parent_op.ofm`, `ofm_shapes[0]` -/
  ofm : Tensor
  ofmShape : List Nat
  /-- `parent_op.ifm`, `ifm_shapes[0]` -/
  ifm : Option Tensor
  ifmShape : List Nat
  /-- `parent_op.ifm2`, `ifm_shapes[1]` -/
  ifm2 : Option Tensor
  ifm2Shape : List Nat
deriving Repr, Inhabited

/-- the conjunction tested for one input of an elementwise operation -/
def candidateOk (fi : FuseInfo) (shape : List Nat) (t : Tensor) : Bool :=
  shape == fi.ofmShape            -- inp.op_shape == outp.op_shape
  && !t.shapeEmpty                -- inp.tens.shape != []
  && !t.writeProtected            -- not inp.tens.ifm_write_protected
  && !shouldIgnore t              -- not tensor_should_be_ignored(inp.tens, ..)
  && t.format == fi.ofm.format    -- inp.tens.format == outp.tens.format
  && t.dtype == fi.ofm.dtype      -- inp.tens.dtype == outp.tens.dtype
  && t.consumers == 1             -- len(inp.tens.consumer_list) == 1
  && fi.ofm.producers == 1        -- len(outp.tens.ops) == 1

/-- `inps` of `_get_ifm_to_fuse` -/
def FuseInfo.inps (fi : FuseInfo) : List (List Nat × Tensor) :=
  (match fi.ifm with | some t => [(fi.ifmShape, t)] | none => []) ++
  (match fi.ifm2 with | some t => [(fi.ifm2Shape, t)] | none => [])

/-- `_get_ifm_to_fuse(sched_op, target_mem_area, target_mem_type_set)`; `none` in the outer option = the
    Python code raises -/
def ifmToFuse (fi : FuseInfo) : Option (Option Tensor) :=
  if fi.elementwise && !fi.varWrite then
    if !shouldIgnore fi.ofm then
      some ((fi.inps.find? (fun p => candidateOk fi p.1 p.2)).map (·.2))
    else some none
  else if fi.memcpy then
    match fi.ifm with
    | none => none
    | some ifm =>
      -- `or ifm.ifm_write_protected` (repair C01-27): a Memcpy does not share the memory of a write protected input
      if !(shouldIgnore ifm || shouldIgnore fi.ofm || ifm.consumers > 1 || ifm.writeProtected) then some (some ifm)
      else some none
  else some none

/-- `merge_elementwise_op_ranges` -/
def fuseEvents (fi : FuseInfo) : List Ev :=
  match ifmToFuse fi with
  | none => [.fail]
  | some none => []
  | some (some ifm) => [.fuse ifm fi.ofm]

/-! ## `extract_live_ranges_from_schedule` -/

/-- what the extraction reads from one `SchedulerOperation`, its `SchedulerOpInfo` and its pass -/
structure SchedOp where
  /-- `op_info.cascade` -/
  cascade : Nat
  /-- `sg.schedule.cascades.get(cascade, None) is not None` -/
  inCascade : Bool
  fuse : FuseInfo
  /-- `ps.inputs`, `ps.outputs`, `ps.intermediates` -/
  inputs : List Tensor
  outputs : List Tensor
  intermediates : List Tensor
  /-- identity of `ps.ifm_tensor` -/
  psIfm : Option Nat
  /-- `sched_op in cascade_info.buffers` → `buffers[sched_op].elements() * sched_op.ifm.dtype.size_in_bytes()` -/
  rolling : Option Nat
  /-- `op_info.buffered_weight_tensors` -/
  buffered : List Tensor
  /-- `len(op_info.ofm_depth_slices)` -/
  nDepthSlices : Nat
deriving Repr, Inhabited

def SchedOp.tensors (op : SchedOp) : List Tensor := op.inputs ++ op.outputs ++ op.intermediates

structure Schedule where
  /-- `target_mem_area == MemArea.Sram` -/
  sram : Bool
  /-- `sg.sched_ops` -/
  ops : List SchedOp
  /-- `sg.output_tensors` -/
  outputs : List Tensor
deriving Repr, Inhabited

/-- the rolling-buffer test of the tensor loop -/
def isRolling (sram : Bool) (op : SchedOp) (x : Tensor) : Bool :=
  sram && op.inCascade && op.psIfm == some x.id && op.rolling.isSome

/-- the `continue` test of the tensor loop -/
def isSkipped (x : Tensor) : Bool :=
  x.purpose == .weights || x.purpose == .fsBias || !x.inTarget

/-- body of `for tens in ps.inputs + ps.outputs + ps.intermediates` -/
def tensorEvent (sram : Bool) (op : SchedOp) (t : Nat) (x : Tensor) : Option Ev :=
  if isRolling sram op x then
    match op.rolling with
    | some sz => some (.rolling x sz t)
    | none => none
  else if isSkipped x then none
  else some (.mark x t 1)

/-- start and length handed to `mark_usage` for `buffered_weight_tensors[idx]` of an operation at time `t` -/
def bufferedWindow (op : SchedOp) (t : Nat) (idx : Nat) (w : Tensor) : Int × Int :=
  let start : Int := if w.preBuffer then (t : Int) - 1 else t
  let len : Int := if w.preBuffer then 2 else 1
  let n := op.buffered.length
  -- Double buffering: reduce end time of the buffer that is not used last
  let len := if n > 1 && op.nDepthSlices % n != idx then len - 1 else len
  (start, len)

/-- body of `for idx, weight_tens in enumerate(op_info.buffered_weight_tensors)` -/
def bufferedEvent (op : SchedOp) (t : Nat) (p : Tensor × Nat) : Option Ev :=
  if p.1.inTarget then
    let w := bufferedWindow op t p.2 p.1
    some (.mark p.1 w.1 w.2)
  else none

/-- all graph operations of one iteration of the `sched_ops` loop, `t = time_to_set` -/
def opEvents (sram : Bool) (op : SchedOp) (t : Nat) : List Ev :=
  (if op.inCascade then [] else fuseEvents op.fuse) ++
  op.tensors.filterMap (tensorEvent sram op t) ++
  op.buffered.zipIdx.filterMap (bufferedEvent op t)

/-- `lr_graph.current_time` and the local dict `time_for_cascade` (newest binding first) -/
structure TimeState where
  current : Nat
  cascades : List (Nat × Nat)
deriving Repr, Inhabited

/-- `time_for_cascade.get(cascade, lr_graph.current_time)` -/
def TimeState.timeFor (ts : TimeState) (cascade : Nat) : Nat :=
  match ts.cascades.find? (fun p => p.1 == cascade) with
  | some p => p.2
  | none => ts.current

/-- the time bookkeeping at the end of one iteration -/
def TimeState.step (ts : TimeState) (cascade : Nat) : TimeState :=
  let t := ts.timeFor cascade
  let cur := if t == ts.current then ts.current + 2 else ts.current
  { current := cur, cascades := if cascade != 0 then (cascade, t) :: ts.cascades else ts.cascades }

/-- the `sched_ops` loop: per operation its `time_index` and its graph operations; the final time state -/
def npuLoop (sram : Bool) : List SchedOp → TimeState → List (Nat × List Ev) × TimeState
  | [], ts => ([], ts)
  | op :: rest, ts =>
    let t := ts.timeFor op.cascade
    let r := npuLoop sram rest (ts.step op.cascade)
    ((t, opEvents sram op t) :: r.1, r.2)

/-- the final loop over `sg.output_tensors` -/
def outputEvents (outs : List Tensor) (t : Nat) : List Ev :=
  (outs.filter (·.inTarget)).map (fun x => Ev.mark x t 1)

structure NpuWalk where
  events : List Ev
  /-- `lr_graph.current_time` on return -/
  current : Nat
  /-- `op_info.time_index` per scheduled operation -/
  times : List Nat
deriving Repr

def npuWalk (s : Schedule) (ct : Nat) : NpuWalk :=
  let r := npuLoop s.sram s.ops { current := ct, cascades := [] }
  { events := r.1.flatMap (·.2) ++ outputEvents s.outputs r.2.current,
    current := r.2.current,
    times := r.1.map (·.1) }

structure NpuResult where
  graph : Graph
  current : Nat
  times : List Nat
deriving Repr

/-- `extract_live_ranges_from_schedule(sg, target_mem_area, target_mem_type_set, lr_graph)` with
    `lr_graph = (g, ct)` -/
def extractNpu (s : Schedule) (g : Graph) (ct : Nat) : Except Err NpuResult :=
  let w := npuWalk s ct
  match g.run w.events with
  | .ok g' => .ok { graph := g', current := w.current, times := w.times }
  | .error e => .error e

/-! ## `extract_live_ranges_from_cascaded_passes` -/

/-- one `CascadedPass` of a CPU subgraph -/
structure CpuPass where
  inputs : List Tensor
  intermediates : List Tensor
  outputs : List Tensor
  /-- `cps.passes[0].ops[0]` is a `CustomNpuOp` whose `attrs["subgraph"]` is this NPU subgraph -/
  npu : Option Schedule
deriving Repr, Inhabited

structure CpuGraph where
  /-- `MemType.Permanent_CPU not in target_mem_type_set` -/
  descend : Bool
  passes : List CpuPass
  /-- `sg.output_tensors` -/
  outputs : List Tensor
deriving Repr, Inhabited

def cpuMarks (l : List Tensor) (t : Nat) : List Ev :=
  (l.filter (fun x => !shouldIgnore x)).map (fun x => Ev.mark x t 1)

/-- per pass: (time on entry, `cps.time` on exit, time indices of the NPU operations, graph operations) -/
structure PassWalk where
  entry : Nat
  time : Nat
  npuTimes : List Nat
  events : List Ev
deriving Repr

/-- one iteration of the `cascaded_passes` loop entered at `lr_graph.current_time = ct`; second component:
    `current_time` afterwards -/
def passWalk (descend : Bool) (p : CpuPass) (ct : Nat) : PassWalk × Nat :=
  match (if descend then p.npu else none) with
  | some s =>
    let w := npuWalk s ct
    ({ entry := ct, time := w.current, npuTimes := w.times,
       events := cpuMarks p.inputs ct ++ w.events ++ cpuMarks (p.intermediates ++ p.outputs) w.current }, w.current)
  | none =>
    ({ entry := ct, time := ct, npuTimes := [],
       events := cpuMarks p.inputs ct ++ cpuMarks (p.intermediates ++ p.outputs) ct }, ct + 2)

/-- the `cascaded_passes` loop -/
def cpuLoop (descend : Bool) : List CpuPass → Nat → List PassWalk × Nat
  | [], ct => ([], ct)
  | p :: rest, ct =>
    let r := cpuLoop descend rest (passWalk descend p ct).2
    ((passWalk descend p ct).1 :: r.1, r.2)

structure CpuWalk where
  events : List Ev
  current : Nat
  passes : List PassWalk
deriving Repr

def cpuWalk (c : CpuGraph) (ct : Nat) : CpuWalk :=
  let r := cpuLoop c.descend c.passes ct
  { events := r.1.flatMap (·.events) ++ cpuMarks c.outputs r.2 ++ [Ev.markVars ((r.2 : Int) + 1)],
    current := r.2,
    passes := r.1 }

structure CpuResult where
  graph : Graph
  current : Nat
  passes : List PassWalk
deriving Repr

/-- `extract_live_ranges_from_cascaded_passes(sg, target_mem_area, target_mem_type_set, lr_graph)` -/
def extractCpu (c : CpuGraph) (g : Graph) (ct : Nat) : Except Err CpuResult :=
  let w := cpuWalk c ct
  match g.run w.events with
  | .ok g' => .ok { graph := g', current := w.current, passes := w.passes }
  | .error e => .error e

/-! ## Well-formedness of an abstract schedule (validated on every real schedule by the harness)

`consumer_list` is maintained by `Subgraph.update_consumers`: one entry per consuming operation input, plus one
`None` entry for a subgraph output.  The fuse rule relies on it; `consumersTruthful` states the part it relies on:
the recorded count is at least the number of scheduled operations that read the tensor, plus one if the subgraph
hands the tensor out. -/

/-- tensors an operation reads: the inputs of its pass and the IFM/IFM2 of its parent operation -/
def SchedOp.readTensors (op : SchedOp) : List Tensor :=
  op.inputs ++ (match op.fuse.ifm with | some t => [t] | none => []) ++ (match op.fuse.ifm2 with | some t => [t] | none => [])

def SchedOp.readsId (op : SchedOp) (x : Nat) : Bool := op.readTensors.any (fun t => t.id == x)

/-- number of scheduled operations that read the tensor with identity `x` -/
def readerCount (s : Schedule) (x : Nat) : Nat := (s.ops.filter (fun op => op.readsId x)).length

def isOutput (s : Schedule) (x : Nat) : Bool := s.outputs.any (fun t => t.id == x)

def consumersTruthful (s : Schedule) : Bool :=
  s.ops.all fun op => op.readTensors.all fun z =>
    decide (readerCount s z.id + (if isOutput s z.id then 1 else 0) ≤ z.consumers)

/-! ## Inclusive time overlap, as the allocators and `verify_allocation` read the ranges -/

def timeOverlap (a b : LR) : Bool := decide (max a.start b.start ≤ min a.end_ b.end_)

end VelaVerif.LiveRange
