/-!
# The public operation vocabulary of `ethosu/vela/api.py` (plain data, no logic)

`NpuFeatureMap`, `NpuKernel`, `NpuPadding`, `NpuAddressRange`, `NpuActivation`, the five operation
classes.  Python ints are `Int` (a shape of 0 gives `-1` for an `_M1` register, and the emitter
masks it — the model must see that).  Enumerations travel as their ordinal in the `api.py`
declaration order (`Gen.EmitTbl.api*` lists give the names).

Values that the generator obtains from mechanisms covered by *other* properties are carried along
as integers (`Oracle`): SHRAM layout + accumulator format (`try_block_config`, C15), `BLOCKDEP`
and the wait watermarks (`calc_blockdep` / `get_wait_dependency`, C04), and the `(scale, shift)`
pairs of the `OFM/OPA/OPB_SCALE` registers + `op_to_scale` (`scaling.*`, C09).  Activation min/max and
the IFM2 scalar arrive already quantised (float32 `quantise`, transcribed independently in the harness).
-/
namespace VelaVerif.NpuOp

structure DType where
  bits : Nat
  signed : Bool
deriving Repr, DecidableEq, Inhabited

def DType.bytes (d : DType) : Int := d.bits / 8
def DType.minValue (d : DType) : Int := if d.signed then -(2 ^ (d.bits - 1) : Int) else 0
def DType.maxValue (d : DType) : Int := if d.signed then (2 ^ (d.bits - 1) : Int) - 1 else (2 ^ d.bits : Int) - 1

structure Shape3 where
  height : Int
  width : Int
  depth : Int
deriving Repr, DecidableEq, Inhabited

structure FM where
  dtype : DType
  region : Int
  shape : Shape3
  height0 : Int
  height1 : Int
  width0 : Int
  addresses : List Int          -- 4 tile base addresses
  hasQuant : Bool
  zeroPoint : Int
  nhcwb16 : Bool
  strides : Option Shape3       -- explicit strides (height = STRIDE_Y, width = STRIDE_X, depth = STRIDE_C)
  scaled : Bool                 -- quantization present with scale_f32 ≠ None
deriving Repr, DecidableEq, Inhabited

structure Kernel where
  width : Int
  height : Int
  strideX : Int
  strideY : Int
  dilationX : Int
  dilationY : Int
deriving Repr, DecidableEq, Inhabited

structure Padding where
  top : Int
  left : Int
  bottom : Int
  right : Int
deriving Repr, DecidableEq, Inhabited

structure AddrRange where
  region : Int
  address : Int
  length : Int
deriving Repr, DecidableEq, Inhabited

structure Activation where
  opType : Nat                  -- ordinal in api.NpuActivationOp: NONE_OR_RELU, TANH, SIGMOID, TABLE_LOOKUP
  qmin : Option Int             -- quantise(act.min, ofm.quantization), before clamping
  qmax : Option Int
  lutIndex : Int
deriving Repr, DecidableEq, Inhabited

structure Oracle where
  ibEnd : Int
  abStart : Int
  ibStart2 : Int
  accFormat : Int
  blockdep : Int
  kernelWait : Int              -- Watermark.npu (-1: none)
  dmaWait : Int                 -- Watermark.dma (-1: none)
  opToScale : Nat
  ofmScale : Option (Int × Int) -- (scale, shift) handed to cmd1_with_offset(NPU_SET_OFM_SCALE, …)
  opaScale : Option (Int × Int)
  opbScale : Option (Int × Int)
deriving Repr, DecidableEq, Inhabited

inductive Kind where
  | conv | depthwise | pool | elementwise
deriving Repr, DecidableEq, Inhabited

structure BlockOp where
  kind : Kind
  subOp : Nat                   -- ordinal in api.NpuPoolingOp / api.NpuElementWiseOp
  ifm : FM
  ifm2 : Option FM
  ifm2Scalar : Option Int       -- quantised scalar
  ofm : FM
  kernel : Option Kernel
  padding : Option Padding
  weights : List AddrRange
  biases : List AddrRange
  activation : Option Activation
  blockConfig : Shape3
  rounding : Nat                -- ordinal in api.NpuRoundingMode
  upscale : Nat                 -- ordinal in api.NpuResamplingMode
  partKernelFirst : Bool        -- block_traversal (conv only)
  reversedOperands : Bool
  rescaleKind : Nat             -- 0 none, 1 value/tuple, 2 ExplicitScaling per tensor, 3 ExplicitScaling per channel
  fusedQuantize : Bool
  oracle : Oracle
deriving Repr, DecidableEq, Inhabited

structure DmaOp where
  src : AddrRange
  dst : AddrRange
  channel : Int
  mode : Int
  kernelWait : Int
  dmaWait : Int
deriving Repr, DecidableEq, Inhabited

inductive Op where
  | block (b : BlockOp)
  | dma (d : DmaOp)
deriving Repr, DecidableEq, Inhabited

/-- what the generator needs to know about the accelerator -/
structure Arch where
  isU65 : Bool
  ncores : Nat
  nhcwb16Align : Int
deriving Repr, DecidableEq, Inhabited

end VelaVerif.NpuOp
