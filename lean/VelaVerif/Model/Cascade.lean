import VelaVerif.Model.Stripes
/-!
# Model of rolling buffers between cascaded operators

* `cascade_builder.rolling_buffer_shape`
* `tensor.Tensor.addresses_for_rolling_buffer` (the row ↦ tile / row-in-tile mapping; addresses are
  expressed in rows of the storage buffer, i.e. divided by the row stride)
* the producer / consumer interleaving of `generate_high_level_commands_for_sched_op`
  (`ifm_present` / `ifm_required`, the lazily pulled generator of the producer) as a function that
  returns the issue order of the NPU stripes of a whole cascade.
-/
namespace VelaVerif.Cascade
open VelaVerif.Box VelaVerif.Stripes

/-- `numeric_util.round_up(a, b)`; `b = 0` is a ZeroDivisionError (guarded by the callers below) -/
def roundUp (a b : Nat) : Nat := ((a + b - 1) / b) * b

/-- `ifm_box_overread(consumer)`: rows by which the IFM box of a stripe (`end*stride + skirt_bottom`) extends beyond
    the last row the stripe reads (`(end-1)*stride - skirt_top + k_dil`); 0 for an operator without skirt -/
def ifmBoxOverread (skirt : Option (Int × Int)) (stride kdil : Int) : Nat :=
  match skirt with
  | none => 0
  | some (skT, skB) => (max (stride + skT + skB - kdil) 0).toNat

/-- `rolling_buffer_shape(producer_stripe, consumer_stripe_input, consumer_overread)` → (height, width, depth):
    the producer runs until the whole IFM box of the consumer stripe is present; one row of over-read is covered by
    producer + consumer stripe, the rest is added before rounding up -/
def rollingBufferShape (pH pW pD cH cW : Nat) (over : Nat := 0) : Except Err (Nat × Nat × Nat) :=
  if cH = 0 then .error .value else
  .ok (roundUp (pH + cH + (over - 1)) cH, max pW cW, roundUp pD 16)

structure Tiles where
  height0 : Nat
  width0 : Nat
  /-- storage row (slot) of the first row of tile 0 -/
  slot0 : Nat
  /-- storage row of the first row of tile 2 (the lower tile); `none` when the box does not cross -/
  slot2 : Option Nat
deriving Repr, DecidableEq, Inhabited

/-- `addresses_for_rolling_buffer(start_coord, end_coord, …)` for a 4-D storage shape with
    `storH` rows and `storW` columns (rows `y0..y1`, columns `x0..x1` of the box) -/
def addressesForRollingBuffer (y0 y1 x0 x1 storH storW : Nat) : Except Err Tiles :=
  if storH = 0 ∨ storW = 0 then .error .value else
  let crossY := min (roundUp (y0 + 1) storH) y1
  let crossX := min (roundUp (x0 + 1) storW) x1
  if x1 > crossX then .error .unsupported else
  .ok { height0 := crossY - y0, width0 := crossX - x0, slot0 := y0 % storH,
        slot2 := if y1 > crossY then some (crossY % storH) else none }

/-- storage row the hardware addresses for row `r` (absolute, `y0 ≤ r`) of a box with these tiles:
    rows below `height0` come from tile 0, the others from tile 2 -/
def hwSlot (t : Tiles) (y0 r : Nat) : Option Nat :=
  if r - y0 < t.height0 then some (t.slot0 + (r - y0))
  else match t.slot2 with
    | some s2 => some (s2 + (r - y0 - t.height0))
    | none => none

/-! ## issue order of a cascade -/

/-- everything `generate_high_level_commands_for_sched_op` needs to know about one operator -/
structure OpDesc where
  sN : Nat
  sH : Nat
  sW : Nat
  sC : Nat
  eN : Nat
  eH : Nat
  eW : Nat
  eC : Nat
  stepH : Nat
  stepW : Nat
  slices : List Nat
  strides : Option (Int × Int)
  skirt : Option (Int × Int × Int × Int)
  ifm : Coord
  fullDepth : Bool
  concat : Coord
  kdil : Int
  split : Option (Coord × Coord)
  up : Int
  binEw : Bool
deriving Repr, Inhabited

structure Cmd where
  /-- index of the operator inside the cascade (0 = first operator) -/
  op : Nat
  ofm : OBox
  ofmEnd : Coord
  ifm : Box4
  padTop : Int
  padBottom : Int
deriving Repr, Inhabited

/-- commands produced before the generator stopped, and the exception that stopped it (if any) -/
abbrev Stream := List Cmd × Option Err

def presentBox (e : Coord) : Box4 := ⟨⟨0, 0, 0, 0⟩, e⟩

/-- pull commands of the producer stream until `req ⊆ ifm_present`.
    Returns (pulled commands, remaining commands, new `ifm_present.end_coord`). -/
def pull (prodIdx : Nat) (req : Box4) : List Cmd → Coord → List Cmd → List Cmd × List Cmd × Coord
  | [], pe, acc => (acc.reverse, [], pe)
  | c :: rest, pe, acc =>
    if c.op = prodIdx then
      if req.isSubboxOf (presentBox c.ofmEnd) then ((c :: acc).reverse, rest, c.ofmEnd)
      else pull prodIdx req rest c.ofmEnd (c :: acc)
    else pull prodIdx req rest pe (c :: acc)

structure St where
  out : List Cmd
  rest : List Cmd
  present : Coord
  err : Option Err
deriving Inhabited

def ifmBoxOf (d : OpDesc) (b : OBox) : Except Err (Box4 × Int × Int) :=
  transform { box := ⟨⟨d.sN, b.y0, b.x0, b.c0⟩, ⟨d.eN, b.y1, b.x1, b.c1⟩⟩, strides := d.strides, skirt := d.skirt,
              ifm := d.ifm, fullDepth := d.fullDepth, concat := d.concat, kdil := d.kdil, split := d.split,
              up := d.up, binEw := d.binEw }

/-- one OFM box of the consumer `idx` (its producer, if any, is `idx - 1` with stream `prodErr`) -/
def stepBox (d : OpDesc) (idx : Nat) (hasProd : Bool) (prodErr : Option Err) (st : St) (b : OBox) : St :=
  match st.err with
  | some _ => st
  | none =>
    match ifmBoxOf d b with
    | .error e => { st with err := some e }
    | .ok (ib, pt, pb) =>
      let cmd : Cmd := ⟨idx, b, ⟨d.eN, b.y1, b.x1, b.c1⟩, ib, pt, pb⟩
      if hasProd && !(ib.isSubboxOf (presentBox st.present)) then
        let (pulled, rest, pe) := pull (idx - 1) ib st.rest st.present []
        -- the producer generator raised while being pulled
        if rest.isEmpty && !(ib.isSubboxOf (presentBox pe)) && prodErr.isSome then
          { out := st.out ++ pulled, rest := rest, present := pe, err := prodErr }
        else { out := st.out ++ pulled ++ [cmd], rest := rest, present := pe, err := none }
      else { st with out := st.out ++ [cmd] }

/-- `ops` ordered from the *last* operator of the cascade to the first (the generator starts from the
    last operator and recurses into producers). -/
def genRev : List OpDesc → Stream
  | [] => ([], none)
  | d :: producers =>
    let idx := producers.length
    let prod := genRev producers
    let (boxes, berr) := ofmBoxesPrefix d.sN d.sH d.sW d.sC d.eN d.eH d.eW d.eC d.stepH d.stepW d.slices
    let st := boxes.foldl (stepBox d idx (!producers.isEmpty) prod.2) ⟨[], prod.1, ⟨0, 0, 0, 0⟩, none⟩
    (st.out, match st.err with | some e => some e | none => berr)

/-- issue order of a cascade given from first to last operator -/
def cascadeOrder (ops : List OpDesc) : Stream := genRev ops.reverse

/-- Producer frontier when a consumer stripe that requires IFM rows up to `b` is issued: the generator
    pulls producer stripes of `p` rows (the last one clipped to the tensor height `H`) until
    `ifm_present.end ≥ b`, i.e. up to the first stripe boundary at or after `b`. -/
def frontier (p H b : Int) : Int := min (((b + p - 1) / p) * p) H

end VelaVerif.Cascade
